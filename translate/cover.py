#!/venv/bin/python
"""Emit coq/gen/CoverGen.v: the decision of utils.covers_bounds in the current source, translated (translate/resolve.py) into a Gallina boolean
function of the window rasterio computed (row_off, col_off, height, width - exact rationals), the image shape (H, W) and the tolerance, plus the
facts around it: the window is the one of im2's bounds in im1's pixel grid, taken after both images were brought to one orientation / CRS; the
expansion only happens for non-zero expand_pixels; RasterPairReader construction raises ImageContentError when the decision is False.
Fail closed."""
import ast
import os
import sys
from fractions import Fraction
from pathlib import Path

VERIF = Path(__file__).resolve().parents[1]
REPO = Path(os.environ.get('HOMONIM_REPO', '/repo'))
OUT = VERIF / 'coq' / 'gen' / 'CoverGen.v'
sys.path.insert(0, str(VERIF))
from translate.resolve import Flow, own_returns, parse_source      # noqa: E402


class TranslatorError(Exception):
    pass


def U(n):
    return ast.unparse(n)


def generate():
    ut = parse_source((REPO / 'homonim' / 'utils.py').read_text())
    f = [n for n in ut.body if isinstance(n, ast.FunctionDef) and n.name == 'covers_bounds']
    if len(f) != 1:
        raise TranslatorError('covers_bounds not found')
    f = f[0]
    fl = Flow(f, module=ut, assume_defaults=('tol',))
    im1, im2, exp = fl.params[0], fl.params[1], fl.params[2]
    r = fl.return_expr()        # (several returns: one conditional expression over their path conditions)
    if r is None:
        raise TranslatorError('covers_bounds: return value')
    # the window variable: assigned under `with same_orientation_crs_ctx(im1, im2) as (a, b)` and possibly re-assigned by the expansion
    wins = {n.value.id for n in ast.walk(r) if isinstance(n, ast.Attribute) and n.attr in ('row_off', 'col_off', 'height', 'width') and isinstance(n.value, ast.Name)}
    if len(wins) != 1:
        raise TranslatorError(f'covers_bounds: window {wins}')
    W = wins.pop()
    tol = None

    def q(n):
        """scalar over Q for axis k"""
        raise NotImplementedError

    def vec(n, k):
        t = U(n)
        if t == f'{W}.row_off' or t == f'{W}.col_off':
            return 'off'
        if isinstance(n, ast.Call) and U(n.func) == 'np.array' and len(n.args) == 1:
            return vec(n.args[0], k)
        if isinstance(n, (ast.Tuple, ast.List)) and len(n.elts) == 2:
            e = n.elts[k]
            te = U(e)
            want = {(0, f'{W}.row_off'): 'off', (1, f'{W}.col_off'): 'off', (0, f'{W}.height'): 'len', (1, f'{W}.width'): 'len'}
            if (k, te) in want:
                return want[(k, te)]
            raise TranslatorError(f'covers_bounds: component {k} of {t}')
        if t == f'{im1}.shape':
            return 'inject_Z n'
        if isinstance(n, ast.Constant) and isinstance(n.value, (int, float)) and not isinstance(n.value, bool):
            fr = Fraction(str(n.value))
            return f'({fr.numerator} # {fr.denominator})' if fr.denominator != 1 else f'{fr.numerator}'
        if isinstance(n, ast.BinOp) and isinstance(n.op, (ast.Add, ast.Sub)):
            return f'({vec(n.left, k)} {"+" if isinstance(n.op, ast.Add) else "-"} {vec(n.right, k)})'
        raise TranslatorError(f'covers_bounds: unsupported expression {t[:160]}')

    def cmp_(n, k):
        if not (isinstance(n, ast.Compare) and len(n.ops) == 1):
            raise TranslatorError(f'covers_bounds: comparison {U(n)[:120]}')
        a, b = vec(n.left, k), vec(n.comparators[0], k)
        op = n.ops[0]
        if isinstance(op, ast.Lt):
            return f'(negb (Qle_bool {b} {a}))'
        if isinstance(op, ast.Gt):
            return f'(negb (Qle_bool {a} {b}))'
        if isinstance(op, ast.LtE):
            return f'(Qle_bool {a} {b})'
        if isinstance(op, ast.GtE):
            return f'(Qle_bool {b} {a})'
        raise TranslatorError(f'covers_bounds: comparison operator in {U(n)[:120]}')

    def boolx(n):
        """boolean over both axes: np.any(c) = c on rows || c on columns, np.all(c) = &&"""
        if isinstance(n, ast.Call) and U(n.func) in ('np.any', 'np.all') and len(n.args) == 1:
            j = ' || ' if U(n.func) == 'np.any' else ' && '
            return '(' + j.join(cmp_(n.args[0], k).replace('off', ('roff', 'coff')[k]).replace('len', ('h', 'w')[k]).replace('inject_Z n', ('inject_Z H', 'inject_Z W')[k]) for k in (0, 1)) + ')'
        if isinstance(n, ast.BoolOp):
            return '(' + (' || ' if isinstance(n.op, ast.Or) else ' && ').join(boolx(v) for v in n.values) + ')'
        if isinstance(n, ast.UnaryOp) and isinstance(n.op, ast.Not):
            return f'(negb {boolx(n.operand)})'
        if isinstance(n, ast.IfExp) and isinstance(n.body, ast.Constant) and isinstance(n.orelse, ast.Constant) and {n.body.value, n.orelse.value} == {True, False}:
            return boolx(n.test) if n.body.value is True else f'(negb {boolx(n.test)})'
        if isinstance(n, ast.IfExp):
            return f'(if {boolx(n.test)} then {boolx(n.body)} else {boolx(n.orelse)})'
        if isinstance(n, ast.Constant) and n.value in (True, False) and isinstance(n.value, bool):
            return 'true' if n.value else 'false'
        raise TranslatorError(f'covers_bounds: unsupported decision {U(n)[:160]}')
    # the tolerance is a local constant: resolved into the expression as a literal
    out = []
    out.append(f'Definition gen_covers (roff coff h w : Q) (H W : Z) : bool := {boolx(r)}.')
    # the window: im1.window(*im2.bounds) inside the common-orientation context
    withs = [n for n in ast.walk(f) if isinstance(n, ast.With)]
    okw = False
    if len(withs) == 1 and len(withs[0].items) == 1:
        it = withs[0].items[0]
        if U(it.context_expr) == f'same_orientation_crs_ctx({im1}, {im2})' and isinstance(it.optional_vars, ast.Tuple) and len(it.optional_vars.elts) == 2:
            a, b = (U(e) for e in it.optional_vars.elts)
            asg = [s for s in withs[0].body if isinstance(s, ast.Assign) and U(s.targets[0]) == W]
            okw = len(asg) == 1 and U(asg[0].value) == f'{a}.window(*{b}.bounds)'
    out.append(f'Definition gen_window_of_bounds_ok : bool := {"true" if okw else "false"}.   (* the window of im2.bounds in the pixel grid of im1, both seen north-up in one CRS *)')
    # expansion only for a non-zero expand_pixels
    exps = [s for s in fl.order if isinstance(s, ast.Assign) and U(s.targets[0]) == W and 'expand_window_to_grid' in U(s.value)]
    oke = len(exps) <= 1
    if exps:
        gs = fl.guards(exps[0])
        oke = len(gs) == 1 and gs[0][1] and gs[0][0] in (f'not np.all(np.array({exp}) == 0)', f'np.any(np.array({exp}) != 0)') and \
            U(exps[0].value) == f'expand_window_to_grid({W}, {exp})'
    others = [s for s in fl.order if isinstance(s, ast.Assign) and U(s.targets[0]) == W and s not in exps and not any(s is m for w_ in withs for m in ast.walk(w_))]
    out.append(f'Definition gen_expand_only_when_asked : bool := {"true" if oke and not others else "false"}.')
    # the default is no expansion, and the reader passes none
    pos = f.args.posonlyargs + f.args.args
    dflt = {a_.arg: U(d_) for a_, d_ in zip(pos[len(pos) - len(f.args.defaults):], f.args.defaults)}
    okd = dflt.get(exp) == '(0, 0)'
    rp = parse_source((REPO / 'homonim' / 'raster_pair.py').read_text())
    init = [g for c in rp.body if isinstance(c, ast.ClassDef) and c.name == 'RasterPairReader' for g in c.body if isinstance(g, ast.FunctionDef) and g.name == '__init__'][0]
    fli = Flow(init)
    calls = [c for c in ast.walk(init) if isinstance(c, ast.Call) and U(c.func) in ('utils.covers_bounds', 'covers_bounds')]
    okc = False
    if len(calls) == 1 and len(calls[0].args) == 2 and not calls[0].keywords:
        a0, a1 = (fli.text(x, fli.stmt_of(calls[0])) for x in calls[0].args)
        gs = None
        raises = [n for n in ast.walk(init) if isinstance(n, ast.Raise) and 'ImageContentError' in U(n)]
        for rz in raises:
            g = fli.guards(rz)
            if g and 'covers_bounds' in g[-1][0]:
                gs = g[-1]
        okc = gs is not None and ((gs[0].startswith('not ') and gs[1]) or (not gs[0].startswith('not ') and not gs[1])) and 'ref' in a0 and 'src' in a1
    out.append(f'Definition gen_reader_rejects_ok : bool := {"true" if okc and okd else "false"}.    (* RasterPairReader raises ImageContentError unless covers_bounds(reference, source) *)')
    return out


HEADER = '''(* GENERATED by translate/cover.py from /repo/homonim - do not edit.
   utils.covers_bounds of the current source: the decision on the window (roff, coff, h, w) of the source bounds in the reference pixel grid,
   reference shape (H, W). *)
From Coq Require Import ZArith QArith Bool.
From HVgen Require NormalFormCases.     (* the source was read through the normal form that file ties to its proved model *)
Open Scope Q_scope.

Definition translation_failed : bool := %s.
'''


def main():
    try:
        text = HEADER % 'false' + '\n'.join(generate()) + '\n'
        ok = True
    except (TranslatorError, SyntaxError, OSError, IndexError, KeyError, AttributeError, TypeError, ValueError, NotImplementedError) as ex:
        msg = f'{type(ex).__name__}: {ex}'.replace('(*', '( *').replace('*)', '* )')
        text = HEADER % 'true' + f'(* translator error: {msg} *)\n'
        ok = False
    out = Path(os.environ.get('COVER_OUT', OUT))
    if not out.exists() or out.read_text() != text:
        (print('CHANGED', out.name) if os.environ.get('REGEN_DRY') else out.write_text(text))
    return ok


if __name__ == '__main__':
    sys.exit(0 if main() else 1)
