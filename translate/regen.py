#!/venv/bin/python
"""Regenerate coq/gen/*.v from /repo's current working tree (translators are added as they are built)."""
import sys
from pathlib import Path
sys.path.insert(0, str(Path(__file__).resolve().parents[1]))
ok = True
try:
    from translate import skeleton
    ok &= skeleton.main()
except ImportError:
    pass
try:
    from translate import cli_surface
    ok &= cli_surface.main()
except ImportError:
    pass
sys.exit(0 if ok else 1)
