#!/venv/bin/python
"""Regenerate coq/gen/*.v from /repo's current working tree.  Prints one line `name ok|FAILED` per translator; a translator that cannot
translate the current source writes a stub with `translation_failed := true`, so exactly the theorems that depend on it stop compiling."""
import sys
from pathlib import Path
sys.path.insert(0, str(Path(__file__).resolve().parents[1]))
status = {}
for name in ('normal_form', 'skeleton', 'cli_surface', 'formulas', 'blocks', 'pipeline', 'cover', 'bands'):
    try:
        mod = __import__('translate.' + name, fromlist=['main'])
        status[name] = bool(mod.main())
    except Exception as ex:      # noqa: BLE001  (a crash of a translator is a failed translation, not a crash of the check)
        print(f'{name} crashed: {type(ex).__name__}: {ex}', file=sys.stderr)
        status[name] = False
for k, v in status.items():
    print(k, 'ok' if v else 'FAILED')
sys.exit(0 if all(status.values()) else 1)
