#!/venv/bin/python
"""Emit coq/gen/Formulas.v: the arithmetic of homonim's closed-form statistics, translated expression by expression from the
Python source of /repo's current working tree (ast), as Gallina terms over Q.

What is translated (each becomes `Definition gen_<name> (<free variables> : Q) : Q := <term>.`):
  kernel_model._fit_gain_offset     m_num_array, m_den_array, the np.divide numerators / denominators (gain, offset, re-estimated gain)
  kernel_model._r2_array            ss_tot_array, both ss_res_array branches, the `ss_res_array *= mask_sum` scaling, R2 = 1 - res / tot
  kernel_model._fit_gain            the gain division
  kernel_model._fit_gain_blk_offset normalisation of the source, un-normalisation of gain / offset
  kernel_model.KernelModel.apply    gain * src + offset
  compare.get_band_stats            means, Pearson numerator, the two arguments of the square roots, RMSE argument, rRMSE denominator
  stats._get_image_stats            mean, variance (argument of the square root), in-paint percentage
Boolean structure that matters (which mask guards a division, the in-paint keep rule) is emitted as a list of atoms.
Anything the translator does not recognise is an error (fail closed): the tie is then reported as broken."""
import ast
import os
import sys
from pathlib import Path

VERIF = Path(__file__).resolve().parents[1]
REPO = Path(os.environ.get('HOMONIM_REPO', '/repo'))
OUT = VERIF / 'coq' / 'gen' / 'Formulas.v'


class TranslatorError(Exception):
    pass


# source expression text -> Coq variable
KERNEL_NAMES = {
    'mask_sum': 'N', 'src_sum': 'X', 'ref_sum': 'Y', 'src_ref_sum': 'XY', 'src2_sum': 'XX', 'ref2_sum': 'YY',
    'param_array[0]': 'm', 'param_array[1]': 'c', 'param_ra.array[0]': 'm', 'param_ra.array[1]': 'c', 'param_ra.array[2]': 'r2',
    'm_num_array': 'num', 'm_den_array': 'den', 'ss_res_array': 'res', 'ss_tot_array': 'tot', 'dest_array': 'd',
    'src_ra.array': 'x', 'norm_model[0]': 'na', 'norm_model[1]': 'nb', 'self._r2_inpaint_thresh': 't',
}
COMPARE_NAMES = {'src_sum': 'X', 'ref_sum': 'Y', 'src2_sum': 'XX', 'ref2_sum': 'YY', 'src_ref_sum': 'XY', 'res2_sum': 'RR', 'mask_sum': 'N',
                 'src_mean': 'mx', 'ref_mean': 'my', 'rmse': 'rmse'}
STATS_NAMES = {"band_accum['sum']": 'S', "band_accum['sum2']": 'S2', "band_accum['n']": 'n', "band_accum['inpaint_sum']": 'I'}


class Expr:
    """Python arithmetic expression -> Gallina Q term; collects the free variables it uses."""

    def __init__(self, names):
        self.names = names
        self.used = []

    def var(self, v):
        if v not in self.used:
            self.used.append(v)
        return v

    def tr(self, n):
        txt = ast.unparse(n)
        if txt in self.names:
            return self.var(self.names[txt])
        if isinstance(n, ast.Constant) and isinstance(n.value, (int, float)) and float(n.value).is_integer():
            return str(int(n.value))
        if isinstance(n, ast.BinOp):
            if isinstance(n.op, ast.Pow):
                if isinstance(n.right, ast.Constant) and n.right.value == 2:
                    a = self.tr(n.left)
                    return f'({a} * {a})'
                raise TranslatorError(f'unsupported power in {txt}')
            op = {ast.Add: '+', ast.Sub: '-', ast.Mult: '*', ast.Div: '/'}.get(type(n.op))
            if op is None:
                raise TranslatorError(f'unsupported operator in {txt}')
            return f'({self.tr(n.left)} {op} {self.tr(n.right)})'
        if isinstance(n, ast.UnaryOp) and isinstance(n.op, ast.USub):
            return f'(- {self.tr(n.operand)})'
        if isinstance(n, ast.Call) and ast.unparse(n.func) == 'np.prod' and ast.unparse(n.args[0]) in ('param_array[:2]',):
            return f'({self.var("m")} * {self.var("c")})'
        raise TranslatorError(f'unsupported expression: {txt}')


def definition(name, names, node, sig):
    """Every definition of a group takes the group's full, fixed argument list (so that a rewrite of an expression that is
    algebraically the same never changes a signature); a variable outside the group is an error."""
    e = Expr(names)
    term = e.tr(node)
    extra = [v for v in e.used if v not in sig]
    if extra:
        raise TranslatorError(f'gen_{name}: expression uses {extra}, not among the expected quantities {sig}: {ast.unparse(node)}')
    return f'Definition gen_{name} ({" ".join(sig)} : Q) : Q := {term}.', list(sig)


def find_func(tree, cls, name, inner=None):
    for node in tree.body:
        if isinstance(node, ast.ClassDef) and node.name == cls:
            for f in node.body:
                if isinstance(f, ast.FunctionDef) and f.name == name:
                    if inner is None:
                        return f
                    for g in ast.walk(f):
                        if isinstance(g, ast.FunctionDef) and g.name == inner:
                            return g
    raise TranslatorError(f'{cls}.{name}{"." + inner if inner else ""} not found')


def assigns(func, target):
    """value nodes of `target = value` statements, in source order"""
    out = []
    for n in ast.walk(func):
        if isinstance(n, ast.Assign) and len(n.targets) == 1 and ast.unparse(n.targets[0]) == target:
            out.append(n.value)
    return sorted(out, key=lambda v: v.lineno)


def divides(func):
    """np.divide(a, b, out=T, where=W) calls: (target text, numerator, denominator, where text), in source order"""
    out = []
    for c in ast.walk(func):
        if isinstance(c, ast.Call) and ast.unparse(c.func) == 'np.divide':
            kw = {k.arg: k.value for k in c.keywords}
            if len(c.args) != 2 or 'out' not in kw or 'where' not in kw:
                raise TranslatorError(f'np.divide with an unexpected signature: {ast.unparse(c)}')
            out.append((ast.unparse(kw['out']), c.args[0], c.args[1], ast.unparse(kw['where']), c.lineno))
    return sorted(out, key=lambda t: t[-1])


SUMS = ['N', 'X', 'Y', 'XY', 'XX', 'YY', 'm', 'c']        # kernel sums + the fitted pair
WRAP = ['num', 'den', 'res', 'tot']                        # np.divide wrappers around previously computed arrays
GBO = ['x', 'na', 'nb', 'm']
APPLY = ['m', 'c', 'x']


def generate():
    out, sigs = [], {}

    def emit(name, names, node, sig=SUMS):
        text, vs = definition(name, names, node, sig)
        out.append(text)
        sigs[name] = vs

    km = ast.parse((REPO / 'homonim' / 'kernel_model.py').read_text())
    # ---------------------------------------------------------------- _fit_gain_offset
    f = find_func(km, 'KernelModel', '_fit_gain_offset')
    for tgt, nm in (('m_num_array', 'go_num'), ('m_den_array', 'go_den')):
        v = assigns(f, tgt)
        if len(v) != 1:
            raise TranslatorError(f'{tgt}: expected exactly one assignment in _fit_gain_offset')
        emit(nm, KERNEL_NAMES, v[0])
    dv = divides(f)
    if [d[0] for d in dv] != ['param_ra.array[0]', 'param_ra.array[1]', 'param_ra.array[0]']:
        raise TranslatorError(f'_fit_gain_offset: unexpected np.divide targets {[d[0] for d in dv]}')
    for (tgt, a, b, where, _), nm in zip(dv, ('go_gain', 'go_offset', 'go_regain')):
        emit(nm + '_n', KERNEL_NAMES, a, WRAP if nm == 'go_gain' else SUMS)
        emit(nm + '_d', KERNEL_NAMES, b, WRAP if nm == 'go_gain' else SUMS)
        out.append(f'Definition gen_{nm}_where : string := "{where}".')
    # the keep rule: r2_mask = (R2 > thresh) & (gain > 0) & mask
    rm = assigns(f, 'r2_mask')
    if len(rm) != 2:
        raise TranslatorError('_fit_gain_offset: expected two r2_mask assignments')

    def atoms(n):
        if isinstance(n, ast.BinOp) and isinstance(n.op, ast.BitAnd):
            return atoms(n.left) + atoms(n.right)
        return [ast.unparse(n)]
    keep = sorted(atoms(rm[0]))
    out.append('Definition gen_keep_atoms : list string := [%s].' % '; '.join(f'"{a}"' for a in keep))
    out.append(f'Definition gen_fill_mask : string := "{ast.unparse(rm[1])}".')
    # ---------------------------------------------------------------- _r2_array
    f = find_func(km, 'KernelModel', '_r2_array')
    v = assigns(f, 'ss_tot_array')
    if len(v) != 1:
        raise TranslatorError('_r2_array: ss_tot_array')
    emit('ss_tot', KERNEL_NAMES, v[0])
    v = assigns(f, 'ss_res_array')
    if len(v) != 2:
        raise TranslatorError('_r2_array: expected two ss_res_array assignments (gain-offset, gain)')
    emit('ss_res_go', KERNEL_NAMES, v[0])
    emit('ss_res_g', KERNEL_NAMES, v[1])
    aug = [n for n in ast.walk(f) if isinstance(n, ast.AugAssign) and ast.unparse(n.target) == 'ss_res_array']
    if len(aug) != 1 or not isinstance(aug[0].op, ast.Mult):
        raise TranslatorError('_r2_array: expected `ss_res_array *= <factor>` exactly once')
    emit('ss_res_scale', KERNEL_NAMES, aug[0].value)
    dv = divides(f)
    if len(dv) != 1 or dv[0][0] != 'dest_array':
        raise TranslatorError('_r2_array: expected one np.divide into dest_array')
    emit('r2_n', KERNEL_NAMES, dv[0][1], WRAP)
    emit('r2_d', KERNEL_NAMES, dv[0][2], WRAP)
    sub = [c for c in ast.walk(f) if isinstance(c, ast.Call) and ast.unparse(c.func) == 'np.subtract']
    if len(sub) != 1 or ast.unparse(sub[0].args[0]) != '1' or ast.unparse(sub[0].args[1]) != 'dest_array':
        raise TranslatorError('_r2_array: expected np.subtract(1, dest_array, ...)')
    out.append('Definition gen_r2_final (d : Q) : Q := (1 - d).')
    # ---------------------------------------------------------------- _fit_gain
    f = find_func(km, 'KernelModel', '_fit_gain')
    dv = divides(f)
    if len(dv) != 1 or dv[0][0] != 'param_ra.array[0]':
        raise TranslatorError('_fit_gain: expected one np.divide into the gain band')
    emit('g_gain_n', KERNEL_NAMES, dv[0][1])
    emit('g_gain_d', KERNEL_NAMES, dv[0][2])
    # ---------------------------------------------------------------- _fit_gain_blk_offset
    f = find_func(km, 'KernelModel', '_fit_gain_blk_offset')
    v = assigns(f, 'src_ra.array')
    if len(v) != 1:
        raise TranslatorError('_fit_gain_blk_offset: normalisation of src_ra.array')
    emit('gbo_norm', KERNEL_NAMES, v[0], GBO)
    v = assigns(f, 'param_ra.array[1]')
    if len(v) != 1:
        raise TranslatorError('_fit_gain_blk_offset: offset')
    emit('gbo_offset', KERNEL_NAMES, v[0], GBO)
    aug = [n for n in ast.walk(f) if isinstance(n, ast.AugAssign) and ast.unparse(n.target) == 'param_ra.array[0]']
    if len(aug) != 1 or not isinstance(aug[0].op, ast.Mult):
        raise TranslatorError('_fit_gain_blk_offset: gain un-normalisation')
    emit('gbo_gain_factor', KERNEL_NAMES, aug[0].value, GBO)
    # the offset must be computed BEFORE the gain is rescaled (it uses the un-normalised gain)
    off_line = [n.lineno for n in ast.walk(f) if isinstance(n, ast.Assign) and ast.unparse(n.targets[0]) == 'param_ra.array[1]'][0]
    out.append(f'Definition gen_gbo_offset_before_gain : bool := {"true" if off_line < aug[0].lineno else "false"}.')
    # ---------------------------------------------------------------- apply
    f = find_func(km, 'KernelModel', 'apply')
    v = assigns(f, 'corr_array')
    if len(v) != 1:
        raise TranslatorError('KernelModel.apply: corr_array')
    emit('apply', KERNEL_NAMES, v[0], APPLY)
    # ---------------------------------------------------------------- compare.get_band_stats
    cm = ast.parse((REPO / 'homonim' / 'compare.py').read_text())
    f = find_func(cm, 'RasterCompare', '_get_image_stats', 'get_band_stats')
    corder = ['N', 'X', 'Y', 'XY', 'XX', 'YY', 'RR', 'mx', 'my', 'rmse']
    for tgt, nm in (('src_mean', 'cmp_src_mean'), ('ref_mean', 'cmp_ref_mean'), ('pcc_num', 'cmp_pcc_num')):
        v = assigns(f, tgt)
        if len(v) != 1:
            raise TranslatorError(f'get_band_stats: {tgt}')
        emit(nm, COMPARE_NAMES, v[0], corder)
    v = assigns(f, 'pcc_den')
    if len(v) != 1 or not (isinstance(v[0], ast.BinOp) and isinstance(v[0].op, ast.Mult)
                           and all(isinstance(s, ast.Call) and ast.unparse(s.func) == 'np.sqrt' for s in (v[0].left, v[0].right))):
        raise TranslatorError('get_band_stats: pcc_den is not sqrt(a) * sqrt(b)')
    emit('cmp_pcc_den_a', COMPARE_NAMES, v[0].left.args[0], corder)
    emit('cmp_pcc_den_b', COMPARE_NAMES, v[0].right.args[0], corder)
    v = assigns(f, 'pcc')
    if len(v) != 1 or ast.unparse(v[0]) != 'pcc_num / pcc_den':
        raise TranslatorError('get_band_stats: pcc')
    v = assigns(f, 'rmse')
    if len(v) != 1 or not (isinstance(v[0], ast.Call) and ast.unparse(v[0].func) == 'np.sqrt'):
        raise TranslatorError('get_band_stats: rmse is not a square root')
    emit('cmp_rmse_sq', COMPARE_NAMES, v[0].args[0], corder)
    v = assigns(f, 'rrmse')
    if len(v) != 1:
        raise TranslatorError('get_band_stats: rrmse')
    emit('cmp_rrmse', COMPARE_NAMES, v[0], corder)
    ret = [n for n in ast.walk(f) if isinstance(n, ast.Return)]
    rtxt = ast.unparse(ret[0].value) if len(ret) == 1 else ''
    want = ['r2=pcc ** 2', 'rmse=rmse', 'rrmse=rrmse', 'n=int(mask_sum)']
    out.append(f'Definition gen_cmp_returns_ok : bool := {"true" if all(w in rtxt for w in want) else "false"}.')
    # ---------------------------------------------------------------- compare.get_block_sums: the per-pixel term of every sum, the joint mask
    f = find_func(cm, 'RasterCompare', 'process', 'get_block_sums')
    sd = [c for c in ast.walk(f) if isinstance(c, ast.Call) and ast.unparse(c.func) == 'dict' and any(k.arg == 'res2_sum' for k in c.keywords)]
    if len(sd) != 1:
        raise TranslatorError('get_block_sums: sums dict')
    pix = {'src_array': 'x', 'ref_array': 'y'}
    want_keys = ['src_sum', 'ref_sum', 'src2_sum', 'ref2_sum', 'src_ref_sum', 'res2_sum', 'mask_sum']
    kwd = {k.arg: k.value for k in sd[0].keywords}
    if sorted(kwd) != sorted(want_keys):
        raise TranslatorError(f'get_block_sums: keys {sorted(kwd)}')
    for key in want_keys[:-1]:
        v = kwd[key]
        if not (isinstance(v, ast.Call) and isinstance(v.func, ast.Attribute) and v.func.attr == 'sum' and not v.args):
            raise TranslatorError(f'get_block_sums: {key} is not <expr>.sum()')
        emit('cmp_term_' + key, pix, v.func.value, ['x', 'y'])
    okm = ast.unparse(kwd['mask_sum']) == 'mask.sum()' and ast.unparse(one := [n.value for n in ast.walk(f) if isinstance(n, ast.Assign) and ast.unparse(n.targets[0]) == 'mask'][0]) in ('ref_ra.mask & src_ra.mask', 'src_ra.mask & ref_ra.mask')
    zero = sorted(ast.unparse(n) for n in ast.walk(f) if isinstance(n, ast.Assign) and ast.unparse(n.targets[0]) in ('src_array[~mask]', 'ref_array[~mask]'))
    okm = okm and zero == ['ref_array[~mask] = 0', 'src_array[~mask] = 0']
    out.append(f'Definition gen_cmp_joint_mask_ok : bool := {"true" if okm else "false"}.   (* mask = both valid; both arrays zeroed outside it; N = mask.sum() *)')
    # accumulation over blocks: per band, key by key, image_sums[band][k] += block[k]
    acc = [ast.unparse(n.value) for n in ast.walk(find_func(cm, 'RasterCompare', 'process')) if isinstance(n, ast.Assign) and ast.unparse(n.targets[0]) == 'image_sums[block_pair.band_i]']
    oka = acc == ['{k: image_sums[block_pair.band_i].get(k, 0) + v for k, v in block_sums_dict.items()}']
    out.append(f'Definition gen_cmp_accumulate_ok : bool := {"true" if oka else "false"}.')
    # ---------------------------------------------------------------- stats._get_image_stats
    sm = ast.parse((REPO / 'homonim' / 'stats.py').read_text())
    f = find_func(sm, 'ParamStats', '_get_image_stats')
    call = [c for c in ast.walk(f) if isinstance(c, ast.Call) and ast.unparse(c.func) == 'dict' and any(k.arg == 'mean' for k in c.keywords)]
    if len(call) != 1:
        raise TranslatorError('_get_image_stats: band_stats dict')
    kw = {k.arg: k.value for k in call[0].keywords}
    sorder = ['S', 'S2', 'n', 'I']
    emit('st_mean', STATS_NAMES, kw['mean'], sorder)
    if not (isinstance(kw['std'], ast.Call) and ast.unparse(kw['std'].func) == 'np.sqrt'):
        raise TranslatorError('_get_image_stats: std is not a square root')
    var = kw['std'].args[0]
    clamped = isinstance(var, ast.Call) and ast.unparse(var.func) == 'np.maximum' and len(var.args) == 2 and ast.unparse(var.args[1]) == '0'
    emit('st_var', STATS_NAMES, var.args[0] if clamped else var, sorder)
    # np.maximum(variance, 0) under the square root only absorbs negative rounding: the exact variance is never negative (C12_std_sq_is_population_variance)
    out.append(f'Definition gen_st_var_clamped_at_zero : bool := {"true" if clamped else "false"}.')
    out.append('Definition gen_st_minmax_ok : bool := %s.' % ('true' if ast.unparse(kw['min']) == "band_accum['min']" and ast.unparse(kw['max']) == "band_accum['max']" else 'false'))
    v = [n.value for n in ast.walk(f) if isinstance(n, ast.Assign) and ast.unparse(n.targets[0]) == "band_stats['inpaint_p']"]
    if len(v) != 1:
        raise TranslatorError('_get_image_stats: inpaint_p')
    emit('st_inpaint_p', STATS_NAMES, v[0], sorder)
    # ---------------------------------------------------------------- stats.get_block_sums: per-pixel terms, the in-paint count, which bands, accumulation
    f = find_func(sm, 'ParamStats', 'stats', 'get_block_sums')
    bd = one = [n.value for n in ast.walk(f) if isinstance(n, ast.Assign) and ast.unparse(n.targets[0]) == '_block_dict']
    if len(bd) != 1 or not isinstance(bd[0], ast.Call):
        raise TranslatorError('stats.get_block_sums: _block_dict')
    kwd = {k.arg: k.value for k in bd[0].keywords}
    if sorted(kwd) != ['max', 'min', 'n', 'sum', 'sum2']:
        raise TranslatorError(f'stats.get_block_sums: keys {sorted(kwd)}')
    for key in ('sum', 'sum2'):
        v = kwd[key]
        if not (isinstance(v, ast.Call) and isinstance(v.func, ast.Attribute) and v.func.attr == 'sum' and not v.args):
            raise TranslatorError(f'stats.get_block_sums: {key}')
        emit('st_term_' + key, {'array': 'x'}, v.func.value, ['x'])
    okb = [ast.unparse(kwd[k2]) for k2 in ('min', 'max', 'n')] == ['array.min()', 'array.max()', 'array.count()']
    rd = [ast.unparse(n.value) for n in ast.walk(f) if isinstance(n, (ast.Assign, ast.AnnAssign)) and ast.unparse(n.target if isinstance(n, ast.AnnAssign) else n.targets[0]) == 'array']
    okb = okb and len(rd) == 1 and 'masked=True' in rd[0] and "out_dtype='float64'" in rd[0] and 'indexes=band_i + 1' in rd[0] and 'window=block_win' in rd[0]
    out.append(f'Definition gen_st_block_ok : bool := {"true" if okb else "false"}.    (* masked float64 read of one band window; min, max, count of the valid values *)')
    upd = [c for c in ast.walk(f) if isinstance(c, ast.Call) and ast.unparse(c.func) == '_block_dict.update']
    oki = len(upd) == 1 and ast.unparse(upd[0]) == '_block_dict.update(inpaint_sum=(array < self._r2_inpaint_thresh).sum())'
    out.append(f'Definition gen_st_inpaint_is_strictly_below : bool := {"true" if oki else "false"}.')
    cond = [n for n in ast.walk(f) if isinstance(n, ast.If) and any(c is upd[0] for c in ast.walk(n))] if upd else []
    ctxt = ast.unparse(cond[0].test) if len(cond) == 1 else ''
    okc = ctxt == 'self._model == Model.gain_offset and self._r2_inpaint_thresh is not None and (band_i >= self._param_im.count * 2 / 3)'
    out.append(f'Definition gen_st_inpaint_bands_ok : bool := {"true" if okc else "false"}.   (* gain-offset, threshold recorded, 0-based band >= count * 2 / 3 *)')
    fs = find_func(sm, 'ParamStats', 'stats')
    up = [ast.unparse(c) for c in ast.walk(fs) if isinstance(c, ast.Call) and ast.unparse(c.func) == 'image_accum[band_i].update']
    want = ["min=np.nanmin((image_accum[band_i].get('min', np.inf), block_dict['min']))", "max=np.nanmax((image_accum[band_i].get('max', -np.inf), block_dict['max']))",
            "sum=np.nansum((image_accum[band_i].get('sum', 0), block_dict['sum']))", "sum2=np.nansum((image_accum[band_i].get('sum2', 0), block_dict['sum2']))",
            "n=np.nansum((image_accum[band_i].get('n', 0), block_dict['n']))", "inpaint_sum=np.nansum((image_accum[band_i].get('inpaint_sum', 0), block_dict['inpaint_sum']))"]
    oku = len(up) == 2 and all(w in ''.join(up) for w in want)
    out.append(f'Definition gen_st_accumulate_ok : bool := {"true" if oku else "false"}.    (* min / max / sums folded block by block from inf / -inf / 0 *)')
    return out


HEADER = '''(* GENERATED by translate/formulas.py from /repo/homonim - do not edit.
   The closed-form arithmetic of the current source, expression by expression, as Gallina terms over Q.
   Variables: N X Y XY XX YY = kernel sums of mask, source, reference, source*reference, source^2, reference^2;
   m c = gain, offset; na nb = block normalisation; RR = sum of squared residuals; S S2 n I = accumulated sum, sum of squares, count, in-paint count. *)
From Coq Require Import QArith List String Bool.
Import ListNotations.
Open Scope Q_scope.
Open Scope string_scope.

Definition translation_failed : bool := %s.
'''


def main():
    try:
        body = generate()
        text = HEADER % 'false' + '\n'.join(body) + '\n'
        ok = True
    except (TranslatorError, SyntaxError, OSError, IndexError, KeyError) as ex:
        msg = str(ex).replace('(*', '( *').replace('*)', '* )')
        text = HEADER % 'true' + f'(* translator error: {msg} *)\n'
        ok = False
    out = Path(os.environ.get('FORMULAS_OUT', OUT))
    if not out.exists() or out.read_text() != text:
        (print('CHANGED', out.name) if os.environ.get('REGEN_DRY') else out.write_text(text))
    return ok


if __name__ == '__main__':
    sys.exit(0 if main() else 1)
