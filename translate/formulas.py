#!/venv/bin/python
"""Emit coq/gen/Formulas.v: the arithmetic of homonim's closed-form statistics, translated from the Python source of /repo's current
working tree (ast) into Gallina terms over Q.

The translator works on the *meaning* of expressions, not on the spelling of variables (translate/resolve.py: a def-use pass that
replaces every local name by what it stands for): it starts from what a function stores / returns, resolves that back to the function's
inputs, and recognises the inputs by what they are -
  cv.boxFilter(<source pixels>, ...) = X, cv.sqrBoxFilter(<reference pixels>, ...) = YY, <ref>.mask & <src>.mask = the joint mask,
  band 0 / 1 / 2 of the returned parameter array = gain / offset / R2, ...
so renaming a local, extracting or inlining a temporary, reordering independent statements or adding logging does not change the output,
while a changed operand, sign, factor, guard or statement order does.

What is translated (each becomes `Definition gen_<name> (<fixed argument list> : Q) : Q := <term>.`, boolean structure becomes a boolean
Gallina function of named atoms):
  kernel_model._fit_gain_offset     gain = num / den, offset, the keep rule, in-painting, re-estimated gain, their guards and order
  kernel_model._r2_array            TSS, both RSS branches incl. the scaling by N, R2 = 1 - RSS / TSS, the roles its callers pass
  kernel_model._fit_gain            the gain division
  kernel_model._fit_gain_blk_offset normalisation of the source, final gain / offset after un-normalisation (order matters)
  kernel_model.KernelModel.apply    gain * src + offset
  every cv.boxFilter / sqrBoxFilter call: un-normalised, constant border, ksize = kernel_shape reversed
  compare.get_band_stats / get_block_sums, stats._get_image_stats / get_block_sums
Anything the translator does not recognise is an error (fail closed): the tie is then reported as broken."""
import ast
import copy
import os
import sys
from pathlib import Path

VERIF = Path(__file__).resolve().parents[1]
REPO = Path(os.environ.get('HOMONIM_REPO', '/repo'))
OUT = VERIF / 'coq' / 'gen' / 'Formulas.v'
sys.path.insert(0, str(VERIF))
from translate.resolve import Flow, own_returns, helper_inliner as generic_inliner, parse_source      # noqa: E402


class TranslatorError(Exception):
    pass


def U(n):
    return ast.unparse(n)


def name(s):
    return ast.Name(id=s, ctx=ast.Load())


# ---------------------------------------------------------------------------------------------- symbolisation
def symbolise(node, matchers):
    """Replace (top-down) every sub-expression recognised by one of `matchers` (node -> replacement ast or None) by its replacement."""
    class T(ast.NodeTransformer):
        def visit(self, n):
            for m in matchers:
                r = m(n)
                if r is not None:
                    return r
            return self.generic_visit(n)
    return T().visit(copy.deepcopy(node))


class QExpr:
    """symbolised Python arithmetic -> Gallina Q term over the allowed variables"""

    def __init__(self, allowed):
        self.allowed = allowed

    def tr(self, n):
        if isinstance(n, ast.Name):
            if n.id in self.allowed:
                return n.id
            raise TranslatorError(f'expression depends on `{n.id}`, which is none of the expected quantities {self.allowed}')
        if isinstance(n, ast.Constant) and isinstance(n.value, (int, float)) and not isinstance(n.value, bool) and float(n.value).is_integer():
            return str(int(n.value))
        if isinstance(n, ast.BinOp):
            if isinstance(n.op, ast.Pow):
                if isinstance(n.right, ast.Constant) and n.right.value == 2:
                    a = self.tr(n.left)
                    return f'({a} * {a})'
                raise TranslatorError(f'unsupported power in {U(n)}')
            op = {ast.Add: '+', ast.Sub: '-', ast.Mult: '*', ast.Div: '/'}.get(type(n.op))
            if op is None:
                raise TranslatorError(f'unsupported operator in {U(n)}')
            return f'({self.tr(n.left)} {op} {self.tr(n.right)})'
        if isinstance(n, ast.UnaryOp) and isinstance(n.op, ast.USub):
            return f'(- {self.tr(n.operand)})'
        if isinstance(n, ast.UnaryOp) and isinstance(n.op, ast.UAdd):
            return self.tr(n.operand)
        if isinstance(n, ast.Call) and U(n.func) in ('np.add', 'np.subtract', 'np.multiply', 'np.divide', 'np.true_divide') and len(n.args) == 2 and not n.keywords:
            op = {'add': '+', 'subtract': '-', 'multiply': '*', 'divide': '/', 'true_divide': '/'}[U(n.func)[3:]]
            return f'({self.tr(n.args[0])} {op} {self.tr(n.args[1])})'
        if isinstance(n, ast.Call) and U(n.func) in ('np.square',) and len(n.args) == 1 and not n.keywords:
            a = self.tr(n.args[0])
            return f'({a} * {a})'
        raise TranslatorError(f'unsupported expression: {U(n)[:200]}')


class BExpr:
    """symbolised NumPy / Python boolean expression -> Gallina bool term over named atoms"""

    def __init__(self, atoms):
        self.atoms = atoms          # list of (predicate node -> bool, atom name)

    def tr(self, n):
        for pred, nm in self.atoms:
            if pred(n):
                return nm
        if isinstance(n, ast.BinOp) and isinstance(n.op, (ast.BitAnd, ast.BitOr)):
            return f'({self.tr(n.left)} {"&&" if isinstance(n.op, ast.BitAnd) else "||"} {self.tr(n.right)})'
        if isinstance(n, ast.BoolOp):
            return '(' + (' && ' if isinstance(n.op, ast.And) else ' || ').join(self.tr(v) for v in n.values) + ')'
        if isinstance(n, ast.UnaryOp) and isinstance(n.op, (ast.Invert, ast.Not)):
            return f'(negb {self.tr(n.operand)})'
        raise TranslatorError(f'unsupported condition: {U(n)[:200]}')


def find_func(tree, cls, fname, inner=None):
    for node in tree.body:
        if isinstance(node, ast.ClassDef) and node.name == cls:
            for f in node.body:
                if isinstance(f, ast.FunctionDef) and f.name == fname:
                    if inner is None:
                        return f
                    for g in ast.walk(f):
                        if isinstance(g, ast.FunctionDef) and g.name == inner:
                            return g
    raise TranslatorError(f'{cls}.{fname}{"." + inner if inner else ""} not found')


def the_return(f):
    r = [n for n in ast.walk(f) if isinstance(n, ast.Return) and n.value is not None]
    if len(r) != 1:
        raise TranslatorError(f'{f.name}: expected exactly one return statement, found {len(r)}')
    return r[0]


def is_const(n, v):
    return isinstance(n, ast.Constant) and not isinstance(n.value, bool) and n.value == v


def call_kw(c):
    return {k.arg: k.value for k in c.keywords if k.arg is not None}


def dict_items(n):
    """{key: value node} of `dict(k=v, ...)` or `{'k': v, ...}`; None for anything else"""
    if isinstance(n, ast.Call) and U(n.func) == 'dict' and not n.args and all(k.arg is not None for k in n.keywords):
        return call_kw(n)
    if isinstance(n, ast.Dict) and all(isinstance(k, ast.Constant) and isinstance(k.value, str) for k in n.keys):
        return {k.value: v for k, v in zip(n.keys, n.values)}
    return None


# ---------------------------------------------------------------------------------------------- kernel sums
SUMS = ['N', 'X', 'Y', 'XY', 'XX', 'YY', 'm', 'c']        # kernel sums + the fitted pair
GBO = ['x', 'na', 'nb', 'm']
APPLY = ['m', 'c', 'x']
ATOMS = '(r2gt mpos joint : bool)'


class BoxCensus:
    """every box filter call met while symbolising: its un-normalised / constant-border / reversed-kernel-shape arguments are checked"""

    def __init__(self):
        self.n = 0
        self.bad = []

    def check(self, call):
        self.n += 1
        kw = {}
        for k in call.keywords:
            if k.arg is None:          # **dict(...)
                if isinstance(k.value, ast.Call) and U(k.value.func) == 'dict':
                    kw.update(call_kw(k.value))
                elif isinstance(k.value, ast.Dict):
                    kw.update({kk.value: vv for kk, vv in zip(k.value.keys, k.value.values) if isinstance(kk, ast.Constant)})
                else:
                    self.bad.append('filter arguments: ' + U(k.value))
            else:
                kw[k.arg] = k.value
        ok = len(call.args) == 3 and isinstance(call.args[1], ast.UnaryOp) and is_const(call.args[1].operand, 1) \
            and isinstance(kw.get('normalize'), ast.Constant) and kw['normalize'].value is False \
            and U(kw.get('borderType', name('?'))) == 'cv.BORDER_CONSTANT' and set(kw) <= {'normalize', 'borderType'}
        ks = U(call.args[2]) if len(call.args) == 3 else ''
        ok = ok and ks in ('tuple(kernel_shape)[::-1]', 'kernel_shape[::-1]', 'tuple(kernel_shape[::-1])', 'self._kernel_shape[::-1]',
                           'tuple(self._kernel_shape)[::-1]', 'tuple(self._kernel_shape[::-1])')
        if not ok:
            self.bad.append(U(call)[:160])


def pixel_matchers(src_txt, ref_txt, joint_pred):
    """matchers on pixel level: source pixels -> x, reference pixels -> y, the joint mask as numbers -> one"""
    def m(n):
        t = U(n) if isinstance(n, (ast.Attribute, ast.Name, ast.Subscript)) else None
        if t is not None and t in src_txt:
            return name('x')
        if t is not None and t in ref_txt:
            return name('y')
        if isinstance(n, ast.Call) and isinstance(n.func, ast.Attribute) and n.func.attr == 'astype' and joint_pred(n.func.value):
            return name('one')
        return None
    return [m]


def box_matcher(pix, census):
    def m(n):
        if isinstance(n, ast.Call) and U(n.func) in ('cv.boxFilter', 'cv.sqrBoxFilter') and n.args:
            t = symbolise(n.args[0], pix)
            sq = U(n.func) == 'cv.sqrBoxFilter'
            kind = None
            if isinstance(t, ast.Name) and t.id in ('x', 'y', 'one'):
                kind = {'x': 'XX' if sq else 'X', 'y': 'YY' if sq else 'Y', 'one': None if sq else 'N'}[t.id]
            elif isinstance(t, ast.BinOp) and isinstance(t.op, ast.Mult) and not sq and \
                    sorted(U(a) for a in (t.left, t.right)) == ['x', 'y']:
                kind = 'XY'
            elif isinstance(t, ast.BinOp) and isinstance(t.op, ast.Pow) and is_const(t.right, 2) and not sq and U(t.left) in ('x', 'y'):
                kind = 'XX' if U(t.left) == 'x' else 'YY'
            elif isinstance(t, ast.BinOp) and isinstance(t.op, ast.Mult) and not sq and U(t.left) == U(t.right) and U(t.left) in ('x', 'y'):
                kind = 'XX' if U(t.left) == 'x' else 'YY'
            if kind is None:
                raise TranslatorError(f'box filter of an unrecognised quantity: {U(n.args[0])[:160]}')
            census.check(n)
            return name(kind)
        return None
    return m


def joint_pred_for(src_p, ref_p):
    want = sorted([f'{src_p}.mask', f'{ref_p}.mask'])

    def pred(n):
        return isinstance(n, ast.BinOp) and isinstance(n.op, ast.BitAnd) and sorted([U(n.left), U(n.right)]) == want
    return pred


def band_matcher(ret_txt, attr='array'):
    """<returned parameter array>.array[k] -> m / c / r2"""
    def m(n):
        if isinstance(n, ast.Subscript) and isinstance(n.value, ast.Attribute) and n.value.attr == attr and U(n.value.value) == ret_txt \
                and isinstance(n.slice, ast.Constant) and n.slice.value in (0, 1, 2):
            return name(('m', 'c', 'r2')[n.slice.value])
        return None
    return m


def zeroing_ok(stores, src_p, ref_p, joint_pred):
    """both pixel arrays are zeroed outside the joint mask (before anything else is stored)"""
    seen = set()
    for (_s, tgt, kind, val) in stores:
        t = ast.parse(tgt, mode='eval').body
        if kind == 'assign' and isinstance(t, ast.Subscript) and U(t.value) in (f'{src_p}.array', f'{ref_p}.array') \
                and isinstance(t.slice, ast.UnaryOp) and isinstance(t.slice.op, ast.Invert) and joint_pred(t.slice.operand) and is_const(val, 0):
            seen.add(U(t.value))
    return seen == {f'{src_p}.array', f'{ref_p}.array'}


def divide_parts(call):
    kw = call_kw(call)
    if U(call.func) != 'np.divide' or len(call.args) != 2 or 'out' not in kw or 'where' not in kw:
        raise TranslatorError(f'np.divide with an unexpected signature: {U(call)[:160]}')
    return call.args[0], call.args[1], kw['where']


SEMANTIC = {'_r2_array', '_fit_gain', '_fit_gain_offset', '_fit_gain_blk_offset', '_fit_block_norm', 'fit', 'apply', '_full_coverage_mask',
            '_get_resampling'}


def helper_inliner(tree, cls):
    """calls of other (helper) methods of the same class or of module-level functions are looked through; the methods the translator
    knows by name (SEMANTIC) are not"""
    methods, funcs = {}, {}
    for node in tree.body:
        if isinstance(node, ast.ClassDef) and node.name == cls:
            methods = {f.name: f for f in node.body if isinstance(f, ast.FunctionDef)}
        if isinstance(node, ast.FunctionDef):
            funcs[node.name] = node

    def simple(g):
        return not any(isinstance(n, (ast.For, ast.While, ast.Try, ast.With, ast.Yield, ast.YieldFrom, ast.Lambda)) for n in ast.walk(g))

    def inline(call):
        f = call.func
        if isinstance(f, ast.Attribute) and isinstance(f.value, ast.Name) and f.value.id in ('self', cls) and f.attr in methods \
                and f.attr not in SEMANTIC and simple(methods[f.attr]):
            return methods[f.attr]
        if isinstance(f, ast.Name) and f.id in funcs and simple(funcs[f.id]):
            return funcs[f.id]
        return None
    return inline


def kernel_part(km, out):
    census = BoxCensus()
    emitted = {}
    inl = helper_inliner(km, 'KernelModel')

    def emit(nm, node, sig):
        out.append(f'Definition gen_{nm} ({" ".join(sig)} : Q) : Q := {QExpr(sig).tr(node)}.')
        emitted[nm] = True

    # ================================================================= _fit_gain_offset
    f = find_func(km, 'KernelModel', '_fit_gain_offset')
    fl = Flow(f, inline=inl, module=km)
    if len(fl.params) < 3:
        raise TranslatorError('_fit_gain_offset: (self, source, reference, ...) expected')
    sp, rp = fl.params[1], fl.params[2]
    jp = joint_pred_for(sp, rp)
    ret = fl.text(the_return(f).value)
    pix = pixel_matchers({f'{sp}.array'}, {f'{rp}.array'}, jp)
    thresh_txt = 'self._r2_inpaint_thresh'
    M = [box_matcher(pix, census), band_matcher(ret), lambda n: name('joint') if jp(n) else None]
    atoms = BExpr([(lambda n: isinstance(n, ast.Name) and n.id == 'joint', 'joint'),
                   (lambda n: isinstance(n, ast.Compare) and len(n.ops) == 1 and isinstance(n.ops[0], ast.Gt) and U(n.left) == 'r2'
                    and U(n.comparators[0]) == thresh_txt, 'r2gt'),
                   (lambda n: isinstance(n, ast.Compare) and len(n.ops) == 1 and isinstance(n.ops[0], ast.Gt) and U(n.left) == 'm'
                    and is_const(n.comparators[0], 0), 'mpos')])
    stores = fl.stores()
    events = []          # (position in execution order, kind, payload)
    pos = {id(s): i for i, s in enumerate(fl.order)}
    for (s, tgt, kind, val) in stores:
        if kind == 'call' and U(val.func) == 'np.divide':
            events.append((pos[id(s)], 'div', tgt, val))
        elif kind == 'assign' and isinstance(val, ast.Call) and U(val.func) == 'fillnodata':
            events.append((pos[id(s)], 'fill', tgt, val))
        elif kind == 'assign' and tgt == f'{ret}.mask':
            events.append((pos[id(s)], 'remask', tgt, val))
    r2calls = [s for s in fl.order if isinstance(s, ast.Expr) and isinstance(s.value, ast.Call) and U(s.value.func) == 'self._r2_array']
    for s in r2calls:
        events.append((pos[id(s)], 'r2', '', fl.resolve(s.value, s)))
    events.sort(key=lambda e: e[0])
    kinds = [(e[1], e[2]) for e in events]
    want = [('div', f'{ret}.array[0]'), ('div', f'{ret}.array[1]'), ('r2', ''), ('fill', f'{ret}.array[1]'), ('remask', f'{ret}.mask'),
            ('div', f'{ret}.array[0]')]
    if kinds != want:
        raise TranslatorError(f'_fit_gain_offset: unexpected sequence of stores into the parameter array: {kinds}')
    (g, o, r2c, fill, remask, rg) = events
    gn, gd, gw = divide_parts(g[3])
    emit('go_num', symbolise(gn, M), SUMS)
    emit('go_den', symbolise(gd, M), SUMS)
    out.append(f'Definition gen_go_gain_where {ATOMS} : bool := {atoms.tr(symbolise(gw, M))}.')
    on, od, ow = divide_parts(o[3])
    emit('go_offset_n', symbolise(on, M), SUMS)
    emit('go_offset_d', symbolise(od, M), SUMS)
    out.append(f'Definition gen_go_offset_where {ATOMS} : bool := {atoms.tr(symbolise(ow, M))}.')
    fc = fill[3]
    if len(fc.args) != 2 or fc.keywords or U(fc.args[0]) != f'{ret}.array[1]':
        raise TranslatorError(f'_fit_gain_offset: fillnodata call {U(fc)[:160]}')
    out.append(f'Definition gen_go_keep {ATOMS} : bool := {atoms.tr(symbolise(fc.args[1], M))}.      (* fillnodata keeps these pixels *)')
    out.append(f'Definition gen_go_remask {ATOMS} : bool := {atoms.tr(symbolise(remask[3], M))}.')
    rn, rd, rw = divide_parts(rg[3])
    emit('go_regain_n', symbolise(rn, M), SUMS)
    emit('go_regain_d', symbolise(rd, M), SUMS)
    out.append(f'Definition gen_go_regain_where {ATOMS} : bool := {atoms.tr(symbolise(rw, M))}.')
    # in-painting only with a threshold; R2 whenever it is asked for or needed by in-painting
    def enclosing_tests(stmt):
        tests = []
        for n in ast.walk(f):
            if isinstance(n, ast.If) and any(stmt is m for b in n.body for m in ast.walk(b)):
                tests.append(fl.text(n.test, n))
        return sorted(tests)
    cond_fill = enclosing_tests(fl.order[fill[0]])
    cond_r2 = enclosing_tests(r2calls[0])
    ok_guard = cond_fill == [f'{thresh_txt} is not None'] and cond_r2 in (
        [f'self._find_r2 or {thresh_txt} is not None'], [f'{thresh_txt} is not None or self._find_r2'])
    out.append(f'Definition gen_go_guards_ok : bool := {"true" if ok_guard else "false"}.   (* in-painting iff a threshold is set; R2 iff asked for or needed *)')
    out.append(f'Definition gen_go_zeroing_ok : bool := {"true" if zeroing_ok(stores, sp, rp, jp) else "false"}.')
    # the roles _fit_gain_offset hands to _r2_array
    roles_go = finish_roles(r2_call_roles(r2c[3], M), sp, rp)

    # ================================================================= _fit_gain
    f = find_func(km, 'KernelModel', '_fit_gain')
    fl = Flow(f, inline=inl, module=km)
    sp, rp = fl.params[1], fl.params[2]
    jp = joint_pred_for(sp, rp)
    ret = fl.text(the_return(f).value)
    pix = pixel_matchers({f'{sp}.array'}, {f'{rp}.array'}, jp)
    M = [box_matcher(pix, census), band_matcher(ret), lambda n: name('joint') if jp(n) else None]
    stores = fl.stores()
    dv = [(s, t, v) for (s, t, k, v) in stores if k == 'call' and U(v.func) == 'np.divide']
    if len(dv) != 1 or dv[0][1] != f'{ret}.array[0]':
        raise TranslatorError('_fit_gain: expected one np.divide into the gain band')
    gn, gd, gw = divide_parts(dv[0][2])
    emit('g_gain_n', symbolise(gn, M), SUMS)
    emit('g_gain_d', symbolise(gd, M), SUMS)
    out.append(f'Definition gen_g_gain_where {ATOMS} : bool := {atoms.tr(symbolise(gw, M))}.')
    zo = [(t, v) for (_s, t, k, v) in stores if k == 'assign' and t.startswith(f'{ret}.array[1')]
    okz = len(zo) == 1 and is_const(zo[0][1], 0) and zo[0][0] in (f'{ret}.array[1, {rp}.mask & {sp}.mask]', f'{ret}.array[1, {sp}.mask & {rp}.mask]',
                                                                   f'{ret}.array[1][{rp}.mask & {sp}.mask]', f'{ret}.array[1][{sp}.mask & {rp}.mask]')
    out.append(f'Definition gen_g_offset_zero_ok : bool := {"true" if okz else "false"}.      (* offset := 0 on the joint mask *)')
    out.append(f'Definition gen_g_zeroing_ok : bool := {"true" if zeroing_ok(stores, sp, rp, jp) else "false"}.')
    r2calls = [s for s in fl.order if isinstance(s, ast.Expr) and isinstance(s.value, ast.Call) and U(s.value.func) == 'self._r2_array']
    if len(r2calls) != 1:
        raise TranslatorError('_fit_gain: expected one call of _r2_array')
    roles_g = finish_roles(r2_call_roles(fl.resolve(r2calls[0].value, r2calls[0]), M), sp, rp)

    # ================================================================= _r2_array
    f = find_func(km, 'KernelModel', '_r2_array')
    fl = Flow(f, inline=inl, module=km)
    P = fl.params          # self, ref pixels, src pixels, parameter bands, then keywords
    if len(P) < 4:
        raise TranslatorError('_r2_array: (self, ref_array, src_array, param_array, ...) expected')
    # roles by position / keyword, as both callers pass them
    role = {}
    for roles in (roles_go, roles_g):
        for k, v in roles.items():
            pn = P[k + 1] if isinstance(k, int) else k
            if pn not in P:
                raise TranslatorError(f'_r2_array has no parameter {pn}')
            if role.setdefault(pn, v) != v:
                raise TranslatorError(f'_r2_array: callers disagree on {pn}: {role[pn]} vs {v}')
    refp = [p for p, v in role.items() if v == 'y']
    srcp = [p for p, v in role.items() if v == 'x']
    parp = [p for p, v in role.items() if v.startswith('params')]
    if len(refp) != 1 or len(srcp) != 1 or len(parp) != 1:
        raise TranslatorError(f'_r2_array: roles {role}')
    pix = pixel_matchers({srcp[0]}, {refp[0]}, lambda n: isinstance(n, ast.Name) and role.get(n.id) == 'joint')
    bm = box_matcher(pix, census)

    def par(n):
        if isinstance(n, ast.Subscript) and U(n.value) == parp[0] and isinstance(n.slice, ast.Constant) and n.slice.value in (0, 1):
            return name(('m', 'c')[n.slice.value])
        if isinstance(n, ast.Call) and U(n.func) == 'np.prod' and n.args and U(n.args[0]) == f'{parp[0]}[:2]' and \
                {k: U(v) for k, v in call_kw(n).items()} in ({'axis': '0'}, {}):
            return ast.BinOp(left=name('m'), op=ast.Mult(), right=name('c'))
        return None

    def rolem(n):
        if isinstance(n, ast.Name) and role.get(n.id) in ('N', 'X', 'Y', 'XY', 'XX', 'YY', 'joint'):
            return name(role[n.id])
        return None
    M2 = [bm, par, rolem]
    # defaults computed inside must play the role the callers assume for that parameter; parameters no caller passes get their role from the default
    for pn, d in fl.default_of.items():
        if pn in ('kernel_shape',) or U(d) == 'self._kernel_shape':
            continue
        if role.get(pn) in ('N', 'X', 'Y', 'XY', 'XX', 'YY') or pn not in role:
            if isinstance(d, ast.Call) and U(d.func) in ('cv.boxFilter', 'cv.sqrBoxFilter'):
                got = U(symbolise(d, M2))
                if role.setdefault(pn, got) != got:
                    raise TranslatorError(f'_r2_array: default of {pn} computes {got}, callers pass {role[pn]}')
    dv = [(s, t, v) for (s, t, k, v) in fl.stores() if k == 'call']
    if [U(v.func) for (_s, _t, v) in dv] != ['np.divide', 'np.subtract'] or dv[0][1] != dv[1][1]:
        raise TranslatorError('_r2_array: expected np.divide then np.subtract into the same destination')
    dest = dv[0][1]
    if role.get(dest) not in (None, 'r2') or U(the_return(f).value) != dest and fl.text(the_return(f).value) != dest:
        raise TranslatorError('_r2_array: destination / return value')
    rn, rd, rw = divide_parts(dv[0][2])
    emit('ss_tot', symbolise(rd, M2), SUMS)
    out.append(f'Definition gen_r2_where {ATOMS} : bool := {atoms.tr(symbolise(rw, M2))}.')
    sub = dv[1][2]
    kw = call_kw(sub)
    oks = len(sub.args) == 2 and is_const(sub.args[0], 1) and U(sub.args[1]) == dest and U(kw.get('out', name('?'))) == dest \
        and atoms.tr(symbolise(kw.get('where', name('?')), M2)) == 'joint'
    if not oks:
        raise TranslatorError(f'_r2_array: expected np.subtract(1, dest, out=dest, where=mask): {U(sub)[:160]}')
    out.append('Definition gen_r2_final (d : Q) : Q := (1 - d).')
    # numerator: either fully resolved, or a name assigned in both branches of the model test and then scaled
    def branches_of(nm):
        defs = [s for s in fl.order if isinstance(s, ast.Assign) and len(s.targets) == 1 and isinstance(s.targets[0], ast.Name) and s.targets[0].id == nm]
        augs = [s for s in fl.order if isinstance(s, ast.AugAssign) and isinstance(s.target, ast.Name) and s.target.id == nm]
        return defs, augs
    if isinstance(rn, ast.Name):
        defs, augs = branches_of(rn.id)
        ifs = [n for n in ast.walk(f) if isinstance(n, ast.If) and len(defs) == 2 and any(defs[0] is m for b in n.body for m in ast.walk(b))
               and any(defs[1] is m for b in n.orelse for m in ast.walk(b))]
        if len(ifs) != 1 or fl.text(ifs[0].test, ifs[0]) not in (f'{parp[0]}.shape[0] > 1', f'len({parp[0]}) > 1'):
            raise TranslatorError('_r2_array: RSS is not assigned once in each branch of `param_array.shape[0] > 1`')
        emit('ss_res_go', symbolise(fl.resolve(defs[0].value, defs[0]), M2), SUMS)
        emit('ss_res_g', symbolise(fl.resolve(defs[1].value, defs[1]), M2), SUMS)
        if len(augs) != 1 or not isinstance(augs[0].op, ast.Mult) or pos_after(fl, augs[0], ifs[0]) is False:
            raise TranslatorError('_r2_array: expected `RSS *= <factor>` exactly once after the branches')
        emit('ss_res_scale', symbolise(fl.resolve(augs[0].value, augs[0]), M2), SUMS)
    else:
        raise TranslatorError('_r2_array: RSS numerator has an unexpected shape')
    out.append('Definition gen_r2_roles_ok : bool := true.      (* both callers pass consistent kernel sums / arrays / masks to _r2_array *)')

    # ================================================================= _fit_gain_blk_offset
    f = find_func(km, 'KernelModel', '_fit_gain_blk_offset')
    fl = Flow(f, inline=inl, module=km)
    sp, rp = fl.params[1], fl.params[2]
    ret = fl.text(the_return(f).value)
    rc = ast.parse(ret, mode='eval').body
    if not (isinstance(rc, ast.Call) and U(rc.func) == 'self._fit_gain' and [U(a) for a in rc.args[:2]] == [sp, rp]):
        raise TranslatorError(f'_fit_gain_blk_offset: the parameters do not come from self._fit_gain(source, reference): {ret[:120]}')
    norm_txt = f'self._fit_block_norm({sp}, {rp})'

    def gm(n):
        if isinstance(n, ast.Subscript) and U(n.value) == norm_txt and isinstance(n.slice, ast.Constant) and n.slice.value in (0, 1):
            return name(('na', 'nb')[n.slice.value])
        if U(n) == f'{sp}.array' and isinstance(n, ast.Attribute):
            return name('x')
        return None
    state = {0: name('m'), 1: name('c0')}        # current content of the returned bands, replayed store by store

    def bandsub(n):
        if isinstance(n, ast.Subscript) and isinstance(n.value, ast.Attribute) and n.value.attr == 'array' and U(n.value.value) == ret \
                and isinstance(n.slice, ast.Constant) and n.slice.value in (0, 1):
            return copy.deepcopy(state[n.slice.value])
        return None
    norm_seen, nodata_forced, fit_pos = [], [], None
    for s in fl.order:
        for n in ast.walk(s) if not isinstance(s, (ast.If, ast.For, ast.While, ast.With, ast.Try)) else []:
            if isinstance(n, ast.Call) and U(n.func) == 'self._fit_gain' and fit_pos is None:
                fit_pos = fl.order.index(s)
    for (s, tgt, kind, val) in fl.stores():
        i = fl.order.index(s)
        if tgt == f'{sp}.nodata' and kind == 'assign' and U(val) == 'RasterArray.default_nodata':
            nodata_forced.append(i)
        elif tgt == f'{sp}.array' and kind == 'assign':
            norm_seen.append((i, symbolise(val, [gm])))
        elif tgt in (f'{ret}.array[0]', f'{ret}.array[1]'):
            k = int(tgt[-2])
            v = symbolise(val if kind == 'assign' else val[1], [bandsub, gm])
            state[k] = v if kind == 'assign' else ast.BinOp(left=state[k], op=val[0], right=v)
        elif tgt.startswith(ret):
            raise TranslatorError(f'_fit_gain_blk_offset: unexpected store {tgt}')
    if len(norm_seen) != 1:
        raise TranslatorError('_fit_gain_blk_offset: the source is not normalised exactly once')
    emit('gbo_norm', norm_seen[0][1], GBO)
    emit('gbo_gain', state[0], GBO)
    emit('gbo_offset', state[1], GBO)
    oko = len(nodata_forced) == 1 and fit_pos is not None and nodata_forced[0] < norm_seen[0][0] < fit_pos
    out.append(f'Definition gen_gbo_order_ok : bool := {"true" if oko else "false"}.     (* nodata := NaN, then normalise, then fit *)')

    # ================================================================= _fit_block_norm: the block normalisation itself
    #   [std(ref) / std(src), pct1(ref) - pct1(src) * gain] over the jointly valid pixels, for ANY number of them; the zero model only when there
    #   is none (a threshold on the count, a fallback model or a remembered one is another function)
    f = find_func(km, 'KernelModel', '_fit_block_norm')
    fl = Flow(f, module=km)
    ps_ = [p_ for p_ in fl.params if p_ not in ('self', 'cls')]
    okn = len(ps_) == 2
    if okn:
        sp, rp = ps_
        M = {f'{rp}.mask & {sp}.mask', f'{sp}.mask & {rp}.mask'}
        some = {f'np.any({m_})' for m_ in M} | {f'{m_}.sum() > 0' for m_ in M} | {f'np.count_nonzero({m_}) > 0' for m_ in M}
        rets_ = [fl.text(r_.value, r_) for r_ in own_returns(f) if r_.value is not None]
        sts = [(t_, k_, U(v_) if not isinstance(v_, tuple) else None, fl.guards(s_, raises=True)) for (s_, t_, k_, v_) in fl.stores()]
        zero = rets_[0] if len(set(rets_)) == 1 else None
        okn = zero in ('np.zeros(2)', 'np.zeros(2, dtype=float)', 'np.array([0.0, 0.0])') and len(sts) == 2 and all(own_guards == [] for own_guards in [fl.guards(r_, raises=True) for r_ in own_returns(f)])
        if okn:
            want0 = {f'{a_} / {b_}' for m_ in M for m2_ in M for a_ in (f'np.std({rp}.array[{m_}])', f'{rp}.array[{m_}].std()')
                     for b_ in (f'np.std({sp}.array[{m2_}])', f'{sp}.array[{m2_}].std()')}
            want1 = {f'np.percentile({rp}.array[{m_}], 1) - np.percentile({sp}.array[{m2_}], 1) * {zero}[0]' for m_ in M for m2_ in M}
            by_t = {t_: (k_, v_, g_) for (t_, k_, v_, g_) in sts}
            a0, a1 = by_t.get(f'{zero}[0]'), by_t.get(f'{zero}[1]')
            okn = a0 is not None and a1 is not None and a0[0] == a1[0] == 'assign' and a0[1] in want0 and a1[1] in want1 \
                and all(len(g_) == 1 and g_[0][1] and g_[0][0] in some for g_ in (a0[2], a1[2]))
    out.append(f'Definition gen_block_norm_ok : bool := {"true" if okn else "false"}.     (* std ratio and 1st-percentile difference over the jointly valid pixels; zeros iff there is none *)')

    # ================================================================= apply
    f = find_func(km, 'KernelModel', 'apply')
    fl = Flow(f, inline=inl, module=km)
    sp, pp = fl.params[1], fl.params[2]
    ret = fl.resolve(the_return(f).value)
    if not (isinstance(ret, ast.Call) and U(ret.func) == 'RasterArray.from_profile' and len(ret.args) == 2 and U(ret.args[1]) == f'{pp}.profile'):
        raise TranslatorError(f'KernelModel.apply: returns {U(ret)[:160]}')

    def am(n):
        if U(n) == f'{sp}.array' and isinstance(n, ast.Attribute):
            return name('x')
        if isinstance(n, ast.Subscript) and U(n.value) == f'{pp}.array' and isinstance(n.slice, ast.Constant) and n.slice.value in (0, 1):
            return name(('m', 'c')[n.slice.value])
        return None
    emit('apply', symbolise(ret.args[0], [am]), APPLY)
    out.append(f'Definition gen_box_filters_ok : bool := {"true" if census.n >= 8 and not census.bad else "false"}.'
               f'     (* {census.n} box filters: ddepth -1, ksize = kernel_shape reversed, normalize=False, BORDER_CONSTANT *)')


def pos_after(fl, a, b):
    return fl.order.index(a) > fl.order.index(b)


def r2_call_roles(call, M):
    """roles of the arguments a caller hands to _r2_array: {position or keyword: 'x' | 'y' | 'params1' | 'params2' | 'joint' | 'N' | ... | 'r2'}"""
    roles = {}

    def role_of(n):
        s = symbolise(n, M)
        t = U(s)
        if t in ('N', 'X', 'Y', 'XY', 'XX', 'YY', 'joint', 'r2'):
            return t
        return None
    items = list(enumerate(call.args)) + [(k.arg, k.value) for k in call.keywords]
    for k, v in items:
        r = role_of(v)
        if r is None:
            t = U(v)
            if isinstance(v, ast.Attribute) and v.attr == 'array':
                r = 'pix:' + U(v.value)
            elif isinstance(v, ast.Subscript) and isinstance(v.slice, ast.Slice) and v.slice.lower is None and isinstance(v.slice.upper, ast.Constant) \
                    and isinstance(v.value, ast.Attribute) and v.value.attr == 'array':
                r = 'params'
            elif k == 'kernel_shape':
                continue
            else:
                raise TranslatorError(f'_r2_array called with an unrecognised argument {k}={t[:120]}')
        roles[k] = r
    # pixel arrays: (ref, src) by position
    pixs = [(k, r) for k, r in roles.items() if isinstance(r, str) and r.startswith('pix:')]
    if [k for k, _ in pixs] != [0, 1]:
        raise TranslatorError('_r2_array: the first two arguments must be the pixel arrays')
    return roles


def finish_roles(roles, src_p, ref_p):
    out = {}
    for k, r in roles.items():
        if isinstance(r, str) and r.startswith('pix:'):
            who = r[4:]
            out[k] = 'x' if who == src_p else 'y' if who == ref_p else None
            if out[k] is None:
                raise TranslatorError(f'_r2_array called with pixels of {who}')
        else:
            out[k] = r
    return out


# ---------------------------------------------------------------------------------------------- compare / stats
def compare_part(cm, out):
    corder = ['N', 'X', 'Y', 'XY', 'XX', 'YY', 'RR']
    pnames = {'src_sum': 'X', 'ref_sum': 'Y', 'src2_sum': 'XX', 'ref2_sum': 'YY', 'src_ref_sum': 'XY', 'res2_sum': 'RR', 'mask_sum': 'N'}
    f = find_func(cm, 'RasterCompare', '_get_image_stats', 'get_band_stats')
    fl = Flow(f)
    if sorted(fl.params) != sorted(pnames):
        raise TranslatorError(f'get_band_stats: parameters {fl.params}')
    ret = fl.resolve(the_return(f).value)
    kw = dict_items(ret)
    if kw is None:
        raise TranslatorError('get_band_stats: does not return a dict')
    if sorted(kw) != ['n', 'r2', 'rmse', 'rrmse']:
        raise TranslatorError(f'get_band_stats: keys {sorted(kw)}')

    def pm(n):
        return name(pnames[n.id]) if isinstance(n, ast.Name) and n.id in pnames else None

    def emit(nm, node):
        out.append(f'Definition gen_{nm} ({" ".join(corder)} : Q) : Q := {QExpr(corder).tr(symbolise(node, [pm]))}.')

    def is_sqrt(n):
        return isinstance(n, ast.Call) and U(n.func) == 'np.sqrt' and len(n.args) == 1 and not n.keywords
    r2 = kw['r2']
    if not (isinstance(r2, ast.BinOp) and isinstance(r2.op, ast.Pow) and is_const(r2.right, 2) and isinstance(r2.left, ast.BinOp)
            and isinstance(r2.left.op, ast.Div)):
        raise TranslatorError('get_band_stats: r2 is not (num / den) ** 2')
    den = r2.left.right
    if not (isinstance(den, ast.BinOp) and isinstance(den.op, ast.Mult) and is_sqrt(den.left) and is_sqrt(den.right)):
        raise TranslatorError('get_band_stats: the Pearson denominator is not sqrt(a) * sqrt(b)')
    emit('cmp_pcc_num', r2.left.left)
    emit('cmp_pcc_den_a', den.left.args[0])
    emit('cmp_pcc_den_b', den.right.args[0])
    if not is_sqrt(kw['rmse']):
        raise TranslatorError('get_band_stats: rmse is not a square root')
    emit('cmp_rmse_sq', kw['rmse'].args[0])
    rr = kw['rrmse']
    if not (isinstance(rr, ast.BinOp) and isinstance(rr.op, ast.Div) and ast.dump(rr.left) == ast.dump(kw['rmse'])):
        raise TranslatorError('get_band_stats: rrmse is not rmse / <mean>')
    emit('cmp_rrmse_den', rr.right)
    okn = U(symbolise(kw['n'], [pm])) == 'int(N)'
    out.append(f'Definition gen_cmp_returns_ok : bool := {"true" if okn else "false"}.      (* r2 = pcc ** 2, rmse, rrmse = rmse / mean(ref), n = int(N) *)')
    # ---- get_block_sums: the per-pixel term of every sum, the joint mask
    f = find_func(cm, 'RasterCompare', 'process', 'get_block_sums')
    fouter = find_func(cm, 'RasterCompare', 'process')
    inl_c = generic_inliner(cm, 'RasterCompare', keep=('read', 'block_pairs', 'process', '_get_image_stats', '_get_resampling', '_assert_open'))
    fl = Flow(f, module=cm, inline=inl_c, outer=(Flow(fouter, module=cm), f))
    rets_ = [n for n in ast.walk(f) if isinstance(n, ast.Return) and n.value is not None]
    vals_ = [fl.value(r_) for r_ in rets_]
    if not vals_ or len({ast.dump(v_) for v_ in vals_}) != 1:
        raise TranslatorError(f'get_block_sums: expected one return value, found {len(vals_)} different ones')
    rt = vals_[0]
    if not (isinstance(rt, ast.Tuple) and len(rt.elts) == 2 and U(rt.elts[1]) == fl.params[0]):
        raise TranslatorError('get_block_sums: (sums, block pair) expected')
    sd = rt.elts[0]
    if isinstance(sd, ast.Call) and isinstance(sd.func, ast.Name) and sd.func.id in fl.tuples and not sd.args:
        sd = ast.Dict(keys=[ast.Constant(value=k_.arg) for k_ in sd.keywords], values=[k_.value for k_ in sd.keywords])       # a NamedTuple of the sums
    kwd = dict_items(sd)
    if kwd is None:
        raise TranslatorError('get_block_sums: sums dict')
    if sorted(kwd) != sorted(pnames):
        raise TranslatorError(f'get_block_sums: keys {sorted(kwd)}')
    # the two re-projected arrays: which one is the source / reference is decided by the .mask / .array owners being read from self.read(block_pair)
    # (both branches of the grid test rebind one of them, so the names themselves stay)
    arrs = set()
    for v in kwd.values():
        for n in ast.walk(v):
            if isinstance(n, ast.Attribute) and n.attr == 'array':
                arrs.add(U(n))
    un = [s for s in fl.order if isinstance(s, ast.Assign) and isinstance(s.targets[0], ast.Tuple) and U(s.value) == f'self.read({fl.params[0]})']
    if len(un) != 1 or len(un[0].targets[0].elts) != 2:
        raise TranslatorError('get_block_sums: `src, ref = self.read(block_pair)` expected')
    sN, rN = (U(e) for e in un[0].targets[0].elts)
    if arrs - {f'{sN}.array', f'{rN}.array'}:
        raise TranslatorError(f'get_block_sums: sums over {sorted(arrs)}')
    pix = {f'{sN}.array': 'x', f'{rN}.array': 'y'}

    def xm(n):
        return name(pix[U(n)]) if isinstance(n, ast.Attribute) and U(n) in pix else None
    for key in ('src_sum', 'ref_sum', 'src2_sum', 'ref2_sum', 'src_ref_sum', 'res2_sum'):
        v = kwd[key]
        if not (isinstance(v, ast.Call) and isinstance(v.func, ast.Attribute) and v.func.attr == 'sum' and not v.args and not v.keywords):
            raise TranslatorError(f'get_block_sums: {key} is not <expr>.sum()')
        out.append(f'Definition gen_cmp_term_{key} (x y : Q) : Q := {QExpr(["x", "y"]).tr(symbolise(v.func.value, [xm]))}.')
    jp = joint_pred_for(sN, rN)
    ms = kwd['mask_sum']
    okm = isinstance(ms, ast.Call) and isinstance(ms.func, ast.Attribute) and ms.func.attr == 'sum' and not ms.args and jp(ms.func.value)
    okm = okm and zeroing_ok(fl.stores(), sN, rN, jp)
    out.append(f'Definition gen_cmp_joint_mask_ok : bool := {"true" if okm else "false"}.   (* mask = both valid; both arrays zeroed outside it; N = mask.sum() *)')
    # accumulation over blocks: per band, key by key, image_sums[band][k] += block[k]
    fp = find_func(cm, 'RasterCompare', 'process')
    oka = False
    for n in ast.walk(fp):
        if isinstance(n, ast.Assign) and isinstance(n.targets[0], ast.Subscript) and isinstance(n.value, ast.DictComp):
            tgt = U(n.targets[0])
            dc = n.value
            if len(dc.generators) == 1 and isinstance(dc.generators[0].target, ast.Tuple) and not dc.generators[0].ifs:
                k, v = (U(e) for e in dc.generators[0].target.elts)
                it = dc.generators[0].iter
                if U(dc.key) == k and U(dc.value) == f'{tgt}.get({k}, 0) + {v}' and isinstance(it, ast.Call) and isinstance(it.func, ast.Attribute) \
                        and it.func.attr == 'items' and tgt.endswith('.band_i]'):
                    oka = True
    if not oka:
        # ... or, with the sums held in a record class of the module: image_sums[band] = image_sums[band].add(block) where `add` returns the
        # field-wise sum  C(*(a + b for a, b in zip(self, other)))  and every field of a fresh C() is 0
        recs = {c.name: c for c in ast.walk(cm) if isinstance(c, ast.ClassDef) and any(U(b_) in ('NamedTuple', 'typing.NamedTuple') for b_ in c.bases)}
        for n in ast.walk(fp):
            if isinstance(n, ast.Assign) and isinstance(n.targets[0], ast.Subscript) and U(n.targets[0]).endswith('.band_i]') and isinstance(n.value, ast.Call) \
                    and isinstance(n.value.func, ast.Attribute) and U(n.value.func.value) == U(n.targets[0]) and len(n.value.args) == 1 and not n.value.keywords:
                for c in recs.values():
                    flds = [st_ for st_ in c.body if isinstance(st_, ast.AnnAssign)]
                    zero = bool(flds) and all(st_.value is not None and isinstance(st_.value, ast.Constant) and st_.value.value == 0 and not isinstance(st_.value.value, bool) for st_ in flds)
                    for m_ in c.body:
                        if isinstance(m_, ast.FunctionDef) and m_.name == n.value.func.attr and not m_.decorator_list and len(m_.args.args) == 2:
                            a_, b_ = (x_.arg for x_ in m_.args.args)
                            body = [st_ for st_ in m_.body if not (isinstance(st_, ast.Expr) and isinstance(st_.value, ast.Constant))]
                            if len(body) == 1 and isinstance(body[0], ast.Return) and body[0].value is not None:
                                r_ = body[0].value
                                if isinstance(r_, ast.Call) and U(r_.func) in (c.name, f'type({a_})', f'{a_}.__class__') and len(r_.args) == 1 and isinstance(r_.args[0], ast.Starred) \
                                        and isinstance(r_.args[0].value, (ast.GeneratorExp, ast.ListComp)) and not r_.keywords:
                                    g_ = r_.args[0].value
                                    if len(g_.generators) == 1 and not g_.generators[0].ifs and isinstance(g_.generators[0].target, ast.Tuple) and len(g_.generators[0].target.elts) == 2 \
                                            and U(g_.generators[0].iter) in (f'zip({a_}, {b_})', f'zip({b_}, {a_})'):
                                        p_, q_ = (U(e_) for e_ in g_.generators[0].target.elts)
                                        init = any(isinstance(x_, ast.ListComp) and U(x_.elt) == f'{c.name}()' for x_ in ast.walk(fp))
                                        oka = oka or (U(g_.elt) in (f'{p_} + {q_}', f'{q_} + {p_}') and zero and init)
    out.append(f'Definition gen_cmp_accumulate_ok : bool := {"true" if oka else "false"}.')


def stats_part(sm, out):
    f = find_func(sm, 'ParamStats', '_get_image_stats')
    loops = [n for n in ast.walk(f) if isinstance(n, ast.For) and isinstance(n.iter, ast.Call) and U(n.iter.func) == 'enumerate'
             and isinstance(n.target, ast.Tuple) and len(n.target.elts) == 2]
    if len(loops) != 1:
        raise TranslatorError('_get_image_stats: `for band_i, band_accum in enumerate(...)` expected')
    acc = U(loops[0].target.elts[1])
    fl = Flow(f)
    dcalls = [s for s in loops[0].body if isinstance(s, ast.Assign) and 'mean' in (dict_items(s.value) or {})]
    if len(dcalls) != 1:
        raise TranslatorError('_get_image_stats: band_stats dict')
    bs_name = U(dcalls[0].targets[0])
    kw = {k: fl.resolve(v, dcalls[0]) for k, v in dict_items(dcalls[0].value).items()}
    sorder = ['S', 'S2', 'n', 'I']
    keys = {f"{acc}['sum']": 'S', f"{acc}['sum2']": 'S2', f"{acc}['n']": 'n', f"{acc}['inpaint_sum']": 'I'}

    def km_(n):
        return name(keys[U(n)]) if isinstance(n, ast.Subscript) and U(n) in keys else None

    def emit(nm, node):
        out.append(f'Definition gen_{nm} ({" ".join(sorder)} : Q) : Q := {QExpr(sorder).tr(symbolise(node, [km_]))}.')
    emit('st_mean', kw['mean'])
    if not (isinstance(kw['std'], ast.Call) and U(kw['std'].func) == 'np.sqrt' and len(kw['std'].args) == 1):
        raise TranslatorError('_get_image_stats: std is not a square root')
    var = kw['std'].args[0]
    clamped = isinstance(var, ast.Call) and U(var.func) == 'np.maximum' and len(var.args) == 2 and is_const(var.args[1], 0)
    emit('st_var', var.args[0] if clamped else var)
    out.append(f'Definition gen_st_var_clamped_at_zero : bool := {"true" if clamped else "false"}.')
    out.append('Definition gen_st_minmax_ok : bool := %s.' % ('true' if U(kw['min']) == f"{acc}['min']" and U(kw['max']) == f"{acc}['max']" else 'false'))
    v = [s for s in ast.walk(loops[0]) if isinstance(s, ast.Assign) and U(s.targets[0]) == f"{bs_name}['inpaint_p']"]
    if len(v) != 1:
        raise TranslatorError('_get_image_stats: inpaint_p')
    emit('st_inpaint_p', fl.resolve(v[0].value, v[0]))
    # ---- get_block_sums
    f = find_func(sm, 'ParamStats', 'stats', 'get_block_sums')
    fl = Flow(f, module=sm, outer=(Flow(find_func(sm, 'ParamStats', 'stats'), module=sm), f))
    band_p, win_p = fl.params[0], fl.params[1]
    rt = the_return(f).value
    if not (isinstance(rt, ast.Tuple) and len(rt.elts) == 2 and isinstance(rt.elts[0], ast.Name) and U(rt.elts[1]) == band_p):
        raise TranslatorError('stats.get_block_sums: (block dict, band) expected')
    bd_name = rt.elts[0].id
    bd = [s for s in fl.order if isinstance(s, ast.Assign) and U(s.targets[0]) == bd_name]
    if len(bd) != 1 or dict_items(bd[0].value) is None:
        raise TranslatorError('stats.get_block_sums: block dict')
    kwd = dict_items(bd[0].value)
    if sorted(kwd) != ['max', 'min', 'n', 'sum', 'sum2']:
        raise TranslatorError(f'stats.get_block_sums: keys {sorted(kwd)}')
    # the array: the masked float64 read of one band window (assigned inside `with read_lock`, so it stays a name)
    arr = None
    for key in ('sum', 'sum2'):
        v = kwd[key]
        if not (isinstance(v, ast.Call) and isinstance(v.func, ast.Attribute) and v.func.attr == 'sum' and not v.args):
            raise TranslatorError(f'stats.get_block_sums: {key}')
        names_ = {n.id for n in ast.walk(v.func.value) if isinstance(n, ast.Name)}
        if len(names_) != 1:
            raise TranslatorError(f'stats.get_block_sums: {key} over {names_}')
        arr = arr or names_.pop()
        out.append(f'Definition gen_st_term_{key} (x : Q) : Q := {QExpr(["x"]).tr(symbolise(v.func.value, [lambda n: name("x") if isinstance(n, ast.Name) and n.id == arr else None]))}.')
    okb = [U(kwd[k2]) for k2 in ('min', 'max', 'n')] == [f'{arr}.min()', f'{arr}.max()', f'{arr}.count()']
    def oe(node):          # free names of the closure replaced by what they stand for in stats(); the worker's own locals stay
        return U(Flow._res(node, fl.env0))
    rd = [oe(n.value) for n in fl.order if isinstance(n, (ast.Assign, ast.AnnAssign)) and n.value is not None
          and U(n.target if isinstance(n, ast.AnnAssign) else n.targets[0]) == arr]
    okb = okb and len(rd) == 1 and rd[0].startswith('self._param_im.read(') and 'masked=True' in rd[0] and "out_dtype='float64'" in rd[0] \
        and f'indexes={band_p} + 1' in rd[0] and f'window={win_p}' in rd[0]
    out.append(f'Definition gen_st_block_ok : bool := {"true" if okb else "false"}.    (* masked float64 read of one band window; min, max, count of the valid values *)')
    want_inp = f'({arr} < self._r2_inpaint_thresh).sum()'
    upd, anyupd = [], []
    for st_ in fl.order:
        if isinstance(st_, ast.Expr) and isinstance(st_.value, ast.Call) and U(st_.value.func) == f'{bd_name}.update':
            anyupd.append(st_)
            if [k_.arg for k_ in st_.value.keywords] == ['inpaint_sum'] and not st_.value.args and oe(st_.value.keywords[0].value) == want_inp:
                upd.append(st_)
        elif isinstance(st_, ast.Assign) and U(st_.targets[0]).startswith(f'{bd_name}['):
            anyupd.append(st_)
            if U(st_.targets[0]) == f"{bd_name}['inpaint_sum']" and oe(st_.value) == want_inp:
                upd.append(st_)
    oki = len(upd) == 1 and len(anyupd) == 1
    out.append(f'Definition gen_st_inpaint_is_strictly_below : bool := {"true" if oki else "false"}.')
    okc = False
    if upd:
        gs_ = fl.guard_nodes(upd[0])      # (path condition, with local names standing for what they were assigned)
        if len(gs_) == 1 and gs_[0][1]:
            tst = gs_[0][0]
            if isinstance(tst, ast.BoolOp) and isinstance(tst.op, ast.And):
                parts = sorted(U(v) for v in tst.values)
                okc = parts == sorted(['self._model == Model.gain_offset', 'self._r2_inpaint_thresh is not None', f'{band_p} >= self._param_im.count * 2 / 3'])
    out.append(f'Definition gen_st_inpaint_bands_ok : bool := {"true" if okc else "false"}.   (* gain-offset, threshold recorded, 0-based band >= count * 2 / 3 *)')
    fs = find_func(sm, 'ParamStats', 'stats')
    fls = Flow(fs, inline=generic_inliner(sm, 'ParamStats', keep=('stats', '_get_data_window', '_get_image_stats', '_assert_open')))
    res = [s for s in ast.walk(fs) if isinstance(s, ast.Assign) and isinstance(s.targets[0], ast.Tuple) and isinstance(s.value, ast.Call)
           and isinstance(s.value.func, ast.Attribute) and s.value.func.attr == 'result']
    oku = False
    if len(res) == 1 and len(res[0].targets[0].elts) == 2:
        bdn, bn = (U(e) for e in res[0].targets[0].elts)
        ups = [c for c in fls.calls(lambda c: isinstance(c.func, ast.Attribute) and c.func.attr == 'update') if U(c.func.value).endswith(f'[{bn}]')]
        accs = {U(c.func.value) for c in ups}
        if len(accs) == 1:
            a = accs.pop()
            up = [U(c) for c in ups]
            want = [f"min=np.nanmin(({a}.get('min', np.inf), {bdn}['min']))", f"max=np.nanmax(({a}.get('max', -np.inf), {bdn}['max']))",
                    f"sum=np.nansum(({a}.get('sum', 0), {bdn}['sum']))", f"sum2=np.nansum(({a}.get('sum2', 0), {bdn}['sum2']))",
                    f"n=np.nansum(({a}.get('n', 0), {bdn}['n']))", f"inpaint_sum=np.nansum(({a}.get('inpaint_sum', 0), {bdn}['inpaint_sum']))"]
            oku = len(up) == 2 and all(w in ''.join(up) for w in want)
    out.append(f'Definition gen_st_accumulate_ok : bool := {"true" if oku else "false"}.    (* min / max / sums folded block by block from inf / -inf / 0 *)')


def generate():
    out = []
    km = parse_source((REPO / 'homonim' / 'kernel_model.py').read_text())
    kernel_part(km, out)
    compare_part(parse_source((REPO / 'homonim' / 'compare.py').read_text()), out)
    stats_part(parse_source((REPO / 'homonim' / 'stats.py').read_text()), out)
    return out


HEADER = '''(* GENERATED by translate/formulas.py from /repo/homonim - do not edit.
   The closed-form arithmetic of the current source as Gallina terms over Q, obtained by resolving what each function stores / returns back
   to its inputs.  Variables: N X Y XY XX YY = kernel sums of mask, source, reference, source*reference, source^2, reference^2;
   m c = gain, offset; na nb = block normalisation; RR = sum of squared residuals; S S2 n I = accumulated sum, sum of squares, count,
   in-paint count.  Boolean atoms: joint = the joint mask, r2gt = R2 > threshold, mpos = gain > 0. *)
From Coq Require Import QArith List String Bool.
From HVgen Require NormalFormCases.     (* the source was read through the normal form that file ties to its proved model *)
Import ListNotations.
Open Scope Q_scope.

Definition translation_failed : bool := %s.
'''


def main():
    try:
        body = generate()
        text = HEADER % 'false' + '\n'.join(body) + '\n'
        ok = True
    except (TranslatorError, SyntaxError, OSError, IndexError, KeyError, AttributeError, TypeError, ValueError) as ex:
        msg = f'{type(ex).__name__}: {ex}'.replace('(*', '( *').replace('*)', '* )')
        text = HEADER % 'true' + f'(* translator error: {msg} *)\n'
        ok = False
    out = Path(os.environ.get('FORMULAS_OUT', OUT))
    if not out.exists() or out.read_text() != text:
        (print('CHANGED', out.name) if os.environ.get('REGEN_DRY') else out.write_text(text))
    return ok


if __name__ == '__main__':
    sys.exit(0 if main() else 1)
