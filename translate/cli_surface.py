#!/venv/bin/python
"""Emit coq/gen/CliSurface.v: the click surface of homonim's commands and the key lists of the API configuration
dictionaries, as they are in /repo's current working tree (introspection of the imported module + ast of the callbacks)."""
import ast
import inspect
import os
import sys
from pathlib import Path

VERIF = Path(__file__).resolve().parents[1]
REPO = Path(os.environ.get('HOMONIM_REPO', '/repo'))
OUT = Path(os.environ.get('CLI_SURFACE_OUT', VERIF / 'coq' / 'gen' / 'CliSurface.v'))


sys.path.insert(0, str(VERIF))


def coq_list(xs):
    return '[' + '; '.join('"%s"' % x for x in xs) + ']'


def names_used(func):
    """parameter names referenced in the body of a function (ast)"""
    src = inspect.getsource(func)
    tree = ast.parse(src.lstrip() if src.startswith(' ') else src)
    fn = next(n for n in ast.walk(tree) if isinstance(n, ast.FunctionDef))
    used = set()
    for stmt in fn.body:
        for n in ast.walk(stmt):
            if isinstance(n, ast.Name):
                used.add(n.id)
    return used


def generate():
    for m in [k for k in sys.modules if k == 'homonim' or k.startswith('homonim.')]:
        del sys.modules[m]
    sys.path.insert(0, str(REPO))
    import warnings
    warnings.filterwarnings('ignore')
    from homonim import cli as hcli, RasterFuse, RasterCompare
    out = []
    for name in ('fuse', 'compare', 'stats'):
        cmd = hcli.cli.commands[name]
        opts = [p.name for p in cmd.params]
        sig = inspect.signature(cmd.callback)
        named = [p for p in sig.parameters if p not in ('ctx', 'kwargs')]
        has_kwargs = any(p.kind == inspect.Parameter.VAR_KEYWORD for p in sig.parameters.values())
        used = sorted(names_used(cmd.callback) & set(named))
        out.append(f'Definition {name}_options : list string := {coq_list(opts)}.')
        out.append(f'Definition {name}_named : list string := {coq_list(named)}.')
        out.append(f'Definition {name}_named_used : list string := {coq_list(used)}.')
        out.append(f'Definition {name}_has_kwargs : bool := {"true" if has_kwargs else "false"}.')
    fuse = hcli.cli.commands['fuse']
    k = next(p for p in fuse.params if p.name == 'kernel_shape')
    out.append(f'Definition kernel_nargs : nat := {k.nargs}.')
    out.append(f'Definition kernel_metavar : string := "{k.metavar}".')
    out.append(f'Definition block_keys : list string := {coq_list(RasterFuse.create_block_config().keys())}.')
    out.append(f'Definition model_keys : list string := {coq_list(RasterFuse.create_model_config().keys())}.')
    out.append(f'Definition out_keys : list string := {coq_list(RasterFuse.create_out_profile().keys())}.')
    out.append(f'Definition compare_keys : list string := {coq_list(RasterCompare.create_config().keys())}.')
    # how the fuse callback builds the three dictionaries and passes positional arguments (ast)
    src = inspect.getsource(fuse.callback)
    tree = ast.parse(src)
    fn = next(n for n in ast.walk(tree) if isinstance(n, ast.FunctionDef))
    dict_calls = {}
    for n in ast.walk(fn):
        if isinstance(n, ast.Assign) and isinstance(n.value, ast.Call) and ast.unparse(n.value.func) == '_update_existing_keys':
            tgt = ast.unparse(n.targets[0])
            dict_calls[tgt] = ast.unparse(n.value.args[0]) + ('|kwargs' if any(kw.arg is None and ast.unparse(kw.value) == 'kwargs' for kw in n.value.keywords) else '')
    # ... read off the resolved RasterFuse.process call when there is one: its three dictionary arguments, whatever carries them there
    try:
        from translate.resolve import Flow as _Flow
        _mod = ast.parse(inspect.getsource(hcli))
        _fn = next(n for n in _mod.body if isinstance(n, ast.FunctionDef) and n.name == fn.name)
        _fl = _Flow(_fn, module=_mod)
        _proc = _fl.calls(lambda c: ast.unparse(c.func).endswith('.process'))
        if len(_proc) == 1:
            got = {}
            for kw_ in _proc[0].keywords:
                v_ = kw_.value
                if kw_.arg in ('block_config', 'model_config', 'out_profile') and isinstance(v_, ast.Call) and ast.unparse(v_.func) == '_update_existing_keys' and v_.args:
                    got[kw_.arg] = ast.unparse(v_.args[0]) + ('|kwargs' if any(k_.arg is None and ast.unparse(k_.value) == 'kwargs' for k_ in v_.keywords) else '')
            if len(got) == 3 or any(kw_.arg in ('block_config', 'model_config', 'out_profile') for kw_ in _proc[0].keywords):
                dict_calls = got        # (a dictionary that reaches the call by another route than the defaults + kwargs is not listed)
    except Exception:       # noqa: B902 - the plain reading above stands
        pass
    out.append(f'Definition fuse_dicts_from_kwargs : list (string * string) := [{"; ".join(chr(34) + a + chr(34) + ", " + chr(34) + b + chr(34) for a, b in ((k2, v) for k2, v in sorted(dict_calls.items())) )}]%string.'.replace('["', '[("').replace('"; "', '"); ("').replace('"]%', '")]%') if dict_calls else 'Definition fuse_dicts_from_kwargs : list (string * string) := [].')
    # process(corr_filename, Model(model), kernel_shape, ...): kernel_shape passed through unchanged as the 3rd positional argument
    kernel_direct = False
    for n in ast.walk(fn):
        if isinstance(n, ast.Call) and ast.unparse(n.func).endswith('.process') and len(n.args) >= 3:
            kernel_direct = ast.unparse(n.args[2]) == 'kernel_shape'
    if not kernel_direct:
        # ... or in a helper function of the module that the callback hands its kernel_shape to, under whatever name
        mod = ast.parse(inspect.getsource(hcli))
        helpers = {n.name: n for n in mod.body if isinstance(n, ast.FunctionDef)}
        for c in [n for n in ast.walk(fn) if isinstance(n, ast.Call) and isinstance(n.func, ast.Name) and n.func.id in helpers]:
            h = helpers[c.func.id]
            hp = [a.arg for a in h.args.posonlyargs + h.args.args]
            passed = {hp[i]: ast.unparse(a) for i, a in enumerate(c.args) if i < len(hp)}
            passed.update({k.arg: ast.unparse(k.value) for k in c.keywords if k.arg})
            for n in ast.walk(h):
                if isinstance(n, ast.Call) and ast.unparse(n.func).endswith('.process') and len(n.args) >= 3 and isinstance(n.args[2], ast.Name):
                    kernel_direct = kernel_direct or passed.get(n.args[2].id) == 'kernel_shape'
    out.append(f'Definition kernel_passed_unchanged : bool := {"true" if kernel_direct else "false"}.')
    # FuseCommand (invoke or a helper it calls): unknown configuration keys are rejected, DEFAULT-sourced values are overridden by the file, and
    # EVERY entry of the file takes part.  Decided on path conditions (translate/resolve.py), not on spelling: the statement that stores an
    # entry into <ctx>.params runs exactly when the key is a known parameter and its source is DEFAULT; the rejection exactly when it is not known.
    import textwrap
    from translate.resolve import Flow
    cls = ast.parse(textwrap.dedent(inspect.getsource(hcli.FuseCommand))).body[0]
    rejected, only_default = False, False
    for f in [n for n in cls.body if isinstance(n, ast.FunctionDef)]:
        for loop in [n for n in ast.walk(f) if isinstance(n, ast.For) and isinstance(n.iter, ast.Call) and isinstance(n.iter.func, ast.Attribute)
                     and n.iter.func.attr == 'items' and isinstance(n.target, ast.Tuple) and len(n.target.elts) == 2]:
            key, val = (ast.unparse(e) for e in loop.target.elts)
            stores = [n for n in ast.walk(loop) if isinstance(n, ast.Assign) and isinstance(n.targets[0], ast.Subscript)
                      and ast.unparse(n.targets[0]).endswith(f'.params[{key}]') and ast.unparse(n.value) == val]
            if len(stores) != 1:
                continue
            fl = Flow(f)
            C = ast.unparse(stores[0].targets[0].value)[:-len('.params')]
            if fl.text(loop.iter, loop) != 'yaml.safe_load(f).items()':
                continue

            def norm(gs):
                out_ = set()
                for (t, br) in gs:
                    if key not in t:
                        continue          # conditions about something else than the entry (is there a file at all, ...)
                    t = t.replace(' ', '')
                    if t.startswith('not(') and t.endswith(')'):
                        t, br = t[4:-1], not br
                    if '!=' in t:
                        t, br = t.replace('!=', '=='), not br
                    if 'notin' in t:
                        t, br = t.replace('notin', 'in'), not br
                    out_.add((t, br))
                return out_
            want_known = (f'{key}in{C}.params', True)
            want_default = (f'{C}.get_parameter_source({key})==ParameterSource.DEFAULT', True)
            only_default = norm(fl.guards(stores[0], raises=True)) == {want_known, want_default}
            raises = [n for n in ast.walk(loop) if isinstance(n, ast.Raise) and 'BadParameter' in ast.unparse(n)]
            rejected = len(raises) == 1 and norm(fl.guards(raises[0], raises=True)) == {(want_known[0], False)}
    out.append(f'Definition conf_unknown_rejected : bool := {"true" if rejected else "false"}.')
    out.append(f'Definition conf_overrides_default_only : bool := {"true" if only_default else "false"}.')
    head = ('(* GENERATED by translate/cli_surface.py from the imported homonim.cli of the current working tree - do not edit. *)\n'
            'From Coq Require Import List String Bool.\nImport ListNotations.\nOpen Scope string_scope.\n\n')
    return head + '\n'.join(out) + '\n'


def main():
    try:
        text = generate()
    except Exception as ex:   # noqa: B902 - fail closed
        text = ('(* GENERATED by translate/cli_surface.py: INTROSPECTION FAILED: ' + str(ex)[:300].replace('*)', '* )') + ' *)\n'
                'From Coq Require Import List Bool.\nDefinition cli_translation_failed : bool := true.\n')
        print(f'cli_surface error: {ex}', file=sys.stderr)
        if not OUT.exists() or OUT.read_text() != text:
            (print('CHANGED', OUT.name) if os.environ.get('REGEN_DRY') else OUT.write_text(text))
        return False
    OUT.parent.mkdir(parents=True, exist_ok=True)
    if not OUT.exists() or OUT.read_text() != text:
        (print('CHANGED', OUT.name) if os.environ.get('REGEN_DRY') else OUT.write_text(text))
    return True


if __name__ == '__main__':
    sys.exit(0 if main() else 1)
