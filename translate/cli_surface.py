#!/venv/bin/python
"""Emit coq/gen/CliSurface.v: the click surface of homonim's commands and the key lists of the API configuration
dictionaries, as they are in /repo's current working tree (introspection of the imported module + ast of the callbacks)."""
import ast
import inspect
import os
import sys
from pathlib import Path

VERIF = Path(__file__).resolve().parents[1]
REPO = Path(os.environ.get('HOMONIM_REPO', '/repo'))
OUT = VERIF / 'coq' / 'gen' / 'CliSurface.v'


def coq_list(xs):
    return '[' + '; '.join('"%s"' % x for x in xs) + ']'


def names_used(func):
    """parameter names referenced in the body of a function (ast)"""
    src = inspect.getsource(func)
    tree = ast.parse(src.lstrip() if src.startswith(' ') else src)
    fn = next(n for n in ast.walk(tree) if isinstance(n, ast.FunctionDef))
    used = set()
    for stmt in fn.body:
        for n in ast.walk(stmt):
            if isinstance(n, ast.Name):
                used.add(n.id)
    return used


def generate():
    for m in [k for k in sys.modules if k == 'homonim' or k.startswith('homonim.')]:
        del sys.modules[m]
    sys.path.insert(0, str(REPO))
    import warnings
    warnings.filterwarnings('ignore')
    from homonim import cli as hcli, RasterFuse, RasterCompare
    out = []
    for name in ('fuse', 'compare', 'stats'):
        cmd = hcli.cli.commands[name]
        opts = [p.name for p in cmd.params]
        sig = inspect.signature(cmd.callback)
        named = [p for p in sig.parameters if p not in ('ctx', 'kwargs')]
        has_kwargs = any(p.kind == inspect.Parameter.VAR_KEYWORD for p in sig.parameters.values())
        used = sorted(names_used(cmd.callback) & set(named))
        out.append(f'Definition {name}_options : list string := {coq_list(opts)}.')
        out.append(f'Definition {name}_named : list string := {coq_list(named)}.')
        out.append(f'Definition {name}_named_used : list string := {coq_list(used)}.')
        out.append(f'Definition {name}_has_kwargs : bool := {"true" if has_kwargs else "false"}.')
    fuse = hcli.cli.commands['fuse']
    k = next(p for p in fuse.params if p.name == 'kernel_shape')
    out.append(f'Definition kernel_nargs : nat := {k.nargs}.')
    out.append(f'Definition kernel_metavar : string := "{k.metavar}".')
    out.append(f'Definition block_keys : list string := {coq_list(RasterFuse.create_block_config().keys())}.')
    out.append(f'Definition model_keys : list string := {coq_list(RasterFuse.create_model_config().keys())}.')
    out.append(f'Definition out_keys : list string := {coq_list(RasterFuse.create_out_profile().keys())}.')
    out.append(f'Definition compare_keys : list string := {coq_list(RasterCompare.create_config().keys())}.')
    # how the fuse callback builds the three dictionaries and passes positional arguments (ast)
    src = inspect.getsource(fuse.callback)
    tree = ast.parse(src)
    fn = next(n for n in ast.walk(tree) if isinstance(n, ast.FunctionDef))
    dict_calls = {}
    for n in ast.walk(fn):
        if isinstance(n, ast.Assign) and isinstance(n.value, ast.Call) and ast.unparse(n.value.func) == '_update_existing_keys':
            tgt = ast.unparse(n.targets[0])
            dict_calls[tgt] = ast.unparse(n.value.args[0]) + ('|kwargs' if any(kw.arg is None and ast.unparse(kw.value) == 'kwargs' for kw in n.value.keywords) else '')
    out.append(f'Definition fuse_dicts_from_kwargs : list (string * string) := [{"; ".join(chr(34) + a + chr(34) + ", " + chr(34) + b + chr(34) for a, b in ((k2, v) for k2, v in sorted(dict_calls.items())) )}]%string.'.replace('["', '[("').replace('"; "', '"); ("').replace('"]%', '")]%') if dict_calls else 'Definition fuse_dicts_from_kwargs : list (string * string) := [].')
    # process(corr_filename, Model(model), kernel_shape, ...): kernel_shape passed through unchanged as the 3rd positional argument
    kernel_direct = False
    for n in ast.walk(fn):
        if isinstance(n, ast.Call) and ast.unparse(n.func).endswith('.process') and len(n.args) >= 3:
            kernel_direct = ast.unparse(n.args[2]) == 'kernel_shape'
    out.append(f'Definition kernel_passed_unchanged : bool := {"true" if kernel_direct else "false"}.')
    # FuseCommand.invoke: unknown configuration keys are rejected, DEFAULT-sourced values are overridden by the file
    inv = inspect.getsource(hcli.FuseCommand.invoke)
    out.append(f'Definition conf_unknown_rejected : bool := {"true" if ("not in ctx.params" in inv and "BadParameter" in inv) else "false"}.')
    inv_ast = ast.parse(inv.lstrip() if inv.startswith(' ') else __import__('textwrap').dedent(inv))
    only_default = False
    for n in ast.walk(inv_ast):
        if isinstance(n, ast.If) and 'ParameterSource.DEFAULT' in ast.unparse(n.test):
            only_default = ast.unparse(n.test).replace(' ', '') == 'param_src==ParameterSource.DEFAULT'
    # ... and EVERY entry of the file takes part: the dictionary read from the file is used as it is (no filtering, no defaulting), the loop
    # runs over all its items, and nothing but the rejection and the source test stands between an entry and ctx.params
    cd = [ast.unparse(n.value) for n in ast.walk(inv_ast) if isinstance(n, ast.Assign) and ast.unparse(n.targets[0]) == 'config_dict']
    loops = [n for n in ast.walk(inv_ast) if isinstance(n, ast.For) and ast.unparse(n.iter) == 'config_dict.items()']
    whole = cd == ['yaml.safe_load(f)'] and len(loops) == 1 and not any(isinstance(n, ast.Continue) for n in ast.walk(loops[0]))
    ifs_in_loop = [ast.unparse(n.test).replace(' ', '') for n in ast.walk(loops[0]) if isinstance(n, ast.If)] if loops else []
    whole = whole and sorted(ifs_in_loop) == sorted(['conf_keynotinctx.params', 'param_src==ParameterSource.DEFAULT'])
    out.append(f'Definition conf_overrides_default_only : bool := {"true" if only_default and whole else "false"}.')
    head = ('(* GENERATED by translate/cli_surface.py from the imported homonim.cli of the current working tree - do not edit. *)\n'
            'From Coq Require Import List String Bool.\nImport ListNotations.\nOpen Scope string_scope.\n\n')
    return head + '\n'.join(out) + '\n'


def main():
    try:
        text = generate()
    except Exception as ex:   # noqa: B902 - fail closed
        text = ('(* GENERATED by translate/cli_surface.py: INTROSPECTION FAILED: ' + str(ex)[:300].replace('*)', '* )') + ' *)\n'
                'From Coq Require Import List Bool.\nDefinition cli_translation_failed : bool := true.\n')
        print(f'cli_surface error: {ex}', file=sys.stderr)
        if not OUT.exists() or OUT.read_text() != text:
            (print('CHANGED', OUT.name) if os.environ.get('REGEN_DRY') else OUT.write_text(text))
        return False
    OUT.parent.mkdir(parents=True, exist_ok=True)
    if not OUT.exists() or OUT.read_text() != text:
        (print('CHANGED', OUT.name) if os.environ.get('REGEN_DRY') else OUT.write_text(text))
    return True


if __name__ == '__main__':
    sys.exit(0 if main() else 1)
