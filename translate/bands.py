#!/venv/bin/python
"""Emit coq/gen/BandsGen.v: the decision skeleton of matched_pair.MatchedPairReader._match_pair_bands in the current source - under which
conditions it raises, takes the wavelength path, fills the remaining bands in file order / truncated / gives up - as Gallina boolean
functions of (n = number of source bands, m = number of reference bands, force, any(source wavelengths), any(reference wavelengths), enough
bands matched), from the path conditions of its raise statements and assignments (translate/resolve.py).  Fail closed."""
import ast
import os
import sys
from pathlib import Path

VERIF = Path(__file__).resolve().parents[1]
REPO = Path(os.environ.get('HOMONIM_REPO', '/repo'))
OUT = VERIF / 'coq' / 'gen' / 'BandsGen.v'
sys.path.insert(0, str(VERIF))
from translate.resolve import Flow, namedtuples, parse_source      # noqa: E402


class TranslatorError(Exception):
    pass


def U(n):
    return ast.unparse(n)


def generate():
    mp = parse_source((REPO / 'homonim' / 'matched_pair.py').read_text())
    cls = [n for n in mp.body if isinstance(n, ast.ClassDef) and n.name == 'MatchedPairReader'][0]
    f = [n for n in cls.body if isinstance(n, ast.FunctionDef) and n.name == '_match_pair_bands'][0]
    fl = Flow(f)
    # the two band-info calls: (bands, names, wavelengths) of source and reference
    info = [s for s in fl.order if isinstance(s, ast.Assign) and len(s.targets) == 1 and isinstance(s.value, ast.Call) and U(s.value.func).endswith('_get_band_info')]
    if len(info) != 2:
        raise TranslatorError('_match_pair_bands: two _get_band_info calls expected')
    triples = []
    for s_ in info:
        t_ = s_.targets[0]
        if isinstance(t_, ast.Tuple) and len(t_.elts) == 3:
            triples.append([U(e) for e in t_.elts])
        elif isinstance(t_, ast.Name):
            # a (bands, names, wavelengths) record: the module's three-field NamedTuple; uses resolve to <call>.<field>
            recs = [flds for flds in namedtuples(mp).values() if len(flds) == 3]
            if len(recs) != 1:
                raise TranslatorError('_match_pair_bands: band info record')
            call_txt = fl.text(s_.value, s_)
            triples.append([f'{call_txt}.{fld}' for fld in recs[0]])
        else:
            raise TranslatorError('_match_pair_bands: band info target')
    (sb, _sn, sw), (rb, _rn, rw) = triples
    okinfo = U(info[0].value.args[0]) == fl.params[1] and U(info[1].value.args[0]) == fl.params[2] and \
        {k.arg: U(k.value) for k in info[0].value.keywords} == {'bands': 'self._src_bands'} and {k.arg: U(k.value) for k in info[1].value.keywords} == {'bands': 'self._ref_bands'}

    atoms = {f'len({sb}) > len({rb})': '(m <? n)', f'len({rb}) < len({sb})': '(m <? n)', f'len({sb}) == len({rb})': '(n =? m)', f'len({rb}) == len({sb})': '(n =? m)',
             f'len({sb}) != len({rb})': '(negb (n =? m))', f'len({rb}) != len({sb})': '(negb (n =? m))',
             f'len({sb}) <= len({rb})': '(negb (m <? n))', f'len({rb}) >= len({sb})': '(negb (m <? n))',
             'self._force': 'force', f'any({sw})': 'sany', f'any({rw})': 'rany', f'np.any({sw})': 'sany', f'np.any({rw})': 'rany'}

    def btr(n):
        t = U(n)
        if t in atoms:
            return atoms[t]
        if isinstance(n, ast.UnaryOp) and isinstance(n.op, ast.Not):
            return f'(negb {btr(n.operand)})'
        if isinstance(n, ast.BoolOp):
            return '(' + (' && ' if isinstance(n.op, ast.And) else ' || ').join(btr(v) for v in n.values) + ')'
        if isinstance(n, ast.Compare) and len(n.ops) == 1 and isinstance(n.ops[0], ast.Lt) and 'np.isnan' in t and t.endswith(f'min(len({sb}), len({rb}))'):
            return 'short'       # fewer bands matched so far than min(n, m)
        if 'match_dist' in t and '_max_rel_wavelength_diff' in t and t.startswith(('any(', 'np.any(')) and ' > ' in t:
            return 'over'        # some matched distance is over the tolerance
        raise TranslatorError(f'_match_pair_bands: unsupported condition {t[:160]}')

    def cond(node):
        gs = fl.guards(node, raises=True)
        parts = []
        for (t, br) in gs:
            c = btr(ast.parse(t, mode='eval').body)
            parts.append(c if br else f'(negb {c})')
        return '(' + ' && '.join(parts) + ')' if parts else 'true'
    raises = [n for n in ast.walk(f) if isinstance(n, ast.Raise) and not any(isinstance(p, ast.FunctionDef) and p is not f and any(n is m for m in ast.walk(p)) for p in ast.walk(f))]
    kinds = {}
    for r in raises:
        msg = U(r.exc)
        k = 'fewer' if 'has fewer bands' in msg else 'dist' if 'could not be auto-matched' in msg else 'unmatched' if 'Could not match' in msg else None
        if k is None or k in kinds:
            raise TranslatorError(f'_match_pair_bands: unexpected raise {msg[:80]}')
        kinds[k] = cond(r)
    if sorted(kinds) != ['dist', 'fewer', 'unmatched']:
        raise TranslatorError(f'_match_pair_bands: raises {sorted(kinds)}')
    sig = '(n m : nat) (force sany rany over short : bool)'
    out = [f'Definition gen_info_ok : bool := {"true" if okinfo else "false"}.     (* band info of (source image, self._src_bands) and (reference image, self._ref_bands) *)']
    for k in ('fewer', 'dist', 'unmatched'):
        out.append(f'Definition gen_raises_{k} {sig} : bool := {kinds[k]}.')
    # the greedy call: under which condition
    gcalls = [c for c in ast.walk(f) if isinstance(c, ast.Call) and U(c.func) in ('greedy_match', 'self._greedy_match', 'MatchedPairReader._greedy_match')]
    if len(gcalls) != 1:
        raise TranslatorError('_match_pair_bands: one call of greedy_match expected')
    out.append(f'Definition gen_wavelength_path {sig} : bool := {cond(gcalls[0])}.')
    # the two fills: match_bands[unmatched] = ...
    fills = [s for s in fl.order if isinstance(s, ast.Assign) and isinstance(s.targets[0], ast.Subscript) and U(s.targets[0].value) == 'match_bands'
             and U(s.targets[0].slice) == 'unmatched']
    if len(fills) != 2:
        raise TranslatorError(f'_match_pair_bands: two fills of the unmatched bands expected, found {len(fills)}')
    conds = [cond(s) for s in fills]

    def table(c):
        import itertools
        py = c.replace('(n =? m)', 'eq').replace('(m <? n)', 'lt').replace('&&', ' and ').replace('||', ' or ').replace('negb', ' not ')
        return tuple(bool(eval(py, dict(eq=e, lt=l, force=f_, sany=a, rany=r, over=o, short=h, true=True)))      # noqa: S307 (generated from the ast above)
                     for e, l, f_, a, r, o, h in itertools.product([False, True], repeat=7))
    want_order = table('(short && (n =? m))')
    order = [c for c in conds if table(c) == want_order]
    trunc = [c for c in conds if table(c) != want_order]
    if len(trunc) != 1 or len(order) != 1:
        raise TranslatorError(f'_match_pair_bands: fills under {conds}')
    out.append(f'Definition gen_fill_file_order {sig} : bool := {order[0]}.')
    out.append(f'Definition gen_fill_truncated {sig} : bool := {trunc[0]}.')
    return out


HEADER = '''(* GENERATED by translate/bands.py from /repo/homonim - do not edit.
   Decision skeleton of MatchedPairReader._match_pair_bands: n / m = number of selected source / reference bands, force, sany / rany = any(wavelengths)
   as Python evaluates it, over = some matched distance exceeds the tolerance, short = fewer than min(n, m) bands matched by wavelength. *)
From Coq Require Import Arith Bool.
From HVgen Require NormalFormCases.     (* the source was read through the normal form that file ties to its proved model *)

Definition translation_failed : bool := %s.
'''


def main():
    try:
        text = HEADER % 'false' + '\n'.join(generate()) + '\n'
        ok = True
    except (TranslatorError, SyntaxError, OSError, IndexError, KeyError, AttributeError, TypeError, ValueError) as ex:
        msg = f'{type(ex).__name__}: {ex}'.replace('(*', '( *').replace('*)', '* )')
        text = HEADER % 'true' + f'(* translator error: {msg} *)\n'
        ok = False
    out = Path(os.environ.get('BANDS_OUT', OUT))
    if not out.exists() or out.read_text() != text:
        (print('CHANGED', out.name) if os.environ.get('REGEN_DRY') else out.write_text(text))
    return ok


if __name__ == '__main__':
    sys.exit(0 if main() else 1)
