#!/venv/bin/python
"""Emit coq/gen/Pipeline.v: the data flow of one block through the correction pipeline, translated from the Python source of /repo's
current working tree (ast + translate/resolve.py, so by meaning, not by the spelling of locals):

  kernel_model.KernelModel._get_resampling   which configured kernel for which change of resolution
  kernel_model.KernelModel.fit               grid check, dispatch on the model to the three fitters with the configured kernel shape
  kernel_model.RefSpaceModel.fit / apply     source -> reference grid, fit there; first two parameter bands -> source grid; WHICH MASK the
                                             up-sampled parameters get (source mask / full-coverage mask through nearest), for both settings
                                             of mask_partial; base-class apply on the original source block
  kernel_model.SrcSpaceModel.fit             reference -> source grid; fit on a COPY of the source block; which mask the parameters get
  fuse.RasterFuse._process_block             read -> fit -> apply -> write corrected (from apply) and parameters (from fit)
  fuse.RasterFuse.process                    model class by processing grid; find_r2 iff a parameter file is asked for; model / kernel / config handed on
  compare.RasterCompare.get_block_sums       which image is re-projected onto which grid, with which kernel rule

Fail closed: an unrecognised construct is a translator error."""
import ast
import os
import sys
from pathlib import Path

VERIF = Path(__file__).resolve().parents[1]
REPO = Path(os.environ.get('HOMONIM_REPO', '/repo'))
OUT = VERIF / 'coq' / 'gen' / 'Pipeline.v'
sys.path.insert(0, str(VERIF))
from translate.resolve import Flow, helper_inliner, parse_source      # noqa: E402


class TranslatorError(Exception):
    pass


def U(n):
    return ast.unparse(n)


def find_func(tree, cls, fname, inner=None):
    for node in tree.body:
        if isinstance(node, ast.ClassDef) and node.name == cls:
            for f in node.body:
                if isinstance(f, ast.FunctionDef) and f.name == fname:
                    if inner is None:
                        return f
                    for g in ast.walk(f):
                        if isinstance(g, ast.FunctionDef) and g.name == inner:
                            return g
    raise TranslatorError(f'{cls}.{fname}{"." + inner if inner else ""} not found')


def the_return(f):
    r = [n for n in ast.walk(f) if isinstance(n, ast.Return) and n.value is not None]
    if len(r) != 1:
        raise TranslatorError(f'{f.name}: expected exactly one return statement, found {len(r)}')
    return r[0]


def kw(c):
    return {k.arg: k.value for k in c.keywords if k.arg is not None}


def star(c):
    return [U(k.value) for k in c.keywords if k.arg is None]


def guards(f, fl, stmt):
    return fl.guards(stmt)


def holds(gs, flag_txt, value):
    """do the guards hold when the boolean attribute `flag_txt` has `value`?  None if a guard is about something else"""
    for (t, branch) in gs:
        if t == flag_txt:
            v = value
        elif t in (f'not {flag_txt}', f'{flag_txt} is False', f'{flag_txt} == False'):
            v = not value
        else:
            return None
        if v != branch:
            return False
    return True


def reproject_parts(n):
    """<X>.reproject(**<G>.proj_profile, [nodata=..,] resampling=<R>) -> (X, G, nodata text or '', R)"""
    if not (isinstance(n, ast.Call) and isinstance(n.func, ast.Attribute) and n.func.attr == 'reproject' and not n.args):
        return None
    st = star(n)
    k = kw(n)
    if len(st) != 1 or not st[0].endswith('.proj_profile') or 'resampling' not in k or set(k) - {'resampling', 'nodata'}:
        return None
    return n.func.value, st[0][:-len('.proj_profile')], U(k['nodata']) if 'nodata' in k else '', k['resampling']


def resampling_rule(r, frm, to):
    """self._get_resampling(<frm>.res, <to>.res)"""
    return isinstance(r, ast.Call) and U(r.func) == 'self._get_resampling' and [U(a) for a in r.args] == [f'{frm}.res', f'{to}.res'] and not r.keywords


def mask_kind(v, src_p, coverage_of):
    """classify the value stored into the parameters' mask"""
    if U(v) == f'{src_p}.mask':
        return 'MSrc'
    # <full coverage mask>[.reproject(** src.proj_profile, nodata=None, resampling=Resampling.nearest)].array.astype('bool', copy=False)
    if isinstance(v, ast.Call) and isinstance(v.func, ast.Attribute) and v.func.attr == 'astype' and v.args and U(v.args[0]) in ("'bool'", 'bool') \
            and isinstance(v.func.value, ast.Attribute) and v.func.value.attr == 'array':
        inner = v.func.value.value
        rp = reproject_parts(inner)
        if rp is not None:
            x, g, nod, r = rp
            if g == src_p and nod == 'None' and U(r) == 'Resampling.nearest' and coverage_of(x):
                return 'MCoverNearest'
            return 'MOther'
        if coverage_of(inner):
            return 'MCover'
    return 'MOther'


def generate():
    out = []
    km = parse_source((REPO / 'homonim' / 'kernel_model.py').read_text())
    # ---------------------------------------------------------------- _get_resampling
    f = find_func(km, 'KernelModel', '_get_resampling')
    fl = Flow(f, module=km)
    a, b = fl.params[1], fl.params[2]
    rets = [n for n in ast.walk(f) if isinstance(n, ast.Return)]
    pick = None
    if len(rets) == 1 and isinstance(rets[0].value, ast.IfExp):
        t, x, y = rets[0].value.test, U(rets[0].value.body), U(rets[0].value.orelse)
        pick = (fl.text(t, rets[0]), x, y)
    elif len(rets) == 2:
        ifs = [n for n in f.body if isinstance(n, ast.If)]
        if len(ifs) == 1 and len(ifs[0].body) == 1 and isinstance(ifs[0].body[0], ast.Return):
            other = ifs[0].orelse[0] if ifs[0].orelse else f.body[-1]
            if isinstance(other, ast.Return):
                pick = (fl.text(ifs[0].test, ifs[0]), U(ifs[0].body[0].value), U(other.value))
    want_t = f'np.prod(np.abs({a})) <= np.prod(np.abs({b}))'
    if pick is None or pick[0] != want_t or {pick[1], pick[2]} != {'self._downsampling', 'self._upsampling'}:
        raise TranslatorError(f'_get_resampling: {pick}')
    down_first = pick[1] == 'self._downsampling'
    out.append('(* area = |res_x * res_y| of the grid re-projected from / to *)')
    out.append(f'Definition gen_get_resampling (from_area to_area : Q) : resamp := if Qle_bool from_area to_area then {"RDown" if down_first else "RUp"} else {"RUp" if down_first else "RDown"}.')
    # ---------------------------------------------------------------- KernelModel.fit: grid check + dispatch
    f = find_func(km, 'KernelModel', 'fit')
    fl = Flow(f, module=km)
    sp, rp = fl.params[1], fl.params[2]
    calls = [(U(c), fl.guards(c)) for c in fl.calls(lambda c: U(c.func).startswith('self._fit_'))]
    raw = [c for c in ast.walk(f) if isinstance(c, ast.Call) and U(c.func).startswith('self._fit_')]
    calls = [(fl.text(c, fl.stmt_of(c)), fl.guards(c)) for c in raw]
    # ... or dispatched through a dict of bound methods: {Model.x: self._fit_x, ...}.get(self._model, default)(source, reference, kernel_shape=..)
    for r_ in [n for n in ast.walk(f) if isinstance(n, ast.Return) and n.value is not None]:
        v_ = fl.resolve(r_.value, r_)
        if isinstance(v_, ast.Call) and isinstance(v_.func, ast.Call) and isinstance(v_.func.func, ast.Attribute) and v_.func.func.attr == 'get' \
                and isinstance(v_.func.func.value, ast.Dict) and len(v_.func.args) == 2 and U(v_.func.args[0]) == 'self._model':
            table = {U(k_): U(x_) for k_, x_ in zip(v_.func.func.value.keys, v_.func.func.value.values)}
            argtxt = U(ast.Call(func=ast.Name(id='F', ctx=ast.Load()), args=v_.args, keywords=v_.keywords))[1:]
            for model_ in ('gain', 'gain_blk_offset', 'gain_offset'):
                meth = table.get(f'Model.{model_}', U(v_.func.args[1]))
                calls.append((meth + argtxt, fl.guards(r_) + [(f'self._model == Model.{model_}', True)] +
                              [(f'self._model == Model.{o_}', False) for o_ in ('gain', 'gain_blk_offset', 'gain_offset') if o_ != model_]))

    def chosen(model):
        hit = []
        for (c, gs) in calls:
            ok = True
            for (t, br) in gs:
                if t.startswith('self._model == Model.'):
                    v = t == f'self._model == Model.{model}'
                elif 'transform' in t or 'shape' in t:
                    continue
                else:
                    ok = None
                    break
                if v != br:
                    ok = False
                    break
            if ok:
                hit.append(c)
        return hit
    okd = True
    for model, meth in (('gain', '_fit_gain'), ('gain_blk_offset', '_fit_gain_blk_offset'), ('gain_offset', '_fit_gain_offset')):
        okd = okd and chosen(model) == [f'self.{meth}({sp}, {rp}, kernel_shape=self._kernel_shape)']
    out.append(f'Definition gen_fit_dispatch_ok : bool := {"true" if okd else "false"}.     (* model -> its fitter, (source, reference), the configured kernel shape *)')
    chk = [n for n in f.body if isinstance(n, ast.If) and any(isinstance(x, ast.Raise) for x in n.body)]
    okg = len(chk) == 1 and sorted(U(v) for v in (chk[0].test.values if isinstance(chk[0].test, ast.BoolOp) and isinstance(chk[0].test.op, ast.Or) else [])) == \
        sorted([f'{rp}.transform != {sp}.transform', f'{rp}.shape != {sp}.shape'])
    out.append(f'Definition gen_fit_grid_check_ok : bool := {"true" if okg else "false"}.    (* raises unless both blocks are on one grid *)')
    # ---------------------------------------------------------------- RefSpaceModel.fit
    f = find_func(km, 'RefSpaceModel', 'fit')
    fl = Flow(f, module=km)
    sp, rp = fl.params[1], fl.params[2]
    v = fl.resolve(the_return(f).value)
    okr = False
    if isinstance(v, ast.Call) and U(v.func) == 'KernelModel.fit' and len(v.args) == 3 and U(v.args[0]) == 'self' and U(v.args[2]) == rp:
        parts = reproject_parts(v.args[1])
        okr = parts is not None and U(parts[0]) == sp and parts[1] == rp and parts[2] == '' and resampling_rule(parts[3], sp, rp)
    out.append(f'Definition gen_ref_fit_ok : bool := {"true" if okr else "false"}.     (* base fit of (source re-projected onto the reference grid by the rule source -> reference, reference) *)')
    # ---------------------------------------------------------------- RefSpaceModel.apply
    f = find_func(km, 'RefSpaceModel', 'apply')
    fl = Flow(f, module=km)
    sp, pp = fl.params[1], fl.params[2]
    rets_ = [n for n in ast.walk(f) if isinstance(n, ast.Return) and n.value is not None]
    vs = [fl.resolve(r.value, r) for r in rets_]
    if not vs or len({ast.dump(x) for x in vs}) != 1:
        raise TranslatorError('RefSpaceModel.apply: the return statements differ')
    v = vs[0]
    if not (isinstance(v, ast.Call) and U(v.func) == 'KernelModel.apply' and len(v.args) == 3 and U(v.args[0]) == 'self' and U(v.args[1]) == sp):
        raise TranslatorError(f'RefSpaceModel.apply returns {U(v)[:160]}')
    P = v.args[2]
    parts = reproject_parts(P)
    two = f'RasterArray.from_profile({pp}.array[:2], {pp}.profile)'
    okp = parts is not None and U(parts[0]) == two and parts[1] == sp and parts[2] == '' and resampling_rule(parts[3], pp, sp)
    out.append(f'Definition gen_ref_apply_params_ok : bool := {"true" if okp else "false"}.   (* gain and offset bands re-projected onto the source grid by the rule parameters -> source *)')

    def is_cover_call(x, mask_txt, par_txt):
        return isinstance(x, ast.Call) and U(x.func) == 'self._full_coverage_mask' and [U(a_) for a_ in x.args] == [mask_txt, par_txt] and \
            {k.arg: U(k.value) for k in x.keywords} in ({}, {'kernel_shape': 'self._kernel_shape'})

    def cover_ref(x):
        return is_cover_call(x, f'{sp}.mask_ra', two)
    ptxt = U(P)
    mstores = [(s, val) for (s, tgt, kind, val) in fl.stores() if kind == 'assign' and tgt == f'{ptxt}.mask']
    other = [tgt for (s, tgt, kind, val) in fl.stores() if tgt.startswith(ptxt) and tgt != f'{ptxt}.mask']

    def mask_for(flag, stores, classify):
        hit = []
        for (s, val) in stores:
            h = holds(guards(f, fl, s), 'self._mask_partial', flag)
            if h is None:
                return 'MOther'
            if h:
                hit.append(classify(val))
        return hit[0] if len(hit) == 1 else 'MOther'
    cls_ref = lambda val: mask_kind(val, sp, cover_ref)      # noqa: E731
    mt, mf = mask_for(True, mstores, cls_ref), mask_for(False, mstores, cls_ref)
    if other:
        mt = mf = 'MOther'
    out.append(f'Definition gen_ref_apply_mask (mask_partial : bool) : mask_from := if mask_partial then {mt} else {mf}.')
    # ---------------------------------------------------------------- SrcSpaceModel.fit
    f = find_func(km, 'SrcSpaceModel', 'fit')
    fl = Flow(f, module=km)
    sp, rp = fl.params[1], fl.params[2]
    rets_ = [n for n in ast.walk(f) if isinstance(n, ast.Return) and n.value is not None]
    vs = [fl.resolve(r.value, r) for r in rets_]
    if not vs or len({ast.dump(x) for x in vs}) != 1:
        raise TranslatorError('SrcSpaceModel.fit: the return statements differ')
    v = vs[0]
    if not (isinstance(v, ast.Call) and U(v.func) == 'KernelModel.fit' and len(v.args) == 3 and U(v.args[0]) == 'self'):
        raise TranslatorError(f'SrcSpaceModel.fit returns {U(v)[:160]}')
    okc = U(v.args[1]) == f'{sp}.copy()'
    parts = reproject_parts(v.args[2])
    oks = parts is not None and U(parts[0]) == rp and parts[1] == sp and parts[2] == '' and resampling_rule(parts[3], rp, sp)
    out.append(f'Definition gen_src_fit_ok : bool := {"true" if oks else "false"}.     (* base fit of (source, reference re-projected onto the source grid by the rule reference -> source) *)')
    out.append(f'Definition gen_src_fit_copies_source : bool := {"true" if okc else "false"}.    (* the fitters zero / normalise their input in place: they get a copy *)')
    rtxt = U(v)
    two_s = f'RasterArray.from_profile({rtxt}.array[:2], {rtxt}.profile)'

    def cover_src(x):
        return is_cover_call(x, f'{rp}.mask_ra', two_s)
    mstores = [(s, val) for (s, tgt, kind, val) in fl.stores() if kind == 'assign' and tgt == f'{rtxt}.mask']
    other = [tgt for (s, tgt, kind, val) in fl.stores() if tgt.startswith(rtxt) and tgt != f'{rtxt}.mask']
    cls_src = lambda val: mask_kind(val, sp, cover_src)      # noqa: E731
    mt, mf = mask_for(True, mstores, cls_src), mask_for(False, mstores, cls_src)
    if other:
        mt = mf = 'MOther'
    out.append(f'Definition gen_src_fit_mask (mask_partial : bool) : mask_from := if mask_partial then {mt} else {mf}.')
    # ---------------------------------------------------------------- fuse._process_block
    fu = parse_source((REPO / 'homonim' / 'fuse.py').read_text())
    f = find_func(fu, 'RasterFuse', '_process_block')
    fl = Flow(f, inline=helper_inliner(fu, 'RasterFuse', keep=('read', 'block_pairs')))
    bp, md = fl.params[1], fl.params[2]
    un = [s for s in fl.order if isinstance(s, ast.Assign) and isinstance(s.targets[0], ast.Tuple) and fl.text(s.value, s) == f'self.read({bp})']
    okf = False
    if len(un) == 1 and len(un[0].targets[0].elts) == 2:
        sN, rN = (U(e) for e in un[0].targets[0].elts)
        fit_txt = f'{md}.fit({sN}, {rN})'
        apply_txt = f'{md}.apply({sN}, {fit_txt})'
        writes = fl.calls(lambda c: isinstance(c.func, ast.Attribute) and c.func.attr == 'to_rio_dataset')
        recv = sorted(U(c.func.value) for c in writes)
        okf = recv == sorted([apply_txt, fit_txt])
        # ... for EVERY block: the corrected block is written unconditionally, the parameter block whenever there is a parameter dataset (no
        # early exit, no condition on anything remembered from other blocks)
        pim = fl.params[4] if len(fl.params) > 4 else 'param_im'
        for st in fl.order:
            if isinstance(st, ast.Expr) and isinstance(st.value, ast.Call) and isinstance(st.value.func, ast.Attribute) and st.value.func.attr == 'to_rio_dataset':
                gs = fl.guards(st, raises=True)
                who = fl.text(st.value.func.value, st)
                if who == apply_txt:
                    okf = okf and gs == []
                elif who == fit_txt:
                    okf = okf and gs in ([(pim, True)], [(f'{pim} is not None', True)], [(f'not {pim}', False)], [(f'{pim} is None', False)])
        reads = [s_ for s_ in fl.order if s_ is un[0]]
        okf = okf and all(fl.guards(s_, raises=True) == [] for s_ in reads)
    out.append(f'Definition gen_block_flow_ok : bool := {"true" if okf else "false"}.     (* read -> fit -> apply; corrected block = apply(source, fit(source, reference)); parameter block = that fit *)')
    # ---------------------------------------------------------------- fuse.process: which model object
    f = find_func(fu, 'RasterFuse', 'process')
    fl = Flow(f)
    okm = False
    for s in fl.order:
        if isinstance(s, ast.Assign) and isinstance(s.value, ast.Call):
            r = fl.resolve(s.value, s)
            if isinstance(r, ast.Call) and 'SpaceModel' in U(r.func):
                fn = U(r.func)
                a = [U(x) for x in r.args]
                k = {kk: U(vv) for kk, vv in kw(r).items()}
                okm = fn in ('SrcSpaceModel if self.proc_crs == ProcCrs.src else RefSpaceModel', 'RefSpaceModel if self.proc_crs == ProcCrs.ref else SrcSpaceModel',
                             'RefSpaceModel if self.proc_crs != ProcCrs.src else SrcSpaceModel', 'SrcSpaceModel if self.proc_crs != ProcCrs.ref else RefSpaceModel') \
                    and a == [fl.params[2], fl.params[3]] and k.get('find_r2') in (f'{fl.params[4]} is not None', f'(Path({fl.params[4]}) if {fl.params[4]} is not None else None) is not None') \
                    and len(star(r)) == 1 and star(r)[0].startswith('RasterFuse.create_model_config(')
    if not okm:
        # the model class may be chosen by an if statement: accept two assignments of the class under the grid test
        cls_assign = [(fl.text(s.value, s), guards(f, fl, s)) for s in fl.order if isinstance(s, ast.Assign) and U(s.value) in ('SrcSpaceModel', 'RefSpaceModel')]
        if len(cls_assign) == 2:
            pick = {}
            for (c, gs) in cls_assign:
                for grid in ('src', 'ref'):
                    if all((t == f'self.proc_crs == ProcCrs.{grid}') == br if t.startswith('self.proc_crs == ProcCrs.') else
                           ((t != f'self.proc_crs != ProcCrs.{grid}') == br if t.startswith('self.proc_crs != ProcCrs.') else False) for (t, br) in gs) and gs:
                        pick[grid] = c
            mk = [s for s in fl.order if isinstance(s, ast.Assign) and isinstance(s.value, ast.Call) and isinstance(s.value.func, ast.Name)
                  and any(isinstance(t, ast.Name) and t.id == s.value.func.id for cs in [x for x in fl.order if isinstance(x, ast.Assign) and U(x.value) in ('SrcSpaceModel', 'RefSpaceModel')] for t in cs.targets)]
            if pick == {'src': 'SrcSpaceModel', 'ref': 'RefSpaceModel'} and len(mk) == 1:
                r = mk[0].value
                a = [fl.text(x, mk[0]) for x in r.args]
                k = {kk: fl.text(vv, mk[0]) for kk, vv in kw(r).items()}
                okm = a == [fl.params[2], fl.params[3]] and k.get('find_r2', '').endswith('is not None') and len(star(r)) == 1
    out.append(f'Definition gen_model_choice_ok : bool := {"true" if okm else "false"}.    (* source grid -> SrcSpaceModel, reference grid -> RefSpaceModel; model, kernel shape, find_r2 iff a parameter file, model configuration *)')
    # ---------------------------------------------------------------- compare.get_block_sums: re-projection by grid
    cm = parse_source((REPO / 'homonim' / 'compare.py').read_text())
    f = find_func(cm, 'RasterCompare', 'process', 'get_block_sums')
    fl = Flow(f)
    un = [s for s in fl.order if isinstance(s, ast.Assign) and isinstance(s.targets[0], ast.Tuple) and U(s.value) == f'self.read({fl.params[0]})']
    okc = False
    def reprojections(f, fl, sN, rN):
        seen = {}
        for s in fl.order:
            if isinstance(s, ast.Assign) and len(s.targets) == 1 and U(s.targets[0]) in (sN, rN):
                parts = reproject_parts(fl.resolve(s.value, s))
                gs = guards(f, fl, s)
                if parts is None or len(gs) != 1:
                    continue
                t, br = gs[0]
                grid = None
                for g in ('ref', 'src'):
                    if t == f'self.proc_crs == ProcCrs.{g}':
                        grid = g if br else ('src' if g == 'ref' else 'ref')
                    if t == f'self.proc_crs != ProcCrs.{g}':
                        grid = g if not br else ('src' if g == 'ref' else 'ref')
                who = 'src' if U(s.targets[0]) == sN else 'ref'
                x, g2, nod, r = parts
                rule = isinstance(r, ast.Call) and U(r.func) == 'self._get_resampling' and [U(a_) for a_ in r.args[:2]] == [f'{U(x)}.res', f'{g2}.res']
                seen[grid] = (who, U(x) == (sN if who == 'src' else rN), g2 == (rN if who == 'src' else sN), nod == '', rule)
        return seen
    if len(un) == 1 and len(un[0].targets[0].elts) == 2:
        sN, rN = (U(e) for e in un[0].targets[0].elts)
        seen = reprojections(f, fl, sN, rN)
        if not seen:
            # ... or in a method of the class that is handed the two arrays (and hands them back): the same analysis on its body
            meths = {m.name: m for c in cm.body if isinstance(c, ast.ClassDef) and c.name == 'RasterCompare' for m in c.body if isinstance(m, ast.FunctionDef)}
            for s in fl.order:
                if isinstance(s, ast.Assign) and isinstance(s.targets[0], ast.Tuple) and [U(e) for e in s.targets[0].elts] == [sN, rN] and isinstance(s.value, ast.Call) \
                        and U(s.value.func).startswith('self.') and U(s.value.func)[5:] in meths and [U(a_) for a_ in s.value.args[:2]] == [sN, rN]:
                    h = meths[U(s.value.func)[5:]]
                    hp = [a_.arg for a_ in h.args.posonlyargs + h.args.args if a_.arg != 'self']
                    rets = [n for n in ast.walk(h) if isinstance(n, ast.Return)]
                    if len(hp) >= 2 and len(rets) == 1 and U(rets[0].value) in (f'({hp[0]}, {hp[1]})', f'{hp[0]}, {hp[1]}'):
                        seen = reprojections(h, Flow(h), hp[0], hp[1])
        okc = seen == {'ref': ('src', True, True, True, True), 'src': ('ref', True, True, True, True)}
    out.append(f'Definition gen_compare_reproject_ok : bool := {"true" if okc else "false"}.   (* reference grid: source onto it; source grid: reference onto it; kernel by the rule from -> to *)')
    return out


HEADER = '''(* GENERATED by translate/pipeline.py from /repo/homonim - do not edit.
   The path of one block through fit / apply in the current source: re-projections, which mask the parameters get, what is written. *)
From Coq Require Import QArith Bool.
From HVgen Require NormalFormCases.     (* the source was read through the normal form that file ties to its proved model *)
From HV Require Import Kernel.Flow.
Open Scope Q_scope.

Definition translation_failed : bool := %s.
'''


def main():
    try:
        text = HEADER % 'false' + '\n'.join(generate()) + '\n'
        ok = True
    except (TranslatorError, SyntaxError, OSError, IndexError, KeyError, AttributeError, TypeError, ValueError) as ex:
        msg = f'{type(ex).__name__}: {ex}'.replace('(*', '( *').replace('*)', '* )')
        text = HEADER % 'true' + f'(* translator error: {msg} *)\n'
        ok = False
    out = Path(os.environ.get('PIPELINE_OUT', OUT))
    if not out.exists() or out.read_text() != text:
        (print('CHANGED', out.name) if os.environ.get('REGEN_DRY') else out.write_text(text))
    return ok


if __name__ == '__main__':
    sys.exit(0 if main() else 1)
