#!/venv/bin/python
"""Emit coq/gen/Blocks.v: the integer arithmetic of block formation, translated from the Python source of /repo's current working
tree (ast) into Gallina terms over Z, one axis at a time (the source works on (row, col) vectors; both components are translated and
must agree up to the axis index).

  raster_pair.block_pairs   range(start, stop, step) of the block corners, br, in_ul / in_br / out_ul / out_br, the `outer` flag,
                            proc_win_ul / proc_win_br, the BlockSizeError guard
  utils.overlap_for_kernel  ceil(k / 2)
  fuse.RasterFuse.process   the overlap handed to block_pairs (overlap_for_kernel(kernel_shape), + 1 with partial masking)
  compare.RasterCompare.process   block_pairs is called without an overlap

Fail closed: an unrecognised construct is a translator error."""
import ast
import os
import sys
from pathlib import Path

VERIF = Path(__file__).resolve().parents[1]
sys.path.insert(0, str(VERIF))
from translate.resolve import Flow, own_returns, helper_inliner as generic_inliner, parse_source      # noqa: E402
REPO = Path(os.environ.get('HOMONIM_REPO', '/repo'))
OUT = VERIF / 'coq' / 'gen' / 'Blocks.v'


class TranslatorError(Exception):
    pass


def find_func(tree, cls, name):
    for node in tree.body:
        if isinstance(node, ast.ClassDef) and node.name == cls:
            for f in node.body:
                if isinstance(f, ast.FunctionDef) and f.name == name:
                    return f
        if cls is None and isinstance(node, ast.FunctionDef) and node.name == name:
            return node
    raise TranslatorError(f'{cls}.{name} not found')


def one_assign(func, target):
    v = [n.value for n in ast.walk(func) if isinstance(n, ast.Assign) and len(n.targets) == 1 and ast.unparse(n.targets[0]) == target]
    if len(v) != 1:
        raise TranslatorError(f'expected exactly one assignment to {target} in {func.name}, found {len(v)}')
    return v[0]


def U(n):
    return ast.unparse(n)


def canon(t):
    """spelling differences that mean the same"""
    return t.replace(".astype('int')", '.astype(int)').replace('.astype("int")', '.astype(int)')


def guards(f, fl, stmt):
    return fl.guards(stmt)


def module_inliner(tree, cls=None, keep=()):
    """look through calls of simple helper functions of the module (and methods of class `cls`)"""
    methods, funcs = {}, {}
    for node in tree.body:
        if isinstance(node, ast.ClassDef) and node.name == cls:
            methods = {f.name: f for f in node.body if isinstance(f, ast.FunctionDef)}
        if isinstance(node, ast.FunctionDef):
            funcs[node.name] = node

    def simple(g):
        return not any(isinstance(n, (ast.For, ast.While, ast.Try, ast.Yield, ast.YieldFrom, ast.Lambda)) for n in ast.walk(g))

    def inline(call):
        fn = call.func
        if isinstance(fn, ast.Attribute) and isinstance(fn.value, ast.Name) and fn.value.id in ('self', cls) and fn.attr in methods \
                and fn.attr not in keep and simple(methods[fn.attr]):
            return methods[fn.attr]
        if isinstance(fn, ast.Name) and fn.id in funcs and fn.id not in keep and simple(funcs[fn.id]):
            return funcs[fn.id]
        return None
    return inline


class ZVec:
    """a resolved NumPy (row, col) vector expression -> Gallina Z term for one axis (0 = rows, 1 = columns)"""

    def __init__(self, axis, scalars, vectors):
        self.k = axis
        self.scalars = scalars        # resolved text -> Coq variable (scalar leaves, given per axis as a pair)
        self.vectors = vectors        # resolved text -> Coq variable (vector leaves: the same variable name on both axes)

    def tr(self, n):
        t = canon(U(n))
        if t in self.vectors:
            return self.vectors[t]
        if t in self.scalars:
            return self.scalars[t][self.k] if isinstance(self.scalars[t], tuple) else self.scalars[t]
        if isinstance(n, ast.Constant) and isinstance(n.value, int) and not isinstance(n.value, bool):
            return str(n.value)
        if isinstance(n, (ast.Tuple, ast.List)) and len(n.elts) == 2:
            return self.tr(n.elts[self.k])
        if isinstance(n, ast.Call) and U(n.func) == 'np.array' and len(n.args) == 1 and not n.keywords:
            return self.tr(n.args[0])
        if isinstance(n, ast.Call) and isinstance(n.func, ast.Attribute) and n.func.attr == 'astype' and len(n.args) == 1 \
                and U(n.args[0]) in ("'int'", 'int') and not n.keywords:
            return self.tr(n.func.value)
        if isinstance(n, ast.BinOp):
            op = {ast.Add: '+', ast.Sub: '-', ast.Mult: '*'}.get(type(n.op))
            if op is None:
                raise TranslatorError(f'unsupported operator in {t}')
            return f'({self.tr(n.left)} {op} {self.tr(n.right)})'
        if isinstance(n, ast.Call) and U(n.func) in ('np.fmax', 'np.fmin', 'np.maximum', 'np.minimum') and len(n.args) == 2 and not n.keywords:
            return f'(Z.{"max" if U(n.func) in ("np.fmax", "np.maximum") else "min"} {self.tr(n.args[0])} {self.tr(n.args[1])})'
        if isinstance(n, ast.Call) and U(n.func) in ('np.subtract', 'np.add') and len(n.args) == 2 and not n.keywords:
            return f'({self.tr(n.args[0])} {"-" if U(n.func) == "np.subtract" else "+"} {self.tr(n.args[1])})'
        if isinstance(n, ast.Subscript) and isinstance(n.slice, ast.Constant) and n.slice.value in (0, 1):
            if n.slice.value != self.k:
                raise TranslatorError(f'component {n.slice.value} used on axis {self.k}: {t}')
            return self.tr(n.value)
        raise TranslatorError(f'unsupported expression: {t[:200]}')


def window_parts(n):
    """Window(*A[::-1], *B[::-1]) or Window(col_off, row_off, width, height) -> (corner vector node or pair, shape vector node or pair)"""
    if not (isinstance(n, ast.Call) and U(n.func) == 'Window' and not n.keywords):
        return None
    if len(n.args) == 2 and all(isinstance(a, ast.Starred) and isinstance(a.value, ast.Subscript) and U(a.value.slice) == '::-1' for a in n.args):
        return n.args[0].value.value, n.args[1].value.value
    if len(n.args) == 4 and not any(isinstance(a, ast.Starred) for a in n.args):
        return ast.Tuple(elts=[n.args[1], n.args[0]], ctx=ast.Load()), ast.Tuple(elts=[n.args[3], n.args[2]], ctx=ast.Load())
    return None


def block_pairs_part(rp, out):
    f = find_func(rp, 'RasterPairReader', 'block_pairs')
    fl = Flow(f, inline=module_inliner(rp, 'RasterPairReader', keep=('_auto_block_shape', 'block_pairs', 'read', '_assert_open')))
    ov_p, mem_p = fl.params[1], fl.params[2]
    # the two BlockPair(...) constructions, by processing grid
    made = {}
    for n in ast.walk(f):
        if isinstance(n, ast.Call) and U(n.func) == 'BlockPair':
            gs = guards(f, fl, n)
            grid = None
            for (t, br) in gs:
                for g in ('ref', 'src'):
                    if t == f'self.proc_crs == ProcCrs.{g}':
                        grid = g if br else ('src' if g == 'ref' else 'ref')
                    if t == f'self.proc_crs != ProcCrs.{g}':
                        grid = g if not br else ('src' if g == 'ref' else 'ref')
            if grid is None or grid in made or n.keywords or len(n.args) != 6:
                raise TranslatorError(f'block_pairs: unexpected BlockPair construction {U(n)[:120]}')
            made[grid] = [fl.resolve(a, fl.stmt_of(n)) for a in n.args]
    if sorted(made) != ['ref', 'src']:
        raise TranslatorError('block_pairs: one BlockPair per processing grid expected')
    # BlockPair(band_i, src_in, ref_in, src_out, ref_out, outer): processing-grid windows are ref_* on the reference grid and src_* on the source grid
    pin, pout, oin, oout = made['ref'][2], made['ref'][4], made['ref'][1], made['ref'][3]
    same = [ast.dump(x) for x in (pin, pout, oin, oout)] == [ast.dump(x) for x in (made['src'][1], made['src'][3], made['src'][2], made['src'][4])]
    same = same and ast.dump(made['ref'][0]) == ast.dump(made['src'][0]) and ast.dump(made['ref'][5]) == ast.dump(made['src'][5])
    out.append(f'Definition gen_block_pair_fields_ok : bool := {"true" if same else "false"}.   (* (band, src_in, ref_in, src_out, ref_out, outer) on both grids *)')
    # loops: bands outermost, then product(row range, column range)
    loops = [n for n in ast.walk(f) if isinstance(n, ast.For)]
    prod = [n for n in loops if isinstance(n.iter, ast.Call) and U(n.iter.func) in ('product', 'itertools.product') and len(n.iter.args) == 2
            and isinstance(n.target, ast.Tuple) and len(n.target.elts) == 2]
    band = [(n, n.target) for n in loops if fl.text(n.iter, n) in ('range(len(self._src_bands))', 'range(0, len(self._src_bands))') and isinstance(n.target, ast.Name)]
    band += [(n, n.target.elts[0]) for n in loops if fl.text(n.iter, n) == 'enumerate(self._src_bands)' and isinstance(n.target, ast.Tuple)
             and len(n.target.elts) == 2 and isinstance(n.target.elts[0], ast.Name)]
    if len(prod) != 1 or len(band) != 1:
        raise TranslatorError('block_pairs: loops over the bands and over product(rows, columns) expected')
    urow, ucol = (U(e) for e in prod[0].target.elts)
    ok_order = any(m is prod[0] for m in ast.walk(band[0][0])) and U(made['ref'][0]) == U(band[0][1])
    out.append(f'Definition gen_rows_outer_bands_outermost : bool := {"true" if ok_order else "false"}.')
    rngs = [fl.resolve(a, prod[0]) for a in prod[0].iter.args]
    # the processing window: one name carrying row_off / col_off / height / width
    wins = {n.value.id for r in rngs for n in ast.walk(r) if isinstance(n, ast.Attribute) and n.attr in ('row_off', 'col_off', 'height', 'width') and isinstance(n.value, ast.Name)}
    if len(wins) != 1:
        raise TranslatorError(f'block_pairs: processing window {wins}')
    W = wins.pop()
    ov_txt = canon(U(fl.resolve(ast.Name(id=ov_p, ctx=ast.Load()), prod[0])))
    bs_txts = {canon(U(n)) for r in rngs for n in ast.walk(r) if isinstance(n, ast.Call) and U(n.func) == 'self._auto_block_shape'}
    # (further keyword arguments that default to today's behaviour may be handed on)
    if len(bs_txts) != 1 or not next(iter(bs_txts)).startswith(f'self._auto_block_shape(max_block_mem={mem_p}'):
        raise TranslatorError(f'block_pairs: block shape {bs_txts}')
    bs_txt = bs_txts.pop()
    rng = []
    for k, r in enumerate(rngs):
        if not (isinstance(r, ast.Call) and U(r.func) == 'range' and len(r.args) == 3):
            raise TranslatorError('block_pairs: range(start, stop, step) expected')
        z = ZVec(k, {f'{W}.row_off': ('off', '?'), f'{W}.col_off': ('?', 'off'), f'{W}.height': ('n', '?'), f'{W}.width': ('?', 'n')},
                 {ov_txt: 'ov', bs_txt: 'bs'})
        rng.append([z.tr(a) for a in r.args])
    if rng[0] != rng[1] or any('?' in t for t in rng[0]):
        raise TranslatorError(f'row and column ranges differ: {rng}')
    for nm, term in zip(('range_start', 'range_stop', 'range_step'), rng[0]):
        out.append(f'Definition gen_{nm} (off n bs ov : Z) : Z := {term}.')
    # the processing-grid windows, per axis
    def axis_terms(win):
        parts = window_parts(win)
        if parts is None:
            raise TranslatorError(f'block_pairs: window {U(win)[:160]}')
        res = []
        for k in (0, 1):
            z = ZVec(k, {urow: ('u', '?'), ucol: ('?', 'u'), f'{W}.row_off': ('lo', '?'), f'{W}.col_off': ('?', 'lo'),
                         f'{W}.height + {W}.row_off': ('hi', '?'), f'{W}.row_off + {W}.height': ('hi', '?'),
                         f'{W}.width + {W}.col_off': ('?', 'hi'), f'{W}.col_off + {W}.width': ('?', 'hi')}, {ov_txt: 'ov', bs_txt: 'bs'})
            res.append((z.tr(parts[0]), z.tr(parts[1])))
        if res[0] != res[1] or '?' in ''.join(res[0]):
            raise TranslatorError(f'block_pairs: rows and columns are treated differently: {res}')
        return res[0]
    ilo, ilen = axis_terms(pin)
    olo, olen = axis_terms(pout)
    sig = '(u bs ov lo hi : Z)'
    out.append(f'Definition gen_in_lo {sig} : Z := {ilo}.')
    out.append(f'Definition gen_in_len {sig} : Z := {ilen}.')
    out.append(f'Definition gen_out_lo {sig} : Z := {olo}.')
    out.append(f'Definition gen_out_len {sig} : Z := {olen}.')
    # outer flag: any(in_ul <= window ul) or any(in_br >= window br)
    o = made['ref'][5]
    oko = False
    if isinstance(o, ast.BoolOp) and isinstance(o.op, ast.Or) and len(o.values) == 2 and all(isinstance(v, ast.Call) and U(v.func) == 'np.any' for v in o.values):
        def le(c):
            # a comparison as (smaller side, larger side) of a <= relation, or None
            if isinstance(c, ast.Compare) and len(c.ops) == 1 and isinstance(c.ops[0], (ast.LtE, ast.GtE)):
                return (c.left, c.comparators[0]) if isinstance(c.ops[0], ast.LtE) else (c.comparators[0], c.left)
            return None
        c1, c2 = le(o.values[0].args[0]), le(o.values[1].args[0])
        if c1 is not None and c2 is not None:
            try:
                t = []
                for k in (0, 1):
                    z = ZVec(k, {urow: ('u', '?'), ucol: ('?', 'u'), f'{W}.row_off': ('lo', '?'), f'{W}.col_off': ('?', 'lo'),
                                 f'{W}.height + {W}.row_off': ('hi', '?'), f'{W}.row_off + {W}.height': ('hi', '?'),
                                 f'{W}.width + {W}.col_off': ('?', 'hi'), f'{W}.col_off + {W}.width': ('?', 'hi')}, {ov_txt: 'ov', bs_txt: 'bs'})
                    t.append((z.tr(c1[0]), z.tr(c1[1]), z.tr(c2[1]), z.tr(c2[0])))
                oko = t[0] == t[1] and t[0][0] == ilo and t[0][1] == 'lo' and t[0][3] == 'hi'
                out.append(f'Definition gen_outer_hi_term {sig} : Z := {t[0][2]}.')
            except TranslatorError:
                oko = False
    if not any(l.startswith('Definition gen_outer_hi_term') for l in out):
        out.append(f'Definition gen_outer_hi_term {sig} : Z := 0.')
    out.append(f'Definition gen_outer_ok : bool := {"true" if oko else "false"}.     (* outer = any(in_lo <= lo) or any(in_hi >= hi) *)')
    # the guard: block shape must exceed the overlap
    gd = [n for n in ast.walk(f) if isinstance(n, ast.If) and any(isinstance(x, ast.Raise) and 'BlockSizeError' in U(x) for x in n.body)]
    gtxt = canon(fl.text(gd[0].test, gd[0])) if len(gd) == 1 else ''
    okg = gtxt in (f'np.any({bs_txt} <= {ov_txt})', f'np.any({ov_txt} >= {bs_txt})')
    out.append('Definition gen_block_guard_ok : bool := %s.      (* raises unless block_shape > overlap on both axes *)' % ('true' if okg else 'false'))
    # the other grid: input window = the expanded window of the processing input block's bounds; output corners rounded from the processing output corners
    # (checked as text on the resolved expressions; the float arithmetic itself is covered by the C06 correspondence)
    ot = canon(U(oin))
    oki = ot.startswith('utils.expand_window_to_grid(') and '.window(*' in ot and '.window_bounds(' in ot and canon(U(pin)) in ot
    oo = window_parts(oout)
    oko2 = False
    if oo is not None:
        a, b = canon(U(oo[0])), canon(U(oo[1]))
        pl = window_parts(pout)
        lo_t, len_t = canon(U(pl[0])), canon(U(pl[1]))
        oko2 = a.startswith('np.round(') and a.endswith('.astype(int)') and f'tuple({lo_t}[::-1])' in a and '[::-1]' in a and b.startswith('np.subtract(np.round(') \
            and b.endswith(f', {a})')
    out.append(f'Definition gen_other_in_ok : bool := {"true" if oki else "false"}.     (* expand_window_to_grid of the other image window of the bounds of the processing input block *)')
    out.append(f'Definition gen_other_out_ok : bool := {"true" if oko2 else "false"}.    (* both corners of the processing output block mapped and rounded once each *)')


def overlap_part(ut, fu, cm, out):
    f = find_func(ut, None, 'overlap_for_kernel')
    fl = Flow(f)
    rets = [n for n in ast.walk(f) if isinstance(n, ast.Return)]
    rtxt = canon(fl.text(rets[0].value, rets[0])) if len(rets) == 1 else ''
    kp = fl.params[0]
    if rtxt not in (f'tuple(np.ceil(np.array({kp}).astype(int) / 2).astype(int))', f'tuple(np.ceil(np.array({kp}) / 2).astype(int))', f'tuple(np.ceil({kp} / 2).astype(int))'):
        raise TranslatorError(f'overlap_for_kernel returns {rtxt}')
    out.append('Definition gen_overlap_for_kernel (k : Z) : Z := - ((- k) / 2).      (* np.ceil(k / 2) *)')
    # ---- fuse.process: the overlap handed to block_pairs, with partial masking off / on
    f = find_func(fu, 'RasterFuse', 'process')
    fl = Flow(f, module=fu, inline=generic_inliner(fu, 'RasterFuse', keep=('read', 'block_pairs', '_process_block', '_out_files'), allow_loops=True))
    ks_p = fl.params[3]
    calls = fl.calls(lambda c: U(c.func) == 'self.block_pairs')
    if not calls:
        raise TranslatorError('process: no call of self.block_pairs')
    passed = set()
    for r in calls:
        kwd = {}
        for k in r.keywords:
            if k.arg is None and isinstance(k.value, ast.Call) and U(k.value.func) == 'dict':
                kwd.update({kk.arg: kk.value for kk in k.value.keywords})
            elif k.arg is None and isinstance(k.value, ast.Dict):
                kwd.update({kk.value: vv for kk, vv in zip(k.value.keys, k.value.values) if isinstance(kk, ast.Constant)})
            elif k.arg is not None:
                kwd[k.arg] = k.value
            else:
                raise TranslatorError(f'process: block_pairs arguments {U(r)[:160]}')
        if r.args or sorted(kwd) != ['max_block_mem', 'overlap']:
            raise TranslatorError(f'process: block_pairs arguments {sorted(kwd)}')
        passed.add((U(kwd['overlap']), U(kwd['max_block_mem'])))
    if len(passed) != 1:
        raise TranslatorError('process: the calls of block_pairs differ')
    ov_txt, mem_txt = passed.pop()
    okmem = mem_txt.endswith("['max_block_mem']") and 'create_block_config' in mem_txt
    out.append('Definition gen_fuse_passes_overlap : bool := %s.' % ('true' if okmem else 'false'))
    base = f'utils.overlap_for_kernel({ks_p})'

    def ovz(n):
        t = U(n)
        if t == base:
            return 'gen_overlap_for_kernel k'
        if isinstance(n, ast.Call) and U(n.func) in ('tuple', 'np.array') and len(n.args) == 1:
            return ovz(n.args[0])
        if isinstance(n, ast.BinOp) and isinstance(n.op, ast.Add) and isinstance(n.right, ast.Constant) and isinstance(n.right.value, int):
            return f'({ovz(n.left)} + {n.right.value})'
        raise TranslatorError(f'process: overlap expression {t[:160]}')
    try:
        both = (ovz(ast.parse(ov_txt, mode='eval').body),) * 2          # not conditional at all
    except TranslatorError:
        # a name assigned under `if <config>['mask_partial']`: evaluate for both settings
        if not ov_txt.isidentifier():
            raise
        asg = [s for s in fl.order if isinstance(s, ast.Assign) and len(s.targets) == 1 and U(s.targets[0]) == ov_txt]
        both = []
        for flag in (False, True):
            val = None
            for s in asg:
                ok = True
                for (t, br) in guards(f, fl, s):
                    if t.endswith("['mask_partial']") and 'create_model_config' in t:
                        v = flag
                    elif t.startswith('not ') and t.endswith("['mask_partial']") and 'create_model_config' in t:
                        v = not flag
                    else:
                        raise TranslatorError(f'process: overlap assigned under an unrecognised condition {t[:120]}')
                    ok = ok and (v == br)
                if ok:
                    val = ovz(fl.resolve(s.value, s))
            if val is None:
                raise TranslatorError('process: no overlap assignment applies')
            both.append(val)
    out.append(f'Definition gen_fuse_overlap (mask_partial : bool) (k : Z) : Z := if mask_partial then {both[1]} else {both[0]}.')
    # ---- compare.process: no overlap
    f = find_func(cm, 'RasterCompare', 'process')
    calls = [c for c in ast.walk(f) if isinstance(c, ast.Call) and U(c.func) == 'self.block_pairs']
    okc = len(calls) == 1 and not calls[0].args and [k.arg for k in calls[0].keywords] == ['max_block_mem']
    out.append('Definition gen_compare_no_overlap : bool := %s.' % ('true' if okc else 'false'))


def bounded_part(ra, out):
    f = find_func(ra, 'RasterArray', 'bounded_window_slices')
    fl = Flow(f)
    ds_p, win_p = fl.params[0], fl.params[1]
    rets = [n for n in ast.walk(f) if isinstance(n, ast.Return)]
    r = fl.resolve(rets[0].value, rets[0]) if len(rets) == 1 else None
    if not (isinstance(r, ast.Tuple) and len(r.elts) == 2):
        raise TranslatorError('bounded_window_slices: (window, slices) expected')
    bw, bs = r.elts
    if not (isinstance(bw, ast.Call) and U(bw.func) == 'Window.from_slices' and len(bw.args) == 2 and all(isinstance(a, ast.Tuple) and len(a.elts) == 2 for a in bw.args)):
        raise TranslatorError(f'bounded_window_slices: bounded window {U(bw)[:160]}')
    if not (isinstance(bs, ast.Tuple) and len(bs.elts) == 2 and all(isinstance(e, ast.Call) and U(e.func) == 'slice' and len(e.args) in (2, 3) for e in bs.elts)):
        raise TranslatorError(f'bounded_window_slices: slices {U(bs)[:160]}')
    terms = []
    for k in (0, 1):
        z = ZVec(k, {f'{win_p}.row_off': ('off', '?'), f'{win_p}.col_off': ('?', 'off'), f'{win_p}.height': ('len', '?'), f'{win_p}.width': ('?', 'len')},
                 {f'{ds_p}.shape': 'n'})
        sl = bs.elts[k]
        if len(sl.args) == 3 and U(sl.args[2]) != 'None':
            raise TranslatorError('bounded_window_slices: slice step')
        terms.append((z.tr(bw.args[k].elts[0]), z.tr(bw.args[k].elts[1]), z.tr(sl.args[0]), z.tr(sl.args[1])))
    if terms[0] != terms[1] or '?' in ''.join(terms[0]):
        raise TranslatorError(f'bounded_window_slices: rows and columns are treated differently {terms}')
    for nm, t in zip(('bounded_ul', 'bounded_br', 'bounded_start', 'bounded_stop'), terms[0]):
        out.append(f'Definition gen_{nm} (n off len : Z) : Z := {t}.')


def layout_part(fu, ut, out):
    f = find_func(fu, 'RasterFuse', '_process_block')
    fl = Flow(f, inline=module_inliner(fu, 'RasterFuse', keep=('read', 'block_pairs')))
    bp, md, cim, pim = fl.params[1:5]
    writes = fl.calls(lambda c: isinstance(c.func, ast.Attribute) and c.func.attr == 'to_rio_dataset')
    corr = [w for w in writes if w.args and U(w.args[0]) == cim]
    par = [w for w in writes if w.args and U(w.args[0]) == pim]
    if len(corr) != 1 or len(par) != 1 or len(writes) != 2:
        raise TranslatorError(f'_process_block: expected one corrected and one parameter write, found {[U(w)[:80] for w in writes]}')
    ck = {k.arg: k.value for k in corr[0].keywords}
    pk = {k.arg: k.value for k in par[0].keywords}
    okc = sorted(ck) == ['indexes', 'window'] and U(ck['indexes']) == f'{bp}.band_i + 1' and U(ck['window']) == f'{bp}.src_out_block'
    out.append(f'Definition gen_corr_write_ok : bool := {"true" if okc else "false"}.     (* band band_i + 1, source output window *)')
    if sorted(pk) != ['indexes', 'window']:
        raise TranslatorError('_process_block: parameter write arguments')
    fit_txt = U(par[0].func.value)
    z = ZExprN({f'np.arange({fit_txt}.count)': 'k', 'len(self.src_bands)': 'n', f'{bp}.band_i': 'i'})
    out.append(f'Definition gen_param_index (n i k : Z) : Z := {z.tr(pk["indexes"])}.')
    pob = pk['window']

    def chosen(grid):
        if not (isinstance(pob, ast.IfExp) and isinstance(pob.test, ast.Compare) and len(pob.test.ops) == 1 and U(pob.test.left) == 'self.proc_crs'
                and U(pob.test.comparators[0]) in ('ProcCrs.ref', 'ProcCrs.src') and isinstance(pob.test.ops[0], (ast.Eq, ast.NotEq))):
            raise TranslatorError(f'param_out_block: unrecognised selection {U(pob)[:160]}')
        eq = U(pob.test.comparators[0]) == 'ProcCrs.' + grid
        truth = eq if isinstance(pob.test.ops[0], ast.Eq) else not eq
        return U(pob.body if truth else pob.orelse)
    okp = chosen('ref') == f'{bp}.ref_out_block' and chosen('src') == f'{bp}.src_out_block'
    out.append(f'Definition gen_param_write_ok : bool := {"true" if okp else "false"}.    (* all parameter bands, processing-grid output window *)')


class ZExprN:
    def __init__(self, names):
        self.names = names

    def tr(self, n):
        txt = U(n)
        if txt in self.names:
            return self.names[txt]
        if isinstance(n, ast.Constant) and isinstance(n.value, int):
            return str(n.value)
        if isinstance(n, ast.BinOp):
            op = {ast.Add: '+', ast.Sub: '-', ast.Mult: '*'}.get(type(n.op))
            if op is None:
                raise TranslatorError(f'unsupported operator in {txt}')
            return f'({self.tr(n.left)} {op} {self.tr(n.right)})'
        if isinstance(n, ast.Call) and U(n.func) in ('np.add', 'np.subtract', 'np.multiply') and len(n.args) == 2 and not n.keywords:
            return f'({self.tr(n.args[0])} {dict(add="+", subtract="-", multiply="*")[U(n.func)[3:]]} {self.tr(n.args[1])})'
        raise TranslatorError(f'unsupported expression: {txt[:160]}')


VEC = {}
SIG = '(u bs ov lo hi : Z)'


def generate():
    out = []
    rp = parse_source((REPO / 'homonim' / 'raster_pair.py').read_text())
    ut = parse_source((REPO / 'homonim' / 'utils.py').read_text())
    fu = parse_source((REPO / 'homonim' / 'fuse.py').read_text())
    cm = parse_source((REPO / 'homonim' / 'compare.py').read_text())
    ra = parse_source((REPO / 'homonim' / 'raster_array.py').read_text())
    block_pairs_part(rp, out)
    overlap_part(ut, fu, cm, out)
    bounded_part(ra, out)
    layout_part(fu, ut, out)
    f = find_func(fu, 'RasterFuse', '_set_param_metadata')
    flm_ = Flow(f, module=fu)
    loops = [n for n in ast.walk(f) if isinstance(n, ast.For) and canon(flm_.text(n.iter, n)).replace('(', '[', 0) in (
        "zip(range(bi, im.count, len(self.src_bands)), ['GAIN', 'OFFSET', 'R2'])", "zip(range(bi, im.count, len(self.src_bands)), ('GAIN', 'OFFSET', 'R2'))")]
    names_ok = len(loops) == 1
    desc_ok = any(ast.unparse(c) == "im.set_band_description(param_i + 1, f'{ref_descr}_{param_name}')" for n in loops for c in ast.walk(n) if isinstance(c, ast.Call))
    out.append(f'Definition gen_labels_ok : bool := {"true" if len(loops) == 1 and names_ok and desc_ok else "false"}.   (* band bi + k * n (0-based) is labelled with parameter k *)')
    def the_assign(tree, target):
        v_ = [n_.value for n_ in ast.walk(tree) if isinstance(n_, ast.Assign) and len(n_.targets) == 1 and ast.unparse(n_.targets[0]) == target]
        if len(v_) != 1:
            raise TranslatorError(f'validate_param_image: expected exactly one assignment to {target} in utils.py, found {len(v_)}')
        return v_[0]
    suf = ast.unparse(the_assign(ut, 'suffixes'))
    nr = ast.unparse(the_assign(ut, 'n_refl_bands'))
    okv = suf == "['gain'] * n_refl_bands + ['offset'] * n_refl_bands + ['r2'] * n_refl_bands" and nr == 'int(param_im.count / 3)'
    out.append(f'Definition gen_validator_ok : bool := {"true" if okv else "false"}.     (* suffix of 0-based band j is parameter j / n *)')
    # ---- partial masking: coverage threshold, structuring element, border
    km = parse_source((REPO / 'homonim' / 'kernel_model.py').read_text())
    f = find_func(km, 'KernelModel', '_full_coverage_mask')
    fl = Flow(f, module=km)
    in_p, par_p = fl.params[1], fl.params[2]
    rets = [n for n in ast.walk(f) if isinstance(n, ast.Return) and n.value is not None]
    if len(rets) != 1:
        raise TranslatorError('_full_coverage_mask: one return expected')
    ret = fl.text(rets[0].value, rets[0])
    er = [(st, v) for (st, t, k, v) in fl.stores() if k == 'assign' and t == f'{ret}.array']
    if len(er) != 1 or not (isinstance(er[0][1], ast.Call) and U(er[0][1].func) == 'cv.erode' and len(er[0][1].args) == 2):
        raise TranslatorError('_full_coverage_mask: the returned mask is not an erosion')
    ecall = er[0][1]
    se = ecall.args[1]
    if not (isinstance(se, ast.Call) and U(se.func) == 'cv.getStructuringElement' and U(se.args[0]) == 'cv.MORPH_RECT'
            and isinstance(se.args[1], ast.Call) and U(se.args[1].func) == 'tuple'):
        raise TranslatorError('_full_coverage_mask: structuring element')
    # the kernel shape: the configured one, or a parameter that defaults to it
    ks = {'self._kernel_shape'} | {p_ for p_, d in fl.default_of.items() if U(d) == 'self._kernel_shape'}
    names = {}
    for k_ in ks:
        for form in (f'{k_}[::-1]', f'tuple({k_})[::-1]', f'tuple({k_}[::-1])', f'list({k_})[::-1]'):
            names[f'np.array({form})'] = 'k'
            names[form] = 'k'
    z = ZExprN(names)
    out.append(f'Definition gen_erode_size (k : Z) : Z := {z.tr(se.args[1].args[0])}.     (* per axis; OpenCV order (x, y) = kernel_shape[::-1] *)')
    m = ecall.args[0]
    ekw = {k.arg: U(k.value) for k in ecall.keywords}
    oke = ekw == {'borderType': 'cv.BORDER_CONSTANT', 'borderValue': '0'} and isinstance(m, ast.BinOp) and isinstance(m.op, ast.BitAnd)
    if oke:
        parts = sorted([canon(U(m.left)), canon(U(m.right))], key=lambda t: t.startswith('('))
        cov_ok = parts[1].startswith(f'({ret}.array >= 1).astype(') and ("'uint8'" in parts[1] or 'np.uint8' in parts[1] or 'uint8' in parts[1])
        oke = parts[0] == f'{par_p}.mask' and cov_ok and \
            ret == f'{in_p}.reproject(**{par_p}.proj_profile, nodata=None, resampling=Resampling.average)'
    out.append(f'Definition gen_partial_mask_ok : bool := {"true" if oke else "false"}.   (* average coverage >= 1, and joint mask, zero border *)')
    # ---- RasterArray._convert_array_dtype: round (half to even), clip, cast, re-mask - in that order, under these conditions
    f = find_func(ra, 'RasterArray', '_convert_array_dtype')
    # (on resolved path conditions: local names, a record of the steps computed by a helper method, etc. all stand for what they were assigned)
    fl = Flow(f, module=ra, inline=generic_inliner(ra, 'RasterArray'))
    UNSAFE = "not np.can_cast(self.dtype, dtype, casting='safe')"
    NODCH = 'nodata is not None and (not utils.nan_equals(nodata, self.nodata))'
    SRCINFO = '(np.iinfo(self.dtype) if np.issubdtype(self.dtype, np.integer) else np.finfo(self.dtype))'
    c_round = f'{UNSAFE} and np.issubdtype(self.dtype, np.floating) and np.issubdtype(dtype, np.integer)'
    c_clip = f'{UNSAFE} and np.issubdtype(dtype, np.integer)'
    c_rng = f'{SRCINFO}.min < np.iinfo(dtype).min or {SRCINFO}.max > np.iinfo(dtype).max'
    entry = ('nodata is not None and (not rio.dtypes.can_cast_dtype(nodata, dtype))', False)      # (raises otherwise)

    def gd(st):
        return [g_ for g_ in fl.guards(st, raises=True) if g_ != entry]
    def remask_cond_ok(gs):
        """truth table over (a nodata value is given, it equals the current one, the cast is unsafe): the invalid pixels are re-written whenever the
        nodata value changes, and never without a nodata value"""
        import itertools
        atoms = {'nodata is not None': lambda a, e, u: a, 'nodata is None': lambda a, e, u: not a, 'utils.nan_equals(nodata, self.nodata)': lambda a, e, u: e,
                 "np.can_cast(self.dtype, dtype, casting='safe')": lambda a, e, u: not u}

        def ev(n, v):
            t = U(n)
            if t in atoms:
                return atoms[t](*v)
            if isinstance(n, ast.UnaryOp) and isinstance(n.op, ast.Not):
                return not ev(n.operand, v)
            if isinstance(n, ast.BoolOp):
                vals = [ev(x, v) for x in n.values]
                return all(vals) if isinstance(n.op, ast.And) else any(vals)
            raise TranslatorError(f'_convert_array_dtype: re-masking condition {t[:120]}')
        try:
            for v in itertools.product((False, True), repeat=3):
                g = all(ev(ast.parse(t_, mode='eval').body, v) == pol_ for t_, pol_ in gs)
                if (v[0] and not v[1] and not g) or (g and not v[0]):
                    return False
            return bool(gs)
        except TranslatorError:
            return False
    pos = {id(st): i for i, st in enumerate(fl.order)}
    step = {}
    for st in fl.order:
        if isinstance(st, ast.Expr) and isinstance(st.value, ast.Call):
            t = fl.text(st.value, st)
            if t == 'np.round(array, out=array)' and gd(st) == [(c_round, True)]:
                step.setdefault('round', []).append(pos[id(st)])
            elif t == 'np.clip(array, np.iinfo(dtype).min, np.iinfo(dtype).max, out=array)' and gd(st) in ([(c_clip, True), (c_rng, True)], [(f'{c_clip} and ({c_rng})', True)]):
                step.setdefault('clip', []).append(pos[id(st)])
            elif 'array' in t and ('out=' in t or '.fill(' in t or '.sort(' in t):
                step.setdefault('other', []).append(pos[id(st)])
        elif isinstance(st, ast.Assign) and U(fl.value(st)) == "array.astype(dtype, copy=False, casting='unsafe')" and not gd(st):
            step.setdefault('cast', []).append(pos[id(st)])
    for (st, t, kind, v) in fl.stores():
        if kind == 'assign' and t.endswith('[~self.mask]') and U(v) == 'nodata':
            g_ = gd(st)
            # (the re-masking condition may be written in several equivalent ways; what matters: it happens whenever the nodata value changes)
            if remask_cond_ok(g_):
                step.setdefault('remask', []).append(pos[id(st)])
        elif kind in ('assign', 'aug') and t.startswith('array'):
            step.setdefault('other', []).append(pos[id(st)])
    okd = all(len(step.get(k_, [])) == 1 for k_ in ('round', 'clip', 'cast', 'remask')) and 'other' not in step \
        and step['round'][0] < step['clip'][0] < step['cast'][0] < step['remask'][0]
    out.append(f'Definition gen_convert_dtype_ok : bool := {"true" if okd else "false"}.   (* rint, saturate, cast, invalid := nodata *)')
    # ---- utils.same_orientation_crs: which image is viewed through a WarpedVRT, as boolean functions of
    #      (source north-up, reference north-up, same CRS, processing grid = source)
    f = find_func(ut, None, 'same_orientation_crs')
    fl = Flow(f, module=ut, assume_defaults=('resampling',), inline=generic_inliner(ut, None, keep=('north_up',), local_to=f))
    sI, rI, pC = fl.params[0], fl.params[1], fl.params[2]

    def btr(n):
        t = U(n)
        if t in (f'{sI}.crs == {rI}.crs', f'{rI}.crs == {sI}.crs'):
            return 'same'
        if t in (f'{sI}.crs != {rI}.crs', f'{rI}.crs != {sI}.crs'):
            return '(negb same)'
        if t == f'north_up({sI})':
            return 'snu'
        if t == f'north_up({rI})':
            return 'rnu'
        if t == f'{pC} == ProcCrs.src':
            return 'psrc'
        if t == f'{pC} != ProcCrs.src':
            return '(negb psrc)'
        if isinstance(n, ast.UnaryOp) and isinstance(n.op, ast.Not):
            return f'(negb {btr(n.operand)})'
        if isinstance(n, ast.BoolOp):
            op = ' && ' if isinstance(n.op, ast.And) else ' || '
            return '(' + op.join(btr(v) for v in n.values) + ')'
        raise TranslatorError(f'same_orientation_crs: unsupported condition {t}')
    seen = {}
    for st in fl.order:
        if isinstance(st, ast.Assign) and len(st.targets) == 1 and U(st.targets[0]) in (sI, rI):
            v = fl.value(st)
            if not (isinstance(v, ast.Call) and U(v.func) == 'WarpedVRT' and len(v.args) == 1 and U(v.args[0]) == U(st.targets[0])):
                raise TranslatorError(f'same_orientation_crs: unrecognised assignment {U(st)[:160]}')
            kwv = {k.arg: U(k.value) for k in v.keywords}
            if sorted(kwv) != ['crs', 'resampling'] or kwv['resampling'] != 'Resampling.bilinear' or kwv['crs'] not in (f'{sI}.crs', f'{rI}.crs'):
                raise TranslatorError(f'same_orientation_crs: WarpedVRT arguments {kwv}')
            who = 'src' if U(st.targets[0]) == sI else 'ref'
            crs_of = 'src' if kwv['crs'] == f'{sI}.crs' else 'ref'
            act = f'{who}_flip' if who == crs_of else f'{who}_to_{crs_of}_crs'
            # (path conditions: enclosing ifs and earlier `if c: return`)
            conds = [btr(t_) if pol_ else f'(negb {btr(t_)})' for t_, pol_ in fl.guard_nodes(st)]
            if act in seen or not conds:
                raise TranslatorError(f'same_orientation_crs: action {act}')
            seen[act] = conds[0] if len(conds) == 1 else '(' + ' && '.join(conds) + ')'
    if sorted(seen) != ['ref_flip', 'ref_to_src_crs', 'src_flip', 'src_to_ref_crs']:
        raise TranslatorError(f'same_orientation_crs: actions {sorted(seen)}')
    # the two flips come before the two changes of coordinate system
    rets = own_returns(f)
    if not rets or any(r_.value is None or U(r_.value) not in (f'({sI}, {rI})', f'{sI}, {rI}') for r_ in rets):
        raise TranslatorError('same_orientation_crs: returns')
    for k2 in ('src_flip', 'ref_flip', 'src_to_ref_crs', 'ref_to_src_crs'):
        out.append(f'Definition gen_vrt_{k2} (snu rnu same psrc : bool) : bool := {seen[k2]}.')
    # the corrected image's profile starts from the (possibly warped) source's profile
    f = find_func(fu, 'RasterFuse', '_merge_corr_profile')
    okc = ast.unparse(one_assign(f, 'corr_profile')) == 'utils.combine_profiles(self.src_im.profile, out_profile)'
    out.append(f'Definition gen_corr_profile_from_source_view : bool := {"true" if okc else "false"}.')
    # ---- band matching constants: the 10 % tolerance and the standard RGB centre wavelengths, as exact binary64 literals
    mp = parse_source((REPO / 'homonim' / 'matched_pair.py').read_text())
    cls = [n for n in mp.body if isinstance(n, ast.ClassDef) and n.name == 'MatchedPairReader'][0]
    tol = [n.value for n in cls.body if isinstance(n, ast.Assign) and ast.unparse(n.targets[0]) == '_max_rel_wavelength_diff']
    if len(tol) != 1 or not isinstance(tol[0], ast.Constant):
        raise TranslatorError('MatchedPairReader._max_rel_wavelength_diff')
    out.append(f'Definition gen_max_rel_wavelength_diff : float := {float(tol[0].value).hex()}%float.')
    f = find_func(mp, 'MatchedPairReader', '_get_band_info')
    def rgb_tables(tree):
        found = []
        for n_ in ast.walk(tree):
            v_ = n_.value if isinstance(n_, (ast.Assign, ast.AnnAssign)) and getattr(n_, 'value', None) is not None else None
            if v_ is None:
                continue
            t_ = ast.unparse(v_)
            if 'ColorInterp.red' in t_ and 'ColorInterp.green' in t_ and 'ColorInterp.blue' in t_ and (isinstance(v_, ast.Dict) or t_.startswith('dict(zip([')):
                found.append(v_)
        return found
    tabs = rgb_tables(mp)
    if len(tabs) != 1:
        raise TranslatorError(f'standard RGB centre wavelengths: {len(tabs)} tables found')
    rgb = tabs[0]
    txt = ast.unparse(rgb)
    if isinstance(rgb, ast.Dict):
        pairs = {ast.unparse(k_): v_ for k_, v_ in zip(rgb.keys, rgb.values)}
    elif txt.startswith('dict(zip([') and len(rgb.args) == 1 and len(rgb.args[0].args) == 2:
        pairs = {ast.unparse(k_): v_ for k_, v_ in zip(rgb.args[0].args[0].elts, rgb.args[0].args[1].elts)}
    else:
        raise TranslatorError(f'std_rgb_cws: {txt}')
    if sorted(pairs) != ['ColorInterp.blue', 'ColorInterp.green', 'ColorInterp.red']:
        raise TranslatorError(f'std_rgb_cws: keys {sorted(pairs)}')
    vals = [float(ast.literal_eval(pairs[k_])) for k_ in ('ColorInterp.red', 'ColorInterp.green', 'ColorInterp.blue')]
    for nm, v in zip(('red', 'green', 'blue'), vals):
        out.append(f'Definition gen_std_cw_{nm} : float := {v.hex()}%float.')
    use = [n for n in ast.walk(f) if isinstance(n, ast.If) and ast.unparse(n.test) in ('len(non_alpha_bands) == 3', '3 == len(non_alpha_bands)')]
    out.append(f'Definition gen_rgb_defaults_only_for_three_bands : bool := {"true" if len(use) == 1 else "false"}.')
    # the over-tolerance test: strictly greater than the tolerance, on the matched distances
    fm = find_func(mp, 'MatchedPairReader', '_match_pair_bands')
    over = [ast.unparse(n.test) for n in ast.walk(fm) if isinstance(n, ast.If) and '_max_rel_wavelength_diff' in ast.unparse(n.test)]
    out.append('Definition gen_over_tolerance_is_strict_any : bool := %s.' % ('true' if over in (
        ['any(match_dist > MatchedPairReader._max_rel_wavelength_diff)'], ['np.any(match_dist > MatchedPairReader._max_rel_wavelength_diff)']) else 'false'))
    flm = Flow(fm, module=mp)
    # the distance matrix handed to the greedy matcher: |src - ref| / src.  The two wavelength vectors are whatever the third component of
    # _get_band_info(<source image>, ..) / _get_band_info(<reference image>, ..) is called here: unpacked into a name, or a field of a record
    gi = find_func(mp, 'MatchedPairReader', '_get_band_info')
    gi_rets = own_returns(gi)
    third = None
    if len(gi_rets) == 1 and isinstance(gi_rets[0].value, ast.Call) and isinstance(gi_rets[0].value.func, ast.Name) and gi_rets[0].value.func.id in flm.tuples \
            and len(flm.tuples[gi_rets[0].value.func.id]) == 3:
        third = flm.tuples[gi_rets[0].value.func.id][2]
    wl = {}
    for st in ast.walk(fm):
        if isinstance(st, ast.Assign) and len(st.targets) == 1 and isinstance(st.value, ast.Call) and U(st.value.func).endswith('_get_band_info') and st.value.args:
            who = 'SRCWL' if U(st.value.args[0]).startswith('src') else 'REFWL' if U(st.value.args[0]).startswith('ref') else None
            tg = st.targets[0]
            if who and isinstance(tg, ast.Tuple) and len(tg.elts) == 3:
                wl[U(tg.elts[2])] = who
            elif who and isinstance(tg, ast.Name):
                for base in (tg.id, U(st.value), flm.text(st.value, st)):
                    wl[f'{base}[2]'] = who
                    if third:
                        wl[f'{base}.{third}'] = who
    gcall = [c for c in ast.walk(fm) if isinstance(c, ast.Call) and ast.unparse(c.func) in ('greedy_match', 'self._greedy_match', 'MatchedPairReader._greedy_match') and c.args]
    okrd = False
    if len(gcall) == 1:
        class Canon(ast.NodeTransformer):
            def visit_Call(self, n):
                n = self.generic_visit(n)
                if U(n.func) == 'np.subtract.outer' and len(n.args) == 2 and not n.keywords:     # (of two vectors)
                    return ast.parse(f'({U(n.args[0])})[:, np.newaxis] - ({U(n.args[1])})[np.newaxis, :]', mode='eval').body
                return n

            def generic_visit(self, n):
                n = super().generic_visit(n)
                if isinstance(n, (ast.Name, ast.Attribute, ast.Subscript)) and U(n) in wl:
                    return ast.Name(id=wl[U(n)], ctx=ast.Load())
                return n
        rd = U(Canon().visit(flm.resolve(gcall[0].args[0], flm.stmt_of(gcall[0]))))
        okrd = rd == 'np.abs(SRCWL[:, np.newaxis] - REFWL[np.newaxis, :]) / SRCWL[:, np.newaxis]'
    out.append('Definition gen_rel_dist_by_source : bool := %s.' % ('true' if okrd else 'false'))
    return out


HEADER = '''(* GENERATED by translate/blocks.py from /repo/homonim - do not edit.
   Integer arithmetic of block formation in the current source, one axis at a time:
   u = a block corner from the range, bs = block size, ov = overlap, lo / hi = processing window corners (off, off + n). *)
From Coq Require Import ZArith Bool PrimFloat.
From HVgen Require NormalFormCases.     (* the source was read through the normal form that file ties to its proved model *)
Open Scope Z_scope.

Definition translation_failed : bool := %s.
'''


def main():
    try:
        text = HEADER % 'false' + '\n'.join(generate()) + '\n'
        ok = True
    except (TranslatorError, SyntaxError, OSError, IndexError, KeyError, AttributeError, TypeError, ValueError) as ex:
        msg = str(ex).replace('(*', '( *').replace('*)', '* )')
        text = HEADER % 'true' + f'(* translator error: {msg} *)\n'
        ok = False
    out = Path(os.environ.get('BLOCKS_OUT', OUT))
    if not out.exists() or out.read_text() != text:
        (print('CHANGED', out.name) if os.environ.get('REGEN_DRY') else out.write_text(text))
    return ok


if __name__ == '__main__':
    sys.exit(0 if main() else 1)
