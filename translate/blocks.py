#!/venv/bin/python
"""Emit coq/gen/Blocks.v: the integer arithmetic of block formation, translated from the Python source of /repo's current working
tree (ast) into Gallina terms over Z, one axis at a time (the source works on (row, col) vectors; both components are translated and
must agree up to the axis index).

  raster_pair.block_pairs   range(start, stop, step) of the block corners, br, in_ul / in_br / out_ul / out_br, the `outer` flag,
                            proc_win_ul / proc_win_br, the BlockSizeError guard
  utils.overlap_for_kernel  ceil(k / 2)
  fuse.RasterFuse.process   the overlap handed to block_pairs (overlap_for_kernel(kernel_shape), + 1 with partial masking)
  compare.RasterCompare.process   block_pairs is called without an overlap

Fail closed: an unrecognised construct is a translator error."""
import ast
import os
import sys
from pathlib import Path

VERIF = Path(__file__).resolve().parents[1]
REPO = Path(os.environ.get('HOMONIM_REPO', '/repo'))
OUT = VERIF / 'coq' / 'gen' / 'Blocks.v'


class TranslatorError(Exception):
    pass


def find_func(tree, cls, name):
    for node in tree.body:
        if isinstance(node, ast.ClassDef) and node.name == cls:
            for f in node.body:
                if isinstance(f, ast.FunctionDef) and f.name == name:
                    return f
        if cls is None and isinstance(node, ast.FunctionDef) and node.name == name:
            return node
    raise TranslatorError(f'{cls}.{name} not found')


def one_assign(func, target):
    v = [n.value for n in ast.walk(func) if isinstance(n, ast.Assign) and len(n.targets) == 1 and ast.unparse(n.targets[0]) == target]
    if len(v) != 1:
        raise TranslatorError(f'expected exactly one assignment to {target} in {func.name}, found {len(v)}')
    return v[0]


class ZExpr:
    def __init__(self, names):
        self.names = names

    def tr(self, n):
        txt = ast.unparse(n)
        if txt in self.names:
            return self.names[txt]
        if isinstance(n, ast.Constant) and isinstance(n.value, int):
            return str(n.value)
        if isinstance(n, ast.BinOp):
            op = {ast.Add: '+', ast.Sub: '-', ast.Mult: '*'}.get(type(n.op))
            if op is None:
                raise TranslatorError(f'unsupported operator in {txt}')
            return f'({self.tr(n.left)} {op} {self.tr(n.right)})'
        if isinstance(n, ast.Call) and ast.unparse(n.func) in ('np.fmax', 'np.fmin') and len(n.args) == 2:
            return f'(Z.{"max" if ast.unparse(n.func) == "np.fmax" else "min"} {self.tr(n.args[0])} {self.tr(n.args[1])})'
        raise TranslatorError(f'unsupported expression: {txt}')


VEC = {'ul': 'u', 'br': 'br', 'block_shape': 'bs', 'overlap': 'ov', 'proc_win_ul': 'lo', 'proc_win_br': 'hi',
       'in_ul': 'ilo', 'in_br': 'ihi', 'out_ul': 'olo', 'out_br': 'ohi'}
SIG = '(u bs ov lo hi : Z)'


def generate():
    out = []
    rp = ast.parse((REPO / 'homonim' / 'raster_pair.py').read_text())
    f = find_func(rp, 'RasterPairReader', 'block_pairs')
    # ---- the two ranges
    rng = {}
    for tgt, (off, n, idx) in (('ul_row_range', ('proc_win.row_off', 'proc_win.height', '0')), ('ul_col_range', ('proc_win.col_off', 'proc_win.width', '1'))):
        v = one_assign(f, tgt)
        if not (isinstance(v, ast.Call) and ast.unparse(v.func) == 'range' and len(v.args) == 3):
            raise TranslatorError(f'{tgt} is not range(start, stop, step)')
        names = {off: 'off', n: 'n', f'overlap[{idx}]': 'ov', f'block_shape[{idx}]': 'bs'}
        rng[tgt] = [ZExpr(names).tr(a) for a in v.args]
    if rng['ul_row_range'] != rng['ul_col_range']:
        raise TranslatorError(f'row and column ranges differ: {rng}')
    for nm, term in zip(('range_start', 'range_stop', 'range_step'), rng['ul_row_range']):
        out.append(f'Definition gen_{nm} (off n bs ov : Z) : Z := {term}.')
    # loop order: product(ul_row_range, ul_col_range), bands outermost
    prod = [n for n in ast.walk(f) if isinstance(n, ast.For) and ast.unparse(n.iter) == 'product(ul_row_range, ul_col_range)']
    band = [n for n in ast.walk(f) if isinstance(n, ast.For) and ast.unparse(n.iter) == 'range(len(self._src_bands))']
    ok_order = len(prod) == 1 and len(band) == 1 and any(m is prod[0] for m in ast.walk(band[0])) and ast.unparse(prod[0].target) == '(ul_row, ul_col)'
    out.append(f'Definition gen_rows_outer_bands_outermost : bool := {"true" if ok_order else "false"}.')
    if ast.unparse(one_assign(f, 'ul')) != 'np.array((ul_row, ul_col))':
        raise TranslatorError('ul is not np.array((ul_row, ul_col))')
    # ---- corners (vector expressions, component-wise)
    z = ZExpr(VEC)
    for tgt, nm in (('br', 'br'), ('in_ul', 'in_lo'), ('in_br', 'in_hi'), ('out_ul', 'out_lo'), ('out_br', 'out_hi')):
        term = z.tr(one_assign(f, tgt))
        out.append(f'Definition gen_{nm} {"(u bs ov lo hi br : Z)" if tgt != "br" else SIG} : Z := {term}.')
    # window corners
    ul = ast.unparse(one_assign(f, 'proc_win_ul'))
    br = ast.unparse(one_assign(f, 'proc_win_br'))
    ok = ul == 'np.array((proc_win.row_off, proc_win.col_off))' and br in (
        'np.array((proc_win.height + proc_win.row_off, proc_win.width + proc_win.col_off))',
        'np.array((proc_win.row_off + proc_win.height, proc_win.col_off + proc_win.width))')
    out.append(f'Definition gen_window_corners_ok : bool := {"true" if ok else "false"}.     (* lo = off, hi = off + n, rows then columns *)')
    # windows from corners: Window(col_off, row_off, width, height) = (*ul[::-1], *(br - ul)[::-1])
    wi = ast.unparse(one_assign(f, 'proc_in_block'))
    wo = ast.unparse(one_assign(f, 'proc_out_block'))
    okw = wi == 'Window(*in_ul[::-1], *np.subtract(in_br, in_ul)[::-1])' and wo == 'Window(*out_ul[::-1], *np.subtract(out_br, out_ul)[::-1])'
    out.append(f'Definition gen_windows_from_corners_ok : bool := {"true" if okw else "false"}.')
    outer = ast.unparse(one_assign(f, 'outer'))
    out.append('Definition gen_outer_ok : bool := %s.' % ('true' if outer == 'np.any(in_ul <= proc_win_ul) or np.any(in_br >= proc_win_br)' else 'false'))
    # the guard: block shape must exceed the overlap
    guard = [n for n in ast.walk(f) if isinstance(n, ast.If) and any(isinstance(x, ast.Raise) and 'BlockSizeError' in ast.unparse(x) for x in ast.walk(n))]
    gtxt = ast.unparse(guard[0].test) if len(guard) == 1 else ''
    out.append('Definition gen_block_guard_ok : bool := %s.      (* raises unless block_shape > overlap on both axes *)' % ('true' if gtxt == 'np.any(block_shape <= overlap)' else 'false'))
    # ---- overlap_for_kernel
    ut = ast.parse((REPO / 'homonim' / 'utils.py').read_text())
    f = find_func(ut, None, 'overlap_for_kernel')
    ret = [n for n in ast.walk(f) if isinstance(n, ast.Return)]
    rtxt = ast.unparse(ret[0].value) if len(ret) == 1 else ''
    if rtxt != "tuple(np.ceil(kernel_shape / 2).astype('int'))":
        raise TranslatorError(f'overlap_for_kernel returns {rtxt}')
    out.append('Definition gen_overlap_for_kernel (k : Z) : Z := - ((- k) / 2).      (* np.ceil(k / 2) *)')
    # ---- fuse.process: the overlap handed to block_pairs
    fu = ast.parse((REPO / 'homonim' / 'fuse.py').read_text())
    f = find_func(fu, 'RasterFuse', 'process')
    assigns = [(n.lineno, ast.unparse(n.value), n) for n in ast.walk(f) if isinstance(n, ast.Assign) and ast.unparse(n.targets[0]) == 'overlap']
    assigns.sort()
    if not assigns or assigns[0][1] != 'utils.overlap_for_kernel(kernel_shape)':
        raise TranslatorError('process: overlap is not utils.overlap_for_kernel(kernel_shape)')
    extra = 0
    if len(assigns) == 2:
        parent = [n for n in ast.walk(f) if isinstance(n, ast.If) and any(m is assigns[1][2] for m in n.body)]
        if len(parent) == 1 and ast.unparse(parent[0].test) == "model_config['mask_partial']" and assigns[1][1] == 'tuple(np.array(overlap) + 1)' and not parent[0].orelse:
            extra = 1
        else:
            raise TranslatorError(f'process: unrecognised second overlap assignment: {assigns[1][1]}')
    elif len(assigns) > 2:
        raise TranslatorError('process: more than two overlap assignments')
    out.append(f'Definition gen_fuse_overlap (mask_partial : bool) (k : Z) : Z := gen_overlap_for_kernel k + (if mask_partial then {extra} else 0).')
    bpa = ast.unparse(one_assign(f, 'block_pair_args'))
    out.append('Definition gen_fuse_passes_overlap : bool := %s.' % ('true' if bpa == "dict(overlap=overlap, max_block_mem=block_config['max_block_mem'])" else 'false'))
    # ---- compare.process: no overlap
    cm = ast.parse((REPO / 'homonim' / 'compare.py').read_text())
    f = find_func(cm, 'RasterCompare', 'process')
    calls = [ast.unparse(c) for c in ast.walk(f) if isinstance(c, ast.Call) and ast.unparse(c.func) == 'self.block_pairs']
    out.append('Definition gen_compare_no_overlap : bool := %s.' % ('true' if calls == ["self.block_pairs(max_block_mem=config['max_block_mem'])"] else 'false'))
    # ---- raster_array.bounded_window_slices (one axis: window offset / length, dataset size n)
    ra = ast.parse((REPO / 'homonim' / 'raster_array.py').read_text())
    f = find_func(ra, 'RasterArray', 'bounded_window_slices')
    if ast.unparse(one_assign(f, 'win_ul')) != 'np.array((window.row_off, window.col_off))' or \
            ast.unparse(one_assign(f, 'win_br')) != 'win_ul + np.array((window.height, window.width))':
        raise TranslatorError('bounded_window_slices: window corners')
    names = {'win_ul': 'off', 'win_br': '(off + len)', '(0, 0)': '0', 'rio_dataset.shape': 'n', 'bounded_ul': 'bul', 'bounded_br': 'bbr',
             'bounded_start': 'st'}
    z = ZExpr(names)
    out.append(f'Definition gen_bounded_ul (n off len : Z) : Z := {z.tr(one_assign(f, "bounded_ul"))}.')
    out.append(f'Definition gen_bounded_br (n off len bul : Z) : Z := {z.tr(one_assign(f, "bounded_br"))}.')
    out.append(f'Definition gen_bounded_start (n off len bul bbr : Z) : Z := {z.tr(one_assign(f, "bounded_start"))}.')
    out.append(f'Definition gen_bounded_stop (n off len bul bbr st : Z) : Z := {z.tr(one_assign(f, "bounded_stop"))}.')
    bw = ast.unparse(one_assign(f, 'bounded_window'))
    bs = ast.unparse(one_assign(f, 'bounded_slices')).replace(' ', '')
    okb = bw == 'Window.from_slices((bounded_ul[0], bounded_br[0]), (bounded_ul[1], bounded_br[1]))' and \
        bs == '(slice(bounded_start[0],bounded_stop[0],None),slice(bounded_start[1],bounded_stop[1],None))'
    out.append(f'Definition gen_bounded_results_ok : bool := {"true" if okb else "false"}.')
    # ---- parameter image layout: band index of parameter k of matched band i; labels; validator suffixes
    f = find_func(fu, 'RasterFuse', '_process_block')
    idx = one_assign(f, 'indexes')
    z = ZExpr({'np.arange(param_ra.count)': 'k', 'len(self.src_bands)': 'n', 'block_pair.band_i': 'i'})
    out.append(f'Definition gen_param_index (n i k : Z) : Z := {z.tr(idx)}.')
    call = [c for c in ast.walk(f) if isinstance(c, ast.Call) and ast.unparse(c.func) == 'param_ra.to_rio_dataset']
    okp = len(call) == 1 and ast.unparse(call[0]) == 'param_ra.to_rio_dataset(param_im, indexes=indexes, window=param_out_block)'
    # which output window for which processing grid: evaluate the conditional for both grids (any equivalent way of writing the test is fine)
    pob = one_assign(f, 'param_out_block')

    def chosen(grid):
        if not (isinstance(pob, ast.IfExp) and isinstance(pob.test, ast.Compare) and len(pob.test.ops) == 1 and ast.unparse(pob.test.left) == 'self.proc_crs'
                and ast.unparse(pob.test.comparators[0]) in ('ProcCrs.ref', 'ProcCrs.src') and isinstance(pob.test.ops[0], (ast.Eq, ast.NotEq))):
            raise TranslatorError(f'param_out_block: unrecognised selection {ast.unparse(pob)}')
        eq = ast.unparse(pob.test.comparators[0]) == 'ProcCrs.' + grid
        truth = eq if isinstance(pob.test.ops[0], ast.Eq) else not eq
        return ast.unparse(pob.body if truth else pob.orelse)
    okp = okp and chosen('ref') == 'block_pair.ref_out_block' and chosen('src') == 'block_pair.src_out_block'
    call = [c for c in ast.walk(f) if isinstance(c, ast.Call) and ast.unparse(c.func) == 'corr_ra.to_rio_dataset']
    okc = len(call) == 1 and ast.unparse(call[0]) == 'corr_ra.to_rio_dataset(corr_im, indexes=block_pair.band_i + 1, window=block_pair.src_out_block)'
    out.append(f'Definition gen_param_write_ok : bool := {"true" if okp else "false"}.    (* all parameter bands, processing-grid output window *)')
    out.append(f'Definition gen_corr_write_ok : bool := {"true" if okc else "false"}.     (* band band_i + 1, source output window *)')
    f = find_func(fu, 'RasterFuse', '_set_param_metadata')
    loops = [n for n in ast.walk(f) if isinstance(n, ast.For) and ast.unparse(n.iter) == 'zip(range(bi, im.count, num_src_bands), param_names)']
    names_ok = ast.unparse(one_assign(f, 'param_names')) == "['GAIN', 'OFFSET', 'R2']" and ast.unparse(one_assign(f, 'num_src_bands')) == 'len(self.src_bands)'
    desc_ok = any(ast.unparse(c) == "im.set_band_description(param_i + 1, f'{ref_descr}_{param_name}')" for n in loops for c in ast.walk(n) if isinstance(c, ast.Call))
    out.append(f'Definition gen_labels_ok : bool := {"true" if len(loops) == 1 and names_ok and desc_ok else "false"}.   (* band bi + k * n (0-based) is labelled with parameter k *)')
    f = find_func(ut, None, 'validate_param_image')
    suf = ast.unparse(one_assign(f, 'suffixes'))
    nr = ast.unparse(one_assign(f, 'n_refl_bands'))
    okv = suf == "['gain'] * n_refl_bands + ['offset'] * n_refl_bands + ['r2'] * n_refl_bands" and nr == 'int(param_im.count / 3)'
    out.append(f'Definition gen_validator_ok : bool := {"true" if okv else "false"}.     (* suffix of 0-based band j is parameter j / n *)')
    # ---- partial masking: coverage threshold, structuring element, border
    km = ast.parse((REPO / 'homonim' / 'kernel_model.py').read_text())
    f = find_func(km, 'KernelModel', '_full_coverage_mask')
    se = one_assign(f, 'se')
    z = ZExpr({'np.array(self._kernel_shape[::-1])': 'k'})
    if not (isinstance(se, ast.Call) and ast.unparse(se.func) == 'cv.getStructuringElement' and ast.unparse(se.args[0]) == 'cv.MORPH_RECT'
            and isinstance(se.args[1], ast.Call) and ast.unparse(se.args[1].func) == 'tuple'):
        raise TranslatorError('_full_coverage_mask: structuring element')
    out.append(f'Definition gen_erode_size (k : Z) : Z := {z.tr(se.args[1].args[0])}.     (* per axis; OpenCV order (x, y) = kernel_shape[::-1] *)')
    er = ast.unparse(one_assign(f, 'mask_ra.array'))
    cov = ast.unparse(one_assign(f, 'mask'))
    amp = [n for n in ast.walk(f) if isinstance(n, ast.AugAssign) and ast.unparse(n.target) == 'mask' and isinstance(n.op, ast.BitAnd)]
    rp = ast.unparse(one_assign(f, 'mask_ra'))
    oke = er == 'cv.erode(mask, se, borderType=cv.BORDER_CONSTANT, borderValue=0)' and cov == "(mask_ra.array >= 1).astype('uint8', copy=False)" \
        and len(amp) == 1 and ast.unparse(amp[0].value) == 'param_ra.mask' \
        and rp == 'in_mask_ra.reproject(**param_ra.proj_profile, nodata=None, resampling=Resampling.average)'
    out.append(f'Definition gen_partial_mask_ok : bool := {"true" if oke else "false"}.   (* average coverage >= 1, and joint mask, zero border *)')
    # ---- RasterArray._convert_array_dtype: round (half to even), clip, cast, re-mask - in that order, under these conditions
    f = find_func(ra, 'RasterArray', '_convert_array_dtype')
    ifs = {ast.unparse(n.test): n for n in ast.walk(f) if isinstance(n, ast.If)}
    c_round = 'unsafe_cast and np.issubdtype(self.dtype, np.floating) and np.issubdtype(dtype, np.integer)'
    c_clip = 'unsafe_cast and np.issubdtype(dtype, np.integer)'
    c_rng = 'src_info.min < dst_info.min or src_info.max > dst_info.max'
    # (the re-masking condition may be written in several equivalent ways; what matters: it happens whenever the nodata value changes, after the cast)
    nod = [n for t, n in ifs.items() if 'nodata_change' in t and [ast.unparse(x) for x in n.body] == ['array[~self.mask] = nodata']]
    okd = all(c in ifs for c in (c_round, c_clip, c_rng)) and len(nod) == 1
    if okd:
        c_nod = ast.unparse(nod[0].test)
        okd = [ast.unparse(x) for x in ifs[c_round].body] == ['np.round(array, out=array)'] \
            and [ast.unparse(x) for x in ifs[c_rng].body] == ['np.clip(array, dst_info.min, dst_info.max, out=array)'] \
            and ast.unparse(one_assign(f, 'unsafe_cast')) == "not np.can_cast(self.dtype, dtype, casting='safe')" \
            and ast.unparse(one_assign(f, 'nodata_change')) == 'nodata is not None and (not utils.nan_equals(nodata, self.nodata))'
        cast = [n.lineno for n in ast.walk(f) if isinstance(n, ast.Assign) and ast.unparse(n.value) == "array.astype(dtype, copy=False, casting='unsafe')"]
        okd = okd and len(cast) == 1 and ifs[c_round].lineno < ifs[c_clip].lineno < cast[0] < ifs[c_nod].lineno
    out.append(f'Definition gen_convert_dtype_ok : bool := {"true" if okd else "false"}.   (* rint, saturate, cast, invalid := nodata *)')
    # ---- utils.same_orientation_crs: which image is viewed through a WarpedVRT, as boolean functions of
    #      (source north-up, reference north-up, same CRS, processing grid = source)
    f = find_func(ut, None, 'same_orientation_crs')

    def btr(n):
        t = ast.unparse(n)
        if t == 'same_crs':
            return 'same'
        if t == 'north_up(src_im)':
            return 'snu'
        if t == 'north_up(ref_im)':
            return 'rnu'
        if t == 'proc_crs == ProcCrs.src':
            return 'psrc'
        if t == 'proc_crs != ProcCrs.src':
            return '(negb psrc)'
        if isinstance(n, ast.UnaryOp) and isinstance(n.op, ast.Not):
            return f'(negb {btr(n.operand)})'
        if isinstance(n, ast.BoolOp):
            op = ' && ' if isinstance(n.op, ast.And) else ' || '
            return '(' + op.join(btr(v) for v in n.values) + ')'
        raise TranslatorError(f'same_orientation_crs: unsupported condition {t}')
    if ast.unparse(one_assign(f, 'same_crs')) != 'src_im.crs == ref_im.crs':
        raise TranslatorError('same_orientation_crs: same_crs')
    seen = {}
    for n in f.body:
        if isinstance(n, ast.If):
            body = [ast.unparse(x) for x in n.body]
            if len(body) != 1 or n.orelse:
                raise TranslatorError('same_orientation_crs: unexpected if body')
            m = {'src_im = WarpedVRT(src_im, crs=src_im.crs, resampling=resampling)': 'src_flip', 'ref_im = WarpedVRT(ref_im, crs=ref_im.crs, resampling=resampling)': 'ref_flip',
                 'src_im = WarpedVRT(src_im, crs=ref_im.crs, resampling=resampling)': 'src_to_ref_crs', 'ref_im = WarpedVRT(ref_im, crs=src_im.crs, resampling=resampling)': 'ref_to_src_crs'}
            if body[0] not in m or m[body[0]] in seen:
                raise TranslatorError(f'same_orientation_crs: unrecognised action {body[0]}')
            seen[m[body[0]]] = btr(n.test)
    if sorted(seen) != ['ref_flip', 'ref_to_src_crs', 'src_flip', 'src_to_ref_crs']:
        raise TranslatorError(f'same_orientation_crs: actions {sorted(seen)}')
    for k2 in ('src_flip', 'ref_flip', 'src_to_ref_crs', 'ref_to_src_crs'):
        out.append(f'Definition gen_vrt_{k2} (snu rnu same psrc : bool) : bool := {seen[k2]}.')
    # the corrected image's profile starts from the (possibly warped) source's profile
    f = find_func(fu, 'RasterFuse', '_merge_corr_profile')
    okc = ast.unparse(one_assign(f, 'corr_profile')) == 'utils.combine_profiles(self.src_im.profile, out_profile)'
    out.append(f'Definition gen_corr_profile_from_source_view : bool := {"true" if okc else "false"}.')
    # ---- band matching constants: the 10 % tolerance and the standard RGB centre wavelengths, as exact binary64 literals
    mp = ast.parse((REPO / 'homonim' / 'matched_pair.py').read_text())
    cls = [n for n in mp.body if isinstance(n, ast.ClassDef) and n.name == 'MatchedPairReader'][0]
    tol = [n.value for n in cls.body if isinstance(n, ast.Assign) and ast.unparse(n.targets[0]) == '_max_rel_wavelength_diff']
    if len(tol) != 1 or not isinstance(tol[0], ast.Constant):
        raise TranslatorError('MatchedPairReader._max_rel_wavelength_diff')
    out.append(f'Definition gen_max_rel_wavelength_diff : float := {float(tol[0].value).hex()}%float.')
    f = find_func(mp, 'MatchedPairReader', '_get_band_info')
    rgb = one_assign(f, 'std_rgb_cws')
    txt = ast.unparse(rgb)
    if not txt.startswith('dict(zip([ColorInterp.red, ColorInterp.green, ColorInterp.blue], ['):
        raise TranslatorError(f'std_rgb_cws: {txt}')
    vals = [float(ast.literal_eval(e)) for e in rgb.args[0].args[1].elts]
    if len(vals) != 3:
        raise TranslatorError('std_rgb_cws: three values expected')
    for nm, v in zip(('red', 'green', 'blue'), vals):
        out.append(f'Definition gen_std_cw_{nm} : float := {v.hex()}%float.')
    use = [n for n in ast.walk(f) if isinstance(n, ast.If) and ast.unparse(n.test) == 'len(non_alpha_bands) == 3']
    out.append(f'Definition gen_rgb_defaults_only_for_three_bands : bool := {"true" if len(use) == 1 else "false"}.')
    # the over-tolerance test: strictly greater than the tolerance, on the matched distances
    fm = find_func(mp, 'MatchedPairReader', '_match_pair_bands')
    over = [ast.unparse(n.test) for n in ast.walk(fm) if isinstance(n, ast.If) and '_max_rel_wavelength_diff' in ast.unparse(n.test)]
    out.append('Definition gen_over_tolerance_is_strict_any : bool := %s.' % ('true' if over == ['any(match_dist > MatchedPairReader._max_rel_wavelength_diff)'] else 'false'))
    rd = ast.unparse(one_assign([g for g in ast.walk(fm) if isinstance(g, ast.FunctionDef) and g.name == '_match_pair_bands'][0], 'rel_dist'))
    out.append('Definition gen_rel_dist_by_source : bool := %s.' % ('true' if rd == 'abs_dist / src_wavelengths[:, np.newaxis]' else 'false'))
    return out


HEADER = '''(* GENERATED by translate/blocks.py from /repo/homonim - do not edit.
   Integer arithmetic of block formation in the current source, one axis at a time:
   u = a block corner from the range, bs = block size, ov = overlap, lo / hi = processing window corners (off, off + n). *)
From Coq Require Import ZArith Bool PrimFloat.
Open Scope Z_scope.

Definition translation_failed : bool := %s.
'''


def main():
    try:
        text = HEADER % 'false' + '\n'.join(generate()) + '\n'
        ok = True
    except (TranslatorError, SyntaxError, OSError, IndexError, KeyError) as ex:
        msg = str(ex).replace('(*', '( *').replace('*)', '* )')
        text = HEADER % 'true' + f'(* translator error: {msg} *)\n'
        ok = False
    out = Path(os.environ.get('BLOCKS_OUT', OUT))
    if not out.exists() or out.read_text() != text:
        (print('CHANGED', out.name) if os.environ.get('REGEN_DRY') else out.write_text(text))
    return ok


if __name__ == '__main__':
    sys.exit(0 if main() else 1)
