"""Def-use resolution for the translators: a small forward data-flow pass over one Python function (ast) that records, for every
statement, which expression each local name stands for at that point, so that a translator can ask for the *meaning* of an expression
(`resolve`) instead of looking variables up by their spelling.  Renaming a local, extracting a sub-expression into a temporary or inlining
one therefore does not change what the translator emits.

Rules (deliberately conservative - anything doubtful stays an unresolved name, and the translators fail closed on names they do not know):
  * `x = e`, `x: T = e`         x stands for resolve(e) from here on
  * `x op= e`                   x stands for (old x) op resolve(e)      (x must have been resolvable, else x becomes opaque)
  * `if c: ... else: ...`       both branches are analysed from the state before the `if`; afterwards a name keeps its meaning only if both
                                branches agree; the idiom `if p is None: p = e` records e as the default of parameter p (`default_of`)
  * loops / with / try          names bound by the construct, and names assigned anywhere inside a loop body, are opaque at the loop head and after it;
                                inside the body a definition reaches the statements that follow it in the same iteration
  * tuple targets, `global`, `nonlocal`, starred targets, walrus  -> the names become opaque
  * nested function definitions are separate functions (analyse them separately; free names of the enclosing function are not resolved)
Writes through subscripts / attributes (`a[i] = e`, `a.b = e`, `np.divide(.., out=a[i])`) do not change what the *name* `a` stands for; they
are returned in order by `stores()` with resolved targets and values so that a translator can replay them."""
import ast
import copy

OPAQUE = None


class Flow:
    def __init__(self, func: ast.FunctionDef, inline=None, _depth=0, module=None, assume_defaults=(), outer=None):
        """`inline`: optional callable (resolved ast.Call) -> ast.FunctionDef | None naming helper functions whose calls are to be looked
        through (an "extract method" refactoring then changes nothing): the call stands for the helper's return value with the arguments
        substituted, and the helper's stores are replayed at the call."""
        self.func = func
        self.inline = inline if _depth < 4 else None
        self._depth = _depth
        self.module = module
        # `module`: names bound at module level to simple constants (private constants replacing literals) stand for those constants;
        # NamedTuple classes of the module are known by their fields.  `assume_defaults`: parameters (names, or True for all) that the callers
        # of interest do not pass: they stand for their default values.
        self.tuples = namedtuples(module) if module is not None else {}
        _KNOWN_TUPLES.update(self.tuples)
        if module is not None:
            _KNOWN_CLASSES.update(value_classes(module))
        self.inlined_stores = {}      # id(stmt) -> [(target text, kind, payload)] contributed by inlined helpers
        self.inlined = {}             # id(stmt) -> (sub-Flow, binding) of the helper call the statement makes
        self.assigned = {}            # id(Assign stmt) -> the resolved value it assigns (helper calls looked through)
        self.params = [a.arg for a in func.args.posonlyargs + func.args.args + func.args.kwonlyargs]
        if func.args.vararg:
            self.params.append(func.args.vararg.arg)
        if func.args.kwarg:
            self.params.append(func.args.kwarg.arg)
        self.env_before = {}          # id(stmt) -> {name: resolved ast or OPAQUE}
        self.default_of = {}          # parameter -> resolved default expression (from `if p is None: p = e`)
        self.order = []               # statements in execution (source) order, flattened
        env0 = dict(module_constants(module)) if module is not None else {}
        if outer is not None:
            # a nested function (closure): free names mean what they mean in the enclosing function where it is defined
            oflow, def_node = outer
            env0.update({k: v for k, v in oflow.env_before.get(id(def_node), {}).items() if v is not OPAQUE})
            assigned_inside = self._assigned_names(func.body)
            for k in assigned_inside:
                env0.pop(k, None)
        for p_ in self.params:
            env0.pop(p_, None)
        if assume_defaults:
            pos = func.args.posonlyargs + func.args.args
            pairs = list(zip(pos[len(pos) - len(func.args.defaults):], func.args.defaults)) + \
                [(a, d) for a, d in zip(func.args.kwonlyargs, func.args.kw_defaults) if d is not None]
            for a, d in pairs:
                if (assume_defaults is True or a.arg in assume_defaults) and (is_simple(d) or (isinstance(d, ast.Name) and d.id in env0)):
                    env0[a.arg] = self._res(d, env0)
        self.env0 = env0
        self.end_env = self._block(func.body, env0)

    # ------------------------------------------------------------------ analysis
    @staticmethod
    def _assigned_names(stmts):
        out = set()
        for s in stmts:
            for n in ast.walk(s):
                if isinstance(n, (ast.FunctionDef, ast.AsyncFunctionDef, ast.Lambda)) and n is not s:
                    continue
                if isinstance(n, ast.Name) and isinstance(n.ctx, (ast.Store, ast.Del)):
                    out.add(n.id)
        return out

    def _block(self, stmts, env):
        for s in stmts:
            env = self._stmt(s, env)
        return env

    _UFUNC_OPS = {'multiply': ast.Mult, 'add': ast.Add, 'subtract': ast.Sub, 'divide': ast.Div, 'true_divide': ast.Div,
                  'bitwise_and': ast.BitAnd, 'bitwise_or': ast.BitOr, 'logical_and': ast.BitAnd, 'logical_or': ast.BitOr}

    def _stmt(self, s, env):
        # np.multiply(t, e, out=t)  is  t *= e  (likewise add / subtract / divide / bitwise_and / bitwise_or)
        if isinstance(s, ast.Expr) and isinstance(s.value, ast.Call) and isinstance(s.value.func, ast.Attribute) \
                and isinstance(s.value.func.value, ast.Name) and s.value.func.value.id in ('np', 'numpy') and s.value.func.attr in self._UFUNC_OPS \
                and len(s.value.args) == 2 and [k.arg for k in s.value.keywords] == ['out'] \
                and ast.unparse(s.value.keywords[0].value) == ast.unparse(s.value.args[0]) \
                and isinstance(s.value.args[0], (ast.Name, ast.Subscript, ast.Attribute)):
            tgt = copy.deepcopy(s.value.args[0])
            for n_ in ast.walk(tgt):
                if hasattr(n_, 'ctx'):
                    n_.ctx = ast.Load()
            tgt.ctx = ast.Store()
            s = ast.copy_location(ast.AugAssign(target=tgt, op=self._UFUNC_OPS[s.value.func.attr](), value=s.value.args[1]), s)
        self.env_before[id(s)] = dict(env)
        self.order.append(s)
        env = dict(env)
        if isinstance(s, ast.Expr) and isinstance(s.value, ast.Call) and self.inline is not None:
            self._inline_call(s, self._res(s.value, env), env)
        if isinstance(s, ast.Assign):
            val = self._res(s.value, env)
            if isinstance(val, ast.Call) and self.inline is not None:
                got = self._inline_call(s, val, env)
                val = got if got is not None else val
            self.assigned[id(s)] = val
            for t in s.targets:
                if isinstance(t, ast.Name):
                    env[t.id] = val if len(s.targets) == 1 else OPAQUE
                elif isinstance(t, (ast.Tuple, ast.List)) and isinstance(val, (ast.Tuple, ast.List)) and len(t.elts) == len(val.elts) \
                        and all(isinstance(e, ast.Name) for e in t.elts) and len(s.targets) == 1:
                    for e, v in zip(t.elts, val.elts):
                        env[e.id] = v
                else:
                    for n in ast.walk(t):
                        if isinstance(n, ast.Name) and isinstance(n.ctx, ast.Store):
                            env[n.id] = OPAQUE
        elif isinstance(s, ast.Return) and s.value is not None and self.inline is not None:
            val = self._res(s.value, env)
            if isinstance(val, ast.Call):
                got = self._inline_call(s, val, env)
                val = got if got is not None else val
            elif isinstance(val, ast.Tuple):
                elts = []
                for e in val.elts:
                    got = self._inline_call(s, e, env) if isinstance(e, ast.Call) else None
                    elts.append(got if got is not None else e)
                val = ast.Tuple(elts=elts, ctx=ast.Load())
            self.assigned[id(s)] = val
        elif isinstance(s, ast.AnnAssign):
            if isinstance(s.target, ast.Name):
                env[s.target.id] = self._res(s.value, env) if s.value is not None else OPAQUE
        elif isinstance(s, ast.AugAssign):
            if isinstance(s.target, ast.Name):
                old = env.get(s.target.id, ast.Name(id=s.target.id, ctx=ast.Load()) if s.target.id in self.params else OPAQUE)
                env[s.target.id] = OPAQUE if old is OPAQUE else ast.BinOp(left=old, op=s.op, right=self._res(s.value, env))
        elif isinstance(s, ast.If):
            e1 = self._block(s.body, env)
            e2 = self._block(s.orelse, env)
            # `if p is None: p = e`
            t = s.test
            if (isinstance(t, ast.Compare) and len(t.ops) == 1 and isinstance(t.ops[0], ast.Is) and isinstance(t.left, ast.Name)
                    and isinstance(t.comparators[0], ast.Constant) and t.comparators[0].value is None and not s.orelse
                    and t.left.id in self.params and t.left.id not in env and e1.get(t.left.id, OPAQUE) is not OPAQUE):
                self.default_of[t.left.id] = e1[t.left.id]
            merged = {}
            for k in set(e1) | set(e2):
                a, b = e1.get(k, '__unset__'), e2.get(k, '__unset__')
                if a == '__unset__' or b == '__unset__' or a is OPAQUE or b is OPAQUE:
                    merged[k] = OPAQUE
                else:
                    merged[k] = a if ast.dump(a) == ast.dump(b) else OPAQUE
            env = merged
        elif isinstance(s, (ast.For, ast.AsyncFor, ast.While)):
            killed = self._assigned_names(s.body + s.orelse) | (self._assigned_names([s.target]) if hasattr(s, 'target') else set())
            for k in killed:
                env[k] = OPAQUE
            self._block(s.body, env)
            self._block(s.orelse, env)
        elif isinstance(s, (ast.With, ast.AsyncWith)):
            for it in s.items:
                if it.optional_vars is not None:
                    for n in ast.walk(it.optional_vars):
                        if isinstance(n, ast.Name):
                            env[n.id] = OPAQUE
            env = self._block(s.body, env)
        elif isinstance(s, ast.Try):
            killed = self._assigned_names(s.body + s.orelse + s.finalbody + [h for h in s.handlers])
            e1 = self._block(s.body, env)
            for h in s.handlers:
                eh = dict(env)
                for k in killed:
                    eh[k] = OPAQUE
                self._block(h.body, eh)
            e1 = self._block(s.orelse, e1)
            if s.handlers:
                for k in killed:
                    e1[k] = OPAQUE
            env = self._block(s.finalbody, e1)
        elif isinstance(s, (ast.Global, ast.Nonlocal)):
            for k in s.names:
                env[k] = OPAQUE
        elif isinstance(s, (ast.FunctionDef, ast.AsyncFunctionDef, ast.ClassDef)):
            env[s.name] = OPAQUE
        elif isinstance(s, (ast.Import, ast.ImportFrom)):
            for a in s.names:
                env[(a.asname or a.name).split('.')[0]] = OPAQUE
        else:
            for n in ast.walk(s):          # walrus etc.
                if isinstance(n, ast.NamedExpr) and isinstance(n.target, ast.Name):
                    env[n.target.id] = OPAQUE
        return env

    def _inline_call(self, stmt, call, env=None):
        """look through a call of a helper function: returns the helper's resolved return value (arguments substituted) or None"""
        g = self.inline(call)
        if g is None or g is self.func:
            return None
        sub = Flow(g, inline=self.inline, _depth=self._depth + 1, module=self.module)
        params = list(sub.params)
        bind = {}
        static = any(isinstance(d, ast.Name) and d.id == 'staticmethod' for d in g.decorator_list)
        if isinstance(call.func, ast.Attribute) and not static and params:
            bind[params.pop(0)] = call.func.value            # self / cls
        if any(isinstance(a, ast.Starred) for a in call.args) or any(k.arg is None for k in call.keywords):
            return None
        for p_, a in zip(params, call.args):
            bind[p_] = a
        for k in call.keywords:
            if k.arg not in sub.params or k.arg in bind:
                return None
            bind[k.arg] = k.value
        pos = g.args.posonlyargs + g.args.args
        for p_, d in zip(pos[len(pos) - len(g.args.defaults):], g.args.defaults):
            bind.setdefault(p_.arg, d)
        for p_, d in zip(g.args.kwonlyargs, g.args.kw_defaults):
            if d is not None:
                bind.setdefault(p_.arg, d)
        if any(p_ not in bind for p_ in sub.params):
            return None
        rets = [n for n in ast.walk(g) if isinstance(n, ast.Return)]
        if len(rets) > 1 or (rets and rets[0] is not g.body[-1]):
            return None
        mine = self.inlined_stores.setdefault(id(stmt), [])
        self.inlined.setdefault(id(stmt), []).append((sub, bind))
        for (_s, tgt, kind, payload) in sub.stores():
            t2 = ast.unparse(self._res(ast.parse(tgt, mode='eval').body, bind))
            p2 = (payload[0], self._res(payload[1], bind)) if kind == 'aug' else self._res(payload, bind)
            mine.append((t2, kind, p2))
        if not rets or rets[0].value is None:
            return ast.Constant(value=None)
        r = sub.resolve(rets[0].value, rets[0])
        if env is not None and any(g is n_ for n_ in ast.walk(self.func)):
            # a closure defined inside this function: its free names mean what they mean here, at the call
            local = set(sub.params) | self._assigned_names(g.body)
            r = self._res(r, {k: v for k, v in env.items() if k not in local})
        return self._res(r, bind)

    # ------------------------------------------------------------------ queries
    @staticmethod
    def _res(node, env):
        if node is None:
            return None

        class Sub(ast.NodeTransformer):
            def visit_Name(self, n):
                if isinstance(n.ctx, ast.Load) and env.get(n.id, OPAQUE) is not OPAQUE:
                    return copy.deepcopy(env[n.id])
                return n

            def visit_Lambda(self, n):
                return n

            def visit_ListComp(self, n):
                return n
            visit_SetComp = visit_DictComp = visit_GeneratorExp = visit_ListComp
        return ast.fix_missing_locations(simplify(Sub().visit(copy.deepcopy(node))))

    def stmt_of(self, node):
        """the flattened statement that contains `node`"""
        for s in self.order:
            if isinstance(s, (ast.If, ast.For, ast.While, ast.With, ast.Try, ast.AsyncFor, ast.AsyncWith)):
                heads = [s.test] if isinstance(s, (ast.If, ast.While)) else [s.iter] if isinstance(s, (ast.For, ast.AsyncFor)) else \
                    [i.context_expr for i in s.items] if isinstance(s, (ast.With, ast.AsyncWith)) else []
                if any(node is m for h in heads for m in ast.walk(h)):
                    return s
                continue
            if any(node is m for m in ast.walk(s)):
                return s
        raise KeyError('node is not part of the analysed function')

    def resolve(self, node, at=None):
        """`node` with every local name replaced by what it stands for just before statement `at` (default: the statement containing it)"""
        s = at if at is not None else self.stmt_of(node)
        return self._res(node, self.env_before[id(s)])

    def text(self, node, at=None):
        return ast.unparse(self.resolve(node, at))

    def final(self, name):
        """what `name` stands for at the end of the function body (OPAQUE if unknown)"""
        return self.end_env.get(name, OPAQUE)

    def value(self, stmt):
        """the resolved value an assignment statement assigns, helper calls looked through"""
        return self.assigned[id(stmt)] if id(stmt) in self.assigned else self.resolve(stmt.value, stmt)

    def calls(self, match):
        """resolved Call nodes satisfying `match` (on the unresolved node), in source order, including those made inside looked-through
        helpers (with the helper's parameters replaced by the arguments)"""
        out = []
        for s in self.order:
            if isinstance(s, (ast.If, ast.While)):
                heads = [s.test]
            elif isinstance(s, (ast.For, ast.AsyncFor)):
                heads = [s.iter]
            elif isinstance(s, (ast.With, ast.AsyncWith)):
                heads = [i.context_expr for i in s.items]
            elif isinstance(s, ast.Try):
                heads = []
            else:
                heads = [s]
            for (sub, bind) in self.inlined.get(id(s), []):
                out.extend(self._res(c, bind) for c in sub.calls(match))
            for h in heads:
                for c in ast.walk(h):
                    if isinstance(c, ast.Call) and match(c):
                        out.append(self.resolve(c, s))
        return out

    def guards(self, node, raises=False):
        """[(resolved test text, True = body / False = orelse)] of the `if`s around `node`, outermost first; a statement that follows
        `if c: ...; return` (or continue / break, and raise when `raises`) is guarded by (c, False)"""
        exits = (ast.Return, ast.Continue, ast.Break) + ((ast.Raise,) if raises else ())

        def has(s):
            return s is node or any(n is node for n in ast.walk(s))

        def walk(stmts, acc):
            acc = list(acc)
            for s in stmts:
                if has(s):
                    if isinstance(s, ast.If):
                        if any(n is node for n in ast.walk(s.test)):
                            return acc
                        t = self.text(s.test, s)
                        r = walk(s.body, acc + [(t, True)])
                        return r if r is not None else walk(s.orelse, acc + [(t, False)])
                    if isinstance(s, (ast.With, ast.AsyncWith, ast.For, ast.AsyncFor, ast.While, ast.Try)):
                        for blk in ([s.body, getattr(s, 'orelse', []), getattr(s, 'finalbody', [])] + [h.body for h in getattr(s, 'handlers', [])]):
                            r = walk(blk, acc)
                            if r is not None:
                                return r
                        return acc
                    return acc
                if isinstance(s, ast.If) and not s.orelse and s.body and isinstance(s.body[-1], exits):
                    acc.append((self.text(s.test, s), False))
            return None
        r = walk(self.func.body, [])
        return r if r is not None else []

    def guard_nodes(self, node, raises=False):
        """as guards(), with the resolved tests as expressions: [(ast, True = body / False = orelse)]"""
        exits = (ast.Return, ast.Continue, ast.Break) + ((ast.Raise,) if raises else ())

        def has(s):
            return s is node or any(n is node for n in ast.walk(s))

        def walk(stmts, acc):
            acc = list(acc)
            for s in stmts:
                if has(s):
                    if isinstance(s, ast.If):
                        if any(n is node for n in ast.walk(s.test)):
                            return acc
                        t = self.resolve(s.test, s)
                        r = walk(s.body, acc + [(t, True)])
                        return r if r is not None else walk(s.orelse, acc + [(t, False)])
                    if isinstance(s, (ast.With, ast.AsyncWith, ast.For, ast.AsyncFor, ast.While, ast.Try)):
                        for blk in ([s.body, getattr(s, 'orelse', []), getattr(s, 'finalbody', [])] + [h.body for h in getattr(s, 'handlers', [])]):
                            r = walk(blk, acc)
                            if r is not None:
                                return r
                        return acc
                    return acc
                if isinstance(s, ast.If) and not s.orelse and s.body and isinstance(s.body[-1], exits):
                    acc.append((self.resolve(s.test, s), False))
            return None
        r = walk(self.func.body, [])
        return r if r is not None else []

    def return_expr(self):
        """the function's value as ONE expression: `v1 if g1 else (v2 if g2 else ... vn)` over its own return statements in source order,
        gi the conjunction of the path conditions of the i-th return (the returns of a function exclude each other, and the last one is what
        remains).  None when the function has a return inside a loop / try, or none at all."""
        rets = own_returns(self.func)
        if not rets or any(r.value is None for r in rets):
            return None

        def in_loop(r, stmts):
            for s in stmts:
                if isinstance(s, (ast.For, ast.AsyncFor, ast.While, ast.Try)) and any(n is r for n in ast.walk(s)):
                    return True
                for fld in ('body', 'orelse'):
                    if isinstance(getattr(s, fld, None), list) and not isinstance(s, (ast.FunctionDef, ast.ClassDef)) and in_loop(r, getattr(s, fld)):
                        return True
            return False
        if any(in_loop(r, self.func.body) for r in rets):
            return None
        expr = None
        for r in reversed(rets):
            v = self.resolve(r.value, r)
            if expr is None:
                expr = v
                continue
            conds = [t if pol else ast.UnaryOp(op=ast.Not(), operand=t) for t, pol in self.guard_nodes(r)]
            if not conds:
                expr = v        # an unconditional return: what follows is dead code
                continue
            g = conds[0] if len(conds) == 1 else ast.BoolOp(op=ast.And(), values=conds)
            expr = ast.IfExp(test=g, body=v, orelse=expr)
        return ast.fix_missing_locations(expr)

    def stores(self):
        """writes through subscripts / attributes and `out=` keyword arguments, in source order:
        (stmt, resolved target text, kind, payload) with kind in {'assign', 'aug', 'call'}"""
        out = []
        for s in self.order:
            for (t2, kind, p2) in self.inlined_stores.get(id(s), []):
                out.append((s, t2, kind, p2))
            if isinstance(s, ast.Assign):
                for t in s.targets:
                    if not isinstance(t, (ast.Name, ast.Tuple, ast.List)):
                        out.append((s, self.text(t, s), 'assign', self.resolve(s.value, s)))
            elif isinstance(s, ast.AugAssign) and not isinstance(s.target, ast.Name):
                out.append((s, self.text(s.target, s), 'aug', (s.op, self.resolve(s.value, s))))
            elif isinstance(s, ast.Expr) and isinstance(s.value, ast.Call):
                kw = {k.arg: k.value for k in s.value.keywords}
                if 'out' in kw:
                    out.append((s, self.text(kw['out'], s), 'call', self.resolve(s.value, s)))
        return out


def helper_inliner(tree, cls=None, keep=(), allow_with=True, local_to=None, allow_loops=False):
    """an `inline` callback for Flow: look through calls of helper functions of the module and of methods of class `cls` (called on self / the
    class) whose bodies contain no loops / try / yield; `keep` names the functions a translator knows by name and wants to see as calls"""
    methods, funcs = {}, {}
    for node in tree.body:
        if isinstance(node, ast.ClassDef) and node.name == cls:
            methods = {f.name: f for f in node.body if isinstance(f, ast.FunctionDef)}
        if isinstance(node, ast.FunctionDef):
            funcs[node.name] = node
    if local_to is not None:            # closures defined inside the analysed function
        for node in ast.walk(local_to):
            if isinstance(node, ast.FunctionDef) and node is not local_to:
                funcs.setdefault(node.name, node)
    banned = (ast.Try, ast.Yield, ast.YieldFrom, ast.Lambda) + (() if allow_with else (ast.With,)) + (() if allow_loops else (ast.For, ast.While))

    def simple(g):
        return not any(isinstance(n, banned) for n in ast.walk(g))

    def inline(call):
        fn = call.func
        if isinstance(fn, ast.Attribute) and isinstance(fn.value, ast.Name) and fn.value.id in ('self', cls) and fn.attr in methods \
                and fn.attr not in keep and simple(methods[fn.attr]):
            return methods[fn.attr]
        if isinstance(fn, ast.Name) and fn.id in funcs and fn.id not in keep and simple(funcs[fn.id]):
            return funcs[fn.id]
        return None
    return inline


# ---------------------------------------------------------------------------------------------- module-level knowledge and simplification
def is_simple(n):
    """a literal-like expression: constants, containers / dict() / tuple() of such, dotted names (enum members), signed numbers"""
    if isinstance(n, ast.Constant):
        return True
    if isinstance(n, (ast.Tuple, ast.List, ast.Set)):
        return all(is_simple(e) for e in n.elts)
    if isinstance(n, ast.Dict):
        return all(k is not None and is_simple(k) and is_simple(v) for k, v in zip(n.keys, n.values))
    if isinstance(n, ast.UnaryOp) and isinstance(n.op, (ast.USub, ast.UAdd)):
        return is_simple(n.operand)
    if isinstance(n, ast.Attribute):
        return is_simple(n.value) or isinstance(n.value, ast.Name)
    if isinstance(n, ast.Call) and isinstance(n.func, ast.Name) and n.func.id in ('dict', 'tuple', 'list', 'frozenset', 'set'):
        return all(is_simple(a) for a in n.args) and all(k.arg is not None and is_simple(k.value) for k in n.keywords)
    return False


def module_constants(tree):
    """{name: value} of module-level `NAME = <simple expression>` assigned exactly once"""
    seen, out = {}, {}
    for node in tree.body:
        tgts = node.targets if isinstance(node, ast.Assign) else [node.target] if isinstance(node, ast.AnnAssign) and node.value is not None else []
        for t in tgts:
            if isinstance(t, ast.Name):
                seen[t.id] = seen.get(t.id, 0) + 1
                if len(tgts) == 1 and is_simple(node.value):
                    out[t.id] = node.value
    return {k: v for k, v in out.items() if seen[k] == 1}


def namedtuples(tree):
    """{class name: [field, ...]} of the module's typing.NamedTuple classes (also nested in classes)"""
    out = {}
    for node in ast.walk(tree):
        if isinstance(node, ast.ClassDef) and any(ast.unparse(b) in ('NamedTuple', 'typing.NamedTuple') for b in node.bases):
            out[node.name] = [st.target.id for st in node.body if isinstance(st, ast.AnnAssign) and isinstance(st.target, ast.Name)]
    return out


_KNOWN_TUPLES = {}
_KNOWN_CLASSES = {}     # class name -> (classmethods {name: FunctionDef}, properties {name: FunctionDef}) of the module's NamedTuple classes


def own_returns(func):
    """the Return statements of `func` itself, in source order (not those of functions / lambdas nested in it)"""
    out = []

    def walk(n):
        for c in ast.iter_child_nodes(n):
            if isinstance(c, (ast.FunctionDef, ast.AsyncFunctionDef, ast.Lambda, ast.ClassDef)):
                continue
            if isinstance(c, ast.Return):
                out.append(c)
            walk(c)
    walk(func)
    return out


def value_classes(tree):
    """single-return classmethods (alternative constructors) and properties of the module's NamedTuple classes"""
    out = {}
    for node in ast.walk(tree):
        if isinstance(node, ast.ClassDef) and any(ast.unparse(b) in ('NamedTuple', 'typing.NamedTuple') for b in node.bases):
            cms, props = {}, {}
            for f in node.body:
                if isinstance(f, ast.FunctionDef):
                    body = [b for b in f.body if not (isinstance(b, ast.Expr) and isinstance(b.value, ast.Constant))]
                    if len(body) == 1 and isinstance(body[0], ast.Return) and body[0].value is not None:
                        decos = [ast.unparse(d) for d in f.decorator_list]
                        if decos == ['classmethod']:
                            cms[f.name] = f
                        elif decos == ['property']:
                            props[f.name] = f
            out[node.name] = (cms, props)
    return out


def _substitute(expr, binding):
    import copy

    class Sub(ast.NodeTransformer):
        def visit_Name(self, n):
            return copy.deepcopy(binding[n.id]) if isinstance(n.ctx, ast.Load) and n.id in binding else n
    return Sub().visit(copy.deepcopy(expr))


def simplify(node):
    """spelling differences that mean the same, and projections that can be computed:
    E.any() / E.all() / E.prod() -> np.any(E) ...; np.asarray -> np.array; .astype('int') -> .astype(int); (a, b)[0] -> a;
    C(x=.., y=..).x -> the argument (C a NamedTuple of the module, or any call with keyword x); f(**C(..)._asdict()) -> f(x=.., y=..)"""
    class S(ast.NodeTransformer):
        def visit_Call(self, n):
            n = self.generic_visit(n)
            f = n.func
            if isinstance(f, ast.Attribute) and f.attr in ('any', 'all', 'prod') and not n.args and not n.keywords \
                    and not (isinstance(f.value, ast.Name) and f.value.id in ('np', 'numpy')):
                return ast.Call(func=ast.Attribute(value=ast.Name(id='np', ctx=ast.Load()), attr=f.attr, ctx=ast.Load()), args=[f.value], keywords=[])
            if isinstance(f, ast.Attribute) and isinstance(f.value, ast.Name) and f.value.id in _KNOWN_CLASSES and f.attr in _KNOWN_CLASSES[f.value.id][0] \
                    and not any(isinstance(a, ast.Starred) for a in n.args):
                # C.from_x(a) with a one-line classmethod `return cls(...)`: the constructor call it makes (`**kw` handed on to a `**kwargs`)
                cm = _KNOWN_CLASSES[f.value.id][0][f.attr]
                ps = [a.arg for a in cm.args.posonlyargs + cm.args.args]
                star = [k for k in n.keywords if k.arg is None]
                kw_ok = not n.keywords or (cm.args.kwarg is not None and len(n.keywords) == 1 and len(star) == 1)
                if len(ps) == len(n.args) + 1 and not cm.args.defaults and kw_ok:
                    body = [b for b in cm.body if isinstance(b, ast.Return)][0].value
                    binding = {ps[0]: ast.Name(id=f.value.id, ctx=ast.Load())}
                    binding.update({p_: a for p_, a in zip(ps[1:], n.args)})
                    if star:
                        binding[cm.args.kwarg.arg] = star[0].value
                    return self.visit(_substitute(body, binding))
            if isinstance(f, ast.Attribute) and isinstance(f.value, ast.Name) and f.value.id == 'np' and f.attr in ('asarray', 'asanyarray'):
                n.func = ast.Attribute(value=f.value, attr='array', ctx=ast.Load())
            if isinstance(f, ast.Attribute) and isinstance(f.value, ast.Name) and f.value.id == 'np' and not n.keywords:
                if f.attr in ('logical_not', 'invert', 'bitwise_not') and len(n.args) == 1:
                    return ast.UnaryOp(op=ast.Invert(), operand=n.args[0])
                cmp_ = {'greater_equal': ast.GtE, 'greater': ast.Gt, 'less_equal': ast.LtE, 'less': ast.Lt, 'equal': ast.Eq, 'not_equal': ast.NotEq}.get(f.attr)
                if cmp_ is not None and len(n.args) == 2:
                    return ast.Compare(left=n.args[0], ops=[cmp_()], comparators=[n.args[1]])
            if isinstance(f, ast.Attribute) and f.attr == 'astype' and n.args and isinstance(n.args[0], ast.Constant) and n.args[0].value in ('int', 'bool', 'float'):
                n.args[0] = ast.Name(id=n.args[0].value, ctx=ast.Load())
            kws = []
            for k in n.keywords:
                v = k.value
                if k.arg is None and isinstance(v, ast.Call) and isinstance(v.func, ast.Attribute) and v.func.attr == '_asdict' and not v.args \
                        and isinstance(v.func.value, ast.Call) and not v.func.value.args and all(kk.arg is not None for kk in v.func.value.keywords):
                    kws.extend(ast.keyword(arg=kk.arg, value=kk.value) for kk in v.func.value.keywords)
                elif k.arg is None and isinstance(v, ast.Call) and isinstance(v.func, ast.Name) and v.func.id == 'dict' and not v.args \
                        and v.keywords and all(kk.arg is not None for kk in v.keywords):
                    kws.extend(ast.keyword(arg=kk.arg, value=kk.value) for kk in v.keywords)       # f(**dict(a=x)) = f(a=x)
                else:
                    kws.append(k)
            n.keywords = kws
            return n

        def visit_Attribute(self, n):
            n = self.generic_visit(n)
            v = n.value
            if isinstance(v, ast.Call) and isinstance(v.func, ast.Name) and v.func.id[:1] in '_ABCDEFGHIJKLMNOPQRSTUVWXYZ':
                for k in v.keywords:
                    if k.arg == n.attr:
                        return k.value
                fields = _KNOWN_TUPLES.get(v.func.id)
                if fields and n.attr in fields and fields.index(n.attr) < len(v.args):
                    return v.args[fields.index(n.attr)]
                props = _KNOWN_CLASSES.get(v.func.id, ({}, {}))[1]
                if n.attr in props:
                    # C(...).prop with a one-line property: its return expression about this very value
                    pf = props[n.attr]
                    body = [b for b in pf.body if isinstance(b, ast.Return)][0].value
                    return self.visit(_substitute(body, {pf.args.args[0].arg: v}))
            return n

        def visit_Subscript(self, n):
            n = self.generic_visit(n)
            if isinstance(n.value, (ast.Tuple, ast.List)) and isinstance(n.slice, ast.Constant) and isinstance(n.slice.value, int) \
                    and not isinstance(n.slice.value, bool) and -len(n.value.elts) <= n.slice.value < len(n.value.elts) \
                    and not any(isinstance(e, ast.Starred) for e in n.value.elts):
                return n.value.elts[n.slice.value]
            return n
    return S().visit(node)


# ---------------------------------------------------------------------------------------------------------------- guard-clause normal form
def _negate(t):
    if isinstance(t, ast.UnaryOp) and isinstance(t.op, ast.Not):
        return t.operand
    flip = {ast.Eq: ast.NotEq, ast.NotEq: ast.Eq, ast.In: ast.NotIn, ast.NotIn: ast.In, ast.Is: ast.IsNot, ast.IsNot: ast.Is}
    if isinstance(t, ast.Compare) and len(t.ops) == 1 and type(t.ops[0]) in flip:
        return ast.copy_location(ast.Compare(left=t.left, ops=[flip[type(t.ops[0])]()], comparators=t.comparators), t)
    return ast.copy_location(ast.UnaryOp(op=ast.Not(), operand=t), t)


def normalise_exits(tree):
    """Rewrite early exits ("guard clauses") into nested conditionals, in place, so that both styles of one control flow give one tree:
      1. `if c: ...; return/continue/break` followed by more statements   ->  `if c: ...; return  else: <the statements>`
      2. a bare `return` / `continue` where falling off the end of the block means the same is dropped
      3. two branches that end in the same `return e` hand it to the statement after the `if`
      4. `if c: <nothing> else: X`  ->  `if not c: X`
    (`raise` is not treated as an exit: argument checks stay where they are.)  Every rule preserves the meaning of the code."""
    exits = (ast.Return, ast.Continue, ast.Break)

    def ends_in_exit(stmts):
        return bool(stmts) and isinstance(stmts[-1], exits)

    def block(stmts, tail):
        stmts = list(stmts)
        # rule 1
        for i, st in enumerate(stmts):
            if isinstance(st, ast.If) and not st.orelse and ends_in_exit(st.body) and i + 1 < len(stmts):
                st.orelse = stmts[i + 1:]
                stmts = stmts[:i + 1]
                break
        out = []
        for i, st in enumerate(stmts):
            t = tail if i == len(stmts) - 1 else None
            if isinstance(st, ast.If):
                st.body = block(st.body, t)
                st.orelse = block(st.orelse, t)
                # rule 3
                hoisted = None
                if st.body and st.orelse and isinstance(st.body[-1], ast.Return) and isinstance(st.orelse[-1], ast.Return) \
                        and ast.dump(st.body[-1]) == ast.dump(st.orelse[-1]):
                    hoisted = st.body[-1]
                    st.body, st.orelse = st.body[:-1], st.orelse[:-1]
                # rule 4
                if not st.body and st.orelse:
                    st.test, st.body, st.orelse = _negate(st.test), st.orelse, []
                if not st.body and not st.orelse:
                    st.body = [ast.copy_location(ast.Pass(), st)]
                out.append(st)
                if hoisted is not None:
                    out.append(hoisted)
                continue
            if isinstance(st, (ast.With, ast.AsyncWith)):
                st.body = block(st.body, t) or [ast.copy_location(ast.Pass(), st)]
            elif isinstance(st, (ast.For, ast.AsyncFor, ast.While)):
                st.body = block(st.body, 'continue') or [ast.copy_location(ast.Pass(), st)]
                st.orelse = block(st.orelse, t)
            elif isinstance(st, ast.Try):
                st.body = block(st.body, None)
                for h in st.handlers:
                    h.body = block(h.body, None)
                st.orelse = block(st.orelse, None)
                st.finalbody = block(st.finalbody, None)
            elif isinstance(st, (ast.FunctionDef, ast.AsyncFunctionDef)):
                st.body = block(st.body, 'return') or [ast.copy_location(ast.Pass(), st)]
            elif isinstance(st, ast.ClassDef):
                st.body = block(st.body, None)
            out.append(st)
        # rule 2
        if out and ((tail == 'return' and isinstance(out[-1], ast.Return) and out[-1].value is None) or (tail == 'continue' and isinstance(out[-1], ast.Continue))):
            out = out[:-1]
        return out
    tree.body = block(tree.body, None)
    return ast.fix_missing_locations(tree)


def parse_source(text, **kw):
    """ast.parse + the guard-clause normal form"""
    import os
    return ast.parse(text, **kw) if os.environ.get('HV_NO_NORMALISE') else normalise_exits(ast.parse(text, **kw))
