#!/venv/bin/python
"""Translate the concurrency / exception / file-protocol skeleton of homonim's current source into Coq
(coq/gen/Skeleton.v).  Fail-closed: anything not recognised raises TranslatorError (= broken tie).

Recognised shared datasets and locks (a fixed name map; the lock of dataset r is lock r):
  0 self._src_im / self._src_lock      1 self._ref_im / self._ref_lock     2 corr_im|out_im / self._corr_lock
  3 param_im / self._param_lock        4 self._param_im / read_lock (stats)
"""
import ast
import os
import sys
from pathlib import Path

VERIF = Path(__file__).resolve().parents[1]
REPO = Path(os.environ.get('HOMONIM_REPO', '/repo'))
OUT = Path(os.environ.get('SKELETON_OUT', VERIF / 'coq' / 'gen' / 'Skeleton.v'))
sys.path.insert(0, str(VERIF))
from translate.resolve import parse_source, simplify, _substitute, namedtuples, _KNOWN_TUPLES      # noqa: E402

RES = {'self._src_im': 0, 'self._ref_im': 1, 'corr_im': 2, 'out_im': 2, 'param_im': 3, 'self._param_im': 4}
LOCKS = {'self._src_lock': 0, 'self._ref_lock': 1, 'self._corr_lock': 2, 'self._param_lock': 3, 'read_lock': 4, 'self._lock': 5}
MUTATORS = {'append', 'extend', 'update', 'pop', 'clear', 'add', 'setdefault', 'insert', 'remove', 'popitem', 'sort', 'reverse'}
SHARED_BASES = {'self', 'model', 'cls'}


class TranslatorError(Exception):
    pass


def parse(name):
    return parse_source((REPO / 'homonim' / name).read_text(), filename=name)


def find_func(tree, cls, name, inner=None):
    for node in tree.body:
        if isinstance(node, ast.ClassDef) and node.name == cls:
            for f in node.body:
                if isinstance(f, ast.FunctionDef) and f.name == name:
                    if inner is None:
                        return f
                    for g in ast.walk(f):
                        if isinstance(g, ast.FunctionDef) and g.name == inner:
                            return g
        if cls is None and isinstance(node, ast.FunctionDef) and node.name == name:
            return node
    raise TranslatorError(f'function {cls}.{name}{"." + inner if inner else ""} not found')


def names_in(node):
    """dotted names (self._src_im, corr_im, ...) occurring in an expression"""
    out = set()
    for n in ast.walk(node):
        if isinstance(n, (ast.Attribute, ast.Name)):
            try:
                out.add(ast.unparse(n))
            except Exception:
                pass
    return out


def calls_in(node):
    return [n for n in ast.walk(node) if isinstance(n, ast.Call)]


def ordered_calls(body):
    """Call nodes of a statement list in source order (ast.walk is breadth first)"""
    out = []

    class V(ast.NodeVisitor):
        def visit_Call(self, node):
            out.append(node)
            self.generic_visit(node)
    for st in body:
        V().visit(st)
    return out


def base_name(node):
    while isinstance(node, (ast.Attribute, ast.Subscript)):
        node = node.value
    return node.id if isinstance(node, ast.Name) else None


def class_family(trees, names):
    """FunctionDefs of the named classes (searched in the given module trees), keyed by method name (list: overrides)"""
    out = {}
    for tree in trees:
        for node in tree.body:
            if isinstance(node, ast.ClassDef) and node.name in names:
                for f in node.body:
                    if isinstance(f, ast.FunctionDef):
                        out.setdefault(f.name, []).append(f)
    return out


def writes_self(fn):
    """does the method store to an attribute / item rooted at self, or call a mutator on one?"""
    for s in ast.walk(fn):
        if isinstance(s, (ast.Assign, ast.AugAssign, ast.AnnAssign)):
            targets = s.targets if isinstance(s, ast.Assign) else [s.target]
            for t in targets:
                for sub in ast.walk(t):
                    if isinstance(sub, (ast.Attribute, ast.Subscript)) and base_name(sub) == 'self':
                        return True
        if isinstance(s, ast.Call) and isinstance(s.func, ast.Attribute) and s.func.attr in MUTATORS \
                and isinstance(s.func.value, (ast.Attribute, ast.Subscript)) and base_name(s.func.value) == 'self':
            return True
        if isinstance(s, (ast.Global, ast.Nonlocal)):
            return True
    return False


def callee_shared(family, class_names, entry):
    """Transitive closure from method ``entry`` over self.X(...) / Class.X(...) calls inside the class family:
    True if any reachable method writes shared (self) state.  Unknown callees on self are treated as writing (fail closed)."""
    seen, todo = set(), [entry]
    while todo:
        name = todo.pop()
        if name in seen:
            continue
        seen.add(name)
        if name not in family:
            return True
        for fn in family[name]:
            if name != '__init__' and writes_self(fn):
                return True
            for c in calls_in(fn):
                if isinstance(c.func, ast.Attribute):
                    recv = ast.unparse(c.func.value)
                    if recv == 'self' or recv in class_names or recv == 'super()':
                        if c.func.attr in family or recv == 'self':
                            # attribute reads that are properties are not calls; only follow names defined as methods
                            if c.func.attr in family:
                                todo.append(c.func.attr)
    return False


# dataset id -> set of lock contexts (tuples of lock ids held, innermost last) seen at its accesses in worker bodies
ACCESS_LOCKS = {}


def lock_class_map():
    """Which lock guards each dataset: the single lock that is the whole lock context of every access to it; 90 + r (no such lock
    exists, so the guard check fails) when there is none or the contexts disagree."""
    out = {}
    for r in sorted(set(RES.values())):
        ctxs = ACCESS_LOCKS.get(r, set())
        if not ctxs:
            out[r] = r            # never accessed by a worker: irrelevant, keep the identity
        elif len(ctxs) == 1 and len(next(iter(ctxs))) == 1:
            out[r] = next(iter(ctxs))[0]
        else:
            out[r] = 90 + r
    return out


class Worker:
    """Translate a worker body into the stmt IR (as Coq text)."""

    def __init__(self, inline=None, shared_names=(), callee_writes=None, helpers=None, alias=None):
        self.inline = inline or {}      # call text -> already translated stmt list (Coq text list)
        self.helpers = helpers or {}    # method name -> FunctionDef of helper methods of the same class, looked through when called on self
        self.alias = dict(alias or {})  # local name -> the dataset / lock expression it stands for (helper parameters, renamed parameters)
        self.depth = 0
        self.shared = set(SHARED_BASES) | set(shared_names)
        self.callee_writes = callee_writes or (lambda recv, meth: False)   # does recv.meth(...) write state shared between blocks?
        self.lock_stack = []            # lock ids held (with-blocks and explicit acquire) at the statement being translated

    def canon(self, txt):
        """a dotted name with a leading alias replaced by what it stands for"""
        head, _, rest = txt.partition('.')
        if head in self.alias:
            return self.alias[head] + ('.' + rest if rest else '')
        return txt

    def helper_body(self, c):
        """a call self.helper(...) of a small helper method of the same class: translate its body in place (extract-method refactoring)"""
        g = self.helpers[c.func.attr]
        params = [a.arg for a in g.args.posonlyargs + g.args.args]
        static = any(isinstance(d, ast.Name) and d.id == 'staticmethod' for d in g.decorator_list)
        if not static and params:
            params = params[1:]
        bind = {}
        for p_, a in zip(params, c.args):
            bind[p_] = a
        for k in c.keywords:
            if k.arg is not None:
                bind[k.arg] = k.value
        saved = dict(self.alias)
        for p_, a in bind.items():
            if isinstance(a, (ast.Name, ast.Attribute)):
                self.alias[p_] = self.canon(ast.unparse(a))
            else:
                self.alias.pop(p_, None)
        self.depth += 1
        try:
            if self.depth > 3:
                raise TranslatorError('helper methods nested too deeply')
            return self.stmts(g.body)
        finally:
            self.depth -= 1
            self.alias = saved

    def expr_stmts(self, node):
        """IR statements for evaluating an expression / simple statement."""
        out = []
        for c in calls_in(node):
            f = ast.unparse(c.func)
            if f in self.inline:
                return list(self.inline[f])
            if isinstance(c.func, ast.Attribute) and ast.unparse(c.func.value) == 'self' and c.func.attr in self.helpers:
                return self.helper_body(c)
            if isinstance(c.func, ast.Attribute) and self.canon(ast.unparse(c.func.value)) in LOCKS:
                lk = LOCKS[self.canon(ast.unparse(c.func.value))]
                if c.func.attr == 'acquire':
                    out.append(f'SAcquire {lk}')
                    self.lock_stack.append(lk)
                    continue
                if c.func.attr == 'release':
                    out.append(f'SRelease {lk}')
                    if lk in self.lock_stack:
                        self.lock_stack.remove(lk)
                    continue
            if isinstance(c.func, ast.Attribute) and ast.unparse(c.func.value) in LOCKS:
                if c.func.attr == 'acquire':
                    out.append(f'SAcquire {LOCKS[ast.unparse(c.func.value)]}')
                    self.lock_stack.append(LOCKS[ast.unparse(c.func.value)])
                    continue
                if c.func.attr == 'release':
                    out.append(f'SRelease {LOCKS[ast.unparse(c.func.value)]}')
                    if LOCKS[ast.unparse(c.func.value)] in self.lock_stack:
                        self.lock_stack.remove(LOCKS[ast.unparse(c.func.value)])
                    continue
            # dataset access: a call whose receiver or arguments mention a shared dataset
            mentioned = set()
            parts = [c.func] + list(c.args) + [k.value for k in c.keywords]
            for p in parts:
                for nm in names_in(p):
                    nm = self.canon(nm)
                    if nm in RES:
                        mentioned.add(RES[nm])
            for r in sorted(mentioned):
                out.append(f'SAccess {r}')
                ACCESS_LOCKS.setdefault(r, set()).add(tuple(self.lock_stack))
            # a method of an object shared between blocks (the reader `self`, the `model`) that stores to that object
            if isinstance(c.func, ast.Attribute) and isinstance(c.func.value, ast.Name) and c.func.value.id in self.shared \
                    and self.callee_writes(c.func.value.id, c.func.attr):
                out.append('SSharedWrite')
            # mutating call on shared state
            if isinstance(c.func, ast.Attribute) and c.func.attr in MUTATORS and base_name(c.func.value) in self.shared \
                    and isinstance(c.func.value, (ast.Attribute, ast.Subscript)):
                out.append('SSharedWrite')
        if not out:
            out.append('SLocal')
        return out

    def targets_shared(self, targets):
        for t in targets:
            for sub in ast.walk(t):
                if isinstance(sub, (ast.Attribute, ast.Subscript)) and base_name(sub) in self.shared:
                    return True
        return False

    def stmts(self, body):
        out = []
        for i, s in enumerate(body):
            if isinstance(s, ast.If) and not s.orelse and s.body and isinstance(s.body[-1], ast.Return) and i + 1 < len(body):
                # `if c: A; return` followed by B  ==  `if c: A else: B`
                pre = self.expr_stmts(s.test) if calls_in(s.test) else []
                a, b = self.stmts(s.body), self.stmts(body[i + 1:])
                if isinstance(s.test, ast.UnaryOp) and isinstance(s.test.op, ast.Not):
                    a, b = b, a               # `if not c` : the first branch of SIf is always the one taken when c holds
                out += pre + [f'SIf [{"; ".join(a)}] [{"; ".join(b)}]']
                return out
            out += self.stmt(s)
        return out

    def stmt(self, s):
        if isinstance(s, ast.With):
            pushed = [LOCKS[self.canon(ast.unparse(item.context_expr))] for item in s.items if self.canon(ast.unparse(item.context_expr)) in LOCKS]
            self.lock_stack += pushed
            try:
                inner = self.stmts(s.body)
            finally:
                for l in pushed:
                    self.lock_stack.remove(l)
            for item in reversed(s.items):
                nm = self.canon(ast.unparse(item.context_expr))
                if nm in LOCKS:
                    inner = [f'SWith {LOCKS[nm]} [{"; ".join(inner)}]']
                elif any(k in nm for k in LOCKS):
                    raise TranslatorError(f'lock used in an unrecognised with-expression: {nm}')
                else:
                    inner = self.expr_stmts(item.context_expr) + inner
            return inner
        if isinstance(s, ast.Assign) and len(s.targets) == 1 and isinstance(s.targets[0], ast.Name) and isinstance(s.value, (ast.Name, ast.Attribute)) \
                and (self.canon(ast.unparse(s.value)) in RES or self.canon(ast.unparse(s.value)) in LOCKS):
            self.alias[s.targets[0].id] = self.canon(ast.unparse(s.value))
            return ['SLocal']
        if isinstance(s, (ast.Assign, ast.AugAssign, ast.AnnAssign)):
            targets = s.targets if isinstance(s, ast.Assign) else [s.target]
            out = self.expr_stmts(s.value) if getattr(s, 'value', None) is not None else []
            if self.targets_shared(targets):
                out.append('SSharedWrite')
            return out or ['SLocal']
        if isinstance(s, ast.Expr):
            if isinstance(s.value, ast.Constant):
                return []          # docstring
            return self.expr_stmts(s.value)
        if isinstance(s, ast.Return):
            return self.expr_stmts(s.value) if s.value is not None and calls_in(s.value) else []
        if isinstance(s, ast.If):
            pre = self.expr_stmts(s.test) if calls_in(s.test) else []
            a, b = self.stmts(s.body), self.stmts(s.orelse)
            if isinstance(s.test, ast.UnaryOp) and isinstance(s.test.op, ast.Not):
                a, b = b, a
            return pre + [f'SIf [{"; ".join(a)}] [{"; ".join(b)}]']
        if isinstance(s, ast.Try):
            hbody, swallow = [], False
            for h in s.handlers:
                hbody += self.stmts(h.body)
                if not any(isinstance(x, ast.Raise) for x in ast.walk(ast.Module(body=h.body, type_ignores=[]))):
                    swallow = True
            return [f'STry [{"; ".join(self.stmts(s.body))}] [{"; ".join(hbody)}] [{"; ".join(self.stmts(s.finalbody))}] '
                    f'{"true" if swallow else "false"}']
        if isinstance(s, ast.Raise):
            return ['SRaise']
        if isinstance(s, (ast.Global, ast.Nonlocal)):
            self.shared |= set(s.names)
            return ['SSharedWrite']
        if isinstance(s, (ast.Pass, ast.FunctionDef, ast.Import, ast.ImportFrom)):
            return []
        if isinstance(s, ast.Assert):
            return ['SLocal']
        raise TranslatorError(f'unsupported statement in a worker body: {type(s).__name__} at line {s.lineno}')


def splice_helpers(func, methods, keep=(), depth=2, subst=False):
    """A copy of `func` in which statements that merely call a helper method of the same class (`self.helper(...)`, not in `keep`) are replaced
    by the helper's body (code moved into a private method stays visible to the structural checks below)."""
    import copy

    def splice(stmts, d):
        out = []
        for st in stmts:
            if d > 0 and isinstance(st, ast.Expr) and isinstance(st.value, ast.Call) and isinstance(st.value.func, ast.Attribute) \
                    and ast.unparse(st.value.func.value) == 'self' and st.value.func.attr in methods and st.value.func.attr not in keep:
                h = methods[st.value.func.attr]
                body = copy.deepcopy(h.body)
                if subst:
                    # the helper's parameters stand for the arguments of this call (records built for the call are seen through)
                    ps = [a.arg for a in h.args.posonlyargs + h.args.args][1:]
                    binding = {p_: a_ for p_, a_ in zip(ps, st.value.args) if not isinstance(a_, ast.Starred)}
                    binding.update({k_.arg: k_.value for k_ in st.value.keywords if k_.arg in ps})
                    assigned = {n_.id for b_ in body for n_ in ast.walk(b_) if isinstance(n_, ast.Name) and isinstance(n_.ctx, ast.Store)}
                    binding = {k_: v_ for k_, v_ in binding.items() if k_ not in assigned}
                    body = [ast.fix_missing_locations(simplify(_substitute(b_, binding))) for b_ in body]
                out.extend(splice(body, d - 1))
                continue
            for fld in ('body', 'orelse', 'finalbody'):
                if hasattr(st, fld) and isinstance(getattr(st, fld), list):
                    setattr(st, fld, splice(getattr(st, fld), d))
            for h in getattr(st, 'handlers', []):
                h.body = splice(h.body, d)
            out.append(st)
        return out
    f2 = copy.deepcopy(func)
    f2.body = splice(f2.body, depth)
    return f2


def coord_info(func, worker_names, files_ctx=None):
    """Flags describing a coordinator function (fan-out / fan-in structure)."""
    pool_with, pool_in_files = None, files_ctx is None
    files_with = None
    for n in ast.walk(func):
        if isinstance(n, ast.With):
            for item in n.items:
                txt = ast.unparse(item.context_expr)
                if 'ThreadPoolExecutor' in txt:
                    pool_with = n
                if files_ctx and files_ctx in txt:
                    files_with = n
    if files_with is not None and pool_with is not None:
        pool_in_files = any(m is pool_with for m in ast.walk(files_with))
    c_pool = False
    if pool_with is not None:
        for c in calls_in(pool_with):
            if ast.unparse(c.func).endswith('.submit') and c.args and ast.unparse(c.args[0]) in worker_names:
                c_pool = True
    # result(): a top-level statement of the loop over as_completed
    c_result = False
    for n in ast.walk(func):
        if isinstance(n, ast.For) and 'as_completed' in ast.unparse(n.iter):
            for st in n.body:
                if isinstance(st, (ast.Expr, ast.Assign, ast.AnnAssign)) and any(
                        isinstance(c.func, ast.Attribute) and c.func.attr == 'result' for c in calls_in(st)):
                    c_result = True
    # swallowing handlers anywhere in the coordinator (outside nested worker definitions)
    c_swallow = False
    skip = set()
    for n in ast.walk(func):
        if isinstance(n, ast.FunctionDef) and n is not func:
            skip |= set(id(m) for m in ast.walk(n))
    for n in ast.walk(func):
        if isinstance(n, ast.Try) and id(n) not in skip:
            for h in n.handlers:
                if not any(isinstance(x, ast.Raise) for x in ast.walk(ast.Module(body=h.body, type_ignores=[]))):
                    c_swallow = True
    # sequential branch
    c_has_seq, c_seq_direct = False, False
    for n in ast.walk(func):
        if isinstance(n, ast.If) and 'threads' in ast.unparse(n.test) and '== 1' in ast.unparse(n.test):
            c_has_seq = True
            for m in n.body:
                if isinstance(m, ast.For):
                    for st in m.body:
                        if isinstance(st, ast.Expr) and any(ast.unparse(c.func) in worker_names for c in calls_in(st)):
                            c_seq_direct = True
    b = lambda x: 'true' if x else 'false'  # noqa: E731
    return (f'{{| c_pool := {b(c_pool)}; c_result := {b(c_result)}; c_swallow := {b(c_swallow)}; c_seq_direct := {b(c_seq_direct)}; '
            f'c_has_seq := {b(c_has_seq)}; c_pool_in_files := {b(pool_in_files)} |}}')


def out_files_info(func, process_func):
    entry, fin, yield_in_try = [], [], False
    kind = lambda txt: 'FCorr' if ('corr_filename' in txt or 'out_im' in txt) else ('FParam' if ('param_filename' in txt or 'param_im' in txt) else None)  # noqa: E731
    for s in func.body:
        if isinstance(s, ast.Expr) and isinstance(s.value, ast.Constant):
            continue
        if isinstance(s, ast.If):
            t = ast.unparse(s.test)
            raises_fee = any(isinstance(x, ast.Raise) and 'FileExistsError' in ast.unparse(x) for x in ast.walk(s))

            def conjuncts(n):
                return [c for v in n.values for c in conjuncts(v)] if isinstance(n, ast.BoolOp) and isinstance(n.op, ast.And) else [ast.unparse(n)]

            def is_check(cs):
                """`not overwrite`, `<file>.exists()` and at most the truth of <file> itself (an optional output): nothing that narrows the refusal"""
                ex = [c for c in cs if c.endswith('.exists()')]
                if len(ex) != 1 or 'not overwrite' not in cs:
                    return None
                name = ex[0][:-len('.exists()')]
                if set(cs) - {'not overwrite', ex[0], name, f'{name} is not None'}:
                    return None
                return 'FParam' if 'param_filename' in name else 'FCorr'
            if 'overwrite' in t and '.exists()' in t and raises_fee and not s.orelse and all(isinstance(m_, ast.Raise) for m_ in s.body):
                k = is_check(conjuncts(s.test))
                if k is None:
                    raise TranslatorError(f'_out_files: the overwrite check at line {s.lineno} tests more than `not overwrite and <file>.exists()`: {t[:120]}')
                entry.append(f'FCheck {k}')
                continue
            # ... or the same checks under a shared outer test: `if not overwrite: if a.exists(): raise ..; if b and b.exists(): raise ..`
            def only_checks(st, conds):
                found = []
                for m in st.body:
                    if isinstance(m, ast.If) and not m.orelse:
                        r = only_checks(m, conds + [ast.unparse(m.test)])
                        if r is None:
                            return None
                        found += r
                    elif isinstance(m, ast.Raise) and 'FileExistsError' in ast.unparse(m):
                        found.append(' and '.join(conds))
                    else:
                        return None
                return found
            chk = only_checks(s, [t]) if not s.orelse else None
            if chk and all('overwrite' in c and '.exists()' in c for c in chk):
                kinds = [is_check(conjuncts(ast.parse(c, mode='eval').body)) for c in chk]
                if any(k_ is None for k_ in kinds):
                    raise TranslatorError(f'_out_files: an overwrite check at line {s.lineno} tests more than `not overwrite and <file>.exists()`')
                entry.extend(f'FCheck {k_}' for k_ in kinds)
                continue
            opens = [a for a in ast.walk(s) if isinstance(a, ast.Assign) and '.open(' in ast.unparse(a.value)]
            others = [a for a in ast.walk(s) if isinstance(a, (ast.Raise, ast.Try, ast.With, ast.For, ast.While, ast.Return))]
            if len(opens) == 1 and not others:
                v = ast.unparse(opens[0].value)
                if not ("'w'" in v or '"w"' in v):
                    raise TranslatorError(f'_out_files: open() not in write mode at line {s.lineno}')
                entry.append(f'FOpenW {kind(v)}')
                continue
            raise TranslatorError(f'_out_files: unrecognised if at line {s.lineno}')
        if isinstance(s, ast.Assign):
            v = ast.unparse(s.value)
            if '.open(' in v:
                mode_w = "'w'" in v or '"w"' in v
                if not mode_w:
                    raise TranslatorError(f'_out_files: open() not in write mode at line {s.lineno}')
                entry.append(f'FOpenW {kind(v)}')
                continue
            if calls_in(s.value):
                entry.append('FMeta FCorr')   # some other call before the try: recorded, harmless for the checks
            continue
        if isinstance(s, ast.Try):
            yield_in_try = any(isinstance(x, (ast.Yield, ast.YieldFrom)) for x in ast.walk(ast.Module(body=s.body, type_ignores=[])))
            for st in ordered_calls(s.finalbody):
                if isinstance(st, ast.Call):
                    txt = ast.unparse(st)
                    f = ast.unparse(st.func)
                    if f.endswith('.close'):
                        fin.append(f'FClose {kind(f)}')
                    elif 'metadata' in f:
                        fin.append(f'FMeta {kind(txt)}')
                    elif 'overviews' in f:
                        fin.append(f'FOvw {kind(txt)}')
            continue
        raise TranslatorError(f'_out_files: unrecognised statement {type(s).__name__} at line {s.lineno}')
    # coercion: corr_filename = Path(corr_filename) (and param) before any use, in process() or _out_files()
    def coerced(name):
        for fn in (process_func, func):
            for s in ast.walk(fn):
                if isinstance(s, ast.Assign) and len(s.targets) == 1 and ast.unparse(s.targets[0]) == name:
                    v = ast.unparse(s.value)
                    if 'Path(' in v and name in v:
                        return True
        return False
    co = coerced('corr_filename') and coerced('param_filename')
    b = lambda x: 'true' if x else 'false'  # noqa: E731
    return (f'{{| of_entry := [{"; ".join(entry)}]; of_yield_in_try := {b(yield_in_try)}; '
            f'of_finally := [{"; ".join(fin)}]; of_coerced := {b(co)} |}}')


def opens_survey():
    """every rio.open / rasterio.open call in the package: (is an input path, opened for writing)"""
    inputs = ('self._src_filename', 'self._ref_filename', 'self._param_filename', 'param_filename', 'src_filename', 'ref_filename')
    rows = []
    for py in sorted((REPO / 'homonim').glob('*.py')):
        tree = parse_source(py.read_text())
        for fn in ast.walk(tree):
            if not isinstance(fn, ast.FunctionDef):
                continue
            for c in calls_in(fn):
                f = ast.unparse(c.func)
                if f in ('rio.open', 'rasterio.open') and c.args:
                    arg = ast.unparse(c.args[0])
                    mode = ast.unparse(c.args[1]) if len(c.args) > 1 else next((ast.unparse(k.value) for k in c.keywords if k.arg == 'mode'), "'r'")
                    is_w = mode.strip('\'"') not in ('r',)
                    # in fuse._out_files param_filename is an OUTPUT; everywhere else the listed names are inputs
                    is_input = arg in inputs and not (py.name == 'fuse.py' and fn.name == '_out_files')
                    rows.append((py.name, fn.name, arg, is_input, is_w))
    return rows


def cli_info():
    tree = parse('cli.py')
    flags = []
    for name in ('fuse', 'compare', 'stats'):
        f = find_func(tree, None, name)
        ok = False
        for s in f.body:
            if isinstance(s, ast.Try):
                for h in s.handlers:
                    t = ast.unparse(h.type) if h.type is not None else 'BaseException'
                    last = h.body[-1] if h.body else None
                    if t in ('Exception', 'BaseException') and isinstance(last, ast.Raise) and 'click.Abort' in ast.unparse(last):
                        # the processing calls must be inside this try
                        inside = ast.unparse(ast.Module(body=s.body, type_ignores=[]))
                        helpers = {n_.name: ast.unparse(n_) for n_ in tree.body if isinstance(n_, ast.FunctionDef)}
                        called = [ast.unparse(c_.func) for c_ in calls_in(ast.Module(body=s.body, type_ignores=[]))]
                        via_helper = any(('.process(' in helpers[h_] or '.stats(' in helpers[h_]) for h_ in called if h_ in helpers and h_ != name)
                        if ('.process(' in inside or '.stats(' in inside or via_helper):
                            ok = True
        flags.append(ok)
    return flags


def tags_plumbing():
    """process() hands model, kernel_shape and the splat of the effective model / block configuration to _out_files, which forwards
    **kwargs to both metadata setters, which forward them to _set_metadata, which turns every item into a FUSE_<KEY> tag"""
    fu = parse('fuse.py')
    process = find_func(fu, 'RasterFuse', 'process')
    ok_call = False
    for c in calls_in(process):
        if ast.unparse(c.func) == 'self._out_files':
            kws = {k.arg: ast.unparse(k.value) for k in c.keywords if k.arg}
            splats = [ast.unparse(k.value) for k in c.keywords if k.arg is None]
            ok_call = ('model' in kws and 'kernel_shape' in kws and 'model_config' in splats and 'block_config' in splats)
    # model_config / block_config handed on are the EFFECTIVE ones (rebuilt through create_*_config from the user's dict)
    eff = {'model_config': False, 'block_config': False}
    for s_ in ast.walk(process):
        if isinstance(s_, ast.Assign) and len(s_.targets) == 1 and ast.unparse(s_.targets[0]) in eff:
            v = ast.unparse(s_.value)
            if 'create_' + ast.unparse(s_.targets[0]) in v:
                eff[ast.unparse(s_.targets[0])] = True
    _KNOWN_TUPLES.update(namedtuples(fu))
    meths = {f_.name: f_ for n_ in fu.body if isinstance(n_, ast.ClassDef) and n_.name == 'RasterFuse' for f_ in n_.body if isinstance(f_, ast.FunctionDef)}
    of = splice_helpers(find_func(fu, 'RasterFuse', '_out_files'), meths, keep=('_set_corr_metadata', '_set_param_metadata', '_build_overviews'), subst=True)
    fwd = {'_set_corr_metadata': False, '_set_param_metadata': False}
    for c in calls_in(of):
        f = ast.unparse(c.func)
        for name in fwd:
            if f == 'self.' + name and any(k.arg is None and ast.unparse(k.value) == 'kwargs' for k in c.keywords):
                fwd[name] = True
    inner = True
    for name in ('_set_corr_metadata', '_set_param_metadata'):
        f = find_func(fu, 'RasterFuse', name)
        inner &= any(ast.unparse(c.func) == 'self._set_metadata' and any(k.arg is None and ast.unparse(k.value) == 'kwargs' for k in c.keywords)
                     for c in calls_in(f))
    sm = find_func(fu, 'RasterFuse', '_set_metadata')
    src = ast.unparse(sm)
    tags = ('FUSE_' in src and 'kwargs.items()' in src and 'update_tags(**meta_dict)' in src and 'FUSE_PROC_CRS' in src
            and 'FUSE_SRC_FILE' in src and 'FUSE_REF_FILE' in src and '**kwargs_meta_dict' in src)
    return ok_call and all(eff.values()) and all(fwd.values()) and inner and tags


def locks_ok():
    """each lock attribute is assigned exactly once, in __init__, from threading.Lock(); read_lock once per function"""
    ok = True
    for fn, cls, attrs in (('raster_pair.py', 'RasterPairReader', ['self._src_lock', 'self._ref_lock']),
                           ('fuse.py', 'RasterFuse', ['self._corr_lock', 'self._param_lock'])):
        tree = parse(fn)
        for a in attrs:
            n_init, n_other = 0, 0
            for node in tree.body:
                if isinstance(node, ast.ClassDef) and node.name == cls:
                    for f in node.body:
                        if isinstance(f, ast.FunctionDef):
                            for s in ast.walk(f):
                                if isinstance(s, ast.Assign) and any(ast.unparse(t) == a for t in s.targets):
                                    if f.name == '__init__' and ast.unparse(s.value) == 'threading.Lock()':
                                        n_init += 1
                                    else:
                                        n_other += 1
            ok &= (n_init == 1 and n_other == 0)
    tree = parse('stats.py')
    for fname in ('_get_data_window', 'stats'):
        f = find_func(tree, 'ParamStats', fname)
        n = sum(1 for s in ast.walk(f) if isinstance(s, ast.Assign) and any(ast.unparse(t) == 'read_lock' for t in s.targets)
                and ast.unparse(s.value) == 'threading.Lock()')
        ok &= n == 1
    return ok


def generate():
    rp, fu, cm, st = parse('raster_pair.py'), parse('fuse.py'), parse('compare.py'), parse('stats.py')
    lst = lambda xs: '[' + '; '.join(xs) + ']'  # noqa: E731
    km, mp = parse('kernel_model.py'), parse('matched_pair.py')
    model_cls = ['KernelModel', 'RefSpaceModel', 'SrcSpaceModel']
    model_family = class_family([km], model_cls)
    reader_cls = ['RasterPairReader', 'MatchedPairReader', 'RasterFuse', 'RasterCompare']
    reader_family = class_family([rp, mp, fu, cm], reader_cls)
    stats_family = class_family([st], ['ParamStats'])

    def callee_writes(recv, meth, self_family=reader_family, self_cls=reader_cls):
        if recv == 'model':
            return callee_shared(model_family, model_cls, meth)
        if recv == 'self':
            return callee_shared(self_family, self_cls, meth) if meth in self_family else False
        return False
    def helpers_of(tree, cls, keep):
        """small methods of the class (no loops, no try, no yield, no nested functions) other than the named entry points"""
        out = {}
        for node in tree.body:
            if isinstance(node, ast.ClassDef) and node.name == cls:
                for f in node.body:
                    if isinstance(f, ast.FunctionDef) and f.name not in keep and not f.name.startswith('__') and not f.decorator_list_has_property \
                            and not any(isinstance(n, (ast.For, ast.While, ast.Try, ast.Yield, ast.YieldFrom, ast.FunctionDef, ast.Lambda)) and n is not f for n in ast.walk(f)):
                        out[f.name] = f
        return out
    for tree in (rp, fu, cm, st):
        for node in ast.walk(tree):
            if isinstance(node, ast.FunctionDef):
                node.decorator_list_has_property = any(ast.unparse(d) in ('property', 'contextmanager') or ast.unparse(d).endswith('.setter') for d in node.decorator_list)
    read_ir = Worker(callee_writes=callee_writes).stmts(find_func(rp, 'RasterPairReader', 'read').body)
    pb = find_func(fu, 'RasterFuse', '_process_block')
    pb_params = [a.arg for a in pb.args.args]
    if len(pb_params) < 5:
        raise TranslatorError('_process_block: (self, block_pair, model, corrected dataset, parameter dataset) expected')
    # the datasets are the 4th and 5th parameter whatever they are called; process() must hand its two output datasets over in that order
    pb_alias = {pb_params[3]: 'corr_im', pb_params[4]: 'param_im'}
    fuse_helpers = helpers_of(fu, 'RasterFuse', keep=('_process_block', 'process', 'read', 'block_pairs', '_out_files', '_set_metadata', '_set_corr_metadata',
                                                      '_set_param_metadata', '_build_overviews', '_merge_corr_profile', '_merge_param_profile', 'open', 'close'))
    fuse_ir = Worker(inline={'self.read': read_ir}, callee_writes=callee_writes, helpers=fuse_helpers, alias=pb_alias).stmts(pb.body)
    def outer_aliases(fn):
        """`x = self.<dataset or lock attribute>` in the enclosing function: the nested worker may use x"""
        out_ = {}
        for s_ in ast.walk(fn):
            if isinstance(s_, ast.Assign) and len(s_.targets) == 1 and isinstance(s_.targets[0], ast.Name) and isinstance(s_.value, ast.Attribute):
                v_ = ast.unparse(s_.value)
                if v_ in RES or v_ in LOCKS:
                    out_[s_.targets[0].id] = v_
        return out_
    cmp_ir = Worker(inline={'self.read': read_ir}, shared_names=['image_sums'], callee_writes=callee_writes, alias=outer_aliases(find_func(cm, 'RasterCompare', 'process')),
                    helpers=helpers_of(cm, 'RasterCompare', keep=('process', 'read', 'block_pairs', '_get_image_stats', '_get_resampling', 'open', 'close'))).stmts(
        find_func(cm, 'RasterCompare', 'process', 'get_block_sums').body)
    stats_writes = lambda recv, meth: callee_writes(recv, meth, stats_family, ['ParamStats'])  # noqa: E731
    sw_ir = Worker(shared_names=['im_data_win'], callee_writes=stats_writes, alias=outer_aliases(find_func(st, 'ParamStats', '_get_data_window'))).stmts(
        find_func(st, 'ParamStats', '_get_data_window', 'get_block_data_window').body)
    ss_ir = Worker(shared_names=['image_accum'], callee_writes=stats_writes, alias=outer_aliases(find_func(st, 'ParamStats', 'stats'))).stmts(
        find_func(st, 'ParamStats', 'stats', 'get_block_sums').body)
    process = find_func(fu, 'RasterFuse', 'process')
    _KNOWN_TUPLES.update(namedtuples(fu))
    fuse_methods = {f_.name: f_ for n_ in fu.body if isinstance(n_, ast.ClassDef) and n_.name == 'RasterFuse' for f_ in n_.body if isinstance(f_, ast.FunctionDef)}
    rows = opens_survey()
    cli = cli_info()
    b = lambda x: 'true' if x else 'false'  # noqa: E731
    text = f'''(* GENERATED by translate/skeleton.py from {REPO}/homonim - do not edit.
   Concurrency / exception / file-protocol skeleton of the current source. *)
From Coq Require Import List Bool.
From HVgen Require NormalFormCases.     (* the source was read through the normal form that file ties to its proved model *)
From HV Require Import Conc.Sem Conc.IR Conc.Coord.
Import ListNotations.

(* RasterPairReader.read *)
Definition reader_read : list stmt := {lst(read_ir)}.
(* RasterFuse._process_block (self.read inlined) *)
Definition fuse_worker : list stmt := {lst(fuse_ir)}.
(* RasterCompare.process.get_block_sums *)
Definition compare_worker : list stmt := {lst(cmp_ir)}.
(* ParamStats._get_data_window.get_block_data_window and ParamStats.stats.get_block_sums *)
Definition stats_window_worker : list stmt := {lst(sw_ir)}.
Definition stats_sums_worker : list stmt := {lst(ss_ir)}.

Definition fuse_coord : coord := {coord_info(splice_helpers(process, fuse_methods, keep=('_process_block', 'read', 'block_pairs', '_out_files')), ['self._process_block'], files_ctx='self._out_files')}.
Definition compare_coord : coord := {coord_info(find_func(cm, 'RasterCompare', 'process'), ['get_block_sums'])}.
Definition stats_window_coord : coord := {coord_info(find_func(st, 'ParamStats', '_get_data_window'), ['get_block_data_window'])}.
Definition stats_sums_coord : coord := {coord_info(find_func(st, 'ParamStats', 'stats'), ['get_block_sums'])}.

Definition fuse_out_files : out_files := {out_files_info(splice_helpers(find_func(fu, 'RasterFuse', '_out_files'), fuse_methods, keep=('_set_corr_metadata', '_set_param_metadata', '_build_overviews'), subst=True), process)}.

(* every rio.open call of the package: (opens an INPUT path, opened for writing)
{chr(10).join(f"   {r[0]}:{r[1]}  {r[2]}  input={r[3]} write={r[4]}" for r in rows)} *)
Definition opens : list (bool * bool) := {lst([f"({b(r[3])}, {b(r[4])})" for r in rows])}.

(* cli.fuse / cli.compare / cli.stats: processing inside try ... except Exception: ... raise click.Abort() *)
Definition cli_aborts : list bool := {lst([b(x) for x in cli])}.
(* every lock is created exactly once (per object / per call) from threading.Lock() *)
Definition locks_ok : bool := {b(locks_ok())}.
(* the lock under which each dataset is accessed by the worker bodies above (dataset ids: 0 source, 1 reference, 2 corrected, 3 parameter,
   4 parameter image read by stats; lock ids: 0 _src_lock, 1 _ref_lock, 2 _corr_lock, 3 _param_lock, 4 read_lock).  90 + r = no single lock *)
Definition lock_class (r : nat) : nat := match r with {" | ".join(f"{r} => {c}" for r, c in sorted(lock_class_map().items()))} | _ => r end.
(* a worker program viewed through that map: what the lock discipline (Conc.Sem.guarded) is checked on *)
Definition guard_view (p : list stmt) : list stmt := relabel_prog lock_class p.
(* process -> _out_files -> _set_corr/param_metadata -> _set_metadata, all forwarding kwargs: every effective setting becomes a FUSE_KEY tag *)
Definition tags_plumbing : bool := {b(tags_plumbing())}.
'''
    return text


def main():
    try:
        text = generate()
    except (TranslatorError, SyntaxError, OSError) as ex:
        text = ('(* GENERATED by translate/skeleton.py: TRANSLATION FAILED - the source contains a construct the translator does not\n'
                f'   recognise: {str(ex)[:300].replace("*)", "* )")} *)\n'
                'From Coq Require Import List Bool.\nDefinition translation_failed : bool := true.\n')
        OUT.parent.mkdir(parents=True, exist_ok=True)
        if not OUT.exists() or OUT.read_text() != text:
            (print('CHANGED', OUT.name) if os.environ.get('REGEN_DRY') else OUT.write_text(text))
        print(f'skeleton translator error: {ex}', file=sys.stderr)
        return False
    OUT.parent.mkdir(parents=True, exist_ok=True)
    if not OUT.exists() or OUT.read_text() != text:
        (print('CHANGED', OUT.name) if os.environ.get('REGEN_DRY') else OUT.write_text(text))
    return True


if __name__ == '__main__':
    sys.exit(0 if main() else 1)
