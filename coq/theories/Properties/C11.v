(* C11 - Comparison statistics equal their definitions, whatever the blocking.
   A block is the list of (source, reference) values at its jointly valid processing-grid pixels. *)
From Coq Require Import ZArith QArith List Bool Permutation.
From HV Require Import Base.QSum Kernel.Fit Kernel.Spec Stats.Compare Stats.CompareProofs Grid.Window Grid.WindowProofs.
From HVgen Require Import Formulas.
From HV Require Import Tie.FormulaTie.
Import ListNotations.
Open Scope Q_scope.

(* the accumulated sums are the sums over ALL jointly valid pixels: additive over any partition into blocks *)
Theorem C11_sums_additive_over_partition blocks : cs_eqv (accumulate blocks) (block_sums (concat blocks)).
Proof. exact (sums_additive_over_partition blocks). Qed.
Print Assumptions C11_sums_additive_over_partition.

(* ... and independent of the order in which blocks complete *)
Theorem C11_accumulation_order_free blocks blocks' : Permutation blocks blocks' -> cs_eqv (accumulate blocks) (accumulate blocks').
Proof. exact (accumulation_order_free blocks blocks'). Qed.
Print Assumptions C11_accumulation_order_free.

(* N = the number of jointly valid pixels *)
Theorem C11_n_is_joint_count (l : list px) : ~ n_of _ l == 0 -> s_n (band_stats (block_sums l)) == inject_Z (Z.of_nat (length l)).
Proof. exact (n_is_joint_count l). Qed.
Print Assumptions C11_n_is_joint_count.

(* RMSE^2 = mean squared difference over exactly those pixels *)
Theorem C11_rmse_sq_is_mean_sq_diff (l : list px) : ~ n_of _ l == 0 ->
  s_rmse2 (band_stats (block_sums l)) = Fin (qsum (fun p => (snd p - fst p) * (snd p - fst p)) l / n_of _ l).
Proof. exact (rmse_sq_is_mean_sq_diff l). Qed.
Print Assumptions C11_rmse_sq_is_mean_sq_diff.

(* r2 = squared Pearson correlation = cov^2 / (var_src var_ref), centred sums over exactly those pixels *)
Theorem C11_r2_is_pearson_sq (l : list px) : ~ n_of _ l == 0 -> ~ varx l * vary l == 0 ->
  exists r, s_r2 (band_stats (block_sums l)) = Fin r /\ r == (cov l * cov l) / (varx l * vary l).
Proof. exact (r2_is_pearson_sq l). Qed.
Print Assumptions C11_r2_is_pearson_sq.

(* rRMSE^2 = RMSE^2 / mean(reference)^2 *)
Theorem C11_rrmse_sq (l : list px) : ~ n_of _ l == 0 -> ~ mean_y _ snd l == 0 ->
  exists r, s_rrmse2 (band_stats (block_sums l)) = Fin r /\
            r == (qsum (fun p => (snd p - fst p) * (snd p - fst p)) l / n_of _ l) / (mean_y _ snd l * mean_y _ snd l).
Proof. exact (rrmse_sq l). Qed.
Print Assumptions C11_rrmse_sq.

(* with zero overlap the processing-grid blocks partition the processing window (C06): no pixel is counted twice or missed *)
Theorem C11_blocks_partition (pw : win) (bs : Z * Z) :
  (0 < fst bs /\ 0 < snd bs)%Z -> (0 <= w_h pw /\ 0 <= w_w pw)%Z -> forall r c, in_win pw r c ->
  exists rc, In rc (proc_blocks2 pw bs (0, 0)%Z) /\ in_win (out_of rc) r c /\
             forall rc', In rc' (proc_blocks2 pw bs (0, 0)%Z) -> in_win (out_of rc') r c -> rc' = rc.
Proof. intros Hb Hp. apply (proc_out_partition pw bs (0, 0)%Z Hb); [cbn; split; apply Z.le_refl|exact Hp]. Qed.
Print Assumptions C11_blocks_partition.

Example C11_example :
  let l := [(1, 2); (2, 4); (4, 5)] in
  s_n (band_stats (block_sums l)) == 3 /\ (match s_rmse2 (band_stats (accumulate [[(1, 2); (2, 4)]; [(4, 5)]])) with Fin v => v == 2 | NonFin => False end).
Proof. vm_compute. split; reflexivity. Qed.

(* ---- tie to the source: the arithmetic of get_band_stats in the current compare.py is that of Stats.Compare.band_stats
        (r2 = pcc^2 with pcc = num / (sqrt a * sqrt b); RMSE = sqrt (res2 / N); rRMSE = RMSE / mean(ref); N = mask_sum) *)
Theorem C11_source_arithmetic_is_the_model (S : csums) :
  let N := cN S in let X := cX S in let Y := cY S in let XY := cXY S in let XX := cXX S in let YY := cYY S in let RR := cRes S in
  let mx := cX S / cN S in let my := cY S / cN S in
  gen_cmp_pcc_num N X Y XY XX YY RR == cXY S - cN S * mx * my /\
  gen_cmp_pcc_den_a N X Y XY XX YY RR == cXX S - cN S * (mx * mx) /\
  gen_cmp_pcc_den_b N X Y XY XX YY RR == cYY S - cN S * (my * my) /\
  gen_cmp_rmse_sq N X Y XY XX YY RR == cRes S / cN S /\
  gen_cmp_rrmse_den N X Y XY XX YY RR == my /\ gen_cmp_returns_ok = true.
Proof. exact (tie_compare S). Qed.
Print Assumptions C11_source_arithmetic_is_the_model.
Theorem C11_source_block_sums_are_the_model (b : list px) :
  block_sums b = {| cX := qsum (fun p => gen_cmp_term_src_sum (fst p) (snd p)) b; cY := qsum (fun p => gen_cmp_term_ref_sum (fst p) (snd p)) b;
                    cXX := qsum (fun p => gen_cmp_term_src2_sum (fst p) (snd p)) b; cYY := qsum (fun p => gen_cmp_term_ref2_sum (fst p) (snd p)) b;
                    cXY := qsum (fun p => gen_cmp_term_src_ref_sum (fst p) (snd p)) b;
                    cRes := qsum (fun p => gen_cmp_term_res2_sum (fst p) (snd p)) b; cN := inject_Z (Z.of_nat (List.length b)) |} /\
  gen_cmp_joint_mask_ok = true /\ gen_cmp_accumulate_ok = true.
Proof. exact (compare_block_sums_tied b). Qed.

(* ---- tie to the source (gen/Pipeline.v, regenerated on every run by translate/pipeline.py from kernel_model.RefSpaceModel / SrcSpaceModel,
        fuse._process_block / process, compare.get_block_sums) *)
From HV Require Import Kernel.Flow Tie.PipelineTie.
From HVgen Require Import Pipeline.
(* compare brings the source onto the reference grid (or the reference onto the source grid) with the kernel the resolution rule picks, block by block *)
Theorem C11_source_reprojection : Pipeline.translation_failed = false /\ gen_compare_reproject_ok = true.
Proof. destruct (pipeline_tied0 true) as (A & _ & _ & (_ & _ & _ & _ & _ & _ & _ & _ & B)). split; assumption. Qed.
Print Assumptions C11_source_reprojection.
