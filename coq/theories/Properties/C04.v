(* C04 - Results do not depend on thread count or block interleaving.
   Meta-theorems hold for EVERY well-formed worker program, any number of blocks, any schedule (any thread count is a
   restriction of the set of schedules).  The per-run obligations are about the programs regenerated from the
   current source (HVgen.Skeleton) and are discharged by computation. *)
From Coq Require Import List Arith Bool QArith Permutation.
From HV Require Import Base.QSum Grid.Window Grid.Dataset Grid.DatasetProofs Conc.Sem Conc.IR Conc.Coord Conc.Instances.
From HVgen Require Import Skeleton.
Import ListNotations.

(* ---- meta: every access to a shared image file happens under mutual exclusion *)
Theorem C04_mutex progs sched : forallb (guarded [] None) progs = true ->
  let '(ths, own) := run (init progs) sched in
  forall t1 t2 th1 th2 x, nth_error ths t1 = Some th1 -> nth_error ths t2 = Some th2 ->
    inside th1 = Some x -> inside th2 = Some x -> t1 = t2.
Proof. exact (mutex progs sched). Qed.
Print Assumptions C04_mutex.

(* ---- meta: a block only ever executes its own steps, in order, whatever the other blocks do *)
Theorem C04_executes_own_trace progs sched t th : nth_error (fst (run (init progs) sched)) t = Some th ->
  exists p pre, nth_error progs t = Some p /\ p = pre ++ rest th.
Proof. exact (executes_own_trace progs sched t th). Qed.
Print Assumptions C04_executes_own_trace.

(* ---- per run: the current worker bodies follow the lock discipline on every path and every fault position,
        write no state shared between blocks, and swallow nothing *)
Theorem C04_fuse_wf : wf_worker (guard_view fuse_worker) = true.            Proof. vm_compute. reflexivity. Qed.
Theorem C04_compare_wf : wf_worker (guard_view compare_worker) = true.      Proof. vm_compute. reflexivity. Qed.
Theorem C04_stats_window_wf : wf_worker (guard_view stats_window_worker) = true. Proof. vm_compute. reflexivity. Qed.
Theorem C04_stats_sums_wf : wf_worker (guard_view stats_sums_worker) = true.    Proof. vm_compute. reflexivity. Qed.
(* the discipline is checked on the worker viewed through the generated dataset -> lock map (one lock per dataset in the current source);
   the view's traces are exactly the worker's traces with every dataset replaced by the lock that guards it, so mutual exclusion per
   lock class below is mutual exclusion per dataset *)
Theorem C04_guard_view_traces p : traces (guard_view p) = map (map (relabel_action lock_class)) (traces p).
Proof. exact (traces_relabel lock_class p). Qed.
Theorem C04_locks_created_once : locks_ok = true.              Proof. vm_compute. reflexivity. Qed.
Print Assumptions C04_fuse_wf.

(* ---- hence: fuse with ANY number of blocks, ANY schedule: mutual exclusion on all four datasets *)
Theorem C04_fuse_mutex progs sched : tasks_of (guard_view fuse_worker) progs ->
  let '(ths, own) := run (init progs) sched in
  forall t1 t2 th1 th2 x, nth_error ths t1 = Some th1 -> nth_error ths t2 = Some th2 ->
    inside th1 = Some x -> inside th2 = Some x -> t1 = t2.
Proof. exact (worker_mutex (guard_view fuse_worker) progs sched C04_fuse_wf). Qed.
Print Assumptions C04_fuse_mutex.
Theorem C04_compare_mutex progs sched : tasks_of (guard_view compare_worker) progs ->
  let '(ths, own) := run (init progs) sched in
  forall t1 t2 th1 th2 x, nth_error ths t1 = Some th1 -> nth_error ths t2 = Some th2 ->
    inside th1 = Some x -> inside th2 = Some x -> t1 = t2.
Proof. exact (worker_mutex (guard_view compare_worker) progs sched C04_compare_wf). Qed.
Print Assumptions C04_compare_mutex.

(* ---- the final image does not depend on the order in which blocks were written: blocks write disjoint windows (C06),
        so the dataset after all writes is the same for every completion order *)
Theorem C04_write_order_free {A} H W (bs bs' : list (@blockw A)) r c v0 :
  Permutation bs bs' ->
  (forall b1 b2, In b1 bs -> In b2 bs -> covers_px H W b1 r c = true -> covers_px H W b2 r c = true -> b1 = b2) ->
  abs_px H W bs v0 r c = abs_px H W bs' v0 r c.
Proof. exact (write_order_free H W bs bs' r c v0). Qed.
Print Assumptions C04_write_order_free.

(* ---- compare / stats accumulate block sums in the main thread: any completion order gives the same totals *)
Theorem C04_accumulation_order_free {A} (f : A -> Q) l1 l2 : Permutation l1 l2 -> (qsum f l1 == qsum f l2)%Q.
Proof. exact (qsum_perm f l1 l2). Qed.
Print Assumptions C04_accumulation_order_free.

(* non-vacuity: the fuse worker has 2 control paths (with / without parameter image) and several faulted outcomes *)
Example C04_fuse_outcomes : (2 <=? length (execs fuse_worker))%nat = true /\ length (filter (fun o : outc => negb (snd o)) (execs fuse_worker)) = 2%nat.
Proof. vm_compute. split; reflexivity. Qed.
