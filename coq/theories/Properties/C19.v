(* C19 - The command line is a faithful front end to the API.
   Finite statements about the CURRENT click surface (HVgen.CliSurface, regenerated on every run) proved by computation,
   and the precedence rules of the configuration merge proved for every key and every combination of sources. *)
From Coq Require Import List String Bool.
From HV Require Import Cli.Merge.
From HVgen Require Import CliSurface.
Import ListNotations.
Open Scope string_scope.

(* every fuse option is a named argument of the command callback (which uses it) or a key of EXACTLY ONE of the three
   configuration dictionaries built with _update_existing_keys from **kwargs - so no option is silently dropped *)
Theorem C19_every_fuse_option_reaches_api :
  forallb (fun o => if mem_s o fuse_named then (mem_s o fuse_named_used || String.eqb o "conf")
                    else Nat.eqb (count_in o [block_keys; model_keys; out_keys]) 1) fuse_options = true.
Proof. vm_compute. reflexivity. Qed.
(* and conversely every key of the API dictionaries is exposed as an option *)
Theorem C19_every_api_key_is_an_option :
  subset_s (block_keys ++ model_keys ++ out_keys)%list fuse_options && subset_s compare_keys compare_options = true.
Proof. vm_compute. reflexivity. Qed.
Theorem C19_config_dicts_disjoint :
  disjoint_s block_keys model_keys && disjoint_s block_keys out_keys && disjoint_s model_keys out_keys = true.
Proof. vm_compute. reflexivity. Qed.
Theorem C19_three_dicts_from_kwargs : List.length fuse_dicts_from_kwargs = 3 /\ fuse_has_kwargs = true.
Proof. vm_compute. split; reflexivity. Qed.
(* compare / stats: every option is a named, used argument or a key of RasterCompare.create_config *)
Theorem C19_every_compare_option_reaches_api :
  forallb (fun o => if mem_s o compare_named then mem_s o compare_named_used else mem_s o compare_keys) compare_options
  && forallb (fun o => mem_s o stats_named_used) stats_options = true.
Proof. vm_compute. reflexivity. Qed.
Print Assumptions C19_every_fuse_option_reaches_api.

(* kernel shape: two integers "HEIGHT WIDTH", passed unchanged as process()'s kernel_shape = (height, width) *)
Theorem C19_kernel_order : kernel_nargs = 2 /\ kernel_metavar = "HEIGHT WIDTH" /\ kernel_passed_unchanged = true.
Proof. vm_compute. repeat split. Qed.

(* precedence: command line > configuration file > default - every key, every combination of sources *)
Theorem C19_precedence_cli V (v : option V) conf : merge1 V {| p_val := v; p_from_cli := true |} conf = v.
Proof. exact (precedence_cli V v conf). Qed.
(* D11 (fixed): before the repair `--nodata null` on the command line lost against the configuration file *)
Theorem C19_cli_none_legacy_refuted V (c : V) : merge1_legacy V {| p_val := None; p_from_cli := true |} (Some c) = Some c.
Proof. exact (cli_none_legacy_refuted V c). Qed.
Theorem C19_precedence_conf V (d : option V) (c : V) : merge1 V {| p_val := d; p_from_cli := false |} (Some c) = Some c.
Proof. exact (precedence_conf V d c). Qed.
Theorem C19_precedence_default V (d : option V) b : merge1 V {| p_val := d; p_from_cli := b |} None = d.
Proof. exact (precedence_default V d b). Qed.
Print Assumptions C19_precedence_cli.
Theorem C19_merge_is_current : conf_overrides_default_only = true /\ conf_unknown_rejected = true.
Proof. vm_compute. split; reflexivity. Qed.

(* unknown configuration keys are rejected *)
Theorem C19_unknown_conf_key_rejected params keys k : In k keys -> ~ In k params -> conf_ok params keys = false.
Proof. exact (unknown_conf_key_rejected params keys k). Qed.
Print Assumptions C19_unknown_conf_key_rejected.

(* _update_existing_keys keeps exactly the keys of the API dictionary and takes the command-line value for each *)
Theorem C19_update_existing_keys V defaults kwargs : map fst (update_existing V defaults kwargs) = map fst defaults.
Proof. exact (update_existing_keys V defaults kwargs). Qed.
Theorem C19_update_existing_takes_kwarg V defaults kwargs k d v : In (k, d) defaults -> NoDup (map fst defaults) ->
  find (fun a => String.eqb (fst a) k) kwargs = Some (k, v) -> In (k, v) (update_existing V defaults kwargs).
Proof. exact (update_existing_takes_kwarg V defaults kwargs k d v). Qed.
Print Assumptions C19_update_existing_takes_kwarg.
