(* C18 - Outputs sit on the right grid, in the right band order, and describe themselves. *)
From Coq Require Import ZArith QArith List String Bool PrimFloat.
From HV Require Import Grid.ProcGrid Bands.Match Bands.MatchProofs.
From HVgen Require Import Skeleton.
Import ListNotations.

(* under auto the parameter image / processing grid is the coarser of the two images; an explicit choice is kept *)
Theorem C18_auto_is_coarser src_area ref_area :
  let p := resolve PAuto src_area ref_area in
  (src_area <= area_of p src_area ref_area /\ ref_area <= area_of p src_area ref_area)%Q /\ p <> PAuto.
Proof. exact (auto_is_coarser src_area ref_area). Qed.
(* what the correspondence accepts as the observed grid is sound for the statement (on an exact tie both images are "the coarser") *)
Theorem C18_observed_grid_sound a b obs : resolve_ok PAuto a b obs = true -> (a <= area_of obs a b /\ b <= area_of obs a b)%Q /\ obs <> PAuto.
Proof. exact (resolve_ok_sound a b obs). Qed.
Theorem C18_model_grid_accepted req a b : resolve_ok req a b (resolve req a b) = true.
Proof. exact (resolve_ok_self req a b). Qed.
Theorem C18_explicit_is_kept req a b : req <> PAuto -> resolve req a b = req.
Proof. exact (explicit_is_kept req a b). Qed.
Print Assumptions C18_auto_is_coarser.

(* the corrected image keeps the source's size, CRS and geo-transform (the parameter image those of the processing image)
   for every output profile that does not itself name those keys *)
Theorem C18_geometry_from_input V (inp cfg : prof V) :
  (forall k, In k ["width"; "height"; "crs"; "transform"]%string -> ~ In k (map fst cfg)) ->
  forall k, In k ["width"; "height"; "crs"; "transform"]%string -> lookup V k (combine V inp cfg) = lookup V k inp.
Proof. exact (geometry_from_input V inp cfg). Qed.
Print Assumptions C18_geometry_from_input.

(* per run (regenerated): model, kernel shape and every effective model / block setting reach the FUSE_* tags of both outputs *)
Theorem C18_tags_record_settings : tags_plumbing = true.
Proof. vm_compute. reflexivity. Qed.
Print Assumptions C18_tags_record_settings.

(* one band per matched source band, in matched order: the matched source list is the selection in order (C15) *)
Theorem C18_one_band_per_matched_band D ltbD overD sbands rbands wl_ok dm force s r :
  match_core D ltbD overD sbands rbands wl_ok dm force = inr (s, r) -> List.length s = List.length r /\ subseq s sbands.
Proof.
  intros H. split; [exact (lengths_equal D ltbD overD sbands rbands wl_ok dm force s r H)|
                    exact (src_order_preserved D ltbD overD sbands rbands wl_ok dm force s r H)].
Qed.
Print Assumptions C18_one_band_per_matched_band.

(* fuse -> compare round trip, stated on the matcher: a corrected image whose bands carry the matched reference bands' wavelengths
   is matched back to exactly those reference bands (non-vacuity / witness by computation; the general statement is exercised by
   the correspondence: the band matcher is run in Coq on the metadata the real fusion wrote) *)
Example C18_roundtrip_example :
  let mk w := {| b_ci := COther; b_maskdesc := false; b_cw := Some w |} in
  let ref := [mk 0x1.4cccccccccccdp-1%float; mk 0x1.a8f5c28f5c28fp-1%float; mk 0x1.eb851eb851eb8p-2%float; mk 0x1.1eb851eb851ecp-1%float] in
  (* the fusion matched source bands (1,2,3) to reference bands (3,4,1); the corrected image carries their wavelengths *)
  match_pair_bands [mk 0x1.eb851eb851eb8p-2%float; mk 0x1.1eb851eb851ecp-1%float; mk 0x1.4cccccccccccdp-1%float] ref None None false
  = inr ([1; 2; 3], [3; 4; 1]).
Proof. vm_compute. reflexivity. Qed.

(* D7 (known finding): without wavelength metadata on the reference nothing is copied, and a BGR source matched to an RGB reference
   by colour interpretation is matched in file order when the corrected image is compared *)
Theorem C18_roundtrip_refuted :
  exists src corr ref,
    match_pair_bands src ref None None false = inr ([1; 2; 3], [3; 2; 1]) /\
    match_pair_bands corr ref None None false = inr ([1; 2; 3], [1; 2; 3]).
Proof.
  exists [ {| b_ci := CBlue; b_maskdesc := false; b_cw := None |}; {| b_ci := CGreen; b_maskdesc := false; b_cw := None |};
           {| b_ci := CRed; b_maskdesc := false; b_cw := None |} ],
         (* the corrected GeoTIFF: three bands, no wavelength tags, colour interpretation not preserved (gray, undefined, undefined) *)
         [ {| b_ci := COther; b_maskdesc := false; b_cw := None |}; {| b_ci := COther; b_maskdesc := false; b_cw := None |};
           {| b_ci := COther; b_maskdesc := false; b_cw := None |} ],
         [ {| b_ci := CRed; b_maskdesc := false; b_cw := None |}; {| b_ci := CGreen; b_maskdesc := false; b_cw := None |};
           {| b_ci := CBlue; b_maskdesc := false; b_cw := None |} ].
  vm_compute. split; reflexivity.
Qed.
Print Assumptions C18_roundtrip_refuted.

From HVgen Require Import Blocks.
From HV Require Import Tie.BlockTie.
(* ---- which image the reader re-projects (regenerated from utils.same_orientation_crs on every run) and what that means for the corrected
        image: it takes CRS, geo-transform and size from the source as the reader sees it, so it is in the source's own coordinate system
        exactly when the CRSs agree or the processing grid is the reference; the remaining case is known finding D18 *)
Theorem C18_source_vrt_decisions_are_the_model snu rnu same psrc :
  gen_vrt_src_flip snu rnu same psrc = vrt_src_flip snu rnu same psrc /\ gen_vrt_ref_flip snu rnu same psrc = vrt_ref_flip snu rnu same psrc /\
  gen_vrt_src_to_ref_crs snu rnu same psrc = vrt_src_to_ref_crs snu rnu same psrc /\
  gen_vrt_ref_to_src_crs snu rnu same psrc = vrt_ref_to_src_crs snu rnu same psrc /\ gen_corr_profile_from_source_view = true.
Proof. exact (tie_vrt snu rnu same psrc). Qed.
Theorem C18_corrected_in_source_crs_iff snu rnu same psrc :
  corrected_in_source_crs snu rnu same psrc = true <-> same = true \/ psrc = false.
Proof. exact (corrected_in_source_crs_iff snu rnu same psrc). Qed.
Theorem C18_mixed_crs_source_grid_refuted : exists snu rnu same psrc, corrected_in_source_crs snu rnu same psrc = false.
Proof. exact mixed_crs_source_grid_refuted. Qed.
Print Assumptions C18_corrected_in_source_crs_iff.
