(* C14 - The parameter image is the model that was applied. *)
From Coq Require Import ZArith QArith List Bool.
Import ListNotations.
From HV Require Import Grid.Layout Kernel.Fit Kernel.FitProofs.
From HVgen Require Import Blocks.
From HV Require Import Tie.BlockTie.
Open Scope Z_scope.

(* for the i-th of n matched bands: gain, offset, R2 in bands i, n+i, 2n+i; the band-index map is a bijection onto 1..3n *)
Theorem C14_param_index_layout n i : param_index n i 0 = i + 1 /\ param_index n i 1 = n + i + 1 /\ param_index n i 2 = 2 * n + i + 1.
Proof. exact (param_index_layout n i). Qed.
Theorem C14_param_index_range n i k : 0 < n -> 0 <= i < n -> 0 <= k < 3 -> 1 <= param_index n i k <= 3 * n.
Proof. exact (param_index_range n i k). Qed.
Theorem C14_param_index_injective n i k i' k' : 0 < n -> 0 <= i < n -> 0 <= i' < n -> 0 <= k -> 0 <= k' ->
  param_index n i k = param_index n i' k' -> i = i' /\ k = k'.
Proof. exact (param_index_injective n i k i' k'). Qed.
Theorem C14_param_index_surjective n b : 0 < n -> 1 <= b <= 3 * n ->
  exists i k, 0 <= i < n /\ 0 <= k < 3 /\ param_index n i k = b.
Proof. exact (param_index_surjective n b). Qed.
Print Assumptions C14_param_index_injective.
Print Assumptions C14_param_index_surjective.

(* labelled accordingly, and in the layout validate_param_image (hence stats) accepts *)
Theorem C14_labels_match_layout n i k : 0 < n -> 0 <= i < n -> 0 <= k -> label_of n (param_index n i k) = k.
Proof. exact (labels_match_layout n i k). Qed.
Theorem C14_validator_matches_labels n b : label_of n b = validator_suffix n (b - 1).
Proof. exact (validator_matches_labels n b). Qed.
Print Assumptions C14_labels_match_layout.

(* without partial masking a processing-grid pixel carries parameters exactly when both images are valid there *)
Theorem C14_param_mask_is_joint_mask md b kh kw na nb thresh cfill i j :
  (jmask b i j = true -> exists p, fit_px md b kh kw na nb thresh cfill i j = Some p) /\
  (jmask b i j = false -> fit_px md b kh kw na nb thresh cfill i j = None).
Proof. split; [apply params_on_joint_mask|apply no_params_outside_joint_mask]. Qed.
Print Assumptions C14_param_mask_is_joint_mask.

(* on the source grid the corrected value is gain * source + offset of the stored parameters *)
Theorem C14_corrected_is_gain_src_plus_offset (g o x : Q) : apply_px (Fin g) (Fin o) x = Fin (Qplus (Qmult g x) o).
Proof. reflexivity. Qed.
Print Assumptions C14_corrected_is_gain_src_plus_offset.

Example C14_example : map (fun ik => param_index 3 (fst ik) (snd ik)) [(0, 0); (1, 0); (2, 0); (0, 1); (2, 1); (0, 2); (2, 2)] = [1; 2; 3; 4; 6; 7; 9].
Proof. reflexivity. Qed.

(* ---- tie to the source: the band index arithmetic, the label loop and the validator of the current fuse.py / utils.py are Grid.Layout's;
        the corrected band is written to band_i + 1 in the source output window, all parameter bands to the processing-grid output window *)
Theorem C14_source_layout n i k : gen_param_index n i k = param_index n i k /\ gen_param_write_ok = true /\ gen_corr_write_ok = true /\
  gen_labels_ok = true /\ gen_validator_ok = true.
Proof. exact (tie_layout n i k). Qed.
Print Assumptions C14_source_layout.

(* ---- tie to the source (gen/Pipeline.v, regenerated on every run by translate/pipeline.py from kernel_model.RefSpaceModel / SrcSpaceModel,
        fuse._process_block / process, compare.get_block_sums) *)
From HV Require Import Kernel.Flow Tie.PipelineTie.
From HVgen Require Import Pipeline.
(* the parameter block that is written is the very fit that apply() was given *)
Theorem C14_source_block_flow : Pipeline.translation_failed = false /\ gen_block_flow_ok = true /\ gen_model_choice_ok = true.
Proof. destruct (pipeline_tied0 true) as (A & _ & _ & (_ & _ & _ & _ & _ & _ & B & C & _)). repeat split; assumption. Qed.
Print Assumptions C14_source_block_flow.
