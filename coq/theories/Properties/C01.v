(* C01 - Sliding-kernel regression equals its definition at every pixel.
   [L b kh kw i j] is the list of jointly valid pixels of the kh x kw window centred on (i, j) (Kernel.Spec);
   [ksums b kh kw i j] are the OpenCV box sums the code computes (Kernel.Fit).  All statements hold for
   every block shape, every pixel value, every pair of masks and every odd kernel shape, kh <> kw included. *)
From Coq Require Import ZArith QArith List Bool.
From HV Require Import Base.ZRange Base.QSum Grid.Window Grid.WindowProofs Kernel.Fit Kernel.Spec Kernel.FitProofs.
From HVgen Require Import Formulas.
From HV Require Import Tie.FormulaTie.
Open Scope Q_scope.

(* the window is kh rows by kw columns, centred: (u, v) is in it iff |u - i| <= (kh-1)/2 and |v - j| <= (kw-1)/2 *)
Theorem C01_window_is_h_by_w kh kw i j u v : (1 <= kh)%Z -> (1 <= kw)%Z -> (kh mod 2 = 1)%Z -> (kw mod 2 = 1)%Z ->
  In (u, v) (kwin kh kw i j) <-> (Z.abs (u - i) <= (kh - 1) / 2 /\ Z.abs (v - j) <= (kw - 1) / 2)%Z.
Proof. exact (in_kwin kh kw i j u v). Qed.
Print Assumptions C01_window_is_h_by_w.

(* every box sum of a mask-zeroed array with OpenCV ksize (kw, kh) = the sum over the jointly valid window pixels *)
Theorem C01_box_is_window_sum b kh kw i j (f : Z -> Z -> Q) : (kh mod 2 = 1)%Z -> (kw mod 2 = 1)%Z ->
  cv_box (fun u v => if jmask b u v then f u v else 0) kw kh i j == qsum (fun p => f (fst p) (snd p)) (L b kh kw i j).
Proof. exact (fun Okh Okw => box_is_window_sum b kh kw i j Okh Okw f). Qed.
Print Assumptions C01_box_is_window_sum.

Theorem C01_gain_is_ratio_of_sums b kh kw i j : (kh mod 2 = 1)%Z -> (kw mod 2 = 1)%Z ->
  ~ Sx _ (px b) (L b kh kw i j) == 0 ->
  exists g, fst (gain_params (ksums b kh kw i j)) = Fin g /\ g == ratio_of_sums _ (px b) (py b) (L b kh kw i j)
            /\ snd (gain_params (ksums b kh kw i j)) = Fin 0.
Proof. exact (gain_is_ratio_of_sums b kh kw i j). Qed.
Print Assumptions C01_gain_is_ratio_of_sums.

Theorem C01_gain_offset_is_ols b kh kw i j : (kh mod 2 = 1)%Z -> (kw mod 2 = 1)%Z ->
  ~ ols_den _ (px b) (L b kh kw i j) == 0 -> ~ n_of _ (L b kh kw i j) == 0 ->
  exists m c, go_m (ksums b kh kw i j) = Fin m /\ go_c (ksums b kh kw i j) = Fin c /\
              m == ols_m _ (px b) (py b) (L b kh kw i j) /\ c == ols_c _ (px b) (py b) (L b kh kw i j).
Proof. exact (gain_offset_is_ols b kh kw i j). Qed.
Print Assumptions C01_gain_offset_is_ols.

(* ... and the closed form IS ordinary least squares: cov/var, normal equations, minimal RSS among all lines *)
Theorem C01_ols_is_cov_over_var A (x y : A -> Q) l : ~ ols_den A x l == 0 -> ~ n_of A l == 0 ->
  ols_m A x y l == (Sxy A x y l / n_of A l - mean_x A x l * mean_y A y l) / (Sxx A x l / n_of A l - mean_x A x l * mean_x A x l)
  /\ ols_c A x y l == mean_y A y l - ols_m A x y l * mean_x A x l.
Proof. exact (ols_is_cov_over_var A x y l). Qed.
Print Assumptions C01_ols_is_cov_over_var.

Theorem C01_ols_minimises_rss A (x y : A -> Q) l : ~ ols_den A x l == 0 -> ~ n_of A l == 0 ->
  forall m' c', rss A x y l (ols_m A x y l) (ols_c A x y l) <= rss A x y l m' c'.
Proof. exact (ols_minimises A x y l). Qed.
Print Assumptions C01_ols_minimises_rss.

Theorem C01_gain_blk_offset_is_normalised_ratio b kh kw i j na nb : (kh mod 2 = 1)%Z -> (kw mod 2 = 1)%Z ->
  ~ Sx _ (pxn b na nb) (L b kh kw i j) == 0 ->
  exists g o, gbo_params (ksums (norm_blk b na nb) kh kw i j) na nb = (Fin g, Fin o) /\
              g == na * (Sy _ (py b) (L b kh kw i j) / Sx _ (pxn b na nb) (L b kh kw i j)) /\
              o == nb * (Sy _ (py b) (L b kh kw i j) / Sx _ (pxn b na nb) (L b kh kw i j)).
Proof. exact (gain_blk_offset_is_normalised_ratio b kh kw i j na nb). Qed.
Print Assumptions C01_gain_blk_offset_is_normalised_ratio.

Theorem C01_r2_gain_offset b kh kw i j m c : (kh mod 2 = 1)%Z -> (kw mod 2 = 1)%Z ->
  ~ n_of _ (L b kh kw i j) == 0 -> ~ tss _ (py b) (L b kh kw i j) == 0 ->
  exists r, r2_of (ksums b kh kw i j) (rss_go (ksums b kh kw i j) m c) = Fin r /\
            r == 1 - rss _ (px b) (py b) (L b kh kw i j) m c / tss _ (py b) (L b kh kw i j).
Proof. exact (fun Okh Okw => r2_go_is_one_minus_rss_over_tss b kh kw i j Okh Okw m c). Qed.
Print Assumptions C01_r2_gain_offset.

Theorem C01_r2_gain b kh kw i j m : (kh mod 2 = 1)%Z -> (kw mod 2 = 1)%Z ->
  ~ n_of _ (L b kh kw i j) == 0 -> ~ tss _ (py b) (L b kh kw i j) == 0 ->
  exists r, r2_of (ksums b kh kw i j) (rss_g (ksums b kh kw i j) m) = Fin r /\
            r == 1 - rss _ (px b) (py b) (L b kh kw i j) m 0 / tss _ (py b) (L b kh kw i j).
Proof. exact (fun Okh Okw => r2_g_is_one_minus_rss_over_tss b kh kw i j Okh Okw m). Qed.
Print Assumptions C01_r2_gain.

(* the fitted line maps the window's mean source value to its mean reference value: all three models ... *)
Theorem C01_centroid_gain b kh kw i j : (kh mod 2 = 1)%Z -> (kw mod 2 = 1)%Z ->
  ~ Sx _ (px b) (L b kh kw i j) == 0 -> ~ n_of _ (L b kh kw i j) == 0 ->
  exists g, fst (gain_params (ksums b kh kw i j)) = Fin g /\
            g * mean_x _ (px b) (L b kh kw i j) + 0 == mean_y _ (py b) (L b kh kw i j).
Proof. exact (centroid_gain b kh kw i j). Qed.
Print Assumptions C01_centroid_gain.

Theorem C01_centroid_gain_offset b kh kw i j : (kh mod 2 = 1)%Z -> (kw mod 2 = 1)%Z ->
  ~ ols_den _ (px b) (L b kh kw i j) == 0 -> ~ n_of _ (L b kh kw i j) == 0 ->
  exists m c, go_m (ksums b kh kw i j) = Fin m /\ go_c (ksums b kh kw i j) = Fin c /\
              m * mean_x _ (px b) (L b kh kw i j) + c == mean_y _ (py b) (L b kh kw i j).
Proof. exact (centroid_gain_offset b kh kw i j). Qed.
Print Assumptions C01_centroid_gain_offset.

Theorem C01_centroid_gain_blk_offset b kh kw i j na nb : (kh mod 2 = 1)%Z -> (kw mod 2 = 1)%Z ->
  ~ Sx _ (pxn b na nb) (L b kh kw i j) == 0 -> ~ n_of _ (L b kh kw i j) == 0 ->
  exists g o, gbo_params (ksums (norm_blk b na nb) kh kw i j) na nb = (Fin g, Fin o) /\
              g * mean_x _ (px b) (L b kh kw i j) + o == mean_y _ (py b) (L b kh kw i j).
Proof. exact (centroid_gain_blk_offset b kh kw i j na nb). Qed.
Print Assumptions C01_centroid_gain_blk_offset.

(* ... and also where the offset was in-painted, for EVERY replacement offset fillnodata could return *)
Theorem C01_centroid_after_inpaint b kh kw i j c' : (kh mod 2 = 1)%Z -> (kw mod 2 = 1)%Z ->
  ~ Sx _ (px b) (L b kh kw i j) == 0 -> ~ n_of _ (L b kh kw i j) == 0 ->
  exists g, go_regain (ksums b kh kw i j) c' = Fin g /\
            g * mean_x _ (px b) (L b kh kw i j) + c' == mean_y _ (py b) (L b kh kw i j).
Proof. exact (fun Okh Okw => centroid_after_inpaint b kh kw i j Okh Okw c'). Qed.
Print Assumptions C01_centroid_after_inpaint.

(* pixels that are not jointly valid receive no parameters *)
Theorem C01_no_params_outside_joint_mask md b kh kw na nb thresh cfill i j :
  jmask b i j = false -> fit_px md b kh kw na nb thresh cfill i j = None.
Proof. exact (no_params_outside_joint_mask md b kh kw na nb thresh cfill i j). Qed.
Print Assumptions C01_no_params_outside_joint_mask.

Theorem C01_validate_kernel_shape_spec m kh kw :
  validate_kernel_shape m kh kw = true <->
  (kh mod 2 = 1 /\ kw mod 2 = 1 /\ 1 <= kh /\ 1 <= kw /\ (m = Window.MGainOffset -> 2 <= kh * kw))%Z.
Proof. exact (validate_kernel_shape_spec m kh kw). Qed.
Print Assumptions C01_validate_kernel_shape_spec.

(* non-vacuity: a 3 x 4 block with a hole, 1 x 3 kernel (h <> w): the 1 x 3 window sees 2 valid pixels (gain 10/6), the transposed 3 x 1 window would give 21/12 *)
Example C01_example :
  let b := {| bH := 3; bW := 4; sv := fun u v => inject_Z (u + 2 * v + 1); rv := fun u v => inject_Z (3 * u + 4 * v);
              sm := fun u v => negb ((u =? 1)%Z && (v =? 2)%Z); rm := fun _ _ => true |} in
  length (L b 1 3 1 1) = 2%nat /\ fst (gain_params (ksums b 1 3 1 1)) = fdiv 10 6 /\
  fst (gain_params (ksums b 3 1 1 1)) = fdiv 21 12.
Proof. vm_compute. repeat split. Qed.

From Coq Require Import String.
Import ListNotations.
Open Scope string_scope.
Open Scope list_scope.
Open Scope Q_scope.
(* ---- the tie to the source: the arithmetic of the CURRENT kernel_model.py, translated expression by expression (gen/Formulas.v,
        regenerated on every run), is the arithmetic of Kernel.Fit - numerator / denominator of the least-squares gain, the offset through the
        centroid, the re-estimated gain of in-painted pixels with its keep rule, TSS, both RSS expansions, the gain ratio *)
Theorem C01_source_arithmetic_is_the_model (S : sums) (m c : Q) :
  let N := sN S in let X := sX S in let Y := sY S in let XY := sXY S in let XX := sXX S in let YY := sYY S in
  Formulas.translation_failed = false /\
  gen_go_num N X Y XY XX YY m c == go_num S /\ gen_go_den N X Y XY XX YY m c == go_den S /\
  (gen_go_offset_n N X Y XY XX YY m c == sY S - m * sX S /\ gen_go_offset_d N X Y XY XX YY m c == sN S) /\
  (gen_go_regain_n N X Y XY XX YY m c == sY S - sN S * c /\ gen_go_regain_d N X Y XY XX YY m c == sX S) /\
  gen_ss_tot N X Y XY XX YY m c == tss_n S /\ gen_ss_res_go N X Y XY XX YY m c == rss_go S m c /\ gen_ss_res_g N X Y XY XX YY m c == rss_g S m /\
  (gen_g_gain_n N X Y XY XX YY m c == sY S /\ gen_g_gain_d N X Y XY XX YY m c == sX S).
Proof. exact (kernel_arithmetic_tied S m c). Qed.
(* ... with the guards of the source: every division restricted to the joint mask; in-painting keeps exactly the jointly valid pixels with
   R2 > threshold and gain > 0 (Fit.go_keep) and re-estimates the gain on the other jointly valid ones; both pixel arrays zeroed outside the
   joint mask before the sums; every box filter un-normalised, zero border, ksize = kernel_shape reversed; RSS scaled by N; R2 = 1 - RSS/TSS *)
Theorem C01_source_r2_shape (S : sums) (m c d : Q) (r2gt mpos joint : bool) :
  (gen_ss_res_scale (sN S) (sX S) (sY S) (sXY S) (sXX S) (sYY S) m c == sN S /\ gen_r2_final d == 1 - d) /\
  (gen_go_gain_where r2gt mpos joint = joint /\ gen_go_offset_where r2gt mpos joint = joint /\ gen_g_gain_where r2gt mpos joint = joint /\
   gen_r2_where r2gt mpos joint = joint /\ gen_go_remask r2gt mpos joint = joint /\
   gen_go_keep r2gt mpos joint = (joint && (r2gt && mpos)) /\
   gen_go_regain_where r2gt mpos joint = (joint && negb (r2gt && mpos))) /\
  (gen_go_guards_ok = true /\ gen_go_zeroing_ok = true /\ gen_g_offset_zero_ok = true /\ gen_g_zeroing_ok = true /\ gen_r2_roles_ok = true /\
   gen_gbo_order_ok = true /\ gen_box_filters_ok = true).
Proof. exact (r2_shape_tied S m c d r2gt mpos joint). Qed.
Theorem C01_source_block_normalisation x na nb m : gen_gbo_norm x na nb m == x * na + nb /\ gen_gbo_gain x na nb m == m * na /\
  gen_gbo_offset x na nb m == m * nb.
Proof. exact (tie_gbo x na nb m). Qed.
Print Assumptions C01_source_arithmetic_is_the_model.
