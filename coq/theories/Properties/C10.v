(* C10 - No clobbering, no touching inputs, no dependence on what was there before. *)
From Coq Require Import List Arith Bool Permutation.
From HV Require Import Grid.Window Grid.Dataset Grid.DatasetProofs Conc.Coord.
From HVgen Require Import Skeleton.
Import ListNotations.

(* ---- meta: when both existence checks precede every open, an existing corrected OR parameter file makes the call fail
        with FileExistsError and the file system is exactly the initial one - str or Path arguments alike *)
Theorem C10_no_overwrite_no_change steps wp is_str s : checks_first steps = true ->
  (present s FCorr = true \/ (wp = true /\ present s FParam = true)) ->
  run_entry steps true false wp is_str s = EExists s.
Proof. exact (no_overwrite_no_change steps wp is_str s). Qed.
Print Assumptions C10_no_overwrite_no_change.

Theorem C10_str_paths_ok steps ow wp s : run_entry steps true ow wp true s = run_entry steps true ow wp false s.
Proof. exact (str_paths_ok steps ow wp s). Qed.
Print Assumptions C10_str_paths_ok.

(* D4 (fixed): without the coercion a str path raised AttributeError *)
Theorem C10_str_paths_uncoerced_refuted :
  run_entry [FCheck FCorr; FCheck FParam; FOpenW FCorr; FOpenW FParam] false false false true (fun _ => None) = EAttr (fun _ => None).
Proof. exact str_paths_uncoerced_refuted. Qed.
Print Assumptions C10_str_paths_uncoerced_refuted.

(* ---- per run: the current _out_files checks both paths before opening either, opens both in 'w' mode (truncating),
        closes both in finally, and process() coerces its path arguments *)
Theorem C10_out_files_wf : wf_out_files fuse_out_files = true.   Proof. vm_compute. reflexivity. Qed.
Print Assumptions C10_out_files_wf.
Theorem C10_current_no_overwrite wp is_str s :
  (present s FCorr = true \/ (wp = true /\ present s FParam = true)) ->
  run_entry (of_entry fuse_out_files) (of_coerced fuse_out_files) false wp is_str s = EExists s.
Proof. apply (no_overwrite_no_change (of_entry fuse_out_files) wp is_str s). vm_compute. reflexivity. Qed.
Print Assumptions C10_current_no_overwrite.

(* ---- per run: no input path (source, reference, parameter input) is ever opened for writing, and the only write-mode
        opens are the corrected file, the parameter file and RasterArray.to_file *)
Theorem C10_inputs_never_written : forallb (fun o : bool * bool => negb (fst o) || negb (snd o)) opens = true.
Proof. vm_compute. reflexivity. Qed.
Theorem C10_only_requested_outputs : length (filter (fun o : bool * bool => snd o) opens) = 3.
Proof. vm_compute. reflexivity. Qed.
Print Assumptions C10_inputs_never_written.

(* ---- history independence.  File level: with overwrite both outputs are created afresh whatever was there ... *)
Theorem C10_overwrite_history_independent steps coerced wp is_str s1 s2 :
  (is_str = true -> coerced = true) ->
  (forall k, applies k wp = false -> s1 k = s2 k) -> opens_both steps = true ->
  match run_entry steps coerced true wp is_str s1, run_entry steps coerced true wp is_str s2 with
  | EOk a, EOk b => forall k, a k = b k
  | _, _ => False
  end.
Proof. exact (overwrite_history_independent steps coerced wp is_str s1 s2). Qed.
Print Assumptions C10_overwrite_history_independent.
(* ... pixel level: the blocks then overwrite every pixel (C06 tiling), so the content is the abstract map of the writes,
   independent of the initial content wherever some block covers the pixel *)
Theorem C10_content_independent_of_initial {A} H W (bs : list (@blockw A)) (v0 v1 : A) r c :
  existsb (fun b => covers_px H W b r c) bs = true ->
  (forall b1 b2, In b1 bs -> In b2 bs -> covers_px H W b1 r c = true -> covers_px H W b2 r c = true -> b1 = b2) ->
  abs_px H W bs v0 r c = abs_px H W bs v1 r c.
Proof.
  intros Hex Hu. apply existsb_exists in Hex. destruct Hex as (b & Hb & Hc).
  rewrite (abs_px_unique H W bs b r c) by (intros; apply Hu; auto).
  rewrite (abs_px_unique H W bs b r c) by (intros; apply Hu; auto).
  destruct (existsb (fun b' => covers_px H W b' r c) bs) eqn:E; [reflexivity|].
  exfalso. assert (existsb (fun b' => covers_px H W b' r c) bs = true) by (apply existsb_exists; exists b; auto). congruence.
Qed.
Print Assumptions C10_content_independent_of_initial.
(* per-call state: process() stores nothing on the reader (C09_reusable) and builds the model and the datasets per call *)
(* ... and per block: the worker bodies of the CURRENT source (regenerated, helpers and overridden methods looked through) write no state that is
   shared between blocks - nothing a block leaves behind on the object, the model or a cache can reach a later block or a later call *)
From HV Require Import Conc.Sem Conc.IR Conc.Instances.
Theorem C10_workers_keep_no_state : wf_worker (guard_view fuse_worker) = true /\ wf_worker (guard_view compare_worker) = true.
Proof. split; vm_compute; reflexivity. Qed.
Print Assumptions C10_workers_keep_no_state.
