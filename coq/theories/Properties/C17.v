(* C17 - Partial masking keeps exactly the fully supported pixels. *)
From Coq Require Import ZArith List Bool.
From HV Require Import Base.ZRange Kernel.Morph Kernel.MorphProofs Grid.Window Grid.WindowProofs.
From HVgen Require Import Blocks.
From HV Require Import Tie.BlockTie.
Open Scope Z_scope.

Theorem C17_erode_is_forall_window H W m kh kw i j : 1 <= kh -> 1 <= kw -> kh mod 2 = 1 -> kw mod 2 = 1 ->
  erode H W m kh kw i j = true <->
  (forall u v, Z.abs (u - i) <= (kh - 1) / 2 + 1 -> Z.abs (v - j) <= (kw - 1) / 2 + 1 -> inb H W u v = true /\ m u v = true).
Proof. exact (erode_is_forall_window H W m kh kw i j). Qed.
Print Assumptions C17_erode_is_forall_window.

(* a corrected pixel is valid exactly when the processing-grid pixel it falls in, and every pixel of the kernel window around it
   grown by one pixel, is valid in both images and completely covered by valid source pixels (covered = H_down_avg) *)
Theorem C17_partial_mask_characterisation H W covered joint kh kw pr pc r c :
  1 <= kh -> 1 <= kw -> kh mod 2 = 1 -> kw mod 2 = 1 ->
  partial_valid H W covered joint kh kw pr pc r c = true <->
  (forall u v, Z.abs (u - pr r) <= (kh - 1) / 2 + 1 -> Z.abs (v - pc c) <= (kw - 1) / 2 + 1 ->
               inb H W u v = true /\ covered u v = true /\ joint u v = true).
Proof. exact (partial_mask_characterisation H W covered joint kh kw pr pc r c). Qed.
Print Assumptions C17_partial_mask_characterisation.

(* subset of the (jointly valid, covered) pixels - hence of the source mask - and strictly smaller for a non-empty image:
   any set pixel whose upper neighbours are all unset or outside (the topmost set row always has such pixels) is removed *)
Theorem C17_subset H W covered joint kh kw i j : 1 <= kh -> 1 <= kw -> kh mod 2 = 1 -> kw mod 2 = 1 ->
  full_coverage H W covered joint kh kw i j = true -> inb H W i j = true /\ covered i j = true /\ joint i j = true.
Proof. exact (partial_subset H W covered joint kh kw i j). Qed.
Theorem C17_strict H W covered joint kh kw i j : 1 <= kh -> 1 <= kw -> kh mod 2 = 1 -> kw mod 2 = 1 ->
  (forall v, inb H W (i - 1) v = true -> covered (i - 1) v && joint (i - 1) v = false) ->
  full_coverage H W covered joint kh kw i j = false.
Proof. exact (partial_strict H W covered joint kh kw i j). Qed.
Print Assumptions C17_subset.
Print Assumptions C17_strict.

(* independent of block size: the erosion reads the mask only within (k+1)/2 = the block overlap of the pixel *)
Theorem C17_block_independent H W m m' kh kw i j : 1 <= kh -> 1 <= kw -> kh mod 2 = 1 -> kw mod 2 = 1 ->
  (forall u v, Z.abs (u - i) <= (kh - 1) / 2 + 1 -> Z.abs (v - j) <= (kw - 1) / 2 + 1 -> m u v = m' u v) ->
  erode H W m kh kw i j = erode H W m' kh kw i j.
Proof. exact (erode_local H W m m' kh kw i j). Qed.
Theorem C17_erosion_reach_is_overlap k : 1 <= k -> k mod 2 = 1 -> (k - 1) / 2 + 1 <= overlap_for_kernel k.
Proof. intros A B. destruct (overlap_covers_kernel k A B) as [_ H]. exact H. Qed.
Print Assumptions C17_block_independent.

(* fuse erodes block by block (border value 0 at the block edge) and samples the result, by nearest re-projection, at every source pixel of
   the block's output window - on unaligned grids up to one processing pixel beyond it.  With a block overlap of at least erosion reach + 1
   (what process() uses with partial masking on; the correspondence checks the value it hands to block_pairs) the block result is the
   whole-image result at every such position; with overlap = reach it is not (the defect repaired by 71fa277). *)
Theorem C17_seam_sampling_safe H W r0 c0 Hb Wb m kh kw oh ow i j : 1 <= kh -> 1 <= kw -> kh mod 2 = 1 -> kw mod 2 = 1 ->
  0 <= r0 -> r0 + Hb <= H -> 0 <= c0 -> c0 + Wb <= W ->
  (kh - 1) / 2 + 1 + 1 <= oh -> (kw - 1) / 2 + 1 + 1 <= ow ->
  (r0 = 0 \/ r0 + oh - 1 <= i) -> (r0 + Hb = H \/ i <= r0 + Hb - oh) ->
  (c0 = 0 \/ c0 + ow - 1 <= j) -> (c0 + Wb = W \/ j <= c0 + Wb - ow) ->
  erode_blk r0 c0 Hb Wb m kh kw i j = erode H W m kh kw i j.
Proof. exact (seam_sampling_safe H W r0 c0 Hb Wb m kh kw oh ow i j). Qed.
Print Assumptions C17_seam_sampling_safe.
Theorem C17_seam_sampling_legacy_refuted :
  let m := fun _ _ : Z => true in
  erode_blk 4 0 8 12 m 3 3 5 6 = false /\ erode 12 12 m 3 3 5 6 = true /\ erode_blk 3 0 9 12 m 3 3 5 6 = true.
Proof. exact seam_sampling_legacy_refuted. Qed.

Example C17_example :
  let m := fun u v => negb ((u =? 2) && (v =? 3)) in
  (erode 7 9 m 1 3 3 4, erode 7 9 m 1 3 4 6, erode 7 9 m 1 3 0 4, erode 7 9 m 3 1 4 3) = (false, true, false, false).
Proof. vm_compute. reflexivity. Qed.

(* ---- tie to the source: with partial masking the current fuse.py hands block_pairs one pixel more than the erosion reach (the premise of
        C17_seam_sampling_safe); _full_coverage_mask thresholds the average coverage at 1, ands the joint mask and erodes with a
        (kernel + 2) element and a zero border *)
Theorem C17_source_overlap_with_partial_masking k : 1 <= k -> k mod 2 = 1 -> (k - 1) / 2 + 1 + 1 <= gen_fuse_overlap true k.
Proof. intros A B. exact (proj2 (tie_fuse_overlap k A B)). Qed.
Theorem C17_source_partial_mask_structure k : gen_erode_size k = k + 2 /\ gen_partial_mask_ok = true.
Proof. exact (tie_partial_mask k). Qed.
Print Assumptions C17_source_overlap_with_partial_masking.

(* ---- tie to the source (gen/Pipeline.v, regenerated on every run by translate/pipeline.py from kernel_model.RefSpaceModel / SrcSpaceModel,
        fuse._process_block / process, compare.get_block_sums) *)
From HV Require Import Kernel.Flow Tie.PipelineTie.
From HVgen Require Import Pipeline.
(* with partial masking on, the CURRENT source applies the full-coverage mask: on the reference grid brought to the source grid by a nearest
   re-projection (no nodata value, so that 0 stays 0), on the source grid directly *)
Theorem C17_source_partial_mask_flow : Pipeline.translation_failed = false /\ gen_ref_apply_mask true = MCoverNearest /\ gen_src_fit_mask true = MCover.
Proof. destruct (pipeline_tied0 true) as (A & _ & (B & C) & _). repeat split; assumption. Qed.
Print Assumptions C17_source_partial_mask_flow.
