(* C12 - Parameter statistics equal their definitions and agree with what fuse wrote. *)
From Coq Require Import ZArith QArith List Bool Permutation.
From HV Require Import Base.QSum Kernel.Fit Stats.Param Stats.ParamProofs.
From HVgen Require Import Formulas.
From HV Require Import Tie.FormulaTie.
Import ListNotations.
Open Scope Q_scope.

(* minimum / maximum over all valid values: a bound that is attained *)
Theorem C12_min_is_definition l : l <> [] -> exists v, list_min l = Some v /\ In v l /\ forall x, In x l -> v <= x.
Proof. exact (list_min_spec l). Qed.
Theorem C12_max_is_definition l : l <> [] -> exists v, list_max l = Some v /\ In v l /\ forall x, In x l -> x <= v.
Proof. exact (list_max_spec l). Qed.
Print Assumptions C12_min_is_definition.
Print Assumptions C12_max_is_definition.

Theorem C12_mean_is_definition l thresh : ~ inject_Z (Z.of_nat (length l)) == 0 ->
  p_mean (band_stats (tile_accum thresh l)) = Fin (qsum (fun x => x) l / inject_Z (Z.of_nat (length l))).
Proof. exact (mean_is_definition l thresh). Qed.
Print Assumptions C12_mean_is_definition.

(* std^2 = population variance *)
Theorem C12_std_sq_is_population_variance l thresh : ~ inject_Z (Z.of_nat (length l)) == 0 ->
  exists v, p_var (band_stats (tile_accum thresh l)) = Fin v /\
            v == qsum (fun x => (x - qsum (fun x => x) l / inject_Z (Z.of_nat (length l)))
                                * (x - qsum (fun x => x) l / inject_Z (Z.of_nat (length l)))) l / inject_Z (Z.of_nat (length l)).
Proof. exact (std_sq_is_population_variance l thresh). Qed.
Print Assumptions C12_std_sq_is_population_variance.

(* ... which is never negative: the np.maximum(variance, 0) in the source only absorbs negative rounding *)
Theorem C12_variance_nonneg l thresh : ~ inject_Z (Z.of_nat (length l)) == 0 ->
  exists v, p_var (band_stats (tile_accum thresh l)) = Fin v /\ 0 <= v.
Proof. exact (variance_nonneg l thresh). Qed.

(* in-paint percentage: share of valid pixels whose R2 lies below the threshold recorded in the file *)
Theorem C12_inpaint_percentage l t : ~ inject_Z (Z.of_nat (length l)) == 0 ->
  p_inpaint (band_stats (tile_accum (Some t) l)) = Fin (100 * count_below t l / inject_Z (Z.of_nat (length l))) /\
  count_below t l == inject_Z (Z.of_nat (length (filter (fun x => negb (Qle_bool t x)) l))).
Proof. intros H. split; [exact (inpaint_percentage l (Some t) H t eq_refl)|exact (count_below_spec t l)]. Qed.
Print Assumptions C12_inpaint_percentage.

(* any tiling of the file and any completion order give the same sums *)
Theorem C12_tiling_independent thresh tiles : sums_eqv (accumulate thresh tiles) (tile_accum thresh (concat tiles)).
Proof. exact (tiling_independent thresh tiles). Qed.
Theorem C12_order_independent thresh a b : Permutation a b -> sums_eqv (tile_accum thresh a) (tile_accum thresh b).
Proof. exact (tile_perm thresh a b). Qed.
Print Assumptions C12_tiling_independent.
Print Assumptions C12_order_independent.

(* the valid-data window pre-pass skips no valid pixel lying inside the bounding window of the valid data *)
Theorem C12_prepass_loses_nothing (win tile : Z * Z * Z * Z) r c :
  (let '(r0, r1, c0, c1) := win in in_rect r0 r1 c0 c1 r c) ->
  (let '(r0, r1, c0, c1) := tile in in_rect r0 r1 c0 c1 r c) -> rects_intersect win tile.
Proof. exact (prepass_loses_nothing win tile r c). Qed.
Print Assumptions C12_prepass_loses_nothing.

(* R2 bands are the last third of the bands *)
Example C12_r2_bands : map (is_r2_band 6) [0; 1; 2; 3; 4; 5]%Z = [false; false; false; false; true; true].
Proof. vm_compute. reflexivity. Qed.

(* ---- tie to the source: the arithmetic of _get_image_stats in the current stats.py is that of Stats.Param.band_stats (mean, the variance
        under the square root - clamped at zero, which only absorbs negative rounding -, in-paint percentage, min / max passed through) *)
Theorem C12_source_arithmetic_is_the_model (a : accum) :
  let S := a_sum a in let S2 := a_sum2 a in let n := a_n a in let I := a_inp a in
  gen_st_mean S S2 n I == a_sum a / a_n a /\ gen_st_var S S2 n I == a_sum2 a / a_n a - (a_sum a * a_sum a) / (a_n a * a_n a) /\
  gen_st_inpaint_p S S2 n I == (100 * a_inp a) / a_n a /\ gen_st_minmax_ok = true /\ gen_st_var_clamped_at_zero = true.
Proof. exact (tie_stats a). Qed.
Print Assumptions C12_source_arithmetic_is_the_model.
Theorem C12_source_block_sums_are_the_model (thresh : option Q) (tile : list Q) :
  a_sum (tile_accum thresh tile) = qsum gen_st_term_sum tile /\ a_sum2 (tile_accum thresh tile) = qsum gen_st_term_sum2 tile /\
  gen_st_block_ok = true /\ gen_st_inpaint_is_strictly_below = true /\ gen_st_inpaint_bands_ok = true /\ gen_st_accumulate_ok = true.
Proof. exact (stats_block_sums_tied thresh tile). Qed.
