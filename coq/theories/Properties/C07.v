(* C07 - Radiometric scale laws: source gain irrelevant, reference scale carries through. *)
From Coq Require Import ZArith QArith List Bool.
From HV Require Import Base.QSum Kernel.Fit Kernel.Laws Kernel.Corollaries.
Open Scope Q_scope.

(* source x kx, reference x ky (kx, ky > 0), any model, any block, kernel, masks, in-paint setting:
   the joint mask is unchanged, gains are multiplied by ky/kx, offsets by ky, R2 is unchanged, and the same
   pixels are selected for in-painting.  The block normalisation moves as (ky/kx * a, ky * b) (C07_block_norm).
   cfill' = ky * cfill is hypothesis H_lin on the in-painting engine. *)
Theorem C07_fit_scale md kx ky b kh kw na nb thresh cfill cfill' i j : 0 < kx -> 0 < ky ->
  cfill' i j == ky * cfill i j ->
  oparams_rel kx ky (fit_px md b kh kw na nb thresh cfill i j)
                    (fit_px md (scale_blk kx ky b) kh kw (ky / kx * na) (ky * nb) thresh cfill' i j).
Proof. exact (fit_scale md kx ky b kh kw na nb thresh cfill cfill' i j). Qed.
Print Assumptions C07_fit_scale.

(* the only thresholds are dimensionless: R2 > thresh and gain > 0 are invariant *)
Theorem C07_thresholds_dimensionless kx ky S S' t : 0 < kx -> 0 < ky -> sums_rel kx ky S S' ->
  go_keep S' t = go_keep S t.
Proof. exact (fun Hx Hy R => go_keep_rel kx ky S S' Hx Hy R t). Qed.
Print Assumptions C07_thresholds_dimensionless.

(* corrected image: unchanged by the source scale (ky = 1), multiplied by the reference scale *)
Theorem C07_corrected_scale kx ky p p' x : 0 < kx -> params_rel kx ky p p' ->
  feqv (apply_px (p_gain p') (p_off p') (kx * x)) (fmap (fun c => ky * c) (apply_px (p_gain p) (p_off p) x)).
Proof. exact (corrected_scale kx ky p p' x). Qed.
Print Assumptions C07_corrected_scale.

(* the block normalisation (std_r / std_s, pct_r - pct_s * a): if the two statistics are positively homogeneous
   (property of NumPy's std and percentile, exercised by the correspondence) the block model moves as required *)
Theorem C07_block_norm (std_s std_r pct_s pct_r kx ky : Q) : 0 < kx -> 0 < ky -> ~ std_s == 0 ->
  let a := std_r / std_s in let b := pct_r - pct_s * a in
  let a' := (ky * std_r) / (kx * std_s) in let b' := ky * pct_r - (kx * pct_s) * a' in
  a' == ky / kx * a /\ b' == ky * b.
Proof. intros Hx Hy Hs. cbn zeta. split; field; split; try assumption; intro E; rewrite E in Hx; apply (Qlt_irrefl 0); exact Hx. Qed.
Print Assumptions C07_block_norm.

(* non-vacuity: x4 on the source of a concrete block divides the gain by 4 *)
Example C07_example :
  let b := {| bH := 2; bW := 2; sv := fun u v => inject_Z (u + v + 1); rv := fun u v => inject_Z (2 * u + v + 3);
              sm := fun _ _ => true; rm := fun _ _ => true |} in
  (fst (gain_params (ksums b 3 3 0 0)), fst (gain_params (ksums (scale_blk 4 1 b) 3 3 0 0))) = (fdiv 18 8, fdiv 18 32).
Proof. vm_compute. reflexivity. Qed.
