(* C02 - End to end: an exact linear source-reference relation is recovered in place. *)
From Coq Require Import ZArith QArith List Bool.
From HV Require Import Base.QSum Kernel.Fit Kernel.Laws Kernel.Linear Grid.Window Grid.WindowProofs Grid.Dataset Grid.DatasetProofs.
From HVgen Require Import Formulas.
From HV Require Import Tie.FormulaTie.
Open Scope Q_scope.

(* if ref = a * x + c on the jointly valid pixels of the block (x = the source as seen on the processing grid), then at every
   pixel, for every block shape, mask and odd kernel: *)
Theorem C02_recovers_gain b a kh kw i j :
  (forall u v, jmask b u v = true -> rv b u v == a * sv b u v + 0) -> ~ sX (ksums b kh kw i j) == 0 ->
  feqv (fst (gain_params (ksums b kh kw i j))) (Fin a).
Proof. intros H Hx. apply (recovers_gain b a 0 kh kw i j H); [reflexivity|exact Hx]. Qed.
Print Assumptions C02_recovers_gain.

Theorem C02_recovers_gain_offset b a c kh kw i j :
  (forall u v, jmask b u v = true -> rv b u v == a * sv b u v + c) ->
  ~ go_den (ksums b kh kw i j) == 0 -> ~ sN (ksums b kh kw i j) == 0 ->
  feqv (go_m (ksums b kh kw i j)) (Fin a) /\ feqv (go_c (ksums b kh kw i j)) (Fin c).
Proof. exact (recovers_gain_offset b a c kh kw i j). Qed.
Print Assumptions C02_recovers_gain_offset.

(* the recovered line has zero residual, so R2 = 1 (and with a > 0 and a threshold < 1 the pixel is never in-painted) *)
Theorem C02_recovers_r2 b a c kh kw i j :
  (forall u v, jmask b u v = true -> rv b u v == a * sv b u v + c) -> ~ tss_n (ksums b kh kw i j) == 0 ->
  feqv (r2_of (ksums b kh kw i j) (rss_go (ksums b kh kw i j) a c)) (Fin 1).
Proof. exact (recovers_r2 b a c kh kw i j). Qed.
Print Assumptions C02_recovers_r2.

Theorem C02_recovers_gain_blk_offset b a c kh kw i j :
  (forall u v, jmask b u v = true -> rv b u v == a * sv b u v + c) ->
  ~ sX (ksums (norm_blk b a c) kh kw i j) == 0 ->
  let '(g, o) := gbo_params (ksums (norm_blk b a c) kh kw i j) a c in feqv g (Fin a) /\ feqv o (Fin c).
Proof. exact (recovers_gain_blk_offset b a c kh kw i j). Qed.
Print Assumptions C02_recovers_gain_blk_offset.

(* applied to the source the recovered parameters give a * source + c - at the pixel's own location: every source pixel is written
   exactly once (C06) at its own place (C20) *)
Theorem C02_corrected_is_linear a c x : apply_px (Fin a) (Fin c) x = Fin (a * x + c).
Proof. exact (corrected_is_linear a c x). Qed.
Theorem C02_every_pixel_written_once (pw : win) (bs ov : Z * Z) :
  (0 < fst bs /\ 0 < snd bs)%Z -> (0 <= fst ov /\ 0 <= snd ov)%Z -> (0 <= w_h pw /\ 0 <= w_w pw)%Z -> forall r c, in_win pw r c ->
  exists rc, In rc (proc_blocks2 pw bs ov) /\ in_win (out_of rc) r c /\
             forall rc', In rc' (proc_blocks2 pw bs ov) -> in_win (out_of rc') r c -> rc' = rc.
Proof. exact (proc_out_partition pw bs ov). Qed.
Print Assumptions C02_every_pixel_written_once.

Example C02_example :
  let b := {| bH := 2; bW := 3; sv := fun u v => inject_Z (u + 2 * v + 1); rv := fun u v => 3 * inject_Z (u + 2 * v + 1) + 7;
              sm := fun u v => negb ((u =? 0)%Z && (v =? 1)%Z); rm := fun _ _ => true |} in
  (match go_m (ksums b 3 3 1 1) with Fin m => Qeq_bool m 3 | NonFin => false end,
   match go_c (ksums b 3 3 1 1) with Fin c => Qeq_bool c 7 | NonFin => false end) = (true, true).
Proof. vm_compute. reflexivity. Qed.

(* ---- tie to the source: KernelModel.apply in the current kernel_model.py computes gain * source + offset *)
Theorem C02_source_apply_is_gain_src_plus_offset m c x : gen_apply m c x == m * x + c.
Proof. exact (tie_apply m c x). Qed.
Print Assumptions C02_source_apply_is_gain_src_plus_offset.

(* ---- tie to the source (gen/Pipeline.v, regenerated on every run by translate/pipeline.py from kernel_model.RefSpaceModel / SrcSpaceModel,
        fuse._process_block / process, compare.get_block_sums) *)
From HV Require Import Kernel.Flow Tie.PipelineTie.
From HVgen Require Import Pipeline.
Local Open Scope Q_scope.
(* the CURRENT source: the source is brought to the reference grid (or the reference to the source grid) with the kernel the resolution rule
   picks, fitted there by the model's fitter with the configured kernel shape, the first two parameter bands are brought to the source grid,
   applied to the ORIGINAL source block by KernelModel.apply (C02_source_apply_is_gain_src_plus_offset) and that result is what is written *)
Theorem C02_source_pipeline_flow mp a b :
  Pipeline.translation_failed = false /\ gen_get_resampling a b = get_resampling a b /\
  (gen_ref_apply_mask mp = ref_apply_mask mp /\ gen_src_fit_mask mp = src_fit_mask mp) /\
  (gen_fit_dispatch_ok = true /\ gen_fit_grid_check_ok = true /\ gen_ref_fit_ok = true /\ gen_ref_apply_params_ok = true /\
   gen_src_fit_ok = true /\ gen_src_fit_copies_source = true /\ gen_block_flow_ok = true /\ gen_model_choice_ok = true /\
   gen_compare_reproject_ok = true).
Proof. exact (pipeline_tied mp a b). Qed.
Theorem C02_resampling_rule a b : (get_resampling a b = RDown <-> a <= b) /\ (get_resampling a b = RUp <-> b < a).
Proof. exact (get_resampling_spec a b). Qed.
Print Assumptions C02_source_pipeline_flow.

(* ---- composed with the block partition: an exact linear relation is recovered in EVERY block of ANY partition, at every jointly valid pixel of the
        block's output window where the whole-image fit is defined (gain: source kernel sum <> 0; gain-offset without in-painting: OLS denominator <> 0) *)
From HV Require Import Kernel.Blockwise Kernel.BlockwiseLinear Kernel.Laws.
Local Open Scope Z_scope.
Theorem C02_blockwise_recovers_gain b kh kw bs a c rc na nb thresh cfill i j :
  1 <= kh /\ kh mod 2 = 1 -> 1 <= kw /\ kw mod 2 = 1 -> 0 < fst bs /\ 0 < snd bs -> 0 <= bH b /\ 0 <= bW b ->
  (forall u v, jmask b u v = true -> (rv b u v == a * sv b u v + c)%Q) -> (c == 0)%Q ->
  In rc (proc_blocks2 (whole b) bs (kernel_overlap kh kw)) -> in_win (out_of rc) i j ->
  jmask b i j = true -> ~ (sX (ksums b kh kw i j) == 0)%Q ->
  exists p, fit_px Fit.MGain (block_image b rc) kh kw na nb thresh cfill i j = Some p /\ feqv (p_gain p) (Fin a) /\ feqv (p_off p) (Fin 0).
Proof. intros A B C D E. exact (blockwise_recovers_gain b kh kw A B bs C D a c E rc na nb thresh cfill i j). Qed.
Theorem C02_blockwise_recovers_gain_offset b kh kw bs a c rc na nb cfill i j :
  1 <= kh /\ kh mod 2 = 1 -> 1 <= kw /\ kw mod 2 = 1 -> 0 < fst bs /\ 0 < snd bs -> 0 <= bH b /\ 0 <= bW b ->
  (forall u v, jmask b u v = true -> (rv b u v == a * sv b u v + c)%Q) ->
  In rc (proc_blocks2 (whole b) bs (kernel_overlap kh kw)) -> in_win (out_of rc) i j ->
  jmask b i j = true -> ~ (go_den (ksums b kh kw i j) == 0)%Q -> ~ (sN (ksums b kh kw i j) == 0)%Q ->
  exists p, fit_px Fit.MGainOffset (block_image b rc) kh kw na nb None cfill i j = Some p /\ feqv (p_gain p) (Fin a) /\ feqv (p_off p) (Fin c).
Proof. intros A B C D E. exact (blockwise_recovers_gain_offset b kh kw A B bs C D a c E rc na nb cfill i j). Qed.
Print Assumptions C02_blockwise_recovers_gain_offset.
(* ---- the block normalisation the gain-blk-offset recovery theorems assume (norm_blk: an increasing affine map for every block with two distinct jointly valid values) is what the CURRENT source computes for every block, however few jointly valid pixels it holds *)
From HVgen Require Import Formulas.
From HV Require Import Tie.FormulaTie.
Theorem C02_source_block_norm : gen_block_norm_ok = true.
Proof. exact tie_block_norm. Qed.
Print Assumptions C02_source_block_norm.
