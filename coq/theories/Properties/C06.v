(* C06 - Output blocks tile the source exactly; paired windows cover the same ground.
   Only statements here; each is closed by [exact] of a lemma proved elsewhere. *)
From Coq Require Import ZArith List Bool PrimFloat.
From HV Require Import Base.ZRange Grid.Window Grid.WindowProofs Grid.OtherGrid.
From HVgen Require Import Blocks.
From HV Require Import Tie.BlockTie.
Import ListNotations.
Open Scope Z_scope.

(* processing grid: every pixel of the processing window lies in exactly one output window,
   for every window, block shape >= 1 and overlap (unbounded) *)
Theorem C06_proc_out_partition (pw : win) (bs ov : Z * Z) :
  0 < fst bs /\ 0 < snd bs -> 0 <= fst ov /\ 0 <= snd ov -> 0 <= w_h pw /\ 0 <= w_w pw -> forall r c, in_win pw r c ->
  exists rc, In rc (proc_blocks2 pw bs ov) /\ in_win (out_of rc) r c /\
             forall rc', In rc' (proc_blocks2 pw bs ov) -> in_win (out_of rc') r c -> rc' = rc.
Proof. exact (proc_out_partition pw bs ov). Qed.
Print Assumptions C06_proc_out_partition.

Theorem C06_proc_out_inside (pw : win) (bs ov : Z * Z) :
  0 < fst bs /\ 0 < snd bs -> 0 <= fst ov /\ 0 <= snd ov -> 0 <= w_h pw /\ 0 <= w_w pw ->
  forall rc r c, In rc (proc_blocks2 pw bs ov) -> in_win (out_of rc) r c -> in_win pw r c.
Proof. exact (proc_out_inside pw bs ov). Qed.
Print Assumptions C06_proc_out_inside.

(* each input window = its output window grown by the requested overlap, clipped to the processing window *)
Theorem C06_proc_in_is_out_grown (pw : win) (bs ov : Z * Z) :
  0 < fst bs /\ 0 < snd bs -> 0 <= fst ov /\ 0 <= snd ov -> 0 <= w_h pw /\ 0 <= w_w pw ->
  forall rc, In rc (proc_blocks2 pw bs ov) ->
  let i := in_of rc in let o := out_of rc in
  w_row i = Z.max (w_row pw) (w_row o - fst ov) /\
  w_row i + w_h i = Z.min (w_row pw + w_h pw) (w_row o + w_h o + fst ov) /\
  w_col i = Z.max (w_col pw) (w_col o - snd ov) /\
  w_col i + w_w i = Z.min (w_col pw + w_w pw) (w_col o + w_w o + snd ov).
Proof. exact (proc_in_is_out_grown pw bs ov). Qed.
Print Assumptions C06_proc_in_is_out_grown.

(* other grid (the source, on the auto grid): with every boundary the rounded image g of ONE integer
   processing corner, g monotone (H_monotone_bnd), the output intervals tile [g off, g (off+n)) *)
Theorem C06_other_out_partition (off n bs ov : Z) (g : Z -> Z) :
  0 < bs -> 0 < n -> (forall a b, a <= b -> g a <= g b) -> forall x, g off <= x < g (off + n) ->
  exists k b, nth_error (axis_blocks off n bs ov) k = Some b /\ g (out_lo b) <= x < g (out_hi b) /\
              forall k' b', nth_error (axis_blocks off n bs ov) k' = Some b' -> g (out_lo b') <= x < g (out_hi b') -> k' = k.
Proof. intros Hbs Hn. exact (other_axis_partition off n bs ov Hbs Hn g). Qed.
Print Assumptions C06_other_out_partition.

(* D1 (fixed): the code before the repair derived the two sides of a shared boundary from two different
   float expressions; on the recorded geometry they round to 4 and 5 and source column 4 is in no window.
   The doubles are the ones rasterio produced for the two adjacent blocks (harness/check_C06.py d1_geom). *)
Theorem C06_legacy_other_out_refuted :
  exists off1 len1 off2 len2 : PrimFloat.float,
    match round_axis off1 len1, round_axis off2 len2 with
    | Some (lo1, n1), Some (lo2, n2) => lo1 + n1 < lo2     (* a gap between adjacent windows *)
    | _, _ => False
    end.
Proof.
  exists (-0x1.7fffffffffffep+0)%float, 0x1.8p+2%float, 0x1.2000000000001p+2%float, 0x1.8000000000003p+2%float.
  vm_compute. reflexivity.
Qed.
Print Assumptions C06_legacy_other_out_refuted.

(* non-vacuity: a concrete monotone g and a two-block axis *)
Example C06_other_example :
  map (fun b => (2 * out_lo b + 1, 2 * out_hi b + 1)) (axis_blocks 3 7 4 1) = [(7, 15); (15, 21)].
Proof. reflexivity. Qed.

(* the block shape the code derives from max_block_mem (halve the longer side until the block fits) always satisfies the hypothesis
   "block shape >= 1" of the partition theorems above, never exceeds the window, and meets the memory bound before rounding up:
   so the theorems apply to every max_block_mem for which block_pairs does not raise BlockSizeError *)
Theorem C06_auto_block_shape_bounds h w maxb bh bw : 1 <= h -> 1 <= w ->
  auto_block_shape h w maxb = Some (bh, bw) -> 1 <= bh <= h /\ 1 <= bw <= w.
Proof. exact (auto_block_shape_bounds h w maxb bh bw). Qed.
Theorem C06_auto_block_shape_memory fuel h w mb qh qw : 1 <= h -> 1 <= w ->
  halve_loop fuel (QArith_base.inject_Z h) (QArith_base.inject_Z w) mb = Some (qh, qw) ->
  QArith_base.Qle (QArith_base.Qmult (QArith_base.Qmult qh qw) (QArith_base.inject_Z 4)) mb.
Proof. exact (auto_block_shape_memory fuel h w mb qh qw). Qed.
Print Assumptions C06_auto_block_shape_bounds.
Example C06_auto_block_shape_example : auto_block_shape 100 37 (Some (QArith_base.inject_Z 2000)) = Some (25, 19).
Proof. vm_compute. reflexivity. Qed.

(* ---- tie to the source: the integer arithmetic of block_pairs in the current raster_pair.py (gen/Blocks.v, regenerated on every run) is the
        arithmetic of Grid.Window: the range of block corners, the four corners of the overlapping and non-overlapping block, loop order,
        windows built from corners, fuse passing its overlap and compare passing none *)
Theorem C06_source_block_arithmetic_is_the_model off n bs ov u :
  Blocks.translation_failed = false /\
  uls off n bs ov = pyrange (Z.to_nat n + 1) (gen_range_start off n bs ov) (gen_range_stop off n bs ov) (gen_range_step off n bs ov) /\
  (let b := mk_ablk off n bs ov u in
   gen_in_lo u bs ov off (off + n) = in_lo b /\ gen_in_lo u bs ov off (off + n) + gen_in_len u bs ov off (off + n) = in_hi b /\
   gen_out_lo u bs ov off (off + n) = out_lo b /\ gen_out_lo u bs ov off (off + n) + gen_out_len u bs ov off (off + n) = out_hi b /\
   gen_outer_hi_term u bs ov off (off + n) = in_hi b) /\
  (gen_rows_outer_bands_outermost = true /\ gen_block_pair_fields_ok = true /\ gen_outer_ok = true /\
   gen_other_in_ok = true /\ gen_other_out_ok = true /\ gen_fuse_passes_overlap = true /\ gen_compare_no_overlap = true).
Proof. exact (blocks_tied off n bs ov u). Qed.
Print Assumptions C06_source_block_arithmetic_is_the_model.
