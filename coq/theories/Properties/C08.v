(* C08 - Invalid pixels never influence any result, however the mask is encoded. *)
From Coq Require Import ZArith QArith List Bool.
From HV Require Import Base.QSum Grid.Window Grid.Dataset Grid.DatasetProofs Kernel.Fit Kernel.Laws Kernel.Corollaries.
Open Scope Z_scope.

(* reading: with a dataset mask (internal mask / alpha) the numbers stored under invalid pixels never reach the
   array - two datasets with the same validity and the same values at valid pixels read identically, for every window *)
Theorem C08_read_ignores_hidden {A} (ds ds' : @img A) valid H W nodata (w : win) i j :
  0 <= H -> 0 <= W -> 0 <= w_h w -> 0 <= w_w w -> 0 <= i < w_h w -> 0 <= j < w_w w ->
  (forall r c, valid r c = true -> ds r c = ds' r c) ->
  read_window ds valid true H W nodata w i j = read_window ds' valid true H W nodata w i j.
Proof.
  intros HH HW Hh Hw Hi Hj Hag. rewrite !read_window_spec by assumption.
  destruct (in_ds H W (w_row w + i) (w_col w + j)); [|reflexivity]. cbn [andb].
  destruct (valid (w_row w + i) (w_col w + j)) eqn:E; cbn [negb]; [apply Hag; exact E|reflexivity].
Qed.
Print Assumptions C08_read_ignores_hidden.

(* pixels outside the image read as nodata whatever the encoding *)
Theorem C08_outside_is_nodata {A} (ds : @img A) valid is_masked H W nodata (w : win) i j :
  0 <= H -> 0 <= W -> 0 <= w_h w -> 0 <= w_w w -> 0 <= i < w_h w -> 0 <= j < w_w w ->
  in_ds H W (w_row w + i) (w_col w + j) = false ->
  read_window ds valid is_masked H W nodata w i j = nodata.
Proof. intros HH HW Hh Hw Hi Hj E. rewrite read_window_spec by assumption. rewrite E. reflexivity. Qed.
Print Assumptions C08_outside_is_nodata.

(* fitting: parameters, R2 and the in-paint selection are functions of (joint mask, values at jointly valid pixels) only:
   any two blocks agreeing there - whatever sits under invalid pixels or outside the block - give the same fit,
   for all three models (block normalisation (na, nb) itself is computed over the jointly valid pixels only:
   kernel_model.py:223-229, exercised by the correspondence) *)
Theorem C08_fit_ignores_invalid md b b' kh kw na nb thresh cfill i j : blk_agree b b' ->
  oparams_eqv (fit_px md b kh kw na nb thresh cfill i j) (fit_px md b' kh kw na nb thresh cfill i j).
Proof. exact (fit_ignores_invalid md b b' kh kw na nb thresh cfill i j). Qed.
Print Assumptions C08_fit_ignores_invalid.

(* the kernel sums themselves - the same statement one level down, used by compare's block sums too *)
Theorem C08_sums_ignore_invalid b b' kh kw i j : blk_agree b b' ->
  sums_rel 1 1 (ksums b kh kw i j) (ksums b' kh kw i j).
Proof. intros H. apply ksums_rel. apply blk_agree_rel. exact H. Qed.
Print Assumptions C08_sums_ignore_invalid.

(* ---- tie to the source (gen/Pipeline.v, regenerated on every run by translate/pipeline.py from kernel_model.RefSpaceModel / SrcSpaceModel,
        fuse._process_block / process, compare.get_block_sums) *)
From HV Require Import Kernel.Flow Tie.PipelineTie.
From HVgen Require Import Pipeline.
(* the fitters zero and normalise their input arrays in place; in the CURRENT source they never see the caller's source block: on the
   reference grid they get its re-projection, on the source grid a copy - so what is hidden under invalid pixels of the block that is later
   multiplied by the gain is never modified, and never read by the fit *)
Theorem C08_source_fit_works_on_copies : Pipeline.translation_failed = false /\ gen_ref_fit_ok = true /\ gen_src_fit_ok = true /\ gen_src_fit_copies_source = true.
Proof. destruct (pipeline_tied0 true) as (A & _ & _ & (_ & _ & B & _ & C & D & _)). repeat split; assumption. Qed.
Print Assumptions C08_source_fit_works_on_copies.
