(* C05 - Blocking is transparent: block overlap gives full kernel coverage at seams. *)
From Coq Require Import ZArith QArith List Bool Lia.
From HV Require Import Base.QSum Grid.Window Grid.WindowProofs Kernel.Fit Kernel.Spec Kernel.Laws Kernel.Corollaries.
From HVgen Require Import Blocks.
From HV Require Import Tie.BlockTie.
Open Scope Z_scope.

(* the overlap block_pairs is given covers the kernel half-size plus one processing pixel *)
Theorem C05_overlap_covers_kernel k : 1 <= k -> k mod 2 = 1 ->
  overlap_for_kernel k = (k + 1) / 2 /\ (k - 1) / 2 + 1 <= overlap_for_kernel k.
Proof. exact (overlap_covers_kernel k). Qed.
Print Assumptions C05_overlap_covers_kernel.

(* seam lemma: the block read for an output window = the image restricted to the output window grown by the
   overlap (oa, ob), clipped to the image.  With kernel half-sizes <= overlap the fit at every pixel of the output
   window equals the whole-image fit: gain, gain-offset (in-painting off: cfill irrelevant) and - for equal block
   normalisation (na, nb), which real blocks do not share - gain-blk-offset.  Unbounded in every size. *)
Theorem C05_seam b kh kw ro ho co wo oa ob md na nb thresh cfill i j :
  1 <= kh /\ kh mod 2 = 1 -> 1 <= kw /\ kw mod 2 = 1 -> kh / 2 <= oa /\ kw / 2 <= ob ->
  0 <= ro /\ ro + ho <= bH b /\ 0 <= co /\ co + wo <= bW b ->
  ro <= i < ro + ho -> co <= j < co + wo ->
  oparams_eqv (fit_px md b kh kw na nb thresh cfill i j)
              (fit_px md (restrict b (Z.max 0 (ro - oa)) (Z.min (bH b) (ro + ho + oa))
                                     (Z.max 0 (co - ob)) (Z.min (bW b) (co + wo + ob))) kh kw na nb thresh cfill i j).
Proof. exact (fun A B C D => seam b kh kw ro ho co wo oa ob A B C D md na nb thresh cfill i j). Qed.
Print Assumptions C05_seam.

(* ring-1: with the real overlap (k+1)/2 the equality extends one pixel beyond the output window, which is what a
   2 x 2 (bilinear / nearest) up-sampling kernel reads: apply C05_seam to the output window grown by one *)
Theorem C05_seam_ring1 b kh kw ro ho co wo md na nb thresh cfill i j :
  1 <= kh /\ kh mod 2 = 1 -> 1 <= kw /\ kw mod 2 = 1 ->
  1 <= ro /\ ro + ho + 1 <= bH b /\ 1 <= co /\ co + wo + 1 <= bW b ->
  ro - 1 <= i < ro + ho + 1 -> co - 1 <= j < co + wo + 1 ->
  let oa := overlap_for_kernel kh in let ob := overlap_for_kernel kw in
  oparams_eqv (fit_px md b kh kw na nb thresh cfill i j)
              (fit_px md (restrict b (Z.max 0 (ro - oa)) (Z.min (bH b) (ro + ho + oa))
                                     (Z.max 0 (co - ob)) (Z.min (bW b) (co + wo + ob))) kh kw na nb thresh cfill i j).
Proof.
  intros Hkh Hkw Hout Hi Hj oa ob.
  destruct (overlap_covers_kernel kh (proj1 Hkh) (proj2 Hkh)) as [E1 L1].
  destruct (overlap_covers_kernel kw (proj1 Hkw) (proj2 Hkw)) as [E2 L2].
  pose proof (odd_half kh (proj2 Hkh)) as O1. pose proof (odd_half kw (proj2 Hkw)) as O2.
  pose proof (seam b kh kw (ro - 1) (ho + 2) (co - 1) (wo + 2) (oa - 1) (ob - 1) Hkh Hkw
                ltac:(unfold oa, ob; lia) ltac:(lia) md na nb thresh cfill i j ltac:(lia) ltac:(lia)) as X.
  replace (ro - 1 - (oa - 1)) with (ro - oa) in X by lia.
  replace (ro - 1 + (ho + 2) + (oa - 1)) with (ro + ho + oa) in X by lia.
  replace (co - 1 - (ob - 1)) with (co - ob) in X by lia.
  replace (co - 1 + (wo + 2) + (ob - 1)) with (co + wo + ob) in X by lia.
  exact X.
Qed.
Print Assumptions C05_seam_ring1.

(* block geometry: the input window really is the output window grown by the overlap (C06) *)
Theorem C05_in_is_out_grown (pw : win) (bs ov : Z * Z) :
  0 < fst bs /\ 0 < snd bs -> 0 <= fst ov /\ 0 <= snd ov -> 0 <= w_h pw /\ 0 <= w_w pw ->
  forall rc, In rc (proc_blocks2 pw bs ov) ->
  let i := in_of rc in let o := out_of rc in
  w_row i = Z.max (w_row pw) (w_row o - fst ov) /\
  w_row i + w_h i = Z.min (w_row pw + w_h pw) (w_row o + w_h o + fst ov) /\
  w_col i = Z.max (w_col pw) (w_col o - snd ov) /\
  w_col i + w_w i = Z.min (w_col pw + w_w pw) (w_col o + w_w o + snd ov).
Proof. exact (proc_in_is_out_grown pw bs ov). Qed.
Print Assumptions C05_in_is_out_grown.

(* non-claim made explicit: gain-blk-offset depends on the block through (na, nb) *)
Example C05_gain_blk_offset_depends_on_block :
  let b := {| bH := 1; bW := 2; sv := fun u v => inject_Z (v + 1); rv := fun u v => inject_Z (2 * v + 5);
              sm := fun _ _ => true; rm := fun _ _ => true |} in
  gbo_params (ksums (norm_blk b 1 0) 1 1 0 0) 1 0 <> gbo_params (ksums (norm_blk b 2 3) 1 1 0 0) 2 3.
Proof. vm_compute. intro H. discriminate H. Qed.

(* ---- tie to the source: the overlap the current fuse.py hands to block_pairs is overlap_for_kernel (= ceil (k / 2)) of the kernel it was
        given, hence at least the kernel half-size + 1 the seam lemma needs *)
Theorem C05_source_overlap_covers_kernel k : 1 <= k -> k mod 2 = 1 ->
  (k - 1) / 2 + 1 <= gen_fuse_overlap false k /\ (k - 1) / 2 + 1 + 1 <= gen_fuse_overlap true k.
Proof. exact (tie_fuse_overlap k). Qed.
Theorem C05_source_overlap_for_kernel k : gen_overlap_for_kernel k = overlap_for_kernel k.
Proof. exact (tie_overlap k). Qed.
Print Assumptions C05_source_overlap_covers_kernel.

(* ---- composed with the block partition (C06): for EVERY block of the partition of the whole processing image, with the overlap fuse hands to
        block_pairs, the fit on the block that was read equals the whole-image fit at every pixel of the block's output window; since the output
        windows partition the image, the parameter image assembled block by block IS the whole-image parameter image, for any block shape *)
From HV Require Import Kernel.Blockwise.
Theorem C05_blocking_transparent b kh kw bs rc md na nb thresh cfill i j :
  1 <= kh /\ kh mod 2 = 1 -> 1 <= kw /\ kw mod 2 = 1 -> 0 < fst bs /\ 0 < snd bs -> 0 <= bH b /\ 0 <= bW b ->
  In rc (proc_blocks2 (whole b) bs (kernel_overlap kh kw)) -> in_win (out_of rc) i j ->
  oparams_eqv (fit_px md b kh kw na nb thresh cfill i j) (fit_px md (block_image b rc) kh kw na nb thresh cfill i j).
Proof. intros A B C D. exact (blocking_transparent b kh kw A B bs C D rc md na nb thresh cfill i j). Qed.
Theorem C05_blockwise_parameter_image_is_whole_image b kh kw bs md na nb thresh cfill i j :
  1 <= kh /\ kh mod 2 = 1 -> 1 <= kw /\ kw mod 2 = 1 -> 0 < fst bs /\ 0 < snd bs -> 0 <= bH b /\ 0 <= bW b ->
  0 <= i < bH b -> 0 <= j < bW b ->
  exists rc, In rc (proc_blocks2 (whole b) bs (kernel_overlap kh kw)) /\ in_win (out_of rc) i j /\
    oparams_eqv (fit_px md b kh kw na nb thresh cfill i j) (fit_px md (block_image b rc) kh kw na nb thresh cfill i j) /\
    forall rc', In rc' (proc_blocks2 (whole b) bs (kernel_overlap kh kw)) -> in_win (out_of rc') i j ->
      oparams_eqv (fit_px md b kh kw na nb thresh cfill i j) (fit_px md (block_image b rc') kh kw na nb thresh cfill i j).
Proof. intros A B C D. exact (blockwise_parameter_image_is_whole_image b kh kw A B bs C D md na nb thresh cfill i j). Qed.
Print Assumptions C05_blockwise_parameter_image_is_whole_image.
