(* C20 - Windowed image I/O is total and places data where it belongs. *)
From Coq Require Import ZArith List Bool Permutation.
From HV Require Import Base.ZRange Grid.Window Grid.WindowProofs Grid.Dataset Grid.DatasetProofs.
From HVgen Require Import Blocks.
From HV Require Import Tie.BlockTie.
Import ListNotations.
Open Scope Z_scope.

(* bounded_window_slices is well-formed for EVERY integer window, including an empty intersection *)
Theorem C20_slices_wellformed n off len : 0 <= n -> 0 <= len ->
  let '((lo, hi), (s0, s1)) := bounded_axis n off len in
  0 <= lo <= hi /\ hi <= n /\ s1 - s0 = hi - lo /\ lo = off + s0 /\ (lo < hi -> 0 <= s0 /\ s1 <= len).
Proof. exact (bounded_axis_wf n off len). Qed.
Print Assumptions C20_slices_wellformed.

Theorem C20_bounded_is_intersection n off len x : 0 <= n -> 0 <= len ->
  let '((lo, hi), _) := bounded_axis n off len in (lo <= x < hi <-> (off <= x < off + len /\ 0 <= x < n)).
Proof. exact (bounded_axis_spec n off len x). Qed.
Print Assumptions C20_bounded_is_intersection.

(* D3 (fixed): the unclamped code produced a negative-size window for an empty intersection *)
Theorem C20_slices_legacy_refuted :
  exists n off len, 0 <= n /\ 0 <= len /\ let '((lo, hi), _) := bounded_axis_legacy n off len in hi < lo.
Proof. exact bounded_axis_legacy_refuted. Qed.
Print Assumptions C20_slices_legacy_refuted.

(* reading any window: the image's pixels where the window overlaps the image, nodata elsewhere *)
Theorem C20_read_window_spec {A} (ds : @img A) valid is_masked H W nodata (w : win) i j :
  0 <= H -> 0 <= W -> 0 <= w_h w -> 0 <= w_w w -> 0 <= i < w_h w -> 0 <= j < w_w w ->
  read_window ds valid is_masked H W nodata w i j =
  if in_ds H W (w_row w + i) (w_col w + j)
  then (if is_masked && negb (valid (w_row w + i) (w_col w + j)) then nodata else ds (w_row w + i) (w_col w + j))
  else nodata.
Proof. exact (read_window_spec ds valid is_masked H W nodata w i j). Qed.
Print Assumptions C20_read_window_spec.

(* writing crops to the window and the dataset and stores each pixel at its location *)
Theorem C20_write_window_spec {A} (ds ds' : @img A) H W a ar ac ah aw (w : win) :
  0 <= H -> 0 <= W -> 0 <= w_h w -> 0 <= w_w w ->
  write_window ds H W a ar ac ah aw w = Some ds' ->
  forall r c, ds' r c = if in_w w r c && in_ds H W r c then a (r - ar) (c - ac) else ds r c.
Proof. exact (write_window_spec ds ds' H W a ar ac ah aw w). Qed.
Print Assumptions C20_write_window_spec.

Theorem C20_write_total {A} (ds : @img A) H W a ar ac ah aw (w : win) :
  0 <= H -> 0 <= W -> 0 <= w_h w -> 0 <= w_w w ->
  (forall r c, in_w w r c && in_ds H W r c = true -> ar <= r < ar + ah /\ ac <= c < ac + aw) ->
  exists ds', write_window ds H W a ar ac ah aw w = Some ds'.
Proof. exact (write_window_total ds H W a ar ac ah aw w). Qed.
Print Assumptions C20_write_total.

Theorem C20_write_then_read {A} (ds ds' : @img A) H W a ar ac ah aw (w rw : win) nodata i j :
  0 <= H -> 0 <= W -> 0 <= w_h w -> 0 <= w_w w -> 0 <= w_h rw -> 0 <= w_w rw -> 0 <= i < w_h rw -> 0 <= j < w_w rw ->
  write_window ds H W a ar ac ah aw w = Some ds' ->
  read_window ds' (fun _ _ => true) false H W nodata rw i j =
  let r := w_row rw + i in let c := w_col rw + j in
  if in_ds H W r c then (if in_w w r c then a (r - ar) (c - ac) else ds r c) else nodata.
Proof. exact (write_then_read ds ds' H W a ar ac ah aw w rw nodata i j). Qed.
Print Assumptions C20_write_then_read.

(* any sequence of block writes refines the abstract pixel map (last covering write wins) *)
Theorem C20_write_blocks_refines {A} H W (bs : list (@blockw A)) : 0 <= H -> 0 <= W ->
  (forall b, In b bs -> 0 <= w_h (b_win b) /\ 0 <= w_w (b_win b)) ->
  forall ds ds', write_blocks H W ds bs = Some ds' -> forall r c, ds' r c = abs_px H W bs (ds r c) r c.
Proof. exact (write_blocks_refines H W bs). Qed.
Print Assumptions C20_write_blocks_refines.

Theorem C20_write_order_free {A} H W (bs bs' : list (@blockw A)) r c v0 :
  Permutation bs bs' ->
  (forall b1 b2, In b1 bs -> In b2 bs -> covers_px H W b1 r c = true -> covers_px H W b2 r c = true -> b1 = b2) ->
  abs_px H W bs v0 r c = abs_px H W bs' v0 r c.
Proof. exact (write_order_free H W bs bs' r c v0). Qed.
Print Assumptions C20_write_order_free.

(* non-vacuity: a window wholly outside a 10 x 10 dataset reads as nodata, a straddling one reads the corner *)
Example C20_read_example :
  let ds := fun r c => r * 10 + c in
  (read_window ds (fun _ _ => true) false 10 10 (-1) {| w_row := 2; w_col := 12; w_h := 3; w_w := 3 |} 1 1,
   read_window ds (fun _ _ => true) false 10 10 (-1) {| w_row := 8; w_col := 8; w_h := 4; w_w := 4 |} 1 1,
   read_window ds (fun _ _ => true) false 10 10 (-1) {| w_row := 8; w_col := 8; w_h := 4; w_w := 4 |} 2 1)
  = (-1, 99, -1).
Proof. reflexivity. Qed.

(* ---- tie to the source: bounded_window_slices in the current raster_array.py computes Grid.Window.bounded_axis on each axis *)
Theorem C20_source_bounded_window_slices n off len :
  bounded_axis n off len = ((gen_bounded_ul n off len, gen_bounded_br n off len), (gen_bounded_start n off len, gen_bounded_stop n off len)).
Proof. exact (tie_bounded n off len). Qed.
Print Assumptions C20_source_bounded_window_slices.
