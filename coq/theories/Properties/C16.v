(* C16 - A reference that does not cover the source is always rejected. *)
From Coq Require Import ZArith QArith Bool.
From HV Require Import Grid.Cover.
Open Scope Q_scope.

(* accepted iff the source footprint (l, b, r, t) is inside the reference footprint on all four sides (the right and
   bottom edges to within tol pixels of float slack), for every origin, resolution > 0 and size (rational, unbounded) *)
Theorem C16_covers_iff_contains (X0 Y0 res l b r t tol : Q) (H W : Z) : 0 < res ->
  covers tol (win_roff Y0 res t) (win_coff X0 res l) (win_h res b t) (win_w res l r) H W = true <->
  (X0 <= l /\ r <= X0 + (inject_Z W + tol) * res /\ Y0 - (inject_Z H + tol) * res <= b /\ t <= Y0).
Proof. exact (covers_iff_contains X0 Y0 res l b r t tol H W). Qed.
Print Assumptions C16_covers_iff_contains.

(* a contained footprint - in particular the very same grid - is accepted *)
Theorem C16_contained_accepted (X0 Y0 res l b r t tol : Q) (H W : Z) : 0 < res -> 0 <= tol ->
  X0 <= l -> r <= X0 + inject_Z W * res -> Y0 - inject_Z H * res <= b -> t <= Y0 ->
  covers tol (win_roff Y0 res t) (win_coff X0 res l) (win_h res b t) (win_w res l r) H W = true.
Proof. exact (contained_accepted X0 Y0 res l b r t tol H W). Qed.
Print Assumptions C16_contained_accepted.

(* an overhang on any of the four sides (beyond the tol-pixel slack on right / bottom) is rejected *)
Theorem C16_overhang_rejected (X0 Y0 res l b r t tol : Q) (H W : Z) : 0 < res ->
  (l < X0 \/ X0 + (inject_Z W + tol) * res < r \/ b < Y0 - (inject_Z H + tol) * res \/ Y0 < t) ->
  covers tol (win_roff Y0 res t) (win_coff X0 res l) (win_h res b t) (win_w res l r) H W = false.
Proof. exact (overhang_rejected X0 Y0 res l b r t tol H W). Qed.
Print Assumptions C16_overhang_rejected.

(* D2 (fixed): the size-only test accepted a right / bottom overhang *)
Theorem C16_covers_legacy_refuted :
  exists roff coff h w H W, covers_legacy roff coff h w H W = true /\ covers (1#1000000) roff coff h w H W = false.
Proof. exact covers_legacy_refuted. Qed.
Print Assumptions C16_covers_legacy_refuted.

(* ---- tie to the source (gen/CoverGen.v, regenerated on every run by translate/cover.py): the decision of utils.covers_bounds in the CURRENT source
        is Grid.Cover.covers with a tolerance of 1e-6 pixel, on the window of the source bounds in the reference pixel grid (both images seen
        north-up in one coordinate system), and RasterPairReader raises ImageContentError exactly when it is False *)
From HV Require Import Tie.CoverTie.
From HVgen Require Import CoverGen.
Theorem C16_source_decision_is_the_model roff coff h w H W :
  CoverGen.translation_failed = false /\ gen_covers roff coff h w H W = covers (1 # 1000000) roff coff h w H W /\
  gen_window_of_bounds_ok = true /\ gen_expand_only_when_asked = true /\ gen_reader_rejects_ok = true.
Proof. exact (cover_tied roff coff h w H W). Qed.
(* hence, for north-up rational geometry, the current source accepts iff the source footprint is inside the reference footprint on all four sides *)
Theorem C16_source_accepts_iff_contains X0 Y0 res l b r t H W : 0 < res ->
  gen_covers (win_roff Y0 res t) (win_coff X0 res l) (win_h res b t) (win_w res l r) H W = true <->
  (X0 <= l /\ r <= X0 + (inject_Z W + (1 # 1000000)) * res /\ Y0 - (inject_Z H + (1 # 1000000)) * res <= b /\ t <= Y0).
Proof. exact (source_accepts_iff_contains X0 Y0 res l b r t H W). Qed.
Print Assumptions C16_source_decision_is_the_model.
Print Assumptions C16_source_accepts_iff_contains.
