(* C15 - Band matching is sound: one-to-one, in range, within tolerance, order preserving.
   [match_core] is _match_pair_bands after both _get_band_info calls: sbands / rbands are the selected band numbers,
   dm the (masked) relative wavelength distance matrix, generic in the distance type.  All statements hold for every
   band count, selection and metadata. *)
From Coq Require Import ZArith List Arith Bool PrimFloat.
From HV Require Import Bands.Match Bands.MatchProofs.
Import ListNotations.
Open Scope nat_scope.

Section Sound.
Variable D : Type.
Variables (ltbD : D -> D -> bool) (overD : D -> bool).
Variables (sbands rbands : list nat) (wl_ok : bool) (dm : nat -> nat -> option D) (force : bool).
Notation core := (match_core D ltbD overD sbands rbands wl_ok dm force).

Theorem C15_lengths_equal s r : core = inr (s, r) -> length s = length r.
Proof. exact (lengths_equal D ltbD overD sbands rbands wl_ok dm force s r). Qed.

(* the matched source bands are the selected ones, in the order given (a subsequence; all of them unless forced) *)
Theorem C15_src_order_preserved s r : core = inr (s, r) -> subseq s sbands.
Proof. exact (src_order_preserved D ltbD overD sbands rbands wl_ok dm force s r). Qed.
Theorem C15_no_silent_drop s r : force = false -> core = inr (s, r) -> s = sbands.
Proof. exact (no_silent_drop D ltbD overD sbands rbands wl_ok dm force s r). Qed.

(* reference bands are drawn from the reference selection and none is used twice (for a duplicate-free selection) *)
Theorem C15_ref_from_selection s r : core = inr (s, r) -> forall v, In v r -> In v rbands.
Proof. exact (ref_from_selection D ltbD overD sbands rbands wl_ok dm force s r). Qed.
Theorem C15_ref_no_dup s r : NoDup rbands -> core = inr (s, r) -> NoDup r.
Proof. exact (ref_no_dup D ltbD overD sbands rbands wl_ok dm force s r). Qed.

(* unless forced, every pair matched on wavelength is within the 10 % tolerance, and every pair matched in file order
   lacks a wavelength on at least one side *)
Theorem C15_within_tolerance s r : core = inr (s, r) ->
  forall p d, In p (if wl_ok && negb force then greedy D ltbD dm (length sbands) (seq 0 (length sbands)) (seq 0 (length rbands)) else []) ->
              dm (fst p) (snd p) = Some d -> overD d = false.
Proof. exact (within_tolerance D ltbD overD sbands rbands wl_ok dm force s r). Qed.
Theorem C15_file_order_pairs_lack_wavelength i j : wl_ok && negb force = true -> i < length sbands -> j < length rbands ->
  ~ In i (map fst (if wl_ok && negb force then greedy D ltbD dm (length sbands) (seq 0 (length sbands)) (seq 0 (length rbands)) else [])) ->
  ~ In j (map snd (if wl_ok && negb force then greedy D ltbD dm (length sbands) (seq 0 (length sbands)) (seq 0 (length rbands)) else [])) ->
  dm i j = None.
Proof. exact (file_order_pairs_lack_wavelength D ltbD sbands rbands wl_ok dm force i j). Qed.
End Sound.
Print Assumptions C15_lengths_equal.
Print Assumptions C15_src_order_preserved.
Print Assumptions C15_no_silent_drop.
Print Assumptions C15_ref_from_selection.
Print Assumptions C15_ref_no_dup.
Print Assumptions C15_within_tolerance.
Print Assumptions C15_file_order_pairs_lack_wavelength.

(* the greedy loop never matches a band twice and only stops when no pair with a distance is left *)
Theorem C15_greedy_one_to_one D ltb dm fuel rows cols :
  NoDup (map fst (greedy D ltb dm fuel rows cols)) /\ NoDup (map snd (greedy D ltb dm fuel rows cols)).
Proof. exact (greedy_nodup D ltb dm fuel rows cols). Qed.
Print Assumptions C15_greedy_one_to_one.

(* if every selected source band's nearest reference band is distinct and within tolerance, each source band gets exactly that band.
   The conclusion mentions only [nearest], which is defined by the distances alone: the position of a band in the reference file (its
   column) plays no role, so re-ordering the bands of either file re-orders [dm] and [rbands] together and yields the same band pairs.
   [ltbD] must be a strict order on distances (as < on non-NaN doubles is). *)
Theorem C15_distinct_nearest_gets_nearest D (ltbD : D -> D -> bool) overD sbands rbands dm (nearest : nat -> nat) :
  (forall a, ltbD a a = false) -> (forall a b c, ltbD a b = true -> ltbD b c = true -> ltbD a c = true) ->
  length sbands <= length rbands ->
  (forall i, i < length sbands -> nearest i < length rbands) ->
  (forall i i', i < length sbands -> i' < length sbands -> nearest i = nearest i' -> i = i') ->
  (forall i, i < length sbands -> exists d, dm i (nearest i) = Some d /\ overD d = false /\
       forall j d', j < length rbands -> j <> nearest i -> dm i j = Some d' -> ltbD d d' = true) ->
  match_core D ltbD overD sbands rbands true dm false = inr (sbands, map (fun i => nth (nearest i) rbands 0) (seq 0 (length sbands))).
Proof.
  intros Hi Ht Hnm Hr Hinj Hn.
  exact (distinct_nearest_gets_nearest D ltbD overD sbands rbands true dm false Hi Ht nearest eq_refl eq_refl Hnm Hr Hinj Hn).
Qed.
Print Assumptions C15_distinct_nearest_gets_nearest.
(* non-vacuity: three source bands whose nearest reference bands are columns 2, 0, 3 of four (distances in thousandths) *)
Example C15_distinct_nearest_example :
  let dm := fun i j => nth_error (nth i [[300; 200; 5; 400]; [2; 150; 310; 420]; [500; 300; 200; 9]] []) j in
  match_core nat Nat.ltb (fun d => Nat.ltb 100 d) [1; 2; 3] [4; 5; 6; 7] true dm false = inr ([1; 2; 3], [6; 4; 7]).
Proof. vm_compute. reflexivity. Qed.

(* the selected bands exist, are neither alpha nor mask bands, and are the user's selection when one is given *)
Theorem C15_band_info_sound im bands sel ws : band_info im bands = inr (sel, ws) ->
  (forall b, In b sel -> 1 <= b <= length im /\ exists bd, nth_error im (b - 1) = Some bd /\ nonalpha_b bd = true) /\
  (forall bs, bands = Some bs -> bs <> [] -> sel = bs) /\ length ws = length sel.
Proof. exact (band_info_sound im bands sel ws). Qed.
Print Assumptions C15_band_info_sound.

(* D9 (known finding): a duplicated user selection of reference bands is accepted and the band is used twice *)
Theorem C15_ref_dup_refuted :
  exists src ref rb, match_pair_bands src ref None (Some rb) false = inr ([1; 2], [1; 1]).
Proof. exact ref_dup_refuted. Qed.
Print Assumptions C15_ref_dup_refuted.

(* non-vacuity: Landsat-like source against a permuted reference: each band gets its nearest, independent of file order *)
Example C15_example :
  let mk w := {| b_ci := COther; b_maskdesc := false; b_cw := Some w |} in
  match_pair_bands [mk 0x1.eb851eb851eb8p-2%float; mk 0x1.1eb851eb851ecp-1%float; mk 0x1.4cccccccccccdp-1%float]
                   [mk 0x1.4cccccccccccdp-1%float; mk 0x1.a8f5c28f5c28fp-1%float; mk 0x1.eb851eb851eb8p-2%float; mk 0x1.1eb851eb851ecp-1%float]
                   None None false = inr ([1; 2; 3], [3; 4; 1]).
Proof. vm_compute. reflexivity. Qed.

(* ---- the binary64 instance: < on doubles is a strict order (Base.FloatOrder, from the standard library's specification axiom
        FloatAxioms.ltb_spec), so the clause holds for the distances the code computes *)
From HV Require Import Base.FloatOrder.
Theorem C15_distinct_nearest_gets_nearest_float overD sbands rbands (dm : nat -> nat -> option float) (nearest : nat -> nat) :
  length sbands <= length rbands ->
  (forall i, i < length sbands -> nearest i < length rbands) ->
  (forall i i', i < length sbands -> i' < length sbands -> nearest i = nearest i' -> i = i') ->
  (forall i, i < length sbands -> exists d, dm i (nearest i) = Some d /\ overD d = false /\
       forall j d', j < length rbands -> j <> nearest i -> dm i j = Some d' -> PrimFloat.ltb d d' = true) ->
  match_core float PrimFloat.ltb overD sbands rbands true dm false = inr (sbands, map (fun i => nth (nearest i) rbands 0) (seq 0 (length sbands))).
Proof. exact (C15_distinct_nearest_gets_nearest float PrimFloat.ltb overD sbands rbands dm nearest float_ltb_irrefl float_ltb_trans). Qed.
Print Assumptions C15_distinct_nearest_gets_nearest_float.

(* ---- tie to the source: the 10 % tolerance and the standard RGB wavelengths of the current matched_pair.py are the model's constants, bit for bit;
        the tolerance test is "any matched distance strictly greater"; distances are relative to the source wavelength *)
From HVgen Require Import Blocks.
From HV Require Import Tie.BlockTie.
Theorem C15_source_constants :
  gen_max_rel_wavelength_diff = Match.tol /\ std_cw CRed = Some gen_std_cw_red /\ std_cw CGreen = Some gen_std_cw_green /\
  std_cw CBlue = Some gen_std_cw_blue /\ gen_rgb_defaults_only_for_three_bands = true /\ gen_over_tolerance_is_strict_any = true /\
  gen_rel_dist_by_source = true.
Proof. exact tie_band_constants. Qed.

(* ---- tie to the source (gen/BandsGen.v, regenerated on every run by translate/bands.py from the PATH CONDITIONS of the raise statements, of the
        greedy call and of the two fills in the current _match_pair_bands): its decision skeleton is that of Bands.Match.match_core - fewer
        reference bands is an error unless forced; wavelengths are used iff both sides have some and matching is not forced; a matched pair over
        the tolerance is an error on that path; remaining bands are filled in file order iff the counts agree, truncated iff forced, and it is an
        error otherwise *)
From HV Require Import Tie.BandsTie.
From HVgen Require Import BandsGen.
Theorem C15_source_decisions n m force sany rany over short :
  BandsGen.translation_failed = false /\ gen_info_ok = true /\
  gen_raises_fewer n m force sany rany over short = (Nat.ltb m n && negb force) /\
  gen_wavelength_path n m force sany rany over short = ((sany && rany) && negb force) /\
  gen_raises_dist n m force sany rany over short = (((sany && rany) && negb force) && over) /\
  gen_raises_unmatched n m force sany rany over short = (short && negb (Nat.eqb n m) && negb force) /\
  gen_fill_file_order n m force sany rany over short = (short && Nat.eqb n m) /\
  gen_fill_truncated n m force sany rany over short = (short && negb (Nat.eqb n m) && force).
Proof. split; [exact tie_bands_translated|]. exact (tie_band_decisions n m force sany rany over short). Qed.
Theorem C15_model_fewer_iff D ltbD overD sb rb wl_ok dm force :
  match_core D ltbD overD sb rb wl_ok dm force = inl EFewer <-> Nat.ltb (length rb) (length sb) && negb force = true.
Proof. exact (model_fewer_iff D ltbD overD sb rb wl_ok dm force). Qed.
Theorem C15_model_dist_iff D ltbD overD sb rb wl_ok dm force :
  match_core D ltbD overD sb rb wl_ok dm force = inl EDist <->
  (Nat.ltb (length rb) (length sb) && negb force = false /\
   existsb (fun p => match dm (fst p) (snd p) with Some d => overD d | None => false end)
           (if wl_ok && negb force then greedy D ltbD dm (length sb) (seq 0 (length sb)) (seq 0 (length rb)) else []) = true).
Proof. exact (model_dist_iff D ltbD overD sb rb wl_ok dm force). Qed.
Print Assumptions C15_source_decisions.
Print Assumptions C15_model_dist_iff.
