(* C03 - Valid-data mask fidelity: no invented pixels, no lost pixels. *)
From Coq Require Import ZArith QArith List Bool.
From HV Require Import Base.QSum Kernel.Fit Kernel.Linear Grid.Window Grid.WindowProofs Grid.OtherGrid Enc.Dtype Enc.DtypeProofs.
Open Scope Q_scope.

(* without partial masking a corrected pixel is valid ONLY IF the source pixel is: for any parameters whatsoever (so for arbitrary
   down- and up-sampling and any fit): the parameter mask is overwritten by the source mask and NaN propagates through gain*src+offset *)
Theorem C03_corrected_valid_implies_source_valid src g o q : corr_px src g o = Fin q -> exists x, src = Some x.
Proof. exact (corrected_valid_implies_source_valid src g o q). Qed.
Print Assumptions C03_corrected_valid_implies_source_valid.

(* conversely: a valid source pixel with finite parameters is valid in the corrected block ... *)
Theorem C03_source_valid_finite_params_valid x g o : exists q, corr_px (Some x) (Fin g) (Fin o) = Fin q.
Proof. exact (source_valid_finite_params_valid x g o). Qed.
(* ... the gain is finite for positive data (the kernel sum of the source at a jointly valid pixel is > 0) ... *)
Theorem C03_positive_data_sum_positive b kh kw i j : (1 <= kh)%Z -> (1 <= kw)%Z -> (kh mod 2 = 1)%Z -> (kw mod 2 = 1)%Z ->
  jmask b i j = true -> (forall u v, jmask b u v = true -> 0 < sv b u v) -> 0 < sX (ksums b kh kw i j).
Proof. exact (positive_data_sum_positive b kh kw i j). Qed.
Print Assumptions C03_positive_data_sum_positive.
(* ... every source pixel lies in exactly one output window, so it is written (C06; under H_monotone_bnd on the other grid) ... *)
Theorem C03_every_source_pixel_written (off n bs ov : Z) (g : Z -> Z) :
  (0 < bs)%Z -> (0 < n)%Z -> (forall a b, (a <= b)%Z -> (g a <= g b)%Z) -> forall x, (g off <= x < g (off + n))%Z ->
  exists k b, nth_error (axis_blocks off n bs ov) k = Some b /\ (g (out_lo b) <= x < g (out_hi b))%Z /\
              forall k' b', nth_error (axis_blocks off n bs ov) k' = Some b' -> (g (out_lo b') <= x < g (out_hi b'))%Z -> k' = k.
Proof. intros Hbs Hn. exact (other_axis_partition off n bs ov Hbs Hn g). Qed.
(* ... and survives the output encoding unless it collides with the nodata value (C13) *)
Theorem C03_valid_lost_only_on_collision d nd p :
  reads_valid (Some nd) false true (convert_px d (Some nd) true p) = negb (convert_int d p =? nd)%Z.
Proof. exact (proj1 (valid_lost_only_on_collision d nd p)). Qed.
Print Assumptions C03_every_source_pixel_written.

(* positivity is needed: with negative data the source sum can vanish and the pixel is lost *)
Theorem C03_negative_data_refuted :
  exists b kh kw i j, jmask b i j = true /\ fst (gain_params (ksums b kh kw i j)) = NonFin.
Proof.
  exists {| bH := 1; bW := 2; sv := fun u v => if (v =? 0)%Z then 3 else -3; rv := fun _ _ => 5; sm := fun _ _ => true; rm := fun _ _ => true |},
         1%Z, 3%Z, 0%Z, 0%Z. vm_compute. split; reflexivity.
Qed.
Print Assumptions C03_negative_data_refuted.

(* Known finding D13 as a formal witness: with the gain-offset model a jointly valid pixel of POSITIVE data whose kernel window holds a
   single jointly valid pixel (here: its two neighbours are invalid in the source) has no least-squares solution - the denominator
   N * Sxx - Sx^2 is 0 - so it receives no finite gain and is invalid in the corrected image although source and reference are valid there. *)
Theorem C03_gain_offset_degenerate_window_refuted :
  exists b kh kw i j, jmask b i j = true /\ (0 < sv b i j)%Q /\ (0 < rv b i j)%Q /\ go_den (ksums b kh kw i j) == 0 /\ go_m (ksums b kh kw i j) = NonFin.
Proof.
  exists {| bH := 1; bW := 3; sv := fun _ _ => 7; rv := fun _ _ => 5; sm := fun u v => (v =? 1)%Z; rm := fun _ _ => true |}, 1%Z, 3%Z, 0%Z, 1%Z.
  vm_compute. repeat split; reflexivity.
Qed.
(* ... and a constant source does the same for any number of valid pixels *)
Theorem C03_gain_offset_constant_source_refuted :
  exists b kh kw i j, jmask b i j = true /\ sN (ksums b kh kw i j) == 3 /\ go_m (ksums b kh kw i j) = NonFin.
Proof.
  exists {| bH := 1; bW := 3; sv := fun _ _ => 7; rv := fun u v => inject_Z v + 2; sm := fun _ _ => true; rm := fun _ _ => true |}, 1%Z, 3%Z, 0%Z, 1%Z.
  vm_compute. repeat split; reflexivity.
Qed.
Print Assumptions C03_gain_offset_degenerate_window_refuted.

(* ---- tie to the source (gen/Pipeline.v, regenerated on every run by translate/pipeline.py from kernel_model.RefSpaceModel / SrcSpaceModel,
        fuse._process_block / process, compare.get_block_sums) *)
From HV Require Import Kernel.Flow Tie.PipelineTie.
From HVgen Require Import Pipeline.
(* in the CURRENT source, with partial masking off, the parameters that are applied carry the source block's mask on both processing grids,
   so - whatever the fit, the re-projections and the numbers stored under invalid source pixels - a corrected pixel is valid only where
   the source pixel is *)
Theorem C03_source_no_invented_pixels src_mask cover cover_near g o x q pv :
  (param_valid (gen_ref_apply_mask false) src_mask cover cover_near = Some pv \/ param_valid (gen_src_fit_mask false) src_mask cover cover_near = Some pv) ->
  corrected pv g o x = Fin q -> src_mask = true.
Proof. exact (source_no_invented_pixels src_mask cover cover_near g o x q pv). Qed.
Theorem C03_source_mask_flow mp : Pipeline.translation_failed = false /\ gen_ref_apply_mask mp = ref_apply_mask mp /\ gen_src_fit_mask mp = src_fit_mask mp /\
  gen_ref_apply_params_ok = true /\ gen_block_flow_ok = true.
Proof. destruct (pipeline_tied0 mp) as (A & _ & (B & C) & (_ & _ & _ & D & _ & _ & E & _)). repeat split; assumption. Qed.
Print Assumptions C03_source_no_invented_pixels.
(* ---- the block normalisation is computed for every block with at least one jointly valid pixel - the zero model (which makes every gain infinite and the block invalid) only when there is none *)
From HVgen Require Import Formulas.
From HV Require Import Tie.FormulaTie.
Theorem C03_source_block_norm : gen_block_norm_ok = true.
Proof. exact tie_block_norm. Qed.
Print Assumptions C03_source_block_norm.
