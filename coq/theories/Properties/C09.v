(* C09 - Fail loud: a failed block is never swallowed, and never hangs or leaks.
   A fault (exception) may strike at every dataset access and every local step of every block; the traces include
   Python's unwinding (with-statements release, finally runs).  Meta-theorems: any number of blocks, any schedule,
   any set of faults.  Per-run obligations: the programs regenerated from the current source. *)
From Coq Require Import List Arith Bool.
From HV Require Import Conc.Sem Conc.IR Conc.Coord Conc.Instances.
From HVgen Require Import Skeleton.
Import ListNotations.

(* ---- meta: no deadlock - some unfinished block can always move *)
Theorem C09_no_deadlock s : inv s -> (exists t th, nth_error (fst s) t = Some th /\ rest th <> []) -> exists t, enabled s t.
Proof. exact (progress s). Qed.
Print Assumptions C09_no_deadlock.

(* ---- meta: termination - from every reachable state all blocks finish within (remaining actions) steps,
        and no schedule ever performs more effective steps than that *)
Theorem C09_terminates progs sched0 : forallb (guarded [] None) progs = true ->
  exists sched, length sched <= remaining (run (init progs) sched0) /\ done (run (run (init progs) sched0) sched).
Proof. exact (completes progs sched0). Qed.
Print Assumptions C09_terminates.
Theorem C09_steps_bounded s sched : remaining (run s sched) <= remaining s.
Proof. exact (run_remaining s sched). Qed.
Print Assumptions C09_steps_bounded.

(* ---- meta: when all blocks have finished - normally or by exception - no lock is held *)
Theorem C09_locks_free_at_end s : inv s -> done s -> forall l, snd s l = None.
Proof. exact (locks_free_at_end s). Qed.
Print Assumptions C09_locks_free_at_end.

(* ---- meta: result() makes every failure visible; Ok means no block failed (pool and sequential mode) *)
Theorem C09_fault_propagates c failed : wf_coord c = true ->
  (coord_outcome c failed = Raise <-> existsb (fun b : bool => b) failed = true) /\
  (seq_outcome c failed = Raise <-> existsb (fun b : bool => b) failed = true).
Proof. exact (fault_propagates c failed). Qed.
Print Assumptions C09_fault_propagates.
Theorem C09_ok_means_none_failed c failed : wf_coord c = true ->
  coord_outcome c failed = Ok -> forall b, In b failed -> b = false.
Proof. exact (ok_means_none_failed c failed). Qed.
Print Assumptions C09_ok_means_none_failed.

(* ---- per run: the current coordinators call result() on every future, swallow nothing, nest the pool inside
        the output-file context (so the pool is drained before files are closed) *)
Theorem C09_fuse_coord_wf : wf_coord fuse_coord = true.                 Proof. vm_compute. reflexivity. Qed.
Theorem C09_compare_coord_wf : wf_coord compare_coord = true.           Proof. vm_compute. reflexivity. Qed.
Theorem C09_stats_window_coord_wf : wf_coord stats_window_coord = true. Proof. vm_compute. reflexivity. Qed.
Theorem C09_stats_sums_coord_wf : wf_coord stats_sums_coord = true.     Proof. vm_compute. reflexivity. Qed.
Print Assumptions C09_fuse_coord_wf.

(* ---- per run: every faulted trace of every worker is still guarded (locks released by unwinding), a fault is always
        visible as a failed outcome, and a block that did not fail performed every read and every write *)
Theorem C09_workers_wf :
  wf_worker (guard_view fuse_worker) && wf_worker (guard_view compare_worker) && wf_worker (guard_view stats_window_worker) && wf_worker (guard_view stats_sums_worker) = true.
Proof. vm_compute. reflexivity. Qed.
Theorem C09_faults_visible :
  faults_visible fuse_worker && faults_visible compare_worker && faults_visible stats_window_worker && faults_visible stats_sums_worker = true.
Proof. vm_compute. reflexivity. Qed.
Theorem C09_ok_means_all_written :
  ok_complete (take_if true fuse_worker) [0; 1; 2; 3] && ok_complete (take_if false fuse_worker) [0; 1; 2]
  && ok_complete compare_worker [0; 1] && ok_complete stats_sums_worker [4] && ok_complete stats_window_worker [4] = true.
Proof. vm_compute. reflexivity. Qed.
Print Assumptions C09_ok_means_all_written.

(* ---- hence for fuse: any number of blocks, any schedule, any faults: it terminates and all locks are free *)
Theorem C09_fuse_terminates progs sched0 : tasks_of (guard_view fuse_worker) progs ->
  exists sched, length sched <= remaining (run (init progs) sched0) /\ done (run (run (init progs) sched0) sched).
Proof. apply worker_completes. vm_compute. reflexivity. Qed.
Print Assumptions C09_fuse_terminates.
Theorem C09_fuse_locks_free progs sched : tasks_of (guard_view fuse_worker) progs ->
  done (run (init progs) sched) -> forall l, snd (run (init progs) sched) l = None.
Proof. apply worker_locks_free. vm_compute. reflexivity. Qed.
Print Assumptions C09_fuse_locks_free.

(* ---- per run: output files are closed in a finally block; the CLI turns any exception into click.Abort (exit 1);
        blocks leave no state on the reader object (it can be used again) *)
Theorem C09_files_closed : closes_both fuse_out_files = true.   Proof. vm_compute. reflexivity. Qed.
Theorem C09_cli_exit_nonzero : forallb (fun b : bool => b) cli_aborts = true /\ length cli_aborts = 3.
Proof. vm_compute. split; reflexivity. Qed.
Theorem C09_reusable : prog_shared fuse_worker || prog_shared compare_worker || prog_shared stats_sums_worker || prog_shared stats_window_worker = false.
Proof. vm_compute. reflexivity. Qed.
Print Assumptions C09_files_closed.

(* what the checks reject: a worker that swallows, one that leaves a lock held on the error path, futures.wait *)
Example C09_rejects_swallow : wf_worker [STry [SWith 2 [SAccess 2]] [SLocal] [] true] = false.
Proof. vm_compute. reflexivity. Qed.
Example C09_rejects_manual_lock : wf_worker [SAcquire 2; SAccess 2; SRelease 2] = false.
Proof. vm_compute. reflexivity. Qed.
Example C09_rejects_wait : wf_coord {| c_pool := true; c_result := false; c_swallow := false; c_seq_direct := true; c_has_seq := true; c_pool_in_files := true |} = false.
Proof. vm_compute. reflexivity. Qed.
