(* C13 - Output encoding is transparent: rounding, saturation and masks only. *)
From Coq Require Import ZArith QArith Qabs List Bool.
From HV Require Import Enc.Dtype Enc.DtypeProofs.
From HVgen Require Import Blocks.
From HV Require Import Tie.BlockTie.
Import ListNotations.
Open Scope Z_scope.

(* np.round: nearest integer, exact ties to the even neighbour, integers unchanged *)
Theorem C13_rint_nearest q : (Qabs (inject_Z (q_rint q) - q) <= 1 # 2)%Q.
Proof. exact (rint_nearest q). Qed.
Theorem C13_rint_tie_even q : (q - inject_Z (Qround.Qfloor q) == 1 # 2)%Q -> Z.even (q_rint q) = true.
Proof. exact (rint_tie_even q). Qed.
Theorem C13_rint_of_integer z : q_rint (inject_Z z) = z.
Proof. exact (rint_of_integer z). Qed.
Print Assumptions C13_rint_nearest.
Print Assumptions C13_rint_tie_even.

(* each valid pixel = the float32 result rounded to nearest and SATURATED to the data type's range - never wrapped *)
Theorem C13_convert_is_saturated_rint d q : is_int d = true ->
  dmin d <= convert_int d (PFin q) <= dmax d /\
  (dmin d <= q_rint q <= dmax d -> convert_int d (PFin q) = q_rint q) /\
  (dmax d < q_rint q -> convert_int d (PFin q) = dmax d) /\
  (q_rint q < dmin d -> convert_int d (PFin q) = dmin d).
Proof. exact (convert_is_saturated_rint d q). Qed.
Print Assumptions C13_convert_is_saturated_rint.
Theorem C13_convert_infinities d : convert_int d PPosInf = dmax d /\ convert_int d PNegInf = dmin d.
Proof. exact (convert_infinities d). Qed.

(* each invalid pixel carries the nodata value ... *)
Theorem C13_invalid_gets_nodata d nd p : convert_px d (Some nd) false p = Some nd.
Proof. exact (invalid_gets_nodata d nd p). Qed.
(* ... or is flagged in the internal mask when nodata is null (written with band 1, i.e. once per block of band 1) *)
Theorem C13_nodata_none_mask_written idx valid p d :
  mask_written true idx = true -> reads_valid None (mask_written true idx) valid (convert_px d None valid p) = valid.
Proof. exact (nodata_none_mask_written idx valid p d). Qed.
Theorem C13_mask_written_iff idx : mask_written true idx = true <-> In 1 idx.
Proof. exact (mask_written_iff idx). Qed.
Print Assumptions C13_nodata_none_mask_written.

(* a valid pixel can become invalid only by coinciding with the chosen nodata value *)
Theorem C13_valid_lost_only_on_collision d nd p :
  reads_valid (Some nd) false true (convert_px d (Some nd) true p) = negb (convert_int d p =? nd) /\
  reads_valid (Some nd) false false (convert_px d (Some nd) false p) = false.
Proof. exact (valid_lost_only_on_collision d nd p). Qed.
Print Assumptions C13_valid_lost_only_on_collision.

Example C13_examples :
  map (fun q => convert_int U8 (PFin q)) [(5 # 2); (7 # 2); (-3 # 2); 300; (-1 # 4); (2549 # 10)]%Q = [2; 4; 0; 255; 0; 255]
  /\ convert_int I16 (PFin (-65537 # 2)) = -32768.
Proof. vm_compute. split; reflexivity. Qed.

(* ---- tie to the source: _convert_array_dtype in the current raster_array.py has the structure Enc.Dtype models (np.round when a float is
        cast to an integer type, np.clip to the target range when it is narrower, unsafe cast, invalid pixels := nodata - in that order) *)
Theorem C13_source_convert_structure : gen_convert_dtype_ok = true.
Proof. exact tie_convert_dtype. Qed.
Print Assumptions C13_source_convert_structure.
