(* Statement IR emitted by translate/skeleton.py for the worker bodies, and its execution into flat action
   traces: every control path, with a fault (exception) possible at every dataset access and every local step.
   Python's unwinding is part of the semantics: a [with] releases its lock on the exception path, a [finally]
   body runs, an explicit acquire()/release() pair does not unwind. *)
From Coq Require Import List Arith Bool Lia.
From HV Require Import Conc.Sem.
Import ListNotations.

Inductive stmt :=
| SWith (l : nat) (body : list stmt)          (* with lock: ... *)
| SAccess (r : nat)                            (* a read / write call on shared dataset r; may raise *)
| SLocal                                       (* any other statement; may raise *)
| SAcquire (l : nat)                           (* lock.acquire()  (no unwinding) *)
| SRelease (l : nat)                           (* lock.release() *)
| STry (body handler fin : list stmt) (swallow : bool)   (* try/except/finally; swallow = handler does not re-raise *)
| SIf (thn els : list stmt)
| SSharedWrite                                 (* store to state shared between blocks (self.x = .., global, mutating call) *)
| SRaise.

(* an outcome: the actions performed and whether the task ended with an exception *)
Definition outc := (list action * bool)%type.
Definition seqo (a b : list outc) : list outc :=
  flat_map (fun x : outc => if snd x then [x] else map (fun y : outc => (fst x ++ fst y, snd y)) b) a.

Fixpoint exec1 (s : stmt) : list outc :=
  let fix execs (l : list stmt) : list outc :=
    match l with [] => [([], false)] | s :: r => seqo (exec1 s) (execs r) end in
  match s with
  | SWith l body => map (fun o : outc => (Acq l :: fst o ++ [Rel l], snd o)) (execs body)
  | SAccess r => [([Beg r; End r], false); ([Beg r; End r], true)]
  | SLocal => [([Loc], false); ([Loc], true)]
  | SAcquire l => [([Acq l], false)]
  | SRelease l => [([Rel l], false)]
  | STry body handler fin swallow =>
    flat_map (fun o : outc =>
      if snd o then
        (* exception: handler, then finally; it propagates unless swallowed (or when handler / finally raise) *)
        flat_map (fun h : outc =>
          map (fun f : outc => (fst o ++ fst h ++ fst f, (if swallow then snd h else true) || snd f)) (execs fin)) (execs handler)
      else map (fun f : outc => (fst o ++ fst f, snd f)) (execs fin)) (execs body)
  | SIf thn els => execs thn ++ execs els
  | SSharedWrite => [([Loc], false)]
  | SRaise => [([], true)]
  end.
Fixpoint execs (l : list stmt) : list outc :=
  match l with [] => [([], false)] | s :: r => seqo (exec1 s) (execs r) end.

Fixpoint has_shared (s : stmt) : bool :=
  let fix anys (l : list stmt) : bool := match l with [] => false | s :: r => has_shared s || anys r end in
  match s with
  | SWith _ b => anys b
  | STry b h f _ => anys b || anys h || anys f
  | SIf a b => anys a || anys b
  | SSharedWrite => true
  | _ => false
  end.
Definition prog_shared (p : list stmt) : bool := existsb has_shared p.
Fixpoint has_swallow (s : stmt) : bool :=
  let fix anys (l : list stmt) : bool := match l with [] => false | s :: r => has_swallow s || anys r end in
  match s with
  | SWith _ b => anys b
  | STry b h f sw => sw || anys b || anys h || anys f
  | SIf a b => anys a || anys b
  | _ => false
  end.

(* every trace the program can produce - all paths, all fault positions *)
Definition traces (p : list stmt) : list (list action) := map fst (execs p).

(* well-formed worker: every producible trace is guarded (lock discipline incl. unwinding), blocks share no state,
   nothing is swallowed *)
Definition wf_worker (p : list stmt) : bool :=
  forallb (guarded [] None) (traces p) && negb (prog_shared p) && negb (existsb has_swallow p).

Definition mentions (r : nat) (tr : list action) : bool :=
  existsb (fun a => match a with Beg x => Nat.eqb x r | _ => false end) tr.
(* a task that did not fail performed an access of each resource in [rs] *)
Definition ok_complete (p : list stmt) (rs : list nat) : bool :=
  forallb (fun o : outc => snd o || forallb (fun r => mentions r (fst o)) rs) (execs p).
(* some fault of the program is observable as a failed outcome (the worker does not hide exceptions) *)
Definition faults_visible (p : list stmt) : bool := existsb (fun o : outc => snd o) (execs p).

(* any selection of n traces from a well-formed worker is a guarded trace list: the Sem meta-theorems apply *)
Lemma selection_guarded p (progs : list (list action)) :
  forallb (guarded [] None) (traces p) = true -> (forall tr, In tr progs -> In tr (traces p)) ->
  forallb (guarded [] None) progs = true.
Proof.
  intros H Hin. apply forallb_forall. intros tr Htr. rewrite forallb_forall in H. apply H, Hin, Htr.
Qed.
