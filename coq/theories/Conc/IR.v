(* Statement IR emitted by translate/skeleton.py for the worker bodies, and its execution into flat action
   traces: every control path, with a fault (exception) possible at every dataset access and every local step.
   Python's unwinding is part of the semantics: a [with] releases its lock on the exception path, a [finally]
   body runs, an explicit acquire()/release() pair does not unwind. *)
From Coq Require Import List Arith Bool Lia.
From HV Require Import Conc.Sem.
Import ListNotations.

Inductive stmt :=
| SWith (l : nat) (body : list stmt)          (* with lock: ... *)
| SAccess (r : nat)                            (* a read / write call on shared dataset r; may raise *)
| SLocal                                       (* any other statement; may raise *)
| SAcquire (l : nat)                           (* lock.acquire()  (no unwinding) *)
| SRelease (l : nat)                           (* lock.release() *)
| STry (body handler fin : list stmt) (swallow : bool)   (* try/except/finally; swallow = handler does not re-raise *)
| SIf (thn els : list stmt)
| SSharedWrite                                 (* store to state shared between blocks (self.x = .., global, mutating call) *)
| SRaise.

(* an outcome: the actions performed and whether the task ended with an exception *)
Definition outc := (list action * bool)%type.
Definition seqo (a b : list outc) : list outc :=
  flat_map (fun x : outc => if snd x then [x] else map (fun y : outc => (fst x ++ fst y, snd y)) b) a.

Fixpoint exec1 (s : stmt) : list outc :=
  let fix execs (l : list stmt) : list outc :=
    match l with [] => [([], false)] | s :: r => seqo (exec1 s) (execs r) end in
  match s with
  | SWith l body => map (fun o : outc => (Acq l :: fst o ++ [Rel l], snd o)) (execs body)
  | SAccess r => [([Beg r; End r], false); ([Beg r; End r], true)]
  | SLocal => [([Loc], false); ([Loc], true)]
  | SAcquire l => [([Acq l], false)]
  | SRelease l => [([Rel l], false)]
  | STry body handler fin swallow =>
    flat_map (fun o : outc =>
      if snd o then
        (* exception: handler, then finally; it propagates unless swallowed (or when handler / finally raise) *)
        flat_map (fun h : outc =>
          map (fun f : outc => (fst o ++ fst h ++ fst f, (if swallow then snd h else true) || snd f)) (execs fin)) (execs handler)
      else map (fun f : outc => (fst o ++ fst f, snd f)) (execs fin)) (execs body)
  | SIf thn els => execs thn ++ execs els
  | SSharedWrite => [([Loc], false)]
  | SRaise => [([], true)]
  end.
Fixpoint execs (l : list stmt) : list outc :=
  match l with [] => [([], false)] | s :: r => seqo (exec1 s) (execs r) end.

Fixpoint has_shared (s : stmt) : bool :=
  let fix anys (l : list stmt) : bool := match l with [] => false | s :: r => has_shared s || anys r end in
  match s with
  | SWith _ b => anys b
  | STry b h f _ => anys b || anys h || anys f
  | SIf a b => anys a || anys b
  | SSharedWrite => true
  | _ => false
  end.
Definition prog_shared (p : list stmt) : bool := existsb has_shared p.
Fixpoint has_swallow (s : stmt) : bool :=
  let fix anys (l : list stmt) : bool := match l with [] => false | s :: r => has_swallow s || anys r end in
  match s with
  | SWith _ b => anys b
  | STry b h f sw => sw || anys b || anys h || anys f
  | SIf a b => anys a || anys b
  | _ => false
  end.

(* every trace the program can produce - all paths, all fault positions *)
Definition traces (p : list stmt) : list (list action) := map fst (execs p).

(* well-formed worker: every producible trace is guarded (lock discipline incl. unwinding), blocks share no state,
   nothing is swallowed *)
Definition wf_worker (p : list stmt) : bool :=
  forallb (guarded [] None) (traces p) && negb (prog_shared p) && negb (existsb has_swallow p).

Definition mentions (r : nat) (tr : list action) : bool :=
  existsb (fun a => match a with Beg x => Nat.eqb x r | _ => false end) tr.
(* a task that did not fail performed an access of each resource in [rs] *)
Definition ok_complete (p : list stmt) (rs : list nat) : bool :=
  forallb (fun o : outc => snd o || forallb (fun r => mentions r (fst o)) rs) (execs p).
(* some fault of the program is observable as a failed outcome (the worker does not hide exceptions) *)
Definition faults_visible (p : list stmt) : bool := existsb (fun o : outc => snd o) (execs p).

(* any selection of n traces from a well-formed worker is a guarded trace list: the Sem meta-theorems apply *)
Lemma selection_guarded p (progs : list (list action)) :
  forallb (guarded [] None) (traces p) = true -> (forall tr, In tr progs -> In tr (traces p)) ->
  forallb (guarded [] None) progs = true.
Proof.
  intros H Hin. apply forallb_forall. intros tr Htr. rewrite forallb_forall in H. apply H, Hin, Htr.
Qed.

(* ------------------------------------------------------------------ which lock guards which dataset
   The discipline checked by [guarded] identifies a dataset with the lock that guards it (Beg r needs lock r).  Which lock that is,
   is the code's business - one lock per dataset, or one lock for several datasets, both give mutual exclusion - so the generated
   skeleton comes with a map [lk] from dataset ids to lock ids (inferred from the source), and the discipline is checked on the
   program VIEWED through that map.  Mutual exclusion per lock class implies mutual exclusion per dataset of the class. *)
Fixpoint relabel (lk : nat -> nat) (s : stmt) : stmt :=
  let fix rl (l : list stmt) : list stmt := match l with [] => [] | s :: r => relabel lk s :: rl r end in
  match s with
  | SWith l b => SWith l (rl b)
  | SAccess r => SAccess (lk r)
  | STry b h f sw => STry (rl b) (rl h) (rl f) sw
  | SIf a b => SIf (rl a) (rl b)
  | SLocal => SLocal | SAcquire l => SAcquire l | SRelease l => SRelease l | SSharedWrite => SSharedWrite | SRaise => SRaise
  end.
Definition relabel_prog (lk : nat -> nat) (p : list stmt) : list stmt := map (relabel lk) p.
Definition relabel_action (lk : nat -> nat) (a : action) : action :=
  match a with Beg r => Beg (lk r) | End r => End (lk r) | a => a end.

Section Relabel.
Variable lk : nat -> nat.
Let F (o : outc) : outc := (map (relabel_action lk) (fst o), snd o).

(* induction principle that reaches into the nested statement lists *)
Lemma stmt_ind_nested (P : stmt -> Prop) :
  (forall l b, Forall P b -> P (SWith l b)) -> (forall r, P (SAccess r)) -> P SLocal -> (forall l, P (SAcquire l)) -> (forall l, P (SRelease l)) ->
  (forall b h f sw, Forall P b -> Forall P h -> Forall P f -> P (STry b h f sw)) -> (forall a b, Forall P a -> Forall P b -> P (SIf a b)) ->
  P SSharedWrite -> P SRaise -> forall s, P s.
Proof.
  intros HW HA HL HQ HR HT HI HS HX.
  refine (fix IH (s : stmt) : P s :=
    let fix IHl (l : list stmt) : Forall P l :=
      match l with [] => Forall_nil P | x :: r => Forall_cons x (IH x) (IHl r) end in
    match s with
    | SWith l b => HW l b (IHl b)
    | SAccess r => HA r
    | SLocal => HL
    | SAcquire l => HQ l
    | SRelease l => HR l
    | STry b h f sw => HT b h f sw (IHl b) (IHl h) (IHl f)
    | SIf a b => HI a b (IHl a) (IHl b)
    | SSharedWrite => HS
    | SRaise => HX
    end).
Qed.

Lemma relabel_list_eq l : (fix rl (l : list stmt) : list stmt := match l with [] => [] | s :: r => relabel lk s :: rl r end) l = map (relabel lk) l.
Proof. induction l as [|s r IHr]; [reflexivity|]. cbn [map]. rewrite <- IHr. reflexivity. Qed.
Lemma execs_inner_eq l : (fix execs (l : list stmt) : list outc := match l with [] => [([], false)] | s :: r => seqo (exec1 s) (execs r) end) l = execs l.
Proof. induction l as [|s r IHr]; [reflexivity|]. cbn [execs]. rewrite <- IHr. reflexivity. Qed.

Lemma seqo_F a b : seqo (map F a) (map F b) = map F (seqo a b).
Proof.
  unfold seqo. induction a as [|x a IHa]; [reflexivity|]. cbn [map flat_map]. rewrite map_app, <- IHa. f_equal.
  unfold F at 1. cbn [snd fst]. destruct (snd x) eqn:E.
  - cbn [map]. unfold F. rewrite E. reflexivity.
  - rewrite !map_map. apply map_ext. intros y. unfold F. cbn [fst snd]. rewrite map_app. reflexivity.
Qed.

Lemma execs_relabel_from (l : list stmt) : Forall (fun s => exec1 (relabel lk s) = map F (exec1 s)) l ->
  execs (map (relabel lk) l) = map F (execs l).
Proof.
  induction 1 as [|s r Hs Hr IHr]; [reflexivity|]. cbn [map execs]. rewrite Hs, IHr. apply seqo_F.
Qed.

Lemma exec1_relabel s : exec1 (relabel lk s) = map F (exec1 s).
Proof.
  induction s as [l b Hb|r| |l|l|b h f sw Hb Hh Hf|a b Ha Hb| |] using stmt_ind_nested; try reflexivity.
  - (* SWith *) cbn [relabel exec1]. rewrite relabel_list_eq, (execs_inner_eq (map (relabel lk) b)), (execs_inner_eq b), (execs_relabel_from b Hb), !map_map.
    apply map_ext. intros o. unfold F. cbn [fst snd map]. rewrite map_app. reflexivity.
  - (* STry *) cbn [relabel exec1]. rewrite (relabel_list_eq b), (relabel_list_eq h), (relabel_list_eq f).
    rewrite (execs_inner_eq (map (relabel lk) b)), (execs_inner_eq (map (relabel lk) h)), (execs_inner_eq (map (relabel lk) f)),
            (execs_inner_eq b), (execs_inner_eq h), (execs_inner_eq f).
    rewrite (execs_relabel_from b Hb), (execs_relabel_from h Hh), (execs_relabel_from f Hf).
    generalize (execs b) (execs h) (execs f). intros B Hd Fi.
    induction B as [|o B IHB]; [reflexivity|]. cbn [map flat_map]. rewrite map_app. f_equal; [|exact IHB].
    change (snd (F o)) with (snd o). destruct (snd o).
    + clear IHB. induction Hd as [|x Hd IHd]; [reflexivity|]. cbn [map flat_map]. rewrite map_app. f_equal; [|exact IHd].
      rewrite !map_map. apply map_ext. intros y. unfold F. cbn [fst snd]. rewrite !map_app. reflexivity.
    + rewrite !map_map. apply map_ext. intros y. unfold F. cbn [fst snd]. rewrite map_app. reflexivity.
  - (* SIf *) cbn [relabel exec1]. rewrite (relabel_list_eq a), (relabel_list_eq b), (execs_inner_eq (map (relabel lk) a)), (execs_inner_eq (map (relabel lk) b)), (execs_inner_eq a), (execs_inner_eq b), (execs_relabel_from a Ha), (execs_relabel_from b Hb), map_app. reflexivity.
Qed.

(* the outcomes of the program viewed through the lock map are the outcomes of the program, viewed through the lock map *)
Theorem execs_relabel p : execs (relabel_prog lk p) = map F (execs p).
Proof. apply execs_relabel_from. apply Forall_forall. intros s _. apply exec1_relabel. Qed.
Theorem traces_relabel p : traces (relabel_prog lk p) = map (map (relabel_action lk)) (traces p).
Proof. unfold traces. rewrite execs_relabel, !map_map. reflexivity. Qed.
End Relabel.
