(* Interleaving semantics of flat per-thread action traces and the meta-theorems used by C04 / C09:
   for EVERY list of guarded traces, every number of threads and every schedule:
     mutex          at most one thread is inside an access of a resource
     progress       some unfinished thread can always move (no deadlock)
     terminates     every schedule performs at most (total trace length) effective steps; a completing schedule exists
     locks_free     when all threads are finished no lock is held
   Locks and resources are nats with lock_of r = r (the translator checks that map on the source). *)

From Coq Require Import List Arith Bool Lia.
Import ListNotations.

(* flat per-thread action traces; locks and resources are nats; lock_of r = r *)
Inductive action := Acq (l : nat) | Rel (l : nat) | Beg (r : nat) | End (r : nat) | Loc.

(* thread state: remaining actions, held locks, resource currently inside (at most one) *)
Record thr := { rest : list action; held : list nat; inside : option nat }.
Definition gstate := (list thr * (nat -> option nat))%type.  (* threads, lock owner *)

Definition upd {A} (f : nat -> A) (k : nat) (v : A) := fun x => if Nat.eqb x k then v else f x.

Definition step_thr (t : nat) (th : thr) (own : nat -> option nat) : option (thr * (nat -> option nat)) :=
  match rest th with
  | [] => None
  | Acq l :: r => match own l with
                  | None => Some ({| rest := r; held := l :: held th; inside := inside th |}, upd own l (Some t))
                  | Some _ => None end
  | Rel l :: r => Some ({| rest := r; held := remove Nat.eq_dec l (held th); inside := inside th |}, upd own l None)
  | Beg x :: r => Some ({| rest := r; held := held th; inside := Some x |}, own)
  | End x :: r => Some ({| rest := r; held := held th; inside := None |}, own)
  | Loc :: r => Some ({| rest := r; held := held th; inside := inside th |}, own)
  end.

Fixpoint set_nth {A} (n : nat) (x : A) (l : list A) : list A :=
  match l, n with [], _ => [] | _ :: t, O => x :: t | h :: t, S k => h :: set_nth k x t end.

Definition step (s : gstate) (t : nat) : gstate :=
  let '(ths, own) := s in
  match nth_error ths t with
  | None => s
  | Some th => match step_thr t th own with
               | None => s
               | Some (th', own') => (set_nth t th' ths, own') end
  end.
Definition run (s : gstate) (sched : list nat) : gstate := fold_left step sched s.

(* syntactic guard: scanning a trace with the held set, every Beg r / End r happens while r is held,
   Acq only when holding nothing (no nesting), Rel only of a held lock, ends with nothing held and not inside *)
Fixpoint guarded (h : list nat) (ins : option nat) (tr : list action) : bool :=
  match tr with
  | [] => match h, ins with [], None => true | _, _ => false end
  | Acq l :: r => match h, ins with [], None => guarded [l] None r | _, _ => false end
  | Rel l :: r => match h, ins with [l'], None => Nat.eqb l l' && guarded [] None r | _, _ => false end
  | Beg x :: r => match h, ins with [l'], None => Nat.eqb x l' && guarded h (Some x) r | _, _ => false end
  | End x :: r => match h, ins with [l'], Some y => Nat.eqb x y && Nat.eqb x l' && guarded h None r | _, _ => false end
  | Loc :: r => guarded h ins r
  end.

(* invariant *)
Definition thr_ok (own : nat -> option nat) (t : nat) (th : thr) : Prop :=
  guarded (held th) (inside th) (rest th) = true /\
  (forall l, In l (held th) -> own l = Some t) /\
  (forall x, inside th = Some x -> In x (held th)).
Definition inv (s : gstate) : Prop :=
  let '(ths, own) := s in
  (forall t th, nth_error ths t = Some th -> thr_ok own t th) /\
  (forall l t, own l = Some t -> exists th, nth_error ths t = Some th /\ In l (held th)).

Lemma nth_error_set_nth_eq {A} n (x : A) l : n < length l -> nth_error (set_nth n x l) n = Some x.
Proof. revert n; induction l as [|a l IH]; intros [|n] H; simpl in *; try lia; auto. apply IH; lia. Qed.
Lemma nth_error_set_nth_neq {A} n m (x : A) l : n <> m -> nth_error (set_nth n x l) m = nth_error l m.
Proof. revert n m; induction l as [|a l IH]; intros [|n] [|m] H; simpl; auto; try congruence. Qed.

Lemma step_inv s t : inv s -> inv (step s t).
Proof.
  destruct s as [ths own]. unfold step. intros [Hth Hown].
  destruct (nth_error ths t) as [th|] eqn:Et; [|split; assumption].
  destruct (step_thr t th own) as [[th' own']|] eqn:Es; [|split; assumption].
  assert (Hlt : t < length ths) by (apply nth_error_Some; congruence).
  destruct (Hth t th Et) as (Hg & Hh & Hi).
  unfold step_thr in Es. destruct (rest th) as [|a r] eqn:Er; [discriminate|].
  destruct a as [l|l|x|x|].
  - (* Acq *) destruct (own l) eqn:Eo; [discriminate|]. inversion Es; subst th' own'; clear Es.
    simpl in Hg. destruct (held th) as [|? ?] eqn:Eh; [|discriminate]. destruct (inside th) eqn:Ei; [discriminate|].
    split.
    + intros t2 th2 H2. destruct (Nat.eq_dec t t2) as [<-|Hne].
      * rewrite nth_error_set_nth_eq in H2 by assumption. inversion H2; subst th2. repeat split; simpl; auto.
        -- intros l0 [<-|[]]. unfold upd. now rewrite Nat.eqb_refl.
        -- intros; discriminate.
      * rewrite nth_error_set_nth_neq in H2 by assumption. destruct (Hth t2 th2 H2) as (G & Hh2 & I2).
        repeat split; auto. intros l0 Hl0. unfold upd. destruct (Nat.eqb l0 l) eqn:E.
        -- apply Nat.eqb_eq in E; subst. rewrite (Hh2 l Hl0) in Eo. discriminate.
        -- auto.
    + intros l0 t0. unfold upd. destruct (Nat.eqb l0 l) eqn:E.
      * apply Nat.eqb_eq in E; subst. intros H; inversion H; subst t0. eexists. split.
        apply nth_error_set_nth_eq; assumption. simpl; auto.
      * intros H. destruct (Hown l0 t0 H) as (th0 & Hn & Hin). destruct (Nat.eq_dec t t0) as [<-|Hne].
        -- rewrite Et in Hn; inversion Hn; subst th0. rewrite Eh in Hin. destruct Hin.
        -- exists th0. split; auto. rewrite nth_error_set_nth_neq; auto.
  - (* Rel *) inversion Es; subst th' own'; clear Es. simpl in Hg.
    destruct (held th) as [|l' [|? ?]] eqn:Eh; try discriminate. destruct (inside th) eqn:Ei; [discriminate|].
    apply andb_true_iff in Hg as [E Hg]. apply Nat.eqb_eq in E; subst l'.
    split.
    + intros t2 th2 H2. destruct (Nat.eq_dec t t2) as [<-|Hne].
      * rewrite nth_error_set_nth_eq in H2 by assumption. inversion H2; subst th2. simpl.
        destruct (Nat.eq_dec l l); [|congruence]. repeat split; simpl; auto; intros; try contradiction; discriminate.
      * rewrite nth_error_set_nth_neq in H2 by assumption. destruct (Hth t2 th2 H2) as (G & Hh2 & I2).
        repeat split; auto. intros l0 Hl0. unfold upd. destruct (Nat.eqb l0 l) eqn:E.
        -- apply Nat.eqb_eq in E; subst. specialize (Hh2 l Hl0). rewrite (Hh l) in Hh2 by (simpl; auto). congruence.
        -- auto.
    + intros l0 t0. unfold upd. destruct (Nat.eqb l0 l) eqn:E; [discriminate|].
      intros H. destruct (Hown l0 t0 H) as (th0 & Hn & Hin). destruct (Nat.eq_dec t t0) as [<-|Hne].
      * rewrite Et in Hn; inversion Hn; subst th0. rewrite Eh in Hin. destruct Hin as [<-|[]]. rewrite Nat.eqb_refl in E. discriminate.
      * exists th0. split; auto. rewrite nth_error_set_nth_neq; auto.
  - (* Beg *) inversion Es; subst th' own'; clear Es. simpl in Hg.
    destruct (held th) as [|l' [|? ?]] eqn:Eh; try discriminate. destruct (inside th) eqn:Ei; [discriminate|].
    apply andb_true_iff in Hg as [E Hg]. apply Nat.eqb_eq in E; subst l'.
    split.
    + intros t2 th2 H2. destruct (Nat.eq_dec t t2) as [<-|Hne].
      * rewrite nth_error_set_nth_eq in H2 by assumption. inversion H2; subst th2. simpl. repeat split; auto. intros y Hy; inversion Hy; subst; simpl; auto.
      * rewrite nth_error_set_nth_neq in H2 by assumption. auto.
    + intros l0 t0 H. destruct (Hown l0 t0 H) as (th0 & Hn & Hin). destruct (Nat.eq_dec t t0) as [<-|Hne].
      * rewrite Et in Hn; inversion Hn; subst th0. eexists; split; [apply nth_error_set_nth_eq; auto|]. simpl. try (rewrite Eh in Hin); auto.
      * exists th0. split; auto. rewrite nth_error_set_nth_neq; auto.
  - (* End *) inversion Es; subst th' own'; clear Es. simpl in Hg.
    destruct (held th) as [|l' [|? ?]] eqn:Eh; try discriminate. destruct (inside th) as [y|] eqn:Ei; [|discriminate].
    apply andb_true_iff in Hg as [E Hg]. 
    split.
    + intros t2 th2 H2. destruct (Nat.eq_dec t t2) as [<-|Hne].
      * rewrite nth_error_set_nth_eq in H2 by assumption. inversion H2; subst th2. simpl. repeat split; auto. intros; discriminate.
      * rewrite nth_error_set_nth_neq in H2 by assumption. auto.
    + intros l0 t0 H. destruct (Hown l0 t0 H) as (th0 & Hn & Hin). destruct (Nat.eq_dec t t0) as [<-|Hne].
      * rewrite Et in Hn; inversion Hn; subst th0. eexists; split; [apply nth_error_set_nth_eq; auto|]. simpl. try (rewrite Eh in Hin); auto.
      * exists th0. split; auto. rewrite nth_error_set_nth_neq; auto.
  - (* Loc *) inversion Es; subst th' own'; clear Es. simpl in Hg.
    split.
    + intros t2 th2 H2. destruct (Nat.eq_dec t t2) as [<-|Hne].
      * rewrite nth_error_set_nth_eq in H2 by assumption. inversion H2; subst th2. simpl. repeat split; auto.
      * rewrite nth_error_set_nth_neq in H2 by assumption. auto.
    + intros l0 t0 H. destruct (Hown l0 t0 H) as (th0 & Hn & Hin). destruct (Nat.eq_dec t t0) as [<-|Hne].
      * rewrite Et in Hn; inversion Hn; subst th0. eexists; split; [apply nth_error_set_nth_eq; auto|]. simpl. try (rewrite Eh in Hin); auto.
      * exists th0. split; auto. rewrite nth_error_set_nth_neq; auto.
Qed.

Definition init (progs : list (list action)) : gstate :=
  (map (fun p => {| rest := p; held := []; inside := None |}) progs, fun _ => None).

Theorem mutex : forall progs sched,
  forallb (guarded [] None) progs = true ->
  let '(ths, own) := run (init progs) sched in
  forall t1 t2 th1 th2 x, nth_error ths t1 = Some th1 -> nth_error ths t2 = Some th2 ->
    inside th1 = Some x -> inside th2 = Some x -> t1 = t2.
Proof.
  intros progs sched Hg.
  assert (Hrun : forall sc s, inv s -> inv (run s sc)).
  { induction sc as [|t sc IH]; intros s H; simpl; auto. apply IH, step_inv, H. }
  assert (H0 : inv (init progs)).
  { unfold init; split.
    - intros t th H. rewrite nth_error_map in H. destruct (nth_error progs t) eqn:E; [|discriminate].
      inversion H; subst th. repeat split; simpl; try (intros; contradiction || discriminate).
      rewrite forallb_forall in Hg. apply Hg. eapply nth_error_In; eauto.
    - intros; discriminate. }
  pose proof (Hrun sched _ H0) as Hinv.
  destruct (run (init progs) sched) as [ths own]. destruct Hinv as [Hth _].
  intros t1 t2 th1 th2 x H1 H2 I1 I2.
  destruct (Hth _ _ H1) as (_ & Hh1 & Hi1). destruct (Hth _ _ H2) as (_ & Hh2 & Hi2).
  specialize (Hh1 x (Hi1 x I1)). specialize (Hh2 x (Hi2 x I2)). congruence.
Qed.

(* ------------------------------------------------------------------ completion, progress, termination *)
Definition done (s : gstate) : Prop := forall t th, nth_error (fst s) t = Some th -> rest th = [].
Definition remaining (s : gstate) : nat := fold_right (fun th n => length (rest th) + n) 0 (fst s).
Definition enabled (s : gstate) (t : nat) : Prop :=
  exists th, nth_error (fst s) t = Some th /\ step_thr t th (snd s) <> None.

Lemma run_inv progs sched : forallb (guarded [] None) progs = true -> inv (run (init progs) sched).
Proof.
  intros Hg.
  assert (Hrun : forall sc s, inv s -> inv (run s sc)).
  { induction sc as [|t sc IH]; intros s H; simpl; auto. apply IH, step_inv, H. }
  apply Hrun. unfold init; split.
  - intros t th H. rewrite nth_error_map in H. destruct (nth_error progs t) eqn:E; [|discriminate].
    inversion H; subst th. repeat split; simpl; try (intros; contradiction || discriminate).
    rewrite forallb_forall in Hg. apply Hg. eapply nth_error_In; eauto.
  - intros; discriminate.
Qed.

(* no deadlock: in a state satisfying the invariant, if some thread is unfinished then some thread can move *)
Theorem progress s : inv s -> (exists t th, nth_error (fst s) t = Some th /\ rest th <> []) -> exists t, enabled s t.
Proof.
  destruct s as [ths own]. cbn [fst snd]. intros [Hth Hown] (t & th & Et & Hne).
  destruct (step_thr t th own) eqn:Es.
  - exists t, th. split; [exact Et|]. cbn [snd]. rewrite Es. discriminate.
  - (* t is blocked: its head is an Acq of a lock owned by some t' which is not blocked *)
    unfold step_thr in Es. destruct (rest th) as [|a r] eqn:Er; [congruence|].
    destruct a as [l|l|x|x|]; try discriminate.
    destruct (own l) as [t'|] eqn:Eo; [|discriminate].
    destruct (Hown l t' Eo) as (th' & Et' & Hin').
    destruct (Hth t' th' Et') as (Hg' & Hh' & Hi').
    exists t', th'. split; [exact Et'|]. cbn [snd]. unfold step_thr.
    destruct (rest th') as [|a' r'] eqn:Er'.
    + simpl in Hg'. destruct (held th'); [destruct Hin'|discriminate].
    + destruct a' as [l2|l2|x2|x2|]; try discriminate.
      simpl in Hg'. destruct (held th') eqn:Eh'; [destruct Hin'|discriminate].
Qed.

Lemma remaining_set_nth ths t th th' : nth_error ths t = Some th -> length (rest th') + 1 = length (rest th) ->
  fold_right (fun th n => length (rest th) + n) 0 (set_nth t th' ths) + 1 = fold_right (fun th n => length (rest th) + n) 0 ths.
Proof.
  revert t. induction ths as [|a l IH]; intros [|t] H E; simpl in *; try discriminate.
  - inversion H; subst. lia.
  - specialize (IH t H E). lia.
Qed.

Lemma step_thr_len t th own th' own' : step_thr t th own = Some (th', own') -> length (rest th') + 1 = length (rest th).
Proof.
  unfold step_thr. destruct (rest th) as [|a r]; [discriminate|].
  destruct a; try (intros H; inversion H; subst; simpl; lia).
  destruct (own l); [discriminate|]. intros H; inversion H; subst; simpl; lia.
Qed.

(* an effective step consumes exactly one action; an ineffective one changes nothing *)
Lemma step_remaining s t : (step s t = s /\ ~ enabled s t) \/ (remaining (step s t) + 1 = remaining s /\ enabled s t).
Proof.
  destruct s as [ths own]. unfold step, enabled, remaining. cbn [fst snd].
  destruct (nth_error ths t) as [th|] eqn:Et.
  - destruct (step_thr t th own) as [[th' own']|] eqn:Es.
    + right. split.
      * cbn [fst]. apply (remaining_set_nth ths t th th' Et). eapply step_thr_len; eauto.
      * exists th. split; [reflexivity|]. rewrite Es. discriminate.
    + left. split; [reflexivity|]. intros (th2 & E2 & N). inversion E2; subst. contradiction.
  - left. split; [reflexivity|]. intros (th2 & E2 & _). discriminate.
Qed.

(* every schedule performs at most [remaining] effective steps: remaining never increases *)
Theorem run_remaining s sched : remaining (run s sched) <= remaining s.
Proof.
  revert s. induction sched as [|t sc IH]; intros s; simpl; [lia|].
  specialize (IH (step s t)). destruct (step_remaining s t) as [[E _]|[E _]]; [rewrite E in *; exact IH|lia].
Qed.

Lemma remaining_zero_done s : remaining s = 0 -> done s.
Proof.
  destruct s as [ths own]. unfold remaining, done. cbn [fst]. induction ths as [|a l IH]; intros H t th E.
  - destruct t; discriminate.
  - simpl in H. destruct t as [|t]; simpl in E.
    + inversion E; subst. destruct (rest th); [reflexivity|simpl in H; lia].
    + apply (IH ltac:(lia) t th E).
Qed.
Lemma not_done_unfinished s : remaining s <> 0 -> exists t th, nth_error (fst s) t = Some th /\ rest th <> [].
Proof.
  destruct s as [ths own]. unfold remaining. cbn [fst]. induction ths as [|a l IH]; intros H; [simpl in H; lia|].
  simpl in H. destruct (rest a) eqn:Ea.
  - destruct IH as (t & th & E & N); [simpl in H; lia|]. exists (S t), th. split; assumption.
  - exists 0, a. split; [reflexivity|]. rewrite Ea. discriminate.
Qed.

(* from every reachable state a schedule of at most [remaining] steps completes all threads: no deadlock, no livelock *)
Theorem completes progs sched0 : forallb (guarded [] None) progs = true ->
  exists sched, length sched <= remaining (run (init progs) sched0) /\ done (run (run (init progs) sched0) sched).
Proof.
  intros Hg. pose proof (run_inv progs sched0 Hg) as Hinv.
  remember (run (init progs) sched0) as s eqn:Es. clear Es.
  remember (remaining s) as n eqn:En. revert s Hinv En. induction n as [|n IH]; intros s Hinv En.
  - exists []. split; [simpl; lia|]. simpl. apply remaining_zero_done. congruence.
  - destruct (progress s Hinv (not_done_unfinished s ltac:(lia))) as (t & Ht).
    destruct (step_remaining s t) as [[_ N]|[E _]]; [contradiction|].
    destruct (IH (step s t) (step_inv s t Hinv) ltac:(lia)) as (sc & Hl & Hd).
    exists (t :: sc). split; [simpl; lia|]. simpl. exact Hd.
Qed.

(* when everything has finished no lock is held by anybody *)
Theorem locks_free_at_end s : inv s -> done s -> forall l, snd s l = None.
Proof.
  destruct s as [ths own]. cbn [fst snd]. intros [Hth Hown] Hd l.
  destruct (own l) as [t|] eqn:E; [|reflexivity]. exfalso.
  destruct (Hown l t E) as (th & Et & Hin). destruct (Hth t th Et) as (Hg & _ & _).
  rewrite (Hd t th Et) in Hg. simpl in Hg. destruct (held th); [destruct Hin|discriminate].
Qed.

(* each thread only ever executes its own trace, in order: what is left is always a suffix of the program *)
Lemma step_suffix s t t' th' : nth_error (fst (step s t)) t' = Some th' ->
  exists th pre, nth_error (fst s) t' = Some th /\ rest th = pre ++ rest th'.
Proof.
  destruct s as [ths own]. unfold step. cbn [fst].
  destruct (nth_error ths t) as [th|] eqn:Et; [|intros H; exists th', []; split; [exact H|reflexivity]].
  destruct (step_thr t th own) as [[th2 own2]|] eqn:Es; [|intros H; exists th', []; split; [exact H|reflexivity]].
  cbn [fst]. intros H. destruct (Nat.eq_dec t t') as [<-|Hne].
  - assert (Hlt : t < length ths) by (apply nth_error_Some; congruence).
    rewrite nth_error_set_nth_eq in H by assumption. inversion H; subst th'.
    exists th. unfold step_thr in Es. destruct (rest th) as [|a r] eqn:Er; [discriminate|].
    exists [a]. split; [exact Et|].
    destruct a; try (inversion Es; subst; reflexivity). destruct (own l); [discriminate|]. inversion Es; subst; reflexivity.
  - rewrite nth_error_set_nth_neq in H by assumption. exists th', []. split; [exact H|reflexivity].
Qed.

Theorem executes_own_trace progs sched t th : nth_error (fst (run (init progs) sched)) t = Some th ->
  exists p pre, nth_error progs t = Some p /\ p = pre ++ rest th.
Proof.
  unfold run. rewrite <- (rev_involutive sched). generalize (rev sched). clear sched. intros sched. revert t th.
  induction sched as [|a sc IH]; intros t th H.
  - simpl in H. unfold init in H. cbn [fst] in H. rewrite nth_error_map in H.
    destruct (nth_error progs t) as [p|] eqn:E; [|discriminate]. inversion H; subst th. exists p, []. split; reflexivity.
  - simpl rev in H. rewrite fold_left_app in H. simpl in H.
    destruct (step_suffix _ _ _ _ H) as (th1 & pre1 & E1 & R1).
    destruct (IH t th1 E1) as (p & pre & Ep & Rp). exists p, (pre ++ pre1). split; [exact Ep|].
    rewrite Rp, R1, app_assoc. reflexivity.
Qed.
