(* Coordinator (thread-pool fan-out / as_completed fan-in), the _out_files context, and a two-file file system.
   The records are filled in by translate/skeleton.py from the current source. *)
From Coq Require Import List Arith Bool Lia.
Import ListNotations.

Inductive outcome := Ok | Raise.

Record coord := {
  c_pool : bool;          (* a ThreadPoolExecutor branch exists and submits the worker *)
  c_result : bool;        (* .result() is evaluated for every future yielded by as_completed *)
  c_swallow : bool;       (* some handler around the worker call / result() does not re-raise *)
  c_seq_direct : bool;    (* the threads == 1 branch (if any) calls the worker in a plain for loop *)
  c_has_seq : bool;
  c_pool_in_files : bool  (* the executor context is nested inside the output-file / reader context *)
}.
Definition wf_coord (c : coord) : bool :=
  c_pool c && c_result c && negb (c_swallow c) && (negb (c_has_seq c) || c_seq_direct c) && c_pool_in_files c.

(* [failed] : one flag per task, true = its body ended with an exception.
   Pool: result() re-raises the first failure seen; without result() (e.g. futures.wait) failures are lost.
   Sequential: the loop stops at the first failure and the exception propagates. *)
Definition coord_outcome (c : coord) (failed : list bool) : outcome :=
  if c_swallow c then Ok
  else if c_result c then (if existsb (fun b : bool => b) failed then Raise else Ok)
  else Ok.
Definition seq_outcome (c : coord) (failed : list bool) : outcome :=
  if c_swallow c then Ok else if existsb (fun b : bool => b) failed then Raise else Ok.

Theorem fault_propagates c failed : wf_coord c = true ->
  (coord_outcome c failed = Raise <-> existsb (fun b : bool => b) failed = true) /\
  (seq_outcome c failed = Raise <-> existsb (fun b : bool => b) failed = true).
Proof.
  unfold wf_coord, coord_outcome, seq_outcome. intros H.
  repeat (apply andb_true_iff in H; destruct H as [H ?]).
  apply negb_true_iff in H2. rewrite H2. rewrite H3.
  destruct (existsb (fun b : bool => b) failed); split; split; intros; congruence.
Qed.

Corollary ok_means_none_failed c failed : wf_coord c = true ->
  coord_outcome c failed = Ok -> forall b, In b failed -> b = false.
Proof.
  intros Hwf Hok b Hin. destruct (fault_propagates c failed Hwf) as [[_ H] _].
  destruct (existsb (fun b : bool => b) failed) eqn:E.
  - specialize (H eq_refl). congruence.
  - destruct b; [|reflexivity]. exfalso.
    assert (existsb (fun b : bool => b) failed = true) by (apply existsb_exists; exists true; auto). congruence.
Qed.

(* ------------------------------------------------------------------ _out_files *)
Inductive fkind := FCorr | FParam.
Definition fkind_eqb (a b : fkind) : bool := match a, b with FCorr, FCorr | FParam, FParam => true | _, _ => false end.
Inductive fstep := FCheck (k : fkind) | FOpenW (k : fkind) | FMeta (k : fkind) | FOvw (k : fkind) | FClose (k : fkind).
Record out_files := {
  of_entry : list fstep;      (* statements before the try, in order *)
  of_yield_in_try : bool;     (* the yield sits inside try: ... finally: *)
  of_finally : list fstep;    (* the finally body *)
  of_coerced : bool           (* corr / param paths are coerced to pathlib.Path before .exists() is called *)
}.

(* file system restricted to the two output paths: None = absent, Some n = present with content id n *)
Definition fs := fkind -> option nat.
Definition fs_upd (s : fs) (k : fkind) (v : option nat) : fs := fun k' => if fkind_eqb k k' then v else s k'.
Inductive eres := EOk (s : fs) | EExists (s : fs) | EAttr (s : fs).
Definition applies (k : fkind) (want_param : bool) : bool := match k with FCorr => true | FParam => want_param end.
Definition present (s : fs) (k : fkind) : bool := match s k with Some _ => true | None => false end.

(* entry of the context manager: overwrite flag [ow], parameter file requested [wp], paths given as str [is_str];
   a newly created / truncated file has content 0 *)
Fixpoint run_entry (steps : list fstep) (coerced ow wp is_str : bool) (s : fs) : eres :=
  match steps with
  | [] => EOk s
  | FCheck k :: r =>
    if negb ow && applies k wp then
      if is_str && negb coerced then EAttr s         (* 'str' object has no attribute 'exists' *)
      else if present s k then EExists s else run_entry r coerced ow wp is_str s
    else run_entry r coerced ow wp is_str s
  | FOpenW k :: r => if applies k wp then run_entry r coerced ow wp is_str (fs_upd s k (Some 0)) else run_entry r coerced ow wp is_str s
  | _ :: r => run_entry r coerced ow wp is_str s
  end.

Definition is_check (f : fstep) : bool := match f with FCheck _ => true | _ => false end.
Definition is_open (f : fstep) : bool := match f with FOpenW _ => true | _ => false end.
(* both existence checks come first (either order), before any open *)
Definition checks_first (steps : list fstep) : bool :=
  match steps with
  | FCheck FCorr :: FCheck FParam :: _ => true
  | FCheck FParam :: FCheck FCorr :: _ => true
  | _ => false
  end.
Definition opens_both (steps : list fstep) : bool :=
  existsb (fun f => match f with FOpenW FCorr => true | _ => false end) steps
  && existsb (fun f => match f with FOpenW FParam => true | _ => false end) steps.

(* C10: unless overwrite is requested an existing corrected or parameter file is never modified: the call fails
   with FileExistsError and the file system is exactly the initial one (nothing created, nothing truncated) *)
Theorem no_overwrite_no_change steps wp is_str s : checks_first steps = true ->
  (present s FCorr = true \/ (wp = true /\ present s FParam = true)) ->
  run_entry steps true false wp is_str s = EExists s.
Proof.
  intros Hc Hex. unfold checks_first in Hc.
  destruct steps as [|f1 r]; [discriminate|]. destruct f1 as [k1|k1|k1|k1|k1]; try (destruct k1; discriminate).
  destruct r as [|f2 r]; [destruct k1; discriminate|]. destruct f2 as [k2|k2|k2|k2|k2]; try (destruct k1; discriminate).
  destruct k1, k2; try discriminate; cbn [run_entry negb andb applies]; rewrite ?andb_false_r; cbn [andb];
    destruct (present s FCorr) eqn:E1; destruct wp; destruct (present s FParam) eqn:E2; cbn;
    try reflexivity; destruct Hex as [H|[H1 H2]]; congruence.
Qed.

(* str and Path arguments behave alike once paths are coerced *)
Theorem str_paths_ok steps ow wp s : run_entry steps true ow wp true s = run_entry steps true ow wp false s.
Proof.
  revert s. induction steps as [|f r IH]; intros s; [reflexivity|].
  destruct f; cbn [run_entry]; rewrite ?andb_false_r, ?IH; try reflexivity.
Qed.

(* D4: without the coercion a str path raises AttributeError instead of running / FileExistsError *)
Theorem str_paths_uncoerced_refuted :
  run_entry [FCheck FCorr; FCheck FParam; FOpenW FCorr; FOpenW FParam] false false false true (fun _ => None)
  = EAttr (fun _ => None).
Proof. reflexivity. Qed.

(* with overwrite the requested outputs are created afresh whatever was there: the state of the outputs after entry
   does not depend on the previous file system (history independence of the file-level protocol) *)
Theorem overwrite_history_independent steps coerced wp is_str s1 s2 :
  (is_str = true -> coerced = true) ->
  (forall k, applies k wp = false -> s1 k = s2 k) -> opens_both steps = true ->
  match run_entry steps coerced true wp is_str s1, run_entry steps coerced true wp is_str s2 with
  | EOk a, EOk b => forall k, a k = b k
  | _, _ => False
  end.
Proof.
  intros _ Hother Hop.
  assert (G : forall steps s1 s2,
             (forall k, s1 k = s2 k \/ (applies k wp = true /\ existsb (fun f => match f with FOpenW k' => fkind_eqb k k' | _ => false end) steps = true)) ->
             match run_entry steps coerced true wp is_str s1, run_entry steps coerced true wp is_str s2 with
             | EOk a, EOk b => forall k, a k = b k | _, _ => False end).
  { clear. induction steps as [|f r IH]; intros s1 s2 H.
    - cbn. intros k. destruct (H k) as [E|[_ E]]; [exact E|discriminate].
    - destruct f; cbn [run_entry negb andb]; try (apply IH; intros k0; destruct (H k0) as [E|[A E]]; [left; exact E|right; split; [exact A|cbn in E; exact E]]).
      destruct (applies k wp) eqn:Ak.
      + apply IH. intros k0. unfold fs_upd. destruct (fkind_eqb k k0) eqn:Ek; [left; reflexivity|].
        destruct (H k0) as [E|[A E]]; [left; exact E|right; split; [exact A|]]. cbn in E.
        assert (fkind_eqb k0 k = false) by (destruct k, k0; cbn in *; congruence). rewrite H0 in E. exact E.
      + apply IH. intros k0. destruct (H k0) as [E|[A E]]; [left; exact E|]. right. split; [exact A|]. cbn in E.
        destruct (fkind_eqb k0 k) eqn:Ek; [|exact E]. destruct k, k0; cbn in *; congruence. }
  apply G. intros k. destruct (applies k wp) eqn:A; [right|left; apply Hother; exact A]. split; [reflexivity|].
  unfold opens_both in Hop. apply andb_true_iff in Hop. destruct Hop as [H1 H2].
  destruct k; [clear H2; revert H1|clear H1; revert H2]; induction steps as [|f r IHr]; cbn; try discriminate;
    destruct f as [k'|k'| | | ]; try destruct k'; cbn; auto.
Qed.

(* the finally block closes both files (metadata / overviews may precede the close) *)
Definition closes_both (o : out_files) : bool :=
  of_yield_in_try o
  && existsb (fun f => match f with FClose FCorr => true | _ => false end) (of_finally o)
  && existsb (fun f => match f with FClose FParam => true | _ => false end) (of_finally o).
Definition wf_out_files (o : out_files) : bool :=
  checks_first (of_entry o) && opens_both (of_entry o) && closes_both o && of_coerced o.
