(* Helpers to instantiate the meta-theorems on generated programs. *)
From Coq Require Import List Arith Bool Lia.
From HV Require Import Conc.Sem Conc.IR Conc.Coord.
Import ListNotations.

(* resolve the top-level [if param_im:] of the fuse worker: with (true) or without (false) a parameter image *)
Definition take_if (b : bool) (p : list stmt) : list stmt :=
  flat_map (fun s => match s with SIf t e => if b then t else e | _ => [s] end) p.

(* n tasks, each running some outcome (path + fault position) of the worker [p] *)
Definition tasks_of (p : list stmt) (progs : list (list action)) : Prop := forall tr, In tr progs -> In tr (traces p).

(* for a well-formed worker: mutual exclusion in every reachable state of every schedule of any number of tasks *)
Theorem worker_mutex p progs sched : wf_worker p = true -> tasks_of p progs ->
  let '(ths, own) := run (init progs) sched in
  forall t1 t2 th1 th2 x, nth_error ths t1 = Some th1 -> nth_error ths t2 = Some th2 ->
    inside th1 = Some x -> inside th2 = Some x -> t1 = t2.
Proof.
  intros Hwf Ht. apply mutex. unfold wf_worker in Hwf. apply andb_true_iff in Hwf. destruct Hwf as [Hwf _].
  apply andb_true_iff in Hwf. destruct Hwf as [Hg _]. eapply selection_guarded; eauto.
Qed.

Theorem worker_completes p progs sched0 : wf_worker p = true -> tasks_of p progs ->
  exists sched, length sched <= remaining (run (init progs) sched0) /\ done (run (run (init progs) sched0) sched).
Proof.
  intros Hwf Ht. apply completes. unfold wf_worker in Hwf. apply andb_true_iff in Hwf. destruct Hwf as [Hwf _].
  apply andb_true_iff in Hwf. destruct Hwf as [Hg _]. eapply selection_guarded; eauto.
Qed.

Theorem worker_locks_free p progs sched : wf_worker p = true -> tasks_of p progs ->
  done (run (init progs) sched) -> forall l, snd (run (init progs) sched) l = None.
Proof.
  intros Hwf Ht Hd. apply locks_free_at_end; [|exact Hd]. apply run_inv.
  unfold wf_worker in Hwf. apply andb_true_iff in Hwf. destruct Hwf as [Hwf _].
  apply andb_true_iff in Hwf. destruct Hwf as [Hg _]. eapply selection_guarded; eauto.
Qed.
