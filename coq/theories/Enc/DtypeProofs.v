(* C13: rounding to nearest (ties to even), saturation - never wrap-around -, nodata and mask semantics. *)
From Coq Require Import ZArith QArith Qabs Qround List Bool Lia Lqa.
From HV Require Import Enc.Dtype.
Import ListNotations.
Open Scope Z_scope.

Lemma qfloor_bounds q : (inject_Z (Qfloor q) <= q /\ q < inject_Z (Qfloor q) + 1)%Q.
Proof.
  split; [apply Qfloor_le|]. pose proof (Qlt_floor q) as H. rewrite inject_Z_plus in H. exact H.
Qed.

(* q_rint is a nearest integer: within 1/2, and an exact tie goes to the even neighbour *)
Theorem rint_nearest q : (Qabs (inject_Z (q_rint q) - q) <= 1 # 2)%Q.
Proof.
  unfold q_rint. cbv zeta. destruct (qfloor_bounds q) as [A B]. set (f := Qfloor q) in *. clearbody f.
  destruct (Qlt_le_dec (q - inject_Z f) (1 # 2)) as [H|H].
  - apply Qabs_Qle_condition. set (F := inject_Z f) in *. clearbody F. clear f. split; lra.
  - destruct (Qlt_le_dec (1 # 2) (q - inject_Z f)) as [H2|H2].
    + rewrite inject_Z_plus. change (inject_Z 1) with 1%Q. apply Qabs_Qle_condition. set (F := inject_Z f) in *. clearbody F. split; lra.
    + destruct (Z.even f); [|rewrite inject_Z_plus; change (inject_Z 1) with 1%Q]; apply Qabs_Qle_condition; set (F := inject_Z f) in *; clearbody F; split; lra.
Qed.
Theorem rint_tie_even q : (q - inject_Z (Qfloor q) == 1 # 2)%Q -> Z.even (q_rint q) = true.
Proof.
  intros E. unfold q_rint. cbv zeta. set (f := Qfloor q) in *. clearbody f.
  set (F := inject_Z f) in *. clearbody F.
  destruct (Qlt_le_dec (q - F) (1 # 2)) as [H|H]; [lra|].
  destruct (Qlt_le_dec (1 # 2) (q - F)) as [H2|H2]; [lra|].
  destruct (Z.even f) eqn:Ev; [exact Ev|]. rewrite Z.even_add. rewrite Ev. reflexivity.
Qed.
Theorem rint_of_integer z : q_rint (inject_Z z) = z.
Proof.
  unfold q_rint. cbv zeta. rewrite Qfloor_Z. destruct (Qlt_le_dec (inject_Z z - inject_Z z) (1 # 2)) as [H|H]; [reflexivity|].
  exfalso. assert (inject_Z z - inject_Z z == 0)%Q by ring. lra.
Qed.

Lemma drange d : is_int d = true -> dmin d <= dmax d.
Proof. destruct d; cbn; intros; try discriminate; lia. Qed.

(* every valid pixel equals the float result rounded to nearest and SATURATED to the type's range: never wrapped *)
Theorem convert_is_saturated_rint d q : is_int d = true ->
  dmin d <= convert_int d (PFin q) <= dmax d /\
  (dmin d <= q_rint q <= dmax d -> convert_int d (PFin q) = q_rint q) /\
  (dmax d < q_rint q -> convert_int d (PFin q) = dmax d) /\
  (q_rint q < dmin d -> convert_int d (PFin q) = dmin d).
Proof. intros H. pose proof (drange d H). unfold convert_int, clamp. lia. Qed.

Theorem convert_infinities d : convert_int d PPosInf = dmax d /\ convert_int d PNegInf = dmin d.
Proof. split; reflexivity. Qed.

(* an invalid pixel carries the nodata value *)
Theorem invalid_gets_nodata d nd p : convert_px d (Some nd) false p = Some nd.
Proof. reflexivity. Qed.

(* with a numeric nodata, a VALID pixel reads back as invalid exactly when its converted value collides with nodata;
   an invalid pixel always reads back invalid *)
Theorem valid_lost_only_on_collision d nd p :
  reads_valid (Some nd) false true (convert_px d (Some nd) true p) = negb (convert_int d p =? nd) /\
  reads_valid (Some nd) false false (convert_px d (Some nd) false p) = false.
Proof. split; cbn; [reflexivity|rewrite Z.eqb_refl; reflexivity]. Qed.

(* with nodata = null the validity is carried by the internal mask, which is written with band 1 *)
Theorem nodata_none_mask_written idx valid p d :
  mask_written true idx = true -> reads_valid None (mask_written true idx) valid (convert_px d None valid p) = valid.
Proof. intros H. rewrite H. reflexivity. Qed.
Theorem mask_written_iff idx : mask_written true idx = true <-> In 1 idx.
Proof.
  unfold mask_written. cbn [andb]. rewrite existsb_exists. split.
  - intros (x & Hx & E). apply Z.eqb_eq in E. subst. exact Hx.
  - intros H. exists 1. split; [exact H|reflexivity].
Qed.
