(* homonim.raster_array.RasterArray._convert_array_dtype (lines 353-387) for the float32 internal array:
   promote, round half to even, clip to the destination range, cast, re-mask with the destination nodata. *)
From Coq Require Import ZArith QArith Qround List Bool Lia Lqa.
Import ListNotations.
Open Scope Z_scope.

Inductive dtype := U8 | I16 | U16 | I32 | U32 | F32 | F64.
Definition is_int (d : dtype) : bool := match d with F32 | F64 => false | _ => true end.
Definition dmin (d : dtype) : Z := match d with U8 => 0 | I16 => -32768 | U16 => 0 | I32 => -2147483648 | U32 => 0 | _ => 0 end.
Definition dmax (d : dtype) : Z := match d with U8 => 255 | I16 => 32767 | U16 => 65535 | I32 => 2147483647 | U32 => 4294967295 | _ => 0 end.

(* np.round on a rational: nearest integer, ties to even *)
Definition q_rint (q : Q) : Z :=
  let f := Qfloor q in
  let r := (q - inject_Z f)%Q in
  if Qlt_le_dec r (1 # 2) then f
  else if Qlt_le_dec (1 # 2) r then f + 1
  else if Z.even f then f else f + 1.
Definition clamp (lo hi x : Z) : Z := Z.max lo (Z.min hi x).

(* a float32 pixel: finite value, or +/- infinity (the clip sends these to the range ends) *)
Inductive fpix := PFin (q : Q) | PPosInf | PNegInf.
Definition convert_int (d : dtype) (p : fpix) : Z :=
  match p with
  | PFin q => clamp (dmin d) (dmax d) (q_rint q)
  | PPosInf => dmax d
  | PNegInf => dmin d
  end.

(* the written value of one pixel for an integer destination: [valid] from the RasterArray mask, [nodata] of the dataset
   (None = an internal mask is written instead and the stored number under an invalid pixel is unspecified) *)
Definition convert_px (d : dtype) (nodata : option Z) (valid : bool) (p : fpix) : option Z :=
  if valid then Some (convert_int d p) else nodata.
(* validity as a reader of the written file sees it *)
Definition reads_valid (nodata : option Z) (mask_written : bool) (valid : bool) (stored : option Z) : bool :=
  match nodata with
  | Some nd => match stored with Some v => negb (v =? nd) | None => false end
  | None => if mask_written then valid else true
  end.
(* to_rio_dataset lines 493-500: the internal mask is written when the dataset nodata is None and band 1 is among the indexes *)
Definition mask_written (nodata_is_none : bool) (indexes : list Z) : bool := nodata_is_none && existsb (Z.eqb 1) indexes.
