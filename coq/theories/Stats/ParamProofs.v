(* C12: the accumulated figures are the definitions over all valid pixels, for any tiling and any completion order. *)
From Coq Require Import ZArith QArith List Bool Lia Lqa Permutation Setoid.
From HV Require Import Base.QSum Kernel.Fit Kernel.FitProofs Stats.Param.
Import ListNotations.
Open Scope Q_scope.

(* ---- min / max *)
Lemma qmin_le_l a b : qmin a b <= a. Proof. unfold qmin. destruct (Qle_bool a b) eqn:E; [apply Qle_refl|]. destruct (Qlt_le_dec b a); [apply Qlt_le_weak; assumption|]. apply Qle_bool_iff in q. congruence. Qed.
Lemma qmin_le_r a b : qmin a b <= b. Proof. unfold qmin. destruct (Qle_bool a b) eqn:E; [apply Qle_bool_iff; exact E|apply Qle_refl]. Qed.
Lemma qmin_cases a b : qmin a b = a \/ qmin a b = b. Proof. unfold qmin. destruct (Qle_bool a b); auto. Qed.

Lemma list_min_gen l m : match fold_left (fun m x => omin m (Some x)) l m with
  | Some v => (forall x, In x l -> v <= x) /\ (match m with Some m0 => v <= m0 | None => True end) /\
              (In v l \/ m = Some v)
  | None => l = [] /\ m = None end.
Proof.
  revert m. induction l as [|a l IH]; intros m; cbn [fold_left].
  - destruct m; [split; [intros x []|split; [apply Qle_refl|right; reflexivity]]|split; reflexivity].
  - specialize (IH (omin m (Some a))). destruct (fold_left _ l (omin m (Some a))) as [v|].
    + destruct IH as (A & B & C). destruct m as [m0|]; cbn [omin] in B, C.
      * split; [|split].
        -- intros x [<-|Hx]; [eapply Qle_trans; [exact B|apply qmin_le_r]|apply A; exact Hx].
        -- eapply Qle_trans; [exact B|apply qmin_le_l].
        -- destruct C as [C|C]; [left; right; exact C|]. inversion C as [E]. destruct (qmin_cases m0 a) as [E'|E'].
           ++ right. rewrite E' in *. reflexivity.
           ++ left. left. rewrite E' in *. reflexivity.
      * split; [|split; [exact I|]].
        -- intros x [<-|Hx]; [exact B|apply A; exact Hx].
        -- destruct C as [C|C]; [left; right; exact C|]. inversion C. left. left. reflexivity.
    + destruct IH as (_ & C). destruct m; discriminate.
Qed.

(* min is a lower bound of the valid values and is attained *)
Theorem list_min_spec l : l <> [] -> exists v, list_min l = Some v /\ In v l /\ forall x, In x l -> v <= x.
Proof.
  intros Hne. unfold list_min. pose proof (list_min_gen l None) as H. destruct (fold_left _ l None) as [v|].
  - destruct H as (A & _ & C). exists v. split; [reflexivity|]. split; [destruct C as [C|C]; [exact C|discriminate]|exact A].
  - destruct H as [H _]. contradiction.
Qed.

Lemma qmax_ge_l a b : a <= qmax a b. Proof. unfold qmax. destruct (Qle_bool a b) eqn:E; [apply Qle_bool_iff; exact E|apply Qle_refl]. Qed.
Lemma qmax_ge_r a b : b <= qmax a b. Proof. unfold qmax. destruct (Qle_bool a b) eqn:E; [apply Qle_refl|]. destruct (Qlt_le_dec b a); [apply Qlt_le_weak; assumption|]. apply Qle_bool_iff in q. congruence. Qed.
Lemma qmax_cases a b : qmax a b = a \/ qmax a b = b. Proof. unfold qmax. destruct (Qle_bool a b); auto. Qed.
Lemma list_max_gen l m : match fold_left (fun m x => omax m (Some x)) l m with
  | Some v => (forall x, In x l -> x <= v) /\ (match m with Some m0 => m0 <= v | None => True end) /\
              (In v l \/ m = Some v)
  | None => l = [] /\ m = None end.
Proof.
  revert m. induction l as [|a l IH]; intros m; cbn [fold_left].
  - destruct m; [split; [intros x []|split; [apply Qle_refl|right; reflexivity]]|split; reflexivity].
  - specialize (IH (omax m (Some a))). destruct (fold_left _ l (omax m (Some a))) as [v|].
    + destruct IH as (A & B & C). destruct m as [m0|]; cbn [omax] in B, C.
      * split; [|split].
        -- intros x [<-|Hx]; [eapply Qle_trans; [apply qmax_ge_r|exact B]|apply A; exact Hx].
        -- eapply Qle_trans; [apply qmax_ge_l|exact B].
        -- destruct C as [C|C]; [left; right; exact C|]. inversion C as [E]. destruct (qmax_cases m0 a) as [E'|E'].
           ++ right. rewrite E' in *. reflexivity.
           ++ left. left. rewrite E' in *. reflexivity.
      * split; [|split; [exact I|]].
        -- intros x [<-|Hx]; [exact B|apply A; exact Hx].
        -- destruct C as [C|C]; [left; right; exact C|]. inversion C. left. left. reflexivity.
    + destruct IH as (_ & C). destruct m; discriminate.
Qed.
Theorem list_max_spec l : l <> [] -> exists v, list_max l = Some v /\ In v l /\ forall x, In x l -> x <= v.
Proof.
  intros Hne. unfold list_max. pose proof (list_max_gen l None) as H. destruct (fold_left _ l None) as [v|].
  - destruct H as (A & _ & C). exists v. split; [reflexivity|]. split; [destruct C as [C|C]; [exact C|discriminate]|exact A].
  - destruct H as [H _]. contradiction.
Qed.

(* ---- sums: additive over any tiling, any completion order *)
Definition sums_eqv (a b : accum) : Prop := a_sum a == a_sum b /\ a_sum2 a == a_sum2 b /\ a_n a == a_n b /\ a_inp a == a_inp b.

Lemma acc_gen thresh tiles acc :
  sums_eqv (fold_left (fun acc t => acc_add acc (tile_accum thresh t)) tiles acc) (acc_add acc (tile_accum thresh (concat tiles))).
Proof.
  revert acc. induction tiles as [|t ts IH]; intros acc; cbn [fold_left concat].
  - unfold sums_eqv, acc_add, tile_accum; cbn. rewrite !qsum_nil. destruct thresh; unfold count_below; rewrite ?qsum_nil; repeat split; ring.
  - destruct (IH (acc_add acc (tile_accum thresh t))) as (A & B & C & D). unfold sums_eqv in *.
    cbn [acc_add tile_accum a_sum a_sum2 a_n a_inp] in *. rewrite A, B, C, D.
    rewrite !qsum_app, app_length, Nat2Z.inj_add, inject_Z_plus.
    destruct thresh; unfold count_below; rewrite ?qsum_app; repeat split; ring.
Qed.
Theorem tiling_independent thresh tiles : sums_eqv (accumulate thresh tiles) (tile_accum thresh (concat tiles)).
Proof.
  unfold accumulate. destruct (acc_gen thresh tiles accum0) as (A & B & C & D). unfold sums_eqv in *.
  cbn [acc_add accum0 a_sum a_sum2 a_n a_inp] in *. rewrite A, B, C, D. repeat split; ring.
Qed.
Lemma tile_perm thresh a b : Permutation a b -> sums_eqv (tile_accum thresh a) (tile_accum thresh b).
Proof.
  intros H. unfold sums_eqv, tile_accum; cbn. rewrite (Permutation_length H).
  destruct thresh; unfold count_below; repeat split; try (apply qsum_perm; exact H); reflexivity.
Qed.

(* ---- the statistics are the definitions over the list l of all valid values *)
Section Defs.
Variable l : list Q.
Variable thresh : option Q.
Let A := tile_accum thresh l.
Let n := inject_Z (Z.of_nat (length l)).
Hypothesis Hn : ~ n == 0.
Let mean := qsum (fun x => x) l / n.

Theorem mean_is_definition : p_mean (band_stats A) = Fin mean.
Proof. unfold band_stats, A; cbn. apply fdiv_fin. exact Hn. Qed.

(* std^2 = population variance: mean of squared deviations from the mean *)
Theorem std_sq_is_population_variance :
  exists v, p_var (band_stats A) = Fin v /\ v == qsum (fun x => (x - mean) * (x - mean)) l / n.
Proof.
  unfold band_stats, A; cbn [tile_accum a_sum a_sum2 a_n p_var]. fold n.
  rewrite (fdiv_fin _ n Hn). rewrite fdiv_fin by (intro E; apply Qmult_integral in E; tauto). cbn [fmap2].
  eexists; split; [reflexivity|].
  assert (E : qsum (fun x => (x - mean) * (x - mean)) l == qsum (fun x => x * x + ((- (2 * mean)) * x + mean * mean)) l)
    by (apply qsum_ext; intros; ring).
  rewrite E, !qsum_plus, !qsum_scal, qsum_const. fold n. unfold mean.
  generalize (qsum (fun x => x) l) (qsum (fun x => x * x) l) n Hn. intros. field. assumption.
Qed.

(* in-paint percentage = 100 * (number of valid values below the recorded threshold) / (number of valid values) *)
Theorem inpaint_percentage t : thresh = Some t ->
  p_inpaint (band_stats A) = Fin (100 * count_below t l / n).
Proof. intros ->. unfold band_stats, A; cbn. apply fdiv_fin. exact Hn. Qed.
End Defs.

(* count_below counts exactly the values < t *)
Lemma count_below_spec t l : count_below t l == inject_Z (Z.of_nat (length (filter (fun x => negb (Qle_bool t x)) l))).
Proof.
  unfold count_below. induction l as [|a l IH]; [reflexivity|]. rewrite qsum_cons, IH. cbn [filter].
  destruct (Qle_bool t a); cbn [negb length]; [ring|]. rewrite Nat2Z.inj_succ. unfold Z.succ. rewrite inject_Z_plus. ring.
Qed.

(* ---- the data-window pre-pass loses nothing: tiles that intersect the bounding window of the valid pixels are read,
        so every pixel inside that window lies in a tile that is read *)
Definition in_rect (r0 r1 c0 c1 r c : Z) : Prop := (r0 <= r < r1 /\ c0 <= c < c1)%Z.
Definition rects_intersect (a b : Z * Z * Z * Z) : Prop :=
  let '(ar0, ar1, ac0, ac1) := a in let '(br0, br1, bc0, bc1) := b in
  (Z.max ar0 br0 < Z.min ar1 br1 /\ Z.max ac0 bc0 < Z.min ac1 bc1)%Z.
Theorem prepass_loses_nothing (win tile : Z * Z * Z * Z) r c :
  (let '(r0, r1, c0, c1) := win in in_rect r0 r1 c0 c1 r c) ->
  (let '(r0, r1, c0, c1) := tile in in_rect r0 r1 c0 c1 r c) -> rects_intersect win tile.
Proof.
  destruct win as [[[a b] c0] d], tile as [[[e f] g] h]. unfold in_rect, rects_intersect. lia.
Qed.

(* the variance the model computes is never negative: the clamp np.maximum(var, 0) in the source changes nothing in exact arithmetic *)
Theorem variance_nonneg l thresh : ~ inject_Z (Z.of_nat (length l)) == 0 ->
  exists v, p_var (band_stats (tile_accum thresh l)) = Fin v /\ 0 <= v.
Proof.
  intros Hn. destruct (std_sq_is_population_variance l thresh Hn) as (v & Hv & E). exists v. split; [exact Hv|].
  rewrite E. set (n := inject_Z (Z.of_nat (length l))) in *.
  assert (Hpos : 0 < n).
  { unfold n. assert (0 <= inject_Z (Z.of_nat (length l))) by (unfold Qle, inject_Z; cbn; lia).
    destruct (Qlt_le_dec 0 (inject_Z (Z.of_nat (length l)))) as [H1|H1]; [exact H1|]. exfalso. apply Hn. apply Qle_antisym; assumption. }
  apply Qle_shift_div_l; [exact Hpos|]. rewrite Qmult_0_l. apply qsum_sq_nonneg.
Qed.
