(* C11: the accumulated block sums are the sums over all jointly valid pixels, whatever the partition into blocks and the
   completion order; the statistics computed from them are N, squared Pearson correlation, mean squared difference, and
   RMSE^2 / mean(ref)^2 over exactly those pixels. *)
From Coq Require Import ZArith QArith List Bool Lia Lqa Permutation Setoid.
From HV Require Import Base.QSum Kernel.Fit Kernel.FitProofs Kernel.Spec Stats.Compare.
Import ListNotations.
Open Scope Q_scope.

Definition cs_eqv (a b : csums) : Prop :=
  cX a == cX b /\ cY a == cY b /\ cXX a == cXX b /\ cYY a == cYY b /\ cXY a == cXY b /\ cRes a == cRes b /\ cN a == cN b.
Lemma cs_eqv_refl a : cs_eqv a a.
Proof. repeat split; reflexivity. Qed.

Lemma block_sums_app a b : cs_eqv (block_sums (a ++ b)) (cadd (block_sums a) (block_sums b)).
Proof.
  unfold block_sums, cadd, cs_eqv; cbn. rewrite !qsum_app, app_length, Nat2Z.inj_add, inject_Z_plus.
  repeat split; reflexivity.
Qed.

Lemma accumulate_gen blocks acc :
  cs_eqv (fold_left (fun acc b => cadd acc (block_sums b)) blocks acc) (cadd acc (block_sums (concat blocks))).
Proof.
  revert acc. induction blocks as [|b bs IH]; intros acc; cbn [fold_left concat].
  - unfold cs_eqv, cadd, block_sums; cbn. rewrite !qsum_nil. repeat split; ring.
  - destruct (IH (cadd acc (block_sums b))) as (A & B & C & D & E & F & G).
    destruct (block_sums_app b (concat bs)) as (A' & B' & C' & D' & E' & F' & G').
    unfold cs_eqv in *. cbn [cadd cX cY cXX cYY cXY cRes cN] in *.
    rewrite A, B, C, D, E, F, G, A', B', C', D', E', F', G'. repeat split; ring.
Qed.

(* the accumulated sums are those of the concatenation of all blocks: additive over ANY partition into blocks *)
Theorem sums_additive_over_partition blocks : cs_eqv (accumulate blocks) (block_sums (concat blocks)).
Proof.
  unfold accumulate. destruct (accumulate_gen blocks csums0) as (A & B & C & D & E & F & G).
  unfold cs_eqv in *. cbn [cadd csums0 cX cY cXX cYY cXY cRes cN] in *.
  rewrite A, B, C, D, E, F, G. repeat split; ring.
Qed.

(* ... and do not depend on the order in which blocks complete, nor on the order of pixels *)
Lemma block_sums_perm a b : Permutation a b -> cs_eqv (block_sums a) (block_sums b).
Proof.
  intros H. unfold block_sums, cs_eqv; cbn. rewrite (Permutation_length H).
  repeat split; try (apply qsum_perm; exact H); reflexivity.
Qed.
Lemma perm_concat {A} (a b : list (list A)) : Permutation a b -> Permutation (concat a) (concat b).
Proof.
  induction 1 as [|x l l' Hp IH|x y l|l l' l'' H1 IH1 H2 IH2]; cbn [concat].
  - constructor.
  - apply Permutation_app_head. exact IH.
  - rewrite !app_assoc. apply Permutation_app_tail. apply Permutation_app_comm.
  - etransitivity; eassumption.
Qed.
Theorem accumulation_order_free blocks blocks' : Permutation blocks blocks' -> cs_eqv (accumulate blocks) (accumulate blocks').
Proof.
  intros H. pose proof (sums_additive_over_partition blocks) as A. pose proof (sums_additive_over_partition blocks') as B.
  assert (P : Permutation (concat blocks) (concat blocks')) by (apply perm_concat; exact H).
  pose proof (block_sums_perm _ _ P) as C. unfold cs_eqv in *.
  destruct A as (A1 & A2 & A3 & A4 & A5 & A6 & A7), B as (B1 & B2 & B3 & B4 & B5 & B6 & B7), C as (C1 & C2 & C3 & C4 & C5 & C6 & C7).
  rewrite A1, A2, A3, A4, A5, A6, A7, B1, B2, B3, B4, B5, B6, B7. repeat split; assumption.
Qed.

(* ---- the statistics are the definitions over the pixel list l *)
Section Defs.
Variable l : list px.
Let S := block_sums l.
Let n := n_of _ l.
Hypothesis Hn : ~ n == 0.

Lemma means : fdiv (cX S) (cN S) = Fin (cX S / cN S) /\ fdiv (cY S) (cN S) = Fin (cY S / cN S).
Proof. split; apply fdiv_fin; exact Hn. Qed.

(* N is the number of jointly valid pixels *)
Theorem n_is_joint_count : s_n (band_stats S) == inject_Z (Z.of_nat (length l)).
Proof. unfold band_stats. destruct means as [-> ->]. cbn. reflexivity. Qed.

(* RMSE^2 = mean squared difference *)
Theorem rmse_sq_is_mean_sq_diff :
  s_rmse2 (band_stats S) = Fin (qsum (fun p => (snd p - fst p) * (snd p - fst p)) l / n).
Proof. unfold band_stats. destruct means as [-> ->]. cbn. reflexivity. Qed.

(* r2 = squared Pearson correlation: cov^2 / (var_x var_y), with cov, var the centred sums over l *)
Definition cov := qsum (fun p => (fst p - mean_x _ fst l) * (snd p - mean_y _ snd l)) l.
Definition varx := qsum (fun p => (fst p - mean_x _ fst l) * (fst p - mean_x _ fst l)) l.
Definition vary := qsum (fun p => (snd p - mean_y _ snd l) * (snd p - mean_y _ snd l)) l.

Let mx := qsum fst l / n.
Let my := qsum snd l / n.
Lemma mx_def : mean_x _ fst l == mx. Proof. reflexivity. Qed.
Lemma my_def : mean_y _ snd l == my. Proof. reflexivity. Qed.

Lemma centred_xy : cov == cXY S - cN S * (cX S / cN S) * (cY S / cN S).
Proof.
  assert (E : cov == qsum (fun p => fst p * snd p + ((- my) * fst p + ((- mx) * snd p + mx * my))) l).
  { unfold cov. apply qsum_ext. intros p _. rewrite mx_def, my_def. ring. }
  rewrite E, !qsum_plus, !qsum_scal, qsum_const. unfold S; cbn [block_sums cXY cN cX cY]. unfold mx, my. change (inject_Z (Z.of_nat (length l))) with n.
  generalize (qsum fst l) (qsum snd l) (qsum (fun p => fst p * snd p) l) n Hn. intros. field. assumption.
Qed.
Lemma centred_xx : varx == cXX S - cN S * ((cX S / cN S) * (cX S / cN S)).
Proof.
  assert (E : varx == qsum (fun p => fst p * fst p + ((- (2 * mx)) * fst p + mx * mx)) l).
  { unfold varx. apply qsum_ext. intros p _. rewrite mx_def. ring. }
  rewrite E, !qsum_plus, !qsum_scal, qsum_const. unfold S; cbn [block_sums cXX cN cX]. unfold mx. change (inject_Z (Z.of_nat (length l))) with n.
  generalize (qsum fst l) (qsum (fun p => fst p * fst p) l) n Hn. intros. field. assumption.
Qed.
Lemma centred_yy : vary == cYY S - cN S * ((cY S / cN S) * (cY S / cN S)).
Proof.
  assert (E : vary == qsum (fun p => snd p * snd p + ((- (2 * my)) * snd p + my * my)) l).
  { unfold vary. apply qsum_ext. intros p _. rewrite my_def. ring. }
  rewrite E, !qsum_plus, !qsum_scal, qsum_const. unfold S; cbn [block_sums cYY cN cY]. unfold my. change (inject_Z (Z.of_nat (length l))) with n.
  generalize (qsum snd l) (qsum (fun p => snd p * snd p) l) n Hn. intros. field. assumption.
Qed.

Theorem r2_is_pearson_sq : ~ varx * vary == 0 ->
  exists r, s_r2 (band_stats S) = Fin r /\ r == (cov * cov) / (varx * vary).
Proof.
  intros Hv. unfold band_stats. destruct means as [-> ->]. cbn [s_r2].
  rewrite fdiv_fin by (rewrite <- centred_xx, <- centred_yy; exact Hv).
  eexists; split; [reflexivity|]. rewrite <- centred_xy, <- centred_xx, <- centred_yy. reflexivity.
Qed.

(* rRMSE^2 = RMSE^2 / mean(ref)^2 *)
Theorem rrmse_sq : ~ mean_y _ snd l == 0 ->
  exists r, s_rrmse2 (band_stats S) = Fin r /\
            r == (qsum (fun p => (snd p - fst p) * (snd p - fst p)) l / n) / (mean_y _ snd l * mean_y _ snd l).
Proof.
  intros Hm. unfold band_stats. destruct means as [-> ->]. cbn [s_rrmse2].
  assert (E : cY S / cN S == mean_y _ snd l) by (unfold mean_y, Sy, S; cbn; reflexivity).
  rewrite fdiv_fin.
  - eexists; split; [reflexivity|]. rewrite E. unfold S; cbn [block_sums cRes cN]. reflexivity.
  - rewrite E. intro X. apply Qmult_integral in X. tauto.
Qed.
End Defs.
