(* homonim.compare.RasterCompare: per-block masked sums (lines 232-256), accumulation (266-275), statistics (142-186).
   A block is the list of (source, reference) values of its jointly valid processing-grid pixels. *)
From Coq Require Import ZArith QArith List Bool Lia Lqa Permutation.
From HV Require Import Base.QSum Kernel.Fit.
Import ListNotations.
Open Scope Q_scope.

Definition px := (Q * Q)%type.
Record csums := { cX : Q; cY : Q; cXX : Q; cYY : Q; cXY : Q; cRes : Q; cN : Q }.

Definition block_sums (b : list px) : csums :=
  {| cX := qsum fst b; cY := qsum snd b;
     cXX := qsum (fun p => fst p * fst p) b; cYY := qsum (fun p => snd p * snd p) b;
     cXY := qsum (fun p => fst p * snd p) b;
     cRes := qsum (fun p => (snd p - fst p) * (snd p - fst p)) b;
     cN := inject_Z (Z.of_nat (length b)) |}.
Definition csums0 : csums := {| cX := 0; cY := 0; cXX := 0; cYY := 0; cXY := 0; cRes := 0; cN := 0 |}.
Definition cadd (a b : csums) : csums :=
  {| cX := cX a + cX b; cY := cY a + cY b; cXX := cXX a + cXX b; cYY := cYY a + cYY b;
     cXY := cXY a + cXY b; cRes := cRes a + cRes b; cN := cN a + cN b |}.
(* image_sums[band] accumulated over the blocks in completion order *)
Definition accumulate (blocks : list (list px)) : csums := fold_left (fun acc b => cadd acc (block_sums b)) blocks csums0.

(* get_band_stats, with squares so that everything stays rational: r2 = pcc^2, rmse^2, rrmse^2 *)
Record cstats := { s_r2 : fval; s_rmse2 : fval; s_rrmse2 : fval; s_n : Q }.
Definition band_stats (S : csums) : cstats :=
  let mx := fdiv (cX S) (cN S) in let my := fdiv (cY S) (cN S) in
  match mx, my with
  | Fin mx, Fin my =>
    let num := cXY S - cN S * mx * my in
    let a := cXX S - cN S * (mx * mx) in let b := cYY S - cN S * (my * my) in
    let rm := cRes S / cN S in
    {| s_r2 := fdiv (num * num) (a * b); s_rmse2 := Fin rm; s_rrmse2 := fdiv rm (my * my); s_n := cN S |}
  | _, _ => {| s_r2 := NonFin; s_rmse2 := NonFin; s_rrmse2 := NonFin; s_n := cN S |}
  end.
