(* homonim.stats.ParamStats: per-tile accumulators (lines 217-259), image statistics (175-192) and the valid-data
   window pre-pass (135-173).  A band is processed tile by tile; a tile contributes the list of its valid values. *)
From Coq Require Import ZArith QArith List Bool Lia Lqa Permutation.
From HV Require Import Base.QSum Kernel.Fit.
Import ListNotations.
Open Scope Q_scope.

Definition qmin (a b : Q) : Q := if Qle_bool a b then a else b.
Definition qmax (a b : Q) : Q := if Qle_bool a b then b else a.
Record accum := { a_min : option Q; a_max : option Q; a_sum : Q; a_sum2 : Q; a_n : Q; a_inp : Q }.
Definition accum0 : accum := {| a_min := None; a_max := None; a_sum := 0; a_sum2 := 0; a_n := 0; a_inp := 0 |}.
Definition omin (a : option Q) (b : option Q) : option Q :=
  match a, b with Some x, Some y => Some (qmin x y) | Some x, None => Some x | None, y => y end.
Definition omax (a : option Q) (b : option Q) : option Q :=
  match a, b with Some x, Some y => Some (qmax x y) | Some x, None => Some x | None, y => y end.
Definition list_min (l : list Q) : option Q := fold_left (fun m x => omin m (Some x)) l None.
Definition list_max (l : list Q) : option Q := fold_left (fun m x => omax m (Some x)) l None.
(* (array < thresh).sum() over the valid values of the tile *)
Definition count_below (t : Q) (l : list Q) : Q := qsum (fun x => if Qle_bool t x then 0 else 1) l.

Definition tile_accum (thresh : option Q) (tile : list Q) : accum :=
  {| a_min := list_min tile; a_max := list_max tile; a_sum := qsum (fun x => x) tile; a_sum2 := qsum (fun x => x * x) tile;
     a_n := inject_Z (Z.of_nat (length tile));
     a_inp := match thresh with Some t => count_below t tile | None => 0 end |}.
Definition acc_add (a b : accum) : accum :=
  {| a_min := omin (a_min a) (a_min b); a_max := omax (a_max a) (a_max b); a_sum := a_sum a + a_sum b;
     a_sum2 := a_sum2 a + a_sum2 b; a_n := a_n a + a_n b; a_inp := a_inp a + a_inp b |}.
Definition accumulate (thresh : option Q) (tiles : list (list Q)) : accum :=
  fold_left (fun acc t => acc_add acc (tile_accum thresh t)) tiles accum0.

Record pstats := { p_mean : fval; p_var : fval; p_min : option Q; p_max : option Q; p_inpaint : fval }.
Definition band_stats (a : accum) : pstats :=
  {| p_mean := fdiv (a_sum a) (a_n a);
     p_var := fmap2 (fun s2 m2 => s2 - m2) (fdiv (a_sum2 a) (a_n a)) (fdiv (a_sum a * a_sum a) (a_n a * a_n a));
     p_min := a_min a; p_max := a_max a;
     p_inpaint := fdiv (100 * a_inp a) (a_n a) |}.

(* which bands get the in-paint percentage: R2 bands of a gain-offset image = band_i >= count * 2 / 3 (0-based) *)
Definition is_r2_band (count band_i : Z) : bool := Qle_bool (inject_Z count * (2 # 3)) (inject_Z band_i).
