(* cli.FuseCommand.invoke (lines 88-117): merge of command-line, configuration-file and default values by parameter source;
   cli._update_existing_keys (120-122); utils.create_out_postfix / create_param_filename (167-179). *)
From Coq Require Import List String Bool Ascii.
Import ListNotations.
Open Scope string_scope.

Section Merge.
Variable V : Type.
(* one parameter: the value click parsed, whether it came from the command line, whether it is None, the config file entry *)
Record pstate := { p_val : option V; p_from_cli : bool }.
(* if source == DEFAULT: ctx.params[key] = conf_value      (the repaired merge: D11) *)
Definition merge1 (p : pstate) (conf : option V) : option V :=
  match conf with
  | Some c => if p_from_cli p then p_val p else Some c
  | None => p_val p
  end.
(* the code before the fix also let the file win when the command-line value parsed to None (--nodata null) *)
Definition merge1_legacy (p : pstate) (conf : option V) : option V :=
  match conf with
  | Some c => match p_val p with None => Some c | Some v => if p_from_cli p then Some v else Some c end
  | None => p_val p
  end.

(* command line > configuration file > default, for every key and every combination of sources *)
Theorem precedence_cli (v : option V) conf : merge1 {| p_val := v; p_from_cli := true |} conf = v.
Proof. destruct conf; reflexivity. Qed.
Theorem precedence_conf (d : option V) (c : V) : merge1 {| p_val := d; p_from_cli := false |} (Some c) = Some c.
Proof. reflexivity. Qed.
Theorem precedence_default (d : option V) b : merge1 {| p_val := d; p_from_cli := b |} None = d.
Proof. reflexivity. Qed.
(* D11 (fixed): a command-line value that parses to None lost against the configuration file *)
Theorem cli_none_legacy_refuted (c : V) : merge1_legacy {| p_val := None; p_from_cli := true |} (Some c) = Some c.
Proof. reflexivity. Qed.

(* a configuration key that is not a parameter of the command is rejected *)
Definition conf_ok (params : list string) (conf_keys : list string) : bool :=
  forallb (fun k => existsb (String.eqb k) params) conf_keys.
Theorem unknown_conf_key_rejected params keys k : In k keys -> ~ In k params -> conf_ok params keys = false.
Proof.
  intros Hk Hn. unfold conf_ok. destruct (forallb _ keys) eqn:E; [|reflexivity]. exfalso.
  rewrite forallb_forall in E. specialize (E k Hk). apply existsb_exists in E. destruct E as (x & Hx & Ex).
  apply String.eqb_eq in Ex. subst. contradiction.
Qed.

(* {k: kwargs.get(k, v) for k, v in default_dict.items()} *)
Definition update_existing (defaults : list (string * V)) (kwargs : list (string * V)) : list (string * V) :=
  map (fun kv => (fst kv, match find (fun a => String.eqb (fst a) (fst kv)) kwargs with Some a => snd a | None => snd kv end)) defaults.
Theorem update_existing_keys defaults kwargs : map fst (update_existing defaults kwargs) = map fst defaults.
Proof. unfold update_existing. rewrite map_map. reflexivity. Qed.
Theorem update_existing_takes_kwarg defaults kwargs k d v : In (k, d) defaults -> NoDup (map fst defaults) ->
  find (fun a => String.eqb (fst a) k) kwargs = Some (k, v) -> In (k, v) (update_existing defaults kwargs).
Proof.
  intros Hin _ Hf. unfold update_existing. apply in_map_iff. exists (k, d). cbn [fst snd]. rewrite Hf. split; [reflexivity|exact Hin].
Qed.
End Merge.

Definition mem_s (x : string) (l : list string) : bool := existsb (String.eqb x) l.
Definition count_in (x : string) (ls : list (list string)) : nat := List.length (filter (mem_s x) ls).
Definition subset_s (a b : list string) : bool := forallb (fun x => mem_s x b) a.
Definition disjoint_s (a b : list string) : bool := forallb (fun x => negb (mem_s x b)) a.
