From Coq Require Import ZArith List Bool Lia.
From HV Require Import Base.ZRange Kernel.Morph.
Import ListNotations.
Open Scope Z_scope.

Lemma forallb_ext_in' {A} (f g : A -> bool) l : (forall x, In x l -> f x = g x) -> forallb f l = forallb g l.
Proof.
  induction l as [|a l IH]; intros H; [reflexivity|]. cbn [forallb]. rewrite (H a (or_introl eq_refl)), IH; [reflexivity|].
  intros x Hx. apply H. now right.
Qed.

Lemma in_ewin kh kw i j u v : 1 <= kh -> 1 <= kw -> kh mod 2 = 1 -> kw mod 2 = 1 ->
  In (u, v) (ewin kh kw i j) <-> (Z.abs (u - i) <= (kh - 1) / 2 + 1 /\ Z.abs (v - j) <= (kw - 1) / 2 + 1).
Proof.
  intros H1 H2 O1 O2. unfold ewin. rewrite in_prod_iff, !in_zrange.
  pose proof (Z.div_mod kh 2 ltac:(lia)). pose proof (Z.div_mod kw 2 ltac:(lia)).
  assert ((kh + 2) / 2 = kh / 2 + 1) by (replace (kh + 2) with (kh + 1 * 2) by lia; rewrite Z.div_add by lia; lia).
  assert ((kw + 2) / 2 = kw / 2 + 1) by (replace (kw + 2) with (kw + 1 * 2) by lia; rewrite Z.div_add by lia; lia).
  assert ((kh - 1) / 2 = kh / 2) by (symmetry; apply (Z.div_unique (kh - 1) 2 (kh / 2) 0); lia).
  assert ((kw - 1) / 2 = kw / 2) by (symmetry; apply (Z.div_unique (kw - 1) 2 (kw / 2) 0); lia).
  lia.
Qed.

(* erosion = "for all pixels of the kernel window grown by one": inside the image and set *)
Theorem erode_is_forall_window H W m kh kw i j : 1 <= kh -> 1 <= kw -> kh mod 2 = 1 -> kw mod 2 = 1 ->
  erode H W m kh kw i j = true <->
  (forall u v, Z.abs (u - i) <= (kh - 1) / 2 + 1 -> Z.abs (v - j) <= (kw - 1) / 2 + 1 -> inb H W u v = true /\ m u v = true).
Proof.
  intros H1 H2 O1 O2. unfold erode. rewrite forallb_forall. split.
  - intros Hall u v Hu Hv. specialize (Hall (u, v)). cbn [fst snd] in Hall. apply andb_true_iff. apply Hall.
    apply in_ewin; auto.
  - intros Hall [u v] Hin. apply in_ewin in Hin; auto. cbn [fst snd]. apply andb_true_iff. apply Hall; tauto.
Qed.

(* C17: valid exactly when the processing pixel it falls in, and every pixel of the kernel window around it grown by one,
   is valid in both images (joint) and completely covered by valid source pixels *)
Theorem partial_mask_characterisation H W covered joint kh kw pr pc r c :
  1 <= kh -> 1 <= kw -> kh mod 2 = 1 -> kw mod 2 = 1 ->
  partial_valid H W covered joint kh kw pr pc r c = true <->
  (forall u v, Z.abs (u - pr r) <= (kh - 1) / 2 + 1 -> Z.abs (v - pc c) <= (kw - 1) / 2 + 1 ->
               inb H W u v = true /\ covered u v = true /\ joint u v = true).
Proof.
  intros H1 H2 O1 O2. unfold partial_valid, full_coverage. rewrite erode_is_forall_window by assumption.
  split; intros Hall u v Hu Hv; destruct (Hall u v Hu Hv) as [A B].
  - apply andb_true_iff in B. tauto.
  - split; [exact A|]. apply andb_true_iff. tauto.
Qed.

(* it is a subset of the processing pixels that are jointly valid and covered: in particular of the source mask *)
Theorem partial_subset H W covered joint kh kw i j : 1 <= kh -> 1 <= kw -> kh mod 2 = 1 -> kw mod 2 = 1 ->
  full_coverage H W covered joint kh kw i j = true -> inb H W i j = true /\ covered i j = true /\ joint i j = true.
Proof.
  intros H1 H2 O1 O2 Hf. unfold full_coverage in Hf. rewrite erode_is_forall_window in Hf by assumption.
  destruct (Hf i j) as [A B].
  - rewrite Z.sub_diag. cbn. assert (0 <= (kh - 1) / 2) by (apply Z.div_pos; lia). lia.
  - rewrite Z.sub_diag. cbn. assert (0 <= (kw - 1) / 2) by (apply Z.div_pos; lia). lia.
  - apply andb_true_iff in B. tauto.
Qed.

(* strictly smaller: a set pixel in the topmost set row is always removed (its upper neighbour is unset or outside) *)
Theorem partial_strict H W covered joint kh kw i j : 1 <= kh -> 1 <= kw -> kh mod 2 = 1 -> kw mod 2 = 1 ->
  (forall v, inb H W (i - 1) v = true -> covered (i - 1) v && joint (i - 1) v = false) ->
  full_coverage H W covered joint kh kw i j = false.
Proof.
  intros H1 H2 O1 O2 Htop. destruct (full_coverage H W covered joint kh kw i j) eqn:E; [|reflexivity]. exfalso.
  unfold full_coverage in E. rewrite erode_is_forall_window in E by assumption.
  destruct (E (i - 1) j) as [A B].
  - assert (0 <= (kh - 1) / 2) by (apply Z.div_pos; lia). lia.
  - rewrite Z.sub_diag. cbn. assert (0 <= (kw - 1) / 2) by (apply Z.div_pos; lia). lia.
  - specialize (Htop j A). congruence.
Qed.

(* block independence: the block read for an output window grown by the overlap (k+1)/2 = erosion half-size sees the same
   window: the eroded mask at every output pixel equals the whole-image one (the restricted mask is the image mask and
   the block edge inside the image is NOT a border: the reader pads with real neighbours) *)
Theorem erode_local H W m m' kh kw i j : 1 <= kh -> 1 <= kw -> kh mod 2 = 1 -> kw mod 2 = 1 ->
  (forall u v, Z.abs (u - i) <= (kh - 1) / 2 + 1 -> Z.abs (v - j) <= (kw - 1) / 2 + 1 -> m u v = m' u v) ->
  erode H W m kh kw i j = erode H W m' kh kw i j.
Proof.
  intros H1 H2 O1 O2 Hag. unfold erode. apply forallb_ext_in'. intros [u v] Hin. apply in_ewin in Hin; auto. cbn [fst snd].
  rewrite (Hag u v) by tauto. reflexivity.
Qed.

(* ------------------------------------------------------------------ block-wise erosion (fuse: one erosion per block)
   A block's erosion agrees with the whole-image erosion at (i, j) when, on every side, either the block edge is the image edge or
   the grown kernel window of (i, j) stays inside the block. *)
Theorem erode_blk_is_whole H W r0 c0 Hb Wb m kh kw i j : 1 <= kh -> 1 <= kw -> kh mod 2 = 1 -> kw mod 2 = 1 ->
  0 <= r0 -> r0 + Hb <= H -> 0 <= c0 -> c0 + Wb <= W ->
  (r0 = 0 \/ r0 + ((kh - 1) / 2 + 1) <= i) -> (r0 + Hb = H \/ i + ((kh - 1) / 2 + 1) < r0 + Hb) ->
  (c0 = 0 \/ c0 + ((kw - 1) / 2 + 1) <= j) -> (c0 + Wb = W \/ j + ((kw - 1) / 2 + 1) < c0 + Wb) ->
  erode_blk r0 c0 Hb Wb m kh kw i j = erode H W m kh kw i j.
Proof.
  intros H1 H2 O1 O2 A1 A2 A3 A4 T B L R. unfold erode_blk, erode. apply forallb_ext_in'. intros [u v] Hin.
  apply in_ewin in Hin; auto. cbn [fst snd]. f_equal. unfold inbf, inb.
  destruct Hin as [Hu Hv].
  repeat match goal with |- context [?a <=? ?b] => destruct (Z.leb_spec a b) end;
  repeat match goal with |- context [?a <? ?b] => destruct (Z.ltb_spec a b) end; cbn; try reflexivity; exfalso; lia.
Qed.

(* Source pixels of a block's output window take their mask from the processing pixel their centre falls in (nearest re-projection);
   on unaligned grids that pixel can lie one pixel beyond the block's processing-grid output window.  With an overlap of at least
   erosion reach + 1 every such position satisfies the premise above. *)
Theorem seam_sampling_safe H W r0 c0 Hb Wb m kh kw oh ow i j : 1 <= kh -> 1 <= kw -> kh mod 2 = 1 -> kw mod 2 = 1 ->
  0 <= r0 -> r0 + Hb <= H -> 0 <= c0 -> c0 + Wb <= W ->
  (kh - 1) / 2 + 1 + 1 <= oh -> (kw - 1) / 2 + 1 + 1 <= ow ->
  (* (i, j) is at most one pixel outside the output window = the block shrunk by the overlap on every side that is not the image edge *)
  (r0 = 0 \/ r0 + oh - 1 <= i) -> (r0 + Hb = H \/ i <= r0 + Hb - oh) ->
  (c0 = 0 \/ c0 + ow - 1 <= j) -> (c0 + Wb = W \/ j <= c0 + Wb - ow) ->
  erode_blk r0 c0 Hb Wb m kh kw i j = erode H W m kh kw i j.
Proof.
  intros H1 H2 O1 O2 A1 A2 A3 A4 Eh Ew T B L R. apply erode_blk_is_whole; auto; [destruct T|destruct B|destruct L|destruct R]; auto; right; lia.
Qed.

(* with the overlap equal to the erosion reach (the value used before the repair) the position one pixel beyond the output window is lost:
   image 12 x 12 all valid, block rows 4.., 3 x 3 kernel (reach 2 = overlap 2), sample at row 4 + 2 - 1 *)
Example seam_sampling_legacy_refuted :
  let m := fun _ _ : Z => true in
  erode_blk 4 0 8 12 m 3 3 5 6 = false /\ erode 12 12 m 3 3 5 6 = true /\ erode_blk 3 0 9 12 m 3 3 5 6 = true.
Proof. vm_compute. repeat split; reflexivity. Qed.
