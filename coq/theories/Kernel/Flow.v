(* The path of one block through the correction pipeline (kernel_model.RefSpaceModel / SrcSpaceModel, fuse._process_block):
   which resampling kernel a re-projection uses, and which mask the parameters carry when they are applied.
   A pixel mask is a boolean function of the SOURCE grid position; the engines (GDAL re-projection, the fit) are parameters. *)
From Coq Require Import ZArith QArith Bool.
From HV Require Import Kernel.Fit.
Open Scope Q_scope.

(* the two configured kernels *)
Inductive resamp := RDown | RUp.
(* _get_resampling(from_res, to_res): the down-sampling kernel when the target pixel is at least as large as the origin's *)
Definition get_resampling (from_area to_area : Q) : resamp := if Qle_bool from_area to_area then RDown else RUp.

(* where the mask of the parameters that are APPLIED to the source block comes from *)
Inductive mask_from :=
  | MSrc               (* the source block's own mask *)
  | MCover             (* the full-coverage mask, computed on the source grid (processing grid = source) *)
  | MCoverNearest      (* the full-coverage mask of the processing grid, brought to the source grid by nearest re-projection *)
  | MOther.

Definition ref_apply_mask (mask_partial : bool) : mask_from := if mask_partial then MCoverNearest else MSrc.
Definition src_fit_mask (mask_partial : bool) : mask_from := if mask_partial then MCover else MSrc.

(* validity of an applied parameter pixel at source position p, given the three candidate masks *)
Definition param_valid (mf : mask_from) (src_mask cover cover_near : bool) : option bool :=
  match mf with MSrc => Some src_mask | MCover => Some cover | MCoverNearest => Some cover_near | MOther => None end.

(* corrected pixel = gain * src + offset where the applied parameters are valid and finite (Fit.apply_px); the source value under an
   invalid source pixel is whatever the file holds (x), the parameters whatever re-projection produced (g, o) *)
Definition corrected (pvalid : bool) (g o : fval) (x : Q) : fval := if pvalid then apply_px g o x else NonFin.

(* without partial masking the applied parameters are valid exactly on the source mask - on both grids *)
Lemma no_partial_mask_is_source_mask src_mask cover cover_near :
  param_valid (ref_apply_mask false) src_mask cover cover_near = Some src_mask /\
  param_valid (src_fit_mask false) src_mask cover cover_near = Some src_mask.
Proof. split; reflexivity. Qed.

(* so a corrected pixel can be valid only where the source is - whatever the parameters, whatever lies under the invalid pixel *)
Lemma corrected_valid_only_on_source_mask src_mask cover cover_near g o x q pv :
  (param_valid (ref_apply_mask false) src_mask cover cover_near = Some pv \/ param_valid (src_fit_mask false) src_mask cover cover_near = Some pv) ->
  corrected pv g o x = Fin q -> src_mask = true.
Proof.
  intros [E|E]; cbn in E; injection E as <-; unfold corrected; destruct src_mask; try reflexivity; discriminate.
Qed.

(* with partial masking the applied mask is the full-coverage mask (Kernel.Morph.full_coverage), sampled by nearest on the reference grid *)
Lemma partial_mask_is_coverage src_mask cover cover_near :
  param_valid (ref_apply_mask true) src_mask cover cover_near = Some cover_near /\
  param_valid (src_fit_mask true) src_mask cover cover_near = Some cover.
Proof. split; reflexivity. Qed.

(* down-sampling kernel exactly when the target pixels are not smaller; equal resolutions count as down-sampling *)
Lemma get_resampling_spec a b : (get_resampling a b = RDown <-> a <= b) /\ (get_resampling a b = RUp <-> b < a).
Proof.
  unfold get_resampling. destruct (Qle_bool a b) eqn:E.
  - apply Qle_bool_iff in E. split; split; intros; try reflexivity; try assumption; try discriminate.
    exfalso. apply (Qlt_not_le b a); assumption.
  - assert (~ a <= b) by (intros C; apply Qle_bool_iff in C; congruence).
    split; split; intros; try reflexivity; try discriminate; try contradiction.
    apply Qnot_le_lt; assumption.
Qed.
