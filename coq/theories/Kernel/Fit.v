(* Executable model of homonim.kernel_model.KernelModel._fit_gain / _fit_gain_blk_offset /
   _fit_gain_offset / _r2_array / apply (lines 142-373, 442-463) over exact rationals.
   Images are total functions of (row, col); only [0,H) x [0,W) is "in the block"; outside it the
   OpenCV box filters see the constant border 0.  No proofs in this file. *)
From Coq Require Import ZArith QArith Qabs List Bool.
From HV Require Import Base.ZRange Base.QSum.
Import ListNotations.
Open Scope Z_scope.

(* a value that may be non-finite (NaN / inf in the implementation) *)
Inductive fval := Fin (q : Q) | NonFin.
Definition fdiv (n d : Q) : fval := if Qeq_bool d 0 then NonFin else Fin (n / d).
Definition fmap (f : Q -> Q) (x : fval) : fval := match x with Fin q => Fin (f q) | NonFin => NonFin end.
Definition fmap2 (f : Q -> Q -> Q) (x y : fval) : fval :=
  match x, y with Fin a, Fin b => Fin (f a b) | _, _ => NonFin end.
Definition fbind (x : fval) (f : Q -> fval) : fval := match x with Fin q => f q | NonFin => NonFin end.
(* x > t as NumPy evaluates it: False when x is NaN *)
Definition fgt (x : fval) (t : Q) : bool := match x with Fin q => negb (Qle_bool q t) | NonFin => false end.

Record blk := { bH : Z; bW : Z; sv : Z -> Z -> Q; rv : Z -> Z -> Q; sm : Z -> Z -> bool; rm : Z -> Z -> bool }.

Definition inb (H W u v : Z) : bool := (0 <=? u) && (u <? H) && (0 <=? v) && (v <? W).
(* mask = ref_ra.mask & src_ra.mask *)
Definition jmask (b : blk) (u v : Z) : bool := inb (bH b) (bW b) u v && sm b u v && rm b u v.
(* ref_array[~mask] = 0; src_array[~mask] = 0; BORDER_CONSTANT outside the array *)
Definition zsrc (b : blk) (u v : Z) : Q := if jmask b u v then sv b u v else 0%Q.
Definition zref (b : blk) (u v : Z) : Q := if jmask b u v then rv b u v else 0%Q.
Definition zone (b : blk) (u v : Z) : Q := if jmask b u v then 1%Q else 0%Q.

(* cv.boxFilter(a, -1, (kx, ky), normalize=False, borderType=BORDER_CONSTANT): ksize is (width, height),
   anchor at the kernel centre; odd sizes *)
Definition cv_win (kx ky i j : Z) : list (Z * Z) :=
  list_prod (zrange (i - ky / 2) (Z.to_nat ky)) (zrange (j - kx / 2) (Z.to_nat kx)).
Definition cv_box (f : Z -> Z -> Q) (kx ky i j : Z) : Q := qsum (fun p => f (fst p) (snd p)) (cv_win kx ky i j).

Record sums := { sN : Q; sX : Q; sY : Q; sXY : Q; sXX : Q; sYY : Q }.
(* the code passes kernel_shape[::-1] = (kw, kh) to OpenCV *)
Definition ksums (b : blk) (kh kw i j : Z) : sums :=
  {| sN := cv_box (zone b) kw kh i j;
     sX := cv_box (zsrc b) kw kh i j;
     sY := cv_box (zref b) kw kh i j;
     sXY := cv_box (fun u v => zsrc b u v * zref b u v)%Q kw kh i j;
     sXX := cv_box (fun u v => zsrc b u v * zsrc b u v)%Q kw kh i j;
     sYY := cv_box (fun u v => zref b u v * zref b u v)%Q kw kh i j |}.

Open Scope Q_scope.
(* ---- R2 (lines 142-214) *)
Definition tss_n (S : sums) : Q := sN S * sYY S - sY S * sY S.                 (* N * TSS *)
Definition rss_go (S : sums) (m c : Q) : Q :=
  m * m * sXX S + 2 * (m * c) * sX S - 2 * m * sXY S - 2 * c * sY S + sYY S + sN S * (c * c).
Definition rss_g (S : sums) (m : Q) : Q := m * m * sXX S - 2 * m * sXY S + sYY S.
Definition r2_of (S : sums) (rss : Q) : fval := fmap (fun x => 1 - x) (fdiv (rss * sN S) (tss_n S)).

(* ---- gain (lines 231-274): gain = ref_sum / src_sum, offset = 0 *)
Definition gain_params (S : sums) : fval * fval := (fdiv (sY S) (sX S), Fin 0).
Definition gain_r2 (S : sums) : fval := fbind (fst (gain_params S)) (fun m => r2_of S (rss_g S m)).

(* ---- gain-offset (lines 305-373) *)
Definition go_num (S : sums) : Q := sN S * sXY S - sX S * sY S.
Definition go_den (S : sums) : Q := sN S * sXX S - sX S * sX S.
Definition go_m (S : sums) : fval := fdiv (go_num S) (go_den S).
Definition go_c (S : sums) : fval := fbind (go_m S) (fun m => fdiv (sY S - m * sX S) (sN S)).
Definition go_r2 (S : sums) : fval :=
  fbind (go_m S) (fun m => fbind (go_c S) (fun c => r2_of S (rss_go S m c))).
(* r2_mask = (R2 > thresh) & (gain > 0) & mask : True = the fitted parameters are kept *)
Definition go_keep (S : sums) (thresh : Q) : bool := fgt (go_r2 S) thresh && fgt (go_m S) 0.
(* in-painted pixel: offset c' from fillnodata (an oracle), gain re-estimated through the kernel centroid *)
Definition go_regain (S : sums) (c' : Q) : fval := fdiv (sY S - sN S * c') (sX S).

(* ---- gain-blk-offset (lines 276-303): source normalised by the block model (a, b) *)
Definition norm_blk (b : blk) (na nb : Q) : blk :=
  {| bH := bH b; bW := bW b; sv := fun u v => sv b u v * na + nb; rv := rv b; sm := sm b; rm := rm b |}.
Definition gbo_params (S' : sums) (na nb : Q) : fval * fval :=   (* S' = sums of the normalised block *)
  let g := fdiv (sY S') (sX S') in (fmap (fun x => x * na) g, fmap (fun x => x * nb) g).

(* ---- apply (line 461): corrected = gain * src + offset *)
Definition apply_px (g o : fval) (x : Q) : fval := fmap2 (fun a b => a * x + b) g o.

(* ---- whole-pixel results: None where the pixel is not jointly valid (parameters stay nodata) *)
Inductive model := MGain | MGainBlkOffset | MGainOffset.
Record params := { p_gain : fval; p_off : fval; p_r2 : fval }.

Definition fit_px (md : model) (b : blk) (kh kw : Z) (na nb : Q) (thresh : option Q) (cfill : Z -> Z -> Q)
           (i j : Z) : option params :=
  if negb (jmask b i j) then None else
  match md with
  | MGain =>
    let S := ksums b kh kw i j in
    Some {| p_gain := fst (gain_params S); p_off := snd (gain_params S); p_r2 := gain_r2 S |}
  | MGainBlkOffset =>
    let S' := ksums (norm_blk b na nb) kh kw i j in
    let '(g, o) := gbo_params S' na nb in
    (* R2 is computed by _fit_gain on the normalised source with the un-normalised gain *)
    Some {| p_gain := g; p_off := o; p_r2 := fbind (fdiv (sY S') (sX S')) (fun m => r2_of S' (rss_g S' m)) |}
  | MGainOffset =>
    let S := ksums b kh kw i j in
    match thresh with
    | None => Some {| p_gain := go_m S; p_off := go_c S; p_r2 := go_r2 S |}
    | Some t =>
      if go_keep S t then Some {| p_gain := go_m S; p_off := go_c S; p_r2 := go_r2 S |}
      else Some {| p_gain := go_regain S (cfill i j); p_off := Fin (cfill i j); p_r2 := go_r2 S |}
    end
  end.
