(* Corollaries of Kernel.Laws.fit_px_rel:
   C07  scale laws               (kx, ky arbitrary positive, same block)
   C08  invalid pixels ignored   (kx = ky = 1, blocks agreeing on the joint mask and on the values under it)
   C05  seam lemma               (kx = ky = 1, whole image versus the block read with the overlap) *)
From Coq Require Import ZArith QArith List Bool Lia Lqa Setoid.
From HV Require Import Base.ZRange Base.QSum Kernel.Fit Kernel.Laws.
Import ListNotations.
Open Scope Q_scope.

Definition params_eqv (p p' : params) : Prop :=
  feqv (p_gain p') (p_gain p) /\ feqv (p_off p') (p_off p) /\ feqv (p_r2 p') (p_r2 p).
Definition oparams_eqv (o o' : option params) : Prop :=
  match o, o' with Some p, Some p' => params_eqv p p' | None, None => True | _, _ => False end.

Lemma fmap_one_l a : feqv (fmap (fun g => 1 / 1 * g) a) a.
Proof. destruct a; cbn; [field|exact I]. Qed.
Lemma fmap_one a : feqv (fmap (fun g => 1 * g) a) a.
Proof. destruct a; cbn; [ring|exact I]. Qed.

Lemma oparams_rel_11 o o' : oparams_rel 1 1 o o' -> oparams_eqv o o'.
Proof.
  destruct o as [p|], o' as [p'|]; cbn; auto. intros (A & B & C). repeat split.
  - eapply feqv_trans; [exact A|apply fmap_one_l].
  - eapply feqv_trans; [exact B|apply fmap_one].
  - exact C.
Qed.

(* ------------------------------------------------------------------ C07: scale laws *)
Definition scale_blk (kx ky : Q) (b : blk) : blk :=
  {| bH := bH b; bW := bW b; sv := fun u v => kx * sv b u v; rv := fun u v => ky * rv b u v; sm := sm b; rm := rm b |}.

Lemma scale_blk_rel kx ky b W : blk_rel_on kx ky b (scale_blk kx ky b) W.
Proof. intros p _. split; [reflexivity|]. intros _. cbn. split; reflexivity. Qed.

(* multiplying the source by kx and the reference by ky: gains x ky/kx, offsets x ky, R2, masks and the
   in-paint selection unchanged.  The block normalisation (na, nb) is an input: C07_block_norm below says how it
   moves.  (cfill' = ky * cfill is H_lin for the in-paint oracle; trivial when ky = 1 because its inputs -
   offsets and selection - are then unchanged.) *)
Theorem fit_scale md kx ky b kh kw na nb thresh cfill cfill' i j : 0 < kx -> 0 < ky ->
  cfill' i j == ky * cfill i j ->
  oparams_rel kx ky (fit_px md b kh kw na nb thresh cfill i j)
                    (fit_px md (scale_blk kx ky b) kh kw (ky / kx * na) (ky * nb) thresh cfill' i j).
Proof.
  intros Hkx Hky Hf. apply fit_px_rel; try assumption; try reflexivity. apply scale_blk_rel.
Qed.

(* the corrected value: unchanged by the source scale, multiplied by the reference scale *)
Theorem corrected_scale kx ky p p' x : 0 < kx -> params_rel kx ky p p' ->
  feqv (apply_px (p_gain p') (p_off p') (kx * x)) (fmap (fun c => ky * c) (apply_px (p_gain p) (p_off p) x)).
Proof. intros Hk (A & B & _). apply apply_rel; [lra|exact A|exact B]. Qed.

(* ------------------------------------------------------------------ C08: invalid pixels never influence the fit *)
(* two blocks that agree on the joint mask and on the values at jointly valid pixels - whatever numbers sit
   under invalid pixels, inside or outside the block *)
Definition blk_agree (b b' : blk) : Prop :=
  forall u v, jmask b' u v = jmask b u v /\ (jmask b u v = true -> sv b' u v == sv b u v /\ rv b' u v == rv b u v).

Lemma blk_agree_rel b b' W : blk_agree b b' -> blk_rel_on 1 1 b b' W.
Proof.
  intros H p _. destruct (H (fst p) (snd p)) as [Hm Hv]. split; [exact Hm|]. intros Hj.
  destruct (Hv Hj) as [A B]. rewrite A, B. split; ring.
Qed.

Theorem fit_ignores_invalid md b b' kh kw na nb thresh cfill i j : blk_agree b b' ->
  oparams_eqv (fit_px md b kh kw na nb thresh cfill i j) (fit_px md b' kh kw na nb thresh cfill i j).
Proof.
  intros H. apply oparams_rel_11.
  apply (fit_px_rel md 1 1 b b' kh kw na nb na nb thresh cfill cfill i j);
    [lra|lra|apply blk_agree_rel; exact H|apply (H i j)|field|ring|ring].
Qed.

(* ------------------------------------------------------------------ C05: the seam lemma *)
(* the block as read for the output window [ro, ro+ho) x [co, co+wo): the image restricted to the input window,
   which is the output window grown by the overlap (oa, ob) and clipped to the image; everything outside the
   input window is the box filter's zero border *)
Open Scope Z_scope.
Definition in_rect (r0 r1 c0 c1 u v : Z) : bool := (r0 <=? u) && (u <? r1) && (c0 <=? v) && (v <? c1).
Definition restrict (b : blk) (r0 r1 c0 c1 : Z) : blk :=
  {| bH := bH b; bW := bW b; sv := sv b; rv := rv b;
     sm := fun u v => sm b u v && in_rect r0 r1 c0 c1 u v; rm := rm b |}.

Lemma in_cv_win kx ky i j u v : 1 <= kx -> 1 <= ky -> kx mod 2 = 1 -> ky mod 2 = 1 ->
  In (u, v) (cv_win kx ky i j) -> Z.abs (u - i) <= ky / 2 /\ Z.abs (v - j) <= kx / 2.
Proof.
  intros H1 H2 O1 O2. unfold cv_win. rewrite in_prod_iff, !in_zrange.
  pose proof (Z.div_mod kx 2 ltac:(lia)). pose proof (Z.div_mod ky 2 ltac:(lia)). lia.
Qed.

Section Seam.
Variables (b : blk) (kh kw : Z) (ro ho co wo oa ob : Z).
Hypothesis Hkh : 1 <= kh /\ kh mod 2 = 1.
Hypothesis Hkw : 1 <= kw /\ kw mod 2 = 1.
Hypothesis Hreach : kh / 2 <= oa /\ kw / 2 <= ob.       (* kernel half-size <= overlap *)
Hypothesis Hout : 0 <= ro /\ ro + ho <= bH b /\ 0 <= co /\ co + wo <= bW b.
Let r0 := Z.max 0 (ro - oa).  Let r1 := Z.min (bH b) (ro + ho + oa).
Let c0 := Z.max 0 (co - ob).  Let c1 := Z.min (bW b) (co + wo + ob).

Lemma restrict_rel i j : ro <= i < ro + ho -> co <= j < co + wo ->
  blk_rel_on 1 1 b (restrict b r0 r1 c0 c1) (cv_win kw kh i j).
Proof.
  intros Hi Hj [u v] Hin. cbn [fst snd].
  apply in_cv_win in Hin; try tauto. destruct Hin as [Hu Hv].
  assert (E : jmask (restrict b r0 r1 c0 c1) u v = jmask b u v).
  { unfold jmask, restrict, in_rect, inb; cbn [bH bW sm rm]. unfold r0, r1, c0, c1.
    destruct (0 <=? u) eqn:A1; destruct (u <? bH b) eqn:A2; destruct (0 <=? v) eqn:A3; destruct (v <? bW b) eqn:A4;
      cbn [andb]; try reflexivity.
    apply Z.leb_le in A1, A3. apply Z.ltb_lt in A2, A4.
    assert (X : (Z.max 0 (ro - oa) <=? u) && (u <? Z.min (bH b) (ro + ho + oa)) && (Z.max 0 (co - ob) <=? v)
                && (v <? Z.min (bW b) (co + wo + ob)) = true).
    { repeat (apply andb_true_iff; split); try apply Z.leb_le; try apply Z.ltb_lt; lia. }
    rewrite X, andb_true_r. reflexivity. }
  split; [exact E|]. intros _. cbn [restrict sv rv]. split; ring.
Qed.

(* at every pixel of the output window the block-local fit equals the whole-image fit (same block model (na, nb),
   in-painting oracle agreeing at that pixel: trivially so when in-painting is off) *)
Theorem seam md na nb thresh cfill i j : ro <= i < ro + ho -> co <= j < co + wo ->
  oparams_eqv (fit_px md b kh kw na nb thresh cfill i j)
              (fit_px md (restrict b r0 r1 c0 c1) kh kw na nb thresh cfill i j).
Proof.
  intros Hi Hj. apply oparams_rel_11.
  apply (fit_px_rel md 1 1 b (restrict b r0 r1 c0 c1) kh kw na nb na nb thresh cfill cfill i j);
    [lra|lra| | |field|ring|ring].
  - apply restrict_rel; assumption.
  - pose proof (restrict_rel i j Hi Hj (i, j)) as X. cbn [fst snd] in X. apply X.
    unfold cv_win. apply in_prod_iff. rewrite !in_zrange.
    destruct Hkh as [K1 K2], Hkw as [K3 K4].
    pose proof (Z.div_mod kh 2 ltac:(lia)). pose proof (Z.div_mod kw 2 ltac:(lia)). lia.
Qed.
End Seam.
