(* The definitions C01 refers to, stated directly over the jointly valid pixels of the kernel-shaped window
   (height x width, rows first - obviously not transposed), and their classical characterisations. *)
From Coq Require Import ZArith QArith List Bool Lia Lqa Setoid Morphisms.
From HV Require Import Base.ZRange Base.QSum Kernel.Fit.
Import ListNotations.
Open Scope Q_scope.

(* ------------------------------------------------------------------ OLS over an arbitrary finite sample *)
Section Sample.
Variable A : Type.
Variables (x y : A -> Q) (l : list A).
Definition n_of : Q := inject_Z (Z.of_nat (length l)).
Definition Sx := qsum x l.
Definition Sy := qsum y l.
Definition Sxy := qsum (fun p => x p * y p) l.
Definition Sxx := qsum (fun p => x p * x p) l.
Definition Syy := qsum (fun p => y p * y p) l.
Definition mean_x := Sx / n_of.
Definition mean_y := Sy / n_of.
(* residual sum of squares of the line (m, c), and total sum of squares *)
Definition rss (m c : Q) : Q := qsum (fun p => (y p - (m * x p + c)) * (y p - (m * x p + c))) l.
Definition tss : Q := qsum (fun p => (y p - mean_y) * (y p - mean_y)) l.
(* closed forms *)
Definition ols_den := n_of * Sxx - Sx * Sx.
Definition ols_m := (n_of * Sxy - Sx * Sy) / ols_den.
Definition ols_c := (Sy - ols_m * Sx) / n_of.
Definition ratio_of_sums := Sy / Sx.

Lemma rss_expand m c :
  rss m c == m * m * Sxx + 2 * (m * c) * Sx - 2 * m * Sxy - 2 * c * Sy + Syy + n_of * (c * c).
Proof.
  unfold rss, Sxx, Sx, Sxy, Sy, Syy, n_of.
  rewrite (qsum_ext _ (fun p => (m * m) * (x p * x p) + ((2 * (m * c)) * x p + ((- (2 * m)) * (x p * y p)
             + ((- (2 * c)) * y p + (y p * y p + c * c)))))) by (intros; ring).
  rewrite !qsum_plus, !qsum_scal, qsum_const. ring.
Qed.

Lemma rss_gain_expand m : rss m 0 == m * m * Sxx - 2 * m * Sxy + Syy.
Proof. rewrite rss_expand. ring. Qed.

Lemma tss_expand : ~ n_of == 0 -> n_of * tss == n_of * Syy - Sy * Sy.
Proof.
  intros HN. unfold tss, mean_y.
  rewrite (qsum_ext _ (fun p => y p * y p + ((- (2 * (Sy / n_of))) * y p + (Sy / n_of) * (Sy / n_of)))) by (intros; ring).
  rewrite !qsum_plus, !qsum_scal, qsum_const. fold Syy Sy n_of. generalize Sy Syy n_of HN. intros a b c Hc. field. exact Hc.
Qed.

Section Normal.
Hypothesis Hden : ~ ols_den == 0.
Hypothesis HN : ~ n_of == 0.
Let m := ols_m.
Let c := ols_c.

Lemma centroid : m * mean_x + c == mean_y.
Proof. unfold c, ols_c, mean_x, mean_y. fold m. generalize m Sx Sy n_of HN. intros. field. assumption. Qed.

Lemma ols_is_cov_over_var :
  m == (Sxy / n_of - mean_x * mean_y) / (Sxx / n_of - mean_x * mean_x) /\ c == mean_y - m * mean_x.
Proof.
  split.
  - unfold m, ols_m, mean_x, mean_y. unfold ols_den in *. generalize Sx Sy Sxy Sxx n_of HN Hden. intros a b d e f Hf Hd.
    field. split; [exact Hf|]. intro E. apply Hd.
    rewrite <- E. ring.
  - rewrite <- centroid. ring.
Qed.

Lemma normal1 : qsum (fun p => y p - (m * x p + c)) l == 0.
Proof.
  rewrite (qsum_ext _ (fun p => y p + ((- m) * x p + (- c)))) by (intros; ring).
  rewrite !qsum_plus, qsum_scal, qsum_const. fold Sy Sx n_of. unfold c, ols_c. fold m.
  generalize m Sx Sy n_of HN. intros. field. assumption.
Qed.

Lemma normal2 : qsum (fun p => (y p - (m * x p + c)) * x p) l == 0.
Proof.
  rewrite (qsum_ext _ (fun p => x p * y p + ((- m) * (x p * x p) + (- c) * x p))) by (intros; ring).
  rewrite !qsum_plus, !qsum_scal. fold Sxy Sxx Sx. unfold c, ols_c, m, ols_m. unfold ols_den in *.
  generalize Sx Sy Sxy Sxx n_of HN Hden. intros. field. split; assumption.
Qed.

(* least squares: no other line has a smaller residual sum of squares *)
Theorem ols_minimises m' c' : rss m c <= rss m' c'.
Proof.
  set (dm := m - m'). set (dc := c - c').
  assert (E : rss m' c' == rss m c + (2 * dm * qsum (fun p => (y p - (m * x p + c)) * x p) l
                              + (2 * dc * qsum (fun p => y p - (m * x p + c)) l
                                 + qsum (fun p => (dm * x p + dc) * (dm * x p + dc)) l))).
  { unfold rss. rewrite <- !qsum_scal, <- !qsum_plus. apply qsum_ext. intros p _. unfold dm, dc. ring. }
  rewrite E, normal1, normal2.
  assert (0 <= qsum (fun p => (dm * x p + dc) * (dm * x p + dc)) l) by (apply qsum_nonneg; intros; apply Qsq_nonneg).
  lra.
Qed.
End Normal.

(* gain through a given offset c' (the in-painted case): the line still passes through the centroid *)
Lemma centroid_regain c' : ~ Sx == 0 -> ~ n_of == 0 -> ((Sy - n_of * c') / Sx) * mean_x + c' == mean_y.
Proof. intros H1 H2. unfold mean_x, mean_y. generalize Sx Sy n_of H1 H2. intros. field. split; assumption. Qed.

Lemma centroid_ratio : ~ Sx == 0 -> ~ n_of == 0 -> ratio_of_sums * mean_x + 0 == mean_y.
Proof. intros H1 H2. unfold ratio_of_sums, mean_x, mean_y. generalize Sx Sy n_of H1 H2. intros. field. split; assumption. Qed.
End Sample.

(* ------------------------------------------------------------------ the kernel window *)
Open Scope Z_scope.
(* kernel window centred on (i, j): kh rows x kw columns *)
Definition kwin (kh kw i j : Z) : list (Z * Z) :=
  list_prod (zrange (i - (kh - 1) / 2) (Z.to_nat kh)) (zrange (j - (kw - 1) / 2) (Z.to_nat kw)).
(* its jointly valid pixels *)
Definition jv_window (b : blk) (kh kw i j : Z) : list (Z * Z) :=
  filter (fun p => jmask b (fst p) (snd p)) (kwin kh kw i j).

Lemma odd_half k : k mod 2 = 1 -> k / 2 = (k - 1) / 2.
Proof.
  intros Hk. pose proof (Z.div_mod k 2 ltac:(lia)) as E. rewrite Hk in E.
  apply (Z.div_unique (k - 1) 2 (k / 2) 0); lia.
Qed.

Lemma in_kwin kh kw i j u v : 1 <= kh -> 1 <= kw -> kh mod 2 = 1 -> kw mod 2 = 1 ->
  In (u, v) (kwin kh kw i j) <-> (Z.abs (u - i) <= (kh - 1) / 2 /\ Z.abs (v - j) <= (kw - 1) / 2).
Proof.
  intros H1 H2 O1 O2. unfold kwin. rewrite in_prod_iff, !in_zrange.
  pose proof (Z.div_mod (kh - 1) 2 ltac:(lia)) as E1. pose proof (Z.div_mod (kw - 1) 2 ltac:(lia)) as E2.
  assert ((kh - 1) mod 2 = 0) by (rewrite <- Zminus_mod_idemp_l, O1; reflexivity).
  assert ((kw - 1) mod 2 = 0) by (rewrite <- Zminus_mod_idemp_l, O2; reflexivity).
  lia.
Qed.

(* OpenCV's (kx, ky) = (kw, kh) window is the kh x kw window *)
Lemma cv_win_is_kwin kh kw i j : kh mod 2 = 1 -> kw mod 2 = 1 -> cv_win kw kh i j = kwin kh kw i j.
Proof. intros O1 O2. unfold cv_win, kwin. rewrite (odd_half kh O1), (odd_half kw O2). reflexivity. Qed.
