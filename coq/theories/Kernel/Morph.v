(* Partial masking: kernel_model._full_coverage_mask (lines 375-409), RefSpaceModel.apply (493-498), SrcSpaceModel.fit (526-531).
   Masks are total boolean functions of (row, col) on the processing grid; outside [0,H) x [0,W) the erosion sees border value 0. *)
From Coq Require Import ZArith List Bool Lia.
From HV Require Import Base.ZRange.
Import ListNotations.
Open Scope Z_scope.

Definition inb (H W u v : Z) : bool := (0 <=? u) && (u <? H) && (0 <=? v) && (v <? W).
(* cv.erode(mask, getStructuringElement(MORPH_RECT, (kw + 2, kh + 2)), borderType=BORDER_CONSTANT, borderValue=0) *)
Definition ewin (kh kw i j : Z) : list (Z * Z) :=
  list_prod (zrange (i - (kh + 2) / 2) (Z.to_nat (kh + 2))) (zrange (j - (kw + 2) / 2) (Z.to_nat (kw + 2))).
Definition erode (H W : Z) (m : Z -> Z -> bool) (kh kw : Z) (i j : Z) : bool :=
  forallb (fun p => inb H W (fst p) (snd p) && m (fst p) (snd p)) (ewin kh kw i j).

(* coverage >= 1 (H_down_avg: every source pixel overlapping the processing pixel is valid) AND the joint mask, eroded *)
Definition full_coverage (H W : Z) (covered joint : Z -> Z -> bool) (kh kw : Z) : Z -> Z -> bool :=
  erode H W (fun u v => covered u v && joint u v) kh kw.
(* the corrected pixel at source position (r, c) falls in processing pixel (pr r, pc c) (nearest re-projection);
   its validity with partial masking on *)
Definition partial_valid (H W : Z) (covered joint : Z -> Z -> bool) (kh kw : Z) (pr pc : Z -> Z) (r c : Z) : bool :=
  full_coverage H W covered joint kh kw (pr r) (pc c).

(* The same erosion computed on one block: the block is the frame [r0, r0 + Hb) x [c0, c0 + Wb) of the processing grid and the
   erosion's constant border (value 0) is the block's own edge. *)
Definition inbf (r0 c0 Hb Wb u v : Z) : bool := (r0 <=? u) && (u <? r0 + Hb) && (c0 <=? v) && (v <? c0 + Wb).
Definition erode_blk (r0 c0 Hb Wb : Z) (m : Z -> Z -> bool) (kh kw : Z) (i j : Z) : bool :=
  forallb (fun p => inbf r0 c0 Hb Wb (fst p) (snd p) && m (fst p) (snd p)) (ewin kh kw i j).
