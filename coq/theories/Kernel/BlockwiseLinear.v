(* C02 composed with the block partition: an exact linear relation is recovered block by block, whatever the block shape. *)
From Coq Require Import ZArith QArith List Bool Lia.
From HV Require Import Base.ZRange Base.QSum Grid.Window Grid.WindowProofs Kernel.Fit Kernel.Spec Kernel.Laws Kernel.Corollaries Kernel.Linear.
From HV Require Import Kernel.Blockwise.
Open Scope Z_scope.

Section BlockwiseLinear.
Variable b : blk.
Variables kh kw : Z.
Hypothesis Hkh : 1 <= kh /\ kh mod 2 = 1.
Hypothesis Hkw : 1 <= kw /\ kw mod 2 = 1.
Variable bs : Z * Z.
Hypothesis Hbs : 0 < fst bs /\ 0 < snd bs.
Hypothesis Hdim : 0 <= bH b /\ 0 <= bW b.
Variables a c : Q.
Hypothesis Hlin : forall u v, jmask b u v = true -> (rv b u v == a * sv b u v + c)%Q.

(* gain model, reference = a * source on the jointly valid pixels: in EVERY block of the partition, at every jointly valid pixel of its
   output window whose kernel window has a non-zero source sum, the block's fit is gain a, offset 0 *)
Theorem blockwise_recovers_gain rc na nb thresh cfill i j : (c == 0)%Q ->
  In rc (proc_blocks2 (whole b) bs (kernel_overlap kh kw)) -> in_win (out_of rc) i j ->
  jmask b i j = true -> ~ (sX (ksums b kh kw i j) == 0)%Q ->
  exists p, fit_px MGain (block_image b rc) kh kw na nb thresh cfill i j = Some p /\ feqv (p_gain p) (Fin a) /\ feqv (p_off p) (Fin 0).
Proof.
  intros Hc Hin Hij Hj Hx.
  pose proof (blocking_transparent b kh kw Hkh Hkw bs Hbs Hdim rc MGain na nb thresh cfill i j Hin Hij) as T.
  unfold fit_px in T at 1. rewrite Hj in T. cbn [negb] in T.
  destruct (fit_px MGain (block_image b rc) kh kw na nb thresh cfill i j) as [p'|] eqn:E; [|contradiction].
  exists p'. split; [reflexivity|]. destruct T as (G & O & _). cbn [p_gain p_off] in G, O. split.
  - eapply feqv_trans; [exact G|]. apply (recovers_gain b a c kh kw i j Hlin Hc Hx).
  - eapply feqv_trans; [exact O|]. cbn. reflexivity.
Qed.

(* gain-offset model (in-painting off), reference = a * source + c: every block's fit is (a, c) wherever the whole-image OLS is defined *)
Theorem blockwise_recovers_gain_offset rc na nb cfill i j :
  In rc (proc_blocks2 (whole b) bs (kernel_overlap kh kw)) -> in_win (out_of rc) i j ->
  jmask b i j = true -> ~ (go_den (ksums b kh kw i j) == 0)%Q -> ~ (sN (ksums b kh kw i j) == 0)%Q ->
  exists p, fit_px MGainOffset (block_image b rc) kh kw na nb None cfill i j = Some p /\ feqv (p_gain p) (Fin a) /\ feqv (p_off p) (Fin c).
Proof.
  intros Hin Hij Hj Hd Hn.
  pose proof (blocking_transparent b kh kw Hkh Hkw bs Hbs Hdim rc MGainOffset na nb None cfill i j Hin Hij) as T.
  unfold fit_px in T at 1. rewrite Hj in T. cbn [negb] in T.
  destruct (fit_px MGainOffset (block_image b rc) kh kw na nb None cfill i j) as [p'|] eqn:E; [|contradiction].
  exists p'. split; [reflexivity|]. destruct T as (G & O & _). cbn [p_gain p_off] in G, O.
  destruct (recovers_gain_offset b a c kh kw i j Hlin Hd Hn) as [M C].
  split; eapply feqv_trans; eassumption.
Qed.
End BlockwiseLinear.
