(* Laws of the kernel model.  One theorem does the work: if two blocks' mask-zeroed arrays are related on the
   kernel window by  src' = kx * src,  ref' = ky * ref  (kx, ky > 0, same joint mask) then every fitted quantity
   is related by the homogeneity degrees (-1 in source, +1 in reference), R2 and the in-paint decision are
   unchanged.  kx = ky = 1 gives "the fit depends only on the zeroed arrays inside the window", from which
   the seam lemma (C05) and "invalid pixels never influence the fit" (C08) follow; general kx, ky is C07. *)
From Coq Require Import ZArith QArith Qabs List Bool Lia Lqa Setoid Morphisms.
From HV Require Import Base.ZRange Base.QSum Kernel.Fit.
Import ListNotations.
Open Scope Q_scope.

(* ------------------------------------------------------------------ equivalence of possibly non-finite values *)
Definition feqv (a b : fval) : Prop :=
  match a, b with Fin x, Fin y => x == y | NonFin, NonFin => True | _, _ => False end.
Lemma feqv_refl a : feqv a a. Proof. destruct a; cbn; [reflexivity|exact I]. Qed.
Lemma feqv_sym a b : feqv a b -> feqv b a. Proof. destruct a, b; cbn; auto. intros H; symmetry; exact H. Qed.
Lemma feqv_trans a b c : feqv a b -> feqv b c -> feqv a c.
Proof. destruct a, b, c; cbn; try tauto. intros H1 H2; rewrite H1; exact H2. Qed.

Lemma fdiv_rel n d n' d' r s : ~ s == 0 -> n' == r * n -> d' == s * d ->
  feqv (fdiv n' d') (fmap (fun x => r / s * x) (fdiv n d)).
Proof.
  intros Hs Hn Hd. unfold fdiv.
  destruct (Qeq_bool d 0) eqn:E; destruct (Qeq_bool d' 0) eqn:E'; cbn.
  - exact I.
  - apply Qeq_bool_iff in E. apply Qeq_bool_neq in E'. apply E'. rewrite Hd, E. ring.
  - apply Qeq_bool_iff in E'. apply Qeq_bool_neq in E. apply E. rewrite Hd in E'.
    apply Qmult_integral in E'. destruct E'; [contradiction|assumption].
  - apply Qeq_bool_neq in E. rewrite Hn, Hd. field. split; assumption.
Qed.

Lemma fdiv_proper n d n' d' : n == n' -> d == d' -> feqv (fdiv n d) (fdiv n' d').
Proof.
  intros Hn Hd. unfold fdiv.
  destruct (Qeq_bool d 0) eqn:E; destruct (Qeq_bool d' 0) eqn:E'; cbn; try exact I.
  - apply Qeq_bool_iff in E. apply Qeq_bool_neq in E'. apply E'. rewrite <- Hd. exact E.
  - apply Qeq_bool_iff in E'. apply Qeq_bool_neq in E. apply E. rewrite Hd. exact E'.
  - rewrite Hn, Hd. reflexivity.
Qed.

Lemma fmap_rel (f g : Q -> Q) a b : (forall x y, x == y -> f x == g y) -> feqv a b -> feqv (fmap f a) (fmap g b).
Proof. intros H. destruct a, b; cbn; auto. Qed.
Lemma fgt_rel a b t k : 0 < k -> feqv a (fmap (fun x => k * x) b) -> fgt a (k * t) = fgt b t.
Proof.
  intros Hk. destruct a, b; cbn; try tauto. intros E. f_equal.
  destruct (Qle_bool q (k * t)) eqn:E1; destruct (Qle_bool q0 t) eqn:E2; try reflexivity.
  - apply Qle_bool_iff in E1. assert (~ q0 <= t) by (intro X; apply Qle_bool_iff in X; congruence).
    exfalso. apply H. rewrite E in E1. apply Qmult_le_l in E1; assumption.
  - apply Qle_bool_iff in E2. assert (~ q <= k * t) by (intro X; apply Qle_bool_iff in X; congruence).
    exfalso. apply H. rewrite E. apply Qmult_le_l; assumption.
Qed.

Lemma fgt_proper a t t' : t == t' -> fgt a t = fgt a t'.
Proof.
  intros E. destruct a; cbn; [|reflexivity]. f_equal.
  destruct (Qle_bool q t) eqn:E1; destruct (Qle_bool q t') eqn:E2; try reflexivity.
  - apply Qle_bool_iff in E1. rewrite E in E1. apply Qle_bool_iff in E1. congruence.
  - apply Qle_bool_iff in E2. rewrite <- E in E2. apply Qle_bool_iff in E2. congruence.
Qed.

(* ------------------------------------------------------------------ related kernel sums *)
Record sums_rel (kx ky : Q) (S S' : sums) : Prop := {
  r_N : sN S' == sN S; r_X : sX S' == kx * sX S; r_Y : sY S' == ky * sY S;
  r_XY : sXY S' == kx * ky * sXY S; r_XX : sXX S' == kx * kx * sXX S; r_YY : sYY S' == ky * ky * sYY S }.

Section Homogeneity.
Variables (kx ky : Q) (S S' : sums).
Hypothesis Hkx : 0 < kx.
Hypothesis Hky : 0 < ky.
Hypothesis R : sums_rel kx ky S S'.
Let Hx0 : ~ kx == 0. Proof. lra. Qed.
Let Hy0 : ~ ky == 0. Proof. lra. Qed.

Lemma gain_rel : feqv (fst (gain_params S')) (fmap (fun g => ky / kx * g) (fst (gain_params S))).
Proof. cbn [gain_params fst]. apply fdiv_rel; [exact Hx0|apply (r_Y _ _ _ _ R)|apply (r_X _ _ _ _ R)]. Qed.

Lemma go_m_rel : feqv (go_m S') (fmap (fun g => ky / kx * g) (go_m S)).
Proof.
  unfold go_m. destruct R.
  assert (E1 : go_num S' == (kx * ky) * go_num S) by (unfold go_num; rewrite r_N0, r_XY0, r_X0, r_Y0; ring).
  assert (E2 : go_den S' == (kx * kx) * go_den S) by (unfold go_den; rewrite r_N0, r_XX0, r_X0; ring).
  eapply feqv_trans; [apply (fdiv_rel (go_num S) (go_den S) _ _ (kx * ky) (kx * kx)); [|exact E1|exact E2]|].
  - intro E. apply Qmult_integral in E. tauto.
  - apply fmap_rel; [|apply feqv_refl]. intros x y Exy. rewrite Exy. field. exact Hx0.
Qed.

Lemma go_c_rel : feqv (go_c S') (fmap (fun c => ky * c) (go_c S)).
Proof.
  unfold go_c. pose proof go_m_rel as Hm. destruct (go_m S') as [m'|], (go_m S) as [m|]; cbn in Hm; cbn [fbind fmap feqv]; try contradiction; try exact I.
  destruct R. eapply feqv_trans; [apply (fdiv_rel (sY S - m * sX S) (sN S) _ _ ky 1)|].
  - lra.
  - rewrite r_Y0, r_X0, Hm. field. exact Hx0.
  - rewrite r_N0. ring.
  - apply fmap_rel; [|apply feqv_refl]. intros x y Exy. rewrite Exy. field.
Qed.

Lemma tss_rel : tss_n S' == (ky * ky) * tss_n S.
Proof. destruct R. unfold tss_n. rewrite r_N0, r_YY0, r_Y0. ring. Qed.

Lemma r2_of_rel rss rss' : rss' == (ky * ky) * rss -> feqv (r2_of S' rss') (r2_of S rss).
Proof.
  intros E. unfold r2_of. destruct R.
  eapply feqv_trans.
  - apply fmap_rel; [|apply (fdiv_rel (rss * sN S) (tss_n S) _ _ (ky * ky) (ky * ky))].
    + intros x y Exy. rewrite Exy. reflexivity.
    + intro X. apply Qmult_integral in X. tauto.
    + rewrite E, r_N0. ring.
    + apply tss_rel.
  - destruct (fdiv (rss * sN S) (tss_n S)); cbn; [|exact I]. field. exact Hy0.
Qed.

Lemma gain_r2_rel : feqv (gain_r2 S') (gain_r2 S).
Proof.
  unfold gain_r2. pose proof gain_rel as Hg.
  destruct (fst (gain_params S')) as [g'|], (fst (gain_params S)) as [g|]; cbn in Hg; cbn [fbind feqv]; try contradiction; try exact I.
  apply r2_of_rel. destruct R. unfold rss_g. rewrite r_XX0, r_XY0, r_YY0, Hg. field. exact Hx0.
Qed.

Lemma go_r2_rel : feqv (go_r2 S') (go_r2 S).
Proof.
  unfold go_r2. pose proof go_m_rel as Hm. pose proof go_c_rel as Hc.
  destruct (go_m S') as [m'|], (go_m S) as [m|]; cbn in Hm; cbn [fbind feqv]; try contradiction; try exact I.
  destruct (go_c S') as [c'|], (go_c S) as [c|]; cbn in Hc; cbn [fbind feqv]; try contradiction; try exact I.
  apply r2_of_rel. destruct R. unfold rss_go. rewrite r_XX0, r_XY0, r_YY0, r_X0, r_Y0, r_N0, Hm, Hc. field. exact Hx0.
Qed.

(* the in-paint decision uses only the dimensionless R2 > thresh and gain > 0 *)
Lemma go_keep_rel t : go_keep S' t = go_keep S t.
Proof.
  unfold go_keep. f_equal.
  - pose proof go_r2_rel as H. destruct (go_r2 S'), (go_r2 S); cbn in H; cbn [fgt]; try contradiction; try reflexivity.
    f_equal. destruct (Qle_bool q t) eqn:E1; destruct (Qle_bool q0 t) eqn:E2; try reflexivity.
    + apply Qle_bool_iff in E1. rewrite H in E1. apply Qle_bool_iff in E1. congruence.
    + apply Qle_bool_iff in E2. rewrite <- H in E2. apply Qle_bool_iff in E2. congruence.
  - assert (Hk : 0 < ky / kx) by (apply Qlt_shift_div_l; lra).
    rewrite <- (fgt_rel (go_m S') (go_m S) 0 (ky / kx) Hk go_m_rel). apply fgt_proper. ring.
Qed.

Lemma go_regain_rel c' : feqv (go_regain S' (ky * c')) (fmap (fun g => ky / kx * g) (go_regain S c')).
Proof.
  unfold go_regain. destruct R. apply fdiv_rel; [exact Hx0| |exact r_X0]. rewrite r_Y0, r_N0. ring.
Qed.
End Homogeneity.

(* gain-blk-offset: the normalised source carries the REFERENCE's scale, the block gain carries ky/kx *)
Lemma gbo_rel kx ky S S' na nb na' nb' : 0 < kx -> 0 < ky -> sums_rel ky ky S S' ->
  na' == ky / kx * na -> nb' == ky * nb ->
  let '(g', o') := gbo_params S' na' nb' in
  let '(g, o) := gbo_params S na nb in
  feqv g' (fmap (fun x => ky / kx * x) g) /\ feqv o' (fmap (fun x => ky * x) o).
Proof.
  intros Hkx Hky R Ea Eb. unfold gbo_params.
  pose proof (gain_rel ky ky S S' Hky R) as Hg. cbn [gain_params fst] in Hg.
  destruct (fdiv (sY S') (sX S')) as [a|], (fdiv (sY S) (sX S)) as [b|]; cbn in Hg; cbn [fmap feqv]; try contradiction; try tauto.
  assert (E : a == b) by (rewrite Hg; field; lra). split; rewrite E, ?Ea, ?Eb; ring.
Qed.

(* ------------------------------------------------------------------ from blocks to sums *)
(* two blocks related on the kernel window of (i, j): same joint mask, src' = kx * src, ref' = ky * ref there *)
Definition blk_rel_on (kx ky : Q) (b b' : blk) (W : list (Z * Z)) : Prop :=
  forall p, In p W -> jmask b' (fst p) (snd p) = jmask b (fst p) (snd p) /\
                      (jmask b (fst p) (snd p) = true ->
                       sv b' (fst p) (snd p) == kx * sv b (fst p) (snd p) /\ rv b' (fst p) (snd p) == ky * rv b (fst p) (snd p)).

Theorem ksums_rel kx ky b b' kh kw i j : blk_rel_on kx ky b b' (cv_win kw kh i j) ->
  sums_rel kx ky (ksums b kh kw i j) (ksums b' kh kw i j).
Proof.
  intros H. unfold ksums. constructor; cbn [sN sX sY sXY sXX sYY]; unfold cv_box.
  - apply qsum_ext. intros p Hp. destruct (H p Hp) as [Hm _]. unfold zone. rewrite Hm. reflexivity.
  - rewrite <- qsum_scal. apply qsum_ext. intros p Hp. destruct (H p Hp) as [Hm Hv]. unfold zsrc. rewrite Hm.
    destruct (jmask b (fst p) (snd p)); [destruct (Hv eq_refl) as [A _]; rewrite A|]; ring.
  - rewrite <- qsum_scal. apply qsum_ext. intros p Hp. destruct (H p Hp) as [Hm Hv]. unfold zref. rewrite Hm.
    destruct (jmask b (fst p) (snd p)); [destruct (Hv eq_refl) as [_ A]; rewrite A|]; ring.
  - rewrite <- qsum_scal. apply qsum_ext. intros p Hp. destruct (H p Hp) as [Hm Hv]. unfold zsrc, zref. rewrite Hm.
    destruct (jmask b (fst p) (snd p)); [destruct (Hv eq_refl) as [A B]; rewrite A, B|]; ring.
  - rewrite <- qsum_scal. apply qsum_ext. intros p Hp. destruct (H p Hp) as [Hm Hv]. unfold zsrc. rewrite Hm.
    destruct (jmask b (fst p) (snd p)); [destruct (Hv eq_refl) as [A _]; rewrite A|]; ring.
  - rewrite <- qsum_scal. apply qsum_ext. intros p Hp. destruct (H p Hp) as [Hm Hv]. unfold zref. rewrite Hm.
    destruct (jmask b (fst p) (snd p)); [destruct (Hv eq_refl) as [_ A]; rewrite A|]; ring.
Qed.

(* ------------------------------------------------------------------ whole-pixel statement *)
Definition params_rel (kx ky : Q) (p p' : params) : Prop :=
  feqv (p_gain p') (fmap (fun g => ky / kx * g) (p_gain p)) /\
  feqv (p_off p') (fmap (fun o => ky * o) (p_off p)) /\ feqv (p_r2 p') (p_r2 p).
Definition oparams_rel (kx ky : Q) (o o' : option params) : Prop :=
  match o, o' with Some p, Some p' => params_rel kx ky p p' | None, None => True | _, _ => False end.

Lemma norm_blk_rel kx ky b b' na nb na' nb' W : ~ kx == 0 -> na' == ky / kx * na -> nb' == ky * nb ->
  blk_rel_on kx ky b b' W -> blk_rel_on ky ky (norm_blk b na nb) (norm_blk b' na' nb') W.
Proof.
  intros Hk Ea Eb H p Hp. destruct (H p Hp) as [Hm Hv]. split; [exact Hm|]. intros Hj.
  destruct (Hv Hj) as [A B]. cbn [norm_blk sv rv]. split; [|exact B]. rewrite A, Ea, Eb. field. exact Hk.
Qed.

(* the fit at (i, j) of two related blocks: masks agree, gains scale by ky/kx, offsets by ky, R2 and the
   kept / in-painted classification are identical.  [cfill] is the in-paint oracle: offsets scale by ky. *)
Theorem fit_px_rel md kx ky b b' kh kw na nb na' nb' thresh cfill cfill' i j : 0 < kx -> 0 < ky ->
  blk_rel_on kx ky b b' (cv_win kw kh i j) -> jmask b' i j = jmask b i j ->
  na' == ky / kx * na -> nb' == ky * nb -> (cfill' i j == ky * cfill i j) ->
  oparams_rel kx ky (fit_px md b kh kw na nb thresh cfill i j) (fit_px md b' kh kw na' nb' thresh cfill' i j).
Proof.
  intros Hkx Hky Hrel Hm Ea Eb Hfill. unfold fit_px. rewrite Hm. destruct (jmask b i j); cbn [negb]; [|exact I].
  pose proof (ksums_rel kx ky b b' kh kw i j Hrel) as R.
  destruct md.
  - repeat split; cbn [p_gain p_off p_r2].
    + exact (gain_rel kx ky _ _ Hkx R).
    + cbn. ring.
    + exact (gain_r2_rel kx ky _ _ Hkx Hky R).
  - assert (Hx0 : ~ kx == 0) by lra.
    pose proof (ksums_rel ky ky _ _ kh kw i j (norm_blk_rel kx ky b b' na nb na' nb' _ Hx0 Ea Eb Hrel)) as R'.
    pose proof (gbo_rel kx ky _ _ na nb na' nb' Hkx Hky R' Ea Eb) as G.
    destruct (gbo_params (ksums (norm_blk b' na' nb') kh kw i j) na' nb') as [g' o'].
    destruct (gbo_params (ksums (norm_blk b na nb) kh kw i j) na nb) as [g o].
    destruct G as [G1 G2]. repeat split; cbn [p_gain p_off p_r2]; try assumption.
    exact (gain_r2_rel ky ky _ _ Hky Hky R').
  - destruct thresh as [t|].
    + rewrite (go_keep_rel kx ky _ _ Hkx Hky R t). destruct (go_keep (ksums b kh kw i j) t).
      * repeat split; cbn [p_gain p_off p_r2];
          [exact (go_m_rel kx ky _ _ Hkx R)|exact (go_c_rel kx ky _ _ Hkx R)|exact (go_r2_rel kx ky _ _ Hkx Hky R)].
      * repeat split; cbn [p_gain p_off p_r2].
        -- eapply feqv_trans; [|exact (go_regain_rel kx ky _ _ Hkx R (cfill i j))].
           unfold go_regain. apply fdiv_proper; [rewrite Hfill|]; reflexivity.
        -- cbn. exact Hfill.
        -- exact (go_r2_rel kx ky _ _ Hkx Hky R).
    + repeat split; cbn [p_gain p_off p_r2];
        [exact (go_m_rel kx ky _ _ Hkx R)|exact (go_c_rel kx ky _ _ Hkx R)|exact (go_r2_rel kx ky _ _ Hkx Hky R)].
Qed.

(* corrected = gain * src + offset: unchanged by a source scale, multiplied by a reference scale *)
Theorem apply_rel kx ky g g' o o' x : ~ kx == 0 ->
  feqv g' (fmap (fun a => ky / kx * a) g) -> feqv o' (fmap (fun a => ky * a) o) ->
  feqv (apply_px g' o' (kx * x)) (fmap (fun c => ky * c) (apply_px g o x)).
Proof.
  intros Hk Hg Ho. destruct g, g', o, o'; cbn in *; try tauto. rewrite Hg, Ho. field. exact Hk.
Qed.
