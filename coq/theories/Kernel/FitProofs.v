(* C01: the box-filter formulation computes the definitions over the jointly valid kernel window. *)
From Coq Require Import ZArith QArith List Bool Lia Lqa Setoid Morphisms.
From HV Require Import Base.ZRange Base.QSum Kernel.Fit Kernel.Spec.
Import ListNotations.
Open Scope Q_scope.

Lemma fdiv_fin n d : ~ d == 0 -> fdiv n d = Fin (n / d).
Proof. intros H. unfold fdiv. destruct (Qeq_bool d 0) eqn:E; [|reflexivity]. apply Qeq_bool_iff in E. contradiction. Qed.
Lemma fdiv_nonfin n d : d == 0 -> fdiv n d = NonFin.
Proof. intros H. unfold fdiv. apply Qeq_bool_iff in H. rewrite H. reflexivity. Qed.

Section Bridge.
Variables (b : blk) (kh kw i j : Z).
Hypothesis Okh : (kh mod 2 = 1)%Z.
Hypothesis Okw : (kw mod 2 = 1)%Z.

Definition L := jv_window b kh kw i j.
Definition px (p : Z * Z) : Q := sv b (fst p) (snd p).
Definition py (p : Z * Z) : Q := rv b (fst p) (snd p).

(* a zero-border box sum of a mask-zeroed array = the sum over the jointly valid pixels of the kh x kw window *)
Theorem box_is_window_sum (f : Z -> Z -> Q) :
  cv_box (fun u v => if jmask b u v then f u v else 0) kw kh i j == qsum (fun p => f (fst p) (snd p)) L.
Proof.
  unfold cv_box, L, jv_window. rewrite (cv_win_is_kwin kh kw i j Okh Okw).
  rewrite <- (qsum_filter (fun p => jmask b (fst p) (snd p)) (fun p => f (fst p) (snd p))). reflexivity.
Qed.

Let S := ksums b kh kw i j.

Lemma k_N : sN S == n_of _ L.
Proof.
  unfold S, ksums; cbn [sN]. unfold zone. rewrite (box_is_window_sum (fun _ _ => 1)).
  rewrite qsum_const. unfold n_of. ring.
Qed.
Lemma k_X : sX S == Sx _ px L.
Proof. unfold S, ksums; cbn [sX]. unfold zsrc. rewrite (box_is_window_sum (sv b)). reflexivity. Qed.
Lemma k_Y : sY S == Sy _ py L.
Proof. unfold S, ksums; cbn [sY]. unfold zref. rewrite (box_is_window_sum (rv b)). reflexivity. Qed.
Lemma k_XY : sXY S == Sxy _ px py L.
Proof.
  unfold S, ksums; cbn [sXY]. rewrite <- (box_is_window_sum (fun u v => sv b u v * rv b u v)).
  unfold cv_box. apply qsum_ext. intros p _. unfold zsrc, zref. destruct (jmask b (fst p) (snd p)); ring.
Qed.
Lemma k_XX : sXX S == Sxx _ px L.
Proof.
  unfold S, ksums; cbn [sXX]. rewrite <- (box_is_window_sum (fun u v => sv b u v * sv b u v)).
  unfold cv_box. apply qsum_ext. intros p _. unfold zsrc. destruct (jmask b (fst p) (snd p)); ring.
Qed.
Lemma k_YY : sYY S == Syy _ py L.
Proof.
  unfold S, ksums; cbn [sYY]. rewrite <- (box_is_window_sum (fun u v => rv b u v * rv b u v)).
  unfold cv_box. apply qsum_ext. intros p _. unfold zref. destruct (jmask b (fst p) (snd p)); ring.
Qed.

(* ---- gain = ratio of sums *)
Theorem gain_is_ratio_of_sums : ~ Sx _ px L == 0 ->
  exists g, fst (gain_params S) = Fin g /\ g == ratio_of_sums _ px py L /\ snd (gain_params S) = Fin 0.
Proof.
  intros H. unfold gain_params; cbn [fst snd]. rewrite fdiv_fin by (rewrite k_X; exact H).
  eexists; split; [reflexivity|]. split; [|reflexivity]. unfold ratio_of_sums. rewrite k_X, k_Y. reflexivity.
Qed.

(* ---- gain-offset = ordinary least squares *)
Theorem gain_offset_is_ols : ~ ols_den _ px L == 0 -> ~ n_of _ L == 0 ->
  exists m c, go_m S = Fin m /\ go_c S = Fin c /\ m == ols_m _ px py L /\ c == ols_c _ px py L.
Proof.
  intros Hd Hn.
  assert (Ed : go_den S == ols_den _ px L) by (unfold go_den, ols_den; rewrite k_N, k_XX, k_X; reflexivity).
  assert (En : go_num S == n_of _ L * Sxy _ px py L - Sx _ px L * Sy _ py L)
    by (unfold go_num; rewrite k_N, k_XY, k_X, k_Y; reflexivity).
  unfold go_c, go_m. rewrite fdiv_fin by (rewrite Ed; exact Hd). cbn [fbind].
  rewrite fdiv_fin by (rewrite k_N; exact Hn).
  eexists; eexists; split; [reflexivity|]. split; [reflexivity|].
  assert (Em : go_num S / go_den S == ols_m _ px py L) by (unfold ols_m; rewrite En, Ed; reflexivity).
  split; [exact Em|]. unfold ols_c. rewrite Em, k_Y, k_X, k_N. reflexivity.
Qed.

(* ---- R2 = 1 - RSS / TSS of the same window, for a (gain, offset) pair and for a gain-only model *)
Theorem r2_go_is_one_minus_rss_over_tss m c : ~ n_of _ L == 0 -> ~ tss _ py L == 0 ->
  exists r, r2_of S (rss_go S m c) = Fin r /\ r == 1 - rss _ px py L m c / tss _ py L.
Proof.
  intros Hn Ht.
  assert (Et : tss_n S == n_of _ L * tss _ py L).
  { unfold tss_n. rewrite k_N, k_YY, k_Y. rewrite (tss_expand _ py L Hn). reflexivity. }
  assert (Er : rss_go S m c == rss _ px py L m c).
  { unfold rss_go. rewrite k_N, k_XX, k_X, k_XY, k_Y, k_YY. rewrite (rss_expand _ px py L). reflexivity. }
  unfold r2_of. rewrite fdiv_fin.
  - eexists; split; [reflexivity|]. cbn beta. rewrite Et, Er, k_N.
    generalize (rss _ px py L m c) (tss _ py L) (n_of _ L) Hn Ht. intros. field. split; assumption.
  - rewrite Et. intro E. apply Qmult_integral in E. tauto.
Qed.

Theorem r2_g_is_one_minus_rss_over_tss m : ~ n_of _ L == 0 -> ~ tss _ py L == 0 ->
  exists r, r2_of S (rss_g S m) = Fin r /\ r == 1 - rss _ px py L m 0 / tss _ py L.
Proof.
  intros Hn Ht.
  assert (Et : tss_n S == n_of _ L * tss _ py L).
  { unfold tss_n. rewrite k_N, k_YY, k_Y. rewrite (tss_expand _ py L Hn). reflexivity. }
  assert (Er : rss_g S m == rss _ px py L m 0).
  { unfold rss_g. rewrite k_XX, k_XY, k_YY. rewrite (rss_gain_expand _ px py L). reflexivity. }
  unfold r2_of. rewrite fdiv_fin.
  - eexists; split; [reflexivity|]. cbn beta. rewrite Et, Er, k_N.
    generalize (rss _ px py L m 0) (tss _ py L) (n_of _ L) Hn Ht. intros. field. split; assumption.
  - rewrite Et. intro E. apply Qmult_integral in E. tauto.
Qed.

(* ---- the fitted line maps the window's mean source value to its mean reference value *)
Theorem centroid_gain : ~ Sx _ px L == 0 -> ~ n_of _ L == 0 ->
  exists g, fst (gain_params S) = Fin g /\ g * mean_x _ px L + 0 == mean_y _ py L.
Proof.
  intros Hx Hn. destruct (gain_is_ratio_of_sums Hx) as (g & Eg & Hg & _). exists g. split; [exact Eg|].
  rewrite Hg. apply centroid_ratio; assumption.
Qed.
Theorem centroid_gain_offset : ~ ols_den _ px L == 0 -> ~ n_of _ L == 0 ->
  exists m c, go_m S = Fin m /\ go_c S = Fin c /\ m * mean_x _ px L + c == mean_y _ py L.
Proof.
  intros Hd Hn. destruct (gain_offset_is_ols Hd Hn) as (m & c & Em & Ec & Hm & Hc). exists m, c.
  split; [exact Em|]. split; [exact Ec|]. rewrite Hm, Hc. apply centroid; assumption.
Qed.
(* also where the offset was in-painted: for EVERY replacement offset c' *)
Theorem centroid_after_inpaint c' : ~ Sx _ px L == 0 -> ~ n_of _ L == 0 ->
  exists g, go_regain S c' = Fin g /\ g * mean_x _ px L + c' == mean_y _ py L.
Proof.
  intros Hx Hn. unfold go_regain. rewrite fdiv_fin by (rewrite k_X; exact Hx).
  eexists; split; [reflexivity|]. rewrite k_Y, k_N, k_X. apply centroid_regain; assumption.
Qed.
End Bridge.

(* ---- gain-blk-offset: block-normalised ratio of sums, for every block model (a, b) *)
Section BlkOffset.
Variables (b : blk) (kh kw i j : Z) (na nb : Q).
Hypothesis Okh : (kh mod 2 = 1)%Z.
Hypothesis Okw : (kw mod 2 = 1)%Z.
Let Ln := L (norm_blk b na nb) kh kw i j.
Let S' := ksums (norm_blk b na nb) kh kw i j.
Definition pxn (p : Z * Z) : Q := px b p * na + nb.

Lemma norm_window : Ln = L b kh kw i j.
Proof. reflexivity. Qed.

Theorem gain_blk_offset_is_normalised_ratio : ~ Sx _ pxn (L b kh kw i j) == 0 ->
  exists g o, gbo_params S' na nb = (Fin g, Fin o) /\
              g == na * (Sy _ (py b) (L b kh kw i j) / Sx _ pxn (L b kh kw i j)) /\
              o == nb * (Sy _ (py b) (L b kh kw i j) / Sx _ pxn (L b kh kw i j)).
Proof.
  intros Hx. unfold gbo_params.
  assert (EX : sX S' == Sx _ pxn (L b kh kw i j)) by (unfold S'; rewrite (k_X _ kh kw i j Okh Okw); reflexivity).
  assert (EY : sY S' == Sy _ (py b) (L b kh kw i j)) by (unfold S'; rewrite (k_Y _ kh kw i j Okh Okw); reflexivity).
  rewrite fdiv_fin by (rewrite EX; exact Hx). cbn [fmap].
  eexists; eexists; split; [reflexivity|]. rewrite EX, EY. split; ring.
Qed.

(* centroid: gain * mean_s + offset = mean_r, whatever (a, b) *)
Theorem centroid_gain_blk_offset : ~ Sx _ pxn (L b kh kw i j) == 0 -> ~ n_of _ (L b kh kw i j) == 0 ->
  exists g o, gbo_params S' na nb = (Fin g, Fin o) /\
              g * mean_x _ (px b) (L b kh kw i j) + o == mean_y _ (py b) (L b kh kw i j).
Proof.
  intros Hx Hn. destruct (gain_blk_offset_is_normalised_ratio Hx) as (g & o & E & Hg & Ho).
  exists g, o. split; [exact E|]. rewrite Hg, Ho.
  assert (EN : Sx _ pxn (L b kh kw i j) == na * Sx _ (px b) (L b kh kw i j) + nb * n_of _ (L b kh kw i j)).
  { unfold Sx, pxn. rewrite (qsum_ext _ (fun p => na * px b p + nb)) by (intros; ring).
    rewrite qsum_plus, qsum_scal, qsum_const. reflexivity. }
  unfold mean_x, mean_y. rewrite EN in *.
  generalize (Sx _ (px b) (L b kh kw i j)) (Sy _ (py b) (L b kh kw i j)) (n_of _ (L b kh kw i j)) Hx Hn.
  intros. field. split; assumption.
Qed.
End BlkOffset.

(* ---- pixels that are not jointly valid receive no parameters, in any model and setting *)
Theorem no_params_outside_joint_mask md b kh kw na nb thresh cfill i j :
  jmask b i j = false -> fit_px md b kh kw na nb thresh cfill i j = None.
Proof. intros H. unfold fit_px. rewrite H. reflexivity. Qed.

(* ---- and jointly valid pixels always receive a parameter triple (possibly non-finite) *)
Theorem params_on_joint_mask md b kh kw na nb thresh cfill i j :
  jmask b i j = true -> exists p, fit_px md b kh kw na nb thresh cfill i j = Some p.
Proof.
  intros H. unfold fit_px. rewrite H. cbn [negb]. destruct md.
  - eexists; reflexivity.
  - destruct (gbo_params _ _ _). eexists; reflexivity.
  - destruct thresh as [t|]; [destruct (go_keep _ _)|]; eexists; reflexivity.
Qed.
