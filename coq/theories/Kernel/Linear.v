(* C02: an exact linear relation ref = a * src + b on the jointly valid pixels is recovered by every model able to express it.
   C03: positive data never produce a non-finite gain; the corrected pixel is valid exactly when the source pixel is. *)
From Coq Require Import ZArith QArith List Bool Lia Lqa Setoid.
From HV Require Import Base.ZRange Base.QSum Kernel.Fit Kernel.FitProofs Kernel.Laws.
Import ListNotations.
Open Scope Q_scope.

Section LinearBlock.
Variables (b : blk) (a c : Q) (kh kw i j : Z).
Hypothesis Hlin : forall u v, jmask b u v = true -> rv b u v == a * sv b u v + c.
Let S := ksums b kh kw i j.

Lemma lin_Y : sY S == a * sX S + c * sN S.
Proof.
  unfold S, ksums; cbn [sY sX sN]. unfold cv_box. rewrite <- !qsum_scal, <- qsum_plus. apply qsum_ext. intros p _.
  unfold zref, zsrc, zone. destruct (jmask b (fst p) (snd p)) eqn:E; [rewrite (Hlin _ _ E)|]; ring.
Qed.
Lemma lin_XY : sXY S == a * sXX S + c * sX S.
Proof.
  unfold S, ksums; cbn [sXY sXX sX]. unfold cv_box. rewrite <- !qsum_scal, <- qsum_plus. apply qsum_ext. intros p _.
  unfold zref, zsrc. destruct (jmask b (fst p) (snd p)) eqn:E; [rewrite (Hlin _ _ E)|]; ring.
Qed.
Lemma lin_YY : sYY S == a * a * sXX S + 2 * (a * c) * sX S + c * c * sN S.
Proof.
  unfold S, ksums; cbn [sYY sXX sX sN]. unfold cv_box. rewrite <- !qsum_scal, <- !qsum_plus. apply qsum_ext. intros p _.
  unfold zref, zsrc, zone. destruct (jmask b (fst p) (snd p)) eqn:E; [rewrite (Hlin _ _ E)|]; ring.
Qed.

(* gain model (needs c = 0) *)
Theorem recovers_gain : c == 0 -> ~ sX S == 0 -> feqv (fst (gain_params S)) (Fin a).
Proof.
  intros Hc Hx. unfold gain_params; cbn [fst]. rewrite fdiv_fin by exact Hx. cbn [feqv]. rewrite lin_Y, Hc. field. exact Hx.
Qed.
(* gain-offset model: OLS gives exactly (a, c) *)
Theorem recovers_gain_offset : ~ go_den S == 0 -> ~ sN S == 0 -> feqv (go_m S) (Fin a) /\ feqv (go_c S) (Fin c).
Proof.
  intros Hd Hn.
  assert (Em : go_num S / go_den S == a).
  { unfold go_num, go_den in *. rewrite lin_XY, lin_Y. field. exact Hd. }
  unfold go_c, go_m. rewrite fdiv_fin by exact Hd. cbn [fbind]. rewrite fdiv_fin by exact Hn. cbn [feqv]. split; [exact Em|].
  rewrite Em, lin_Y. field. exact Hn.
Qed.
(* the recovered line has zero residual: R2 = 1 wherever the reference varies *)
Lemma rss_zero : rss_go S a c == 0.
Proof. unfold rss_go. rewrite lin_XY, lin_Y, lin_YY. ring. Qed.
Theorem recovers_r2 : ~ tss_n S == 0 -> feqv (r2_of S (rss_go S a c)) (Fin 1).
Proof.
  intros Ht. unfold r2_of. rewrite fdiv_fin by exact Ht. cbn [fmap feqv]. rewrite rss_zero. field. exact Ht.
Qed.
End LinearBlock.

(* gain-blk-offset: when the block normalisation is (a, c) - which std ratio and first-percentile offset give for an increasing affine
   relation (C07_block_norm / exercised) - the normalised source IS the reference, the inner gain is 1 and the parameters are (a, c) *)
Theorem recovers_gain_blk_offset b a c kh kw i j :
  (forall u v, jmask b u v = true -> rv b u v == a * sv b u v + c) ->
  ~ sX (ksums (norm_blk b a c) kh kw i j) == 0 ->
  let '(g, o) := gbo_params (ksums (norm_blk b a c) kh kw i j) a c in feqv g (Fin a) /\ feqv o (Fin c).
Proof.
  intros Hlin Hx. unfold gbo_params.
  assert (Hn : forall u v, jmask (norm_blk b a c) u v = true -> rv (norm_blk b a c) u v == 1 * sv (norm_blk b a c) u v + 0).
  { intros u v Hj. cbn [norm_blk rv sv]. rewrite (Hlin u v Hj). ring. }
  pose proof (lin_Y (norm_blk b a c) 1 0 kh kw i j Hn) as E.
  rewrite fdiv_fin by exact Hx. cbn [fmap feqv]. rewrite E. split; field; exact Hx.
Qed.

(* the corrected value with the recovered parameters is a * src + c *)
Theorem corrected_is_linear a c x : apply_px (Fin a) (Fin c) x = Fin (a * x + c).
Proof. reflexivity. Qed.

(* ------------------------------------------------------------------ C03 *)
(* positive data: the source kernel sum at a jointly valid pixel is strictly positive, so the gain is finite *)
Theorem positive_data_sum_positive b kh kw i j : (1 <= kh)%Z -> (1 <= kw)%Z -> (kh mod 2 = 1)%Z -> (kw mod 2 = 1)%Z ->
  jmask b i j = true -> (forall u v, jmask b u v = true -> 0 < sv b u v) -> 0 < sX (ksums b kh kw i j).
Proof.
  intros H1 H2 O1 O2 Hj Hpos. unfold ksums; cbn [sX]. unfold cv_box.
  assert (Hin : In (i, j) (cv_win kw kh i j)).
  { unfold cv_win. apply in_prod_iff. rewrite !in_zrange.
    pose proof (Z.div_mod kh 2 ltac:(lia)). pose proof (Z.div_mod kw 2 ltac:(lia)). lia. }
  assert (G : forall l, In (i, j) l -> 0 < qsum (fun p => zsrc b (fst p) (snd p)) l).
  { induction l as [|p l IH]; intros Hl; [destruct Hl|]. rewrite qsum_cons.
    assert (Hnn : forall q, 0 <= zsrc b (fst q) (snd q)).
    { intros q. unfold zsrc. destruct (jmask b (fst q) (snd q)) eqn:E; [apply Qlt_le_weak, Hpos, E|apply Qle_refl]. }
    destruct Hl as [->|Hl].
    - cbn [fst snd]. unfold zsrc at 1. rewrite Hj. pose proof (Hpos i j Hj).
      assert (0 <= qsum (fun p => zsrc b (fst p) (snd p)) l) by (apply qsum_nonneg; intros; apply Hnn). lra.
    - specialize (IH Hl). pose proof (Hnn p). lra. }
  apply G. exact Hin.
Qed.

(* one corrected pixel: the parameters' mask is overwritten by the source mask and NaN propagates through gain * src + offset *)
Definition corr_px (src : option Q) (g o : fval) : fval :=
  match src with Some x => apply_px g o x | None => NonFin end.
(* a corrected pixel is valid only if the source pixel is - for ANY parameters, hence for arbitrary resampling *)
Theorem corrected_valid_implies_source_valid src g o q : corr_px src g o = Fin q -> exists x, src = Some x.
Proof. destruct src as [x|]; cbn; [eauto|discriminate]. Qed.
(* conversely a valid source pixel with finite parameters gives a valid corrected pixel *)
Theorem source_valid_finite_params_valid x g o : exists q, corr_px (Some x) (Fin g) (Fin o) = Fin q.
Proof. eexists. reflexivity. Qed.
(* without positivity the source sum can vanish and the pixel is lost: the hypothesis is needed *)
Example negative_data_loses_pixel :
  let b := {| bH := 1; bW := 2; sv := fun u v => if (v =? 0)%Z then 3 else -3; rv := fun _ _ => 5; sm := fun _ _ => true; rm := fun _ _ => true |} in
  fst (gain_params (ksums b 1 3 0 0)) = NonFin.
Proof. vm_compute. reflexivity. Qed.
