(* Blocking is transparent, composed: the block partition of Grid.Window (what raster_pair.block_pairs yields on the processing grid) together
   with the seam lemma of Kernel.Corollaries.  For EVERY block of the partition of the whole processing image, with the overlap fuse hands to
   block_pairs, the fit computed on the block that was read (the image restricted to the block's input window) equals the whole-image fit at
   every pixel of the block's output window - and, since the output windows partition the image, the parameter image assembled block by block
   is the whole-image parameter image, whatever the block shape. *)
From Coq Require Import ZArith QArith List Bool Lia.
From HV Require Import Base.ZRange Base.QSum Grid.Window Grid.WindowProofs Kernel.Fit Kernel.Spec Kernel.Laws Kernel.Corollaries.
Open Scope Z_scope.

Section Blockwise.
Variable b : blk.
Variables kh kw : Z.
Hypothesis Hkh : 1 <= kh /\ kh mod 2 = 1.
Hypothesis Hkw : 1 <= kw /\ kw mod 2 = 1.
Variable bs : Z * Z.
Hypothesis Hbs : 0 < fst bs /\ 0 < snd bs.
Hypothesis Hdim : 0 <= bH b /\ 0 <= bW b.

Definition whole : win := {| w_row := 0; w_col := 0; w_h := bH b; w_w := bW b |}.
Definition kernel_overlap : Z * Z := (overlap_for_kernel kh, overlap_for_kernel kw).
(* what is read for a block: the image seen through the block's input window (everything outside is invalid) *)
Definition block_image (rc : ablk * ablk) : blk :=
  let i := in_of rc in restrict b (w_row i) (w_row i + w_h i) (w_col i) (w_col i + w_w i).

Lemma overlap_nonneg : 0 <= fst kernel_overlap /\ 0 <= snd kernel_overlap.
Proof.
  destruct (overlap_covers_kernel kh (proj1 Hkh) (proj2 Hkh)) as [_ A], (overlap_covers_kernel kw (proj1 Hkw) (proj2 Hkw)) as [_ B].
  pose proof (Z.div_pos (kh - 1) 2 ltac:(lia) ltac:(lia)). pose proof (Z.div_pos (kw - 1) 2 ltac:(lia) ltac:(lia)).
  cbn [kernel_overlap fst snd]. lia.
Qed.

Theorem blocking_transparent rc md na nb thresh cfill i j :
  In rc (proc_blocks2 whole bs kernel_overlap) -> in_win (out_of rc) i j ->
  oparams_eqv (fit_px md b kh kw na nb thresh cfill i j) (fit_px md (block_image rc) kh kw na nb thresh cfill i j).
Proof.
  intros Hin Hij.
  pose proof overlap_nonneg as Hov.
  assert (Hpw : 0 <= w_h whole /\ 0 <= w_w whole) by exact Hdim.
  destruct (proc_in_is_out_grown whole bs kernel_overlap Hbs Hov Hpw rc Hin) as (R1 & R2 & C1 & C2).
  cbv zeta in R1, R2, C1, C2. cbn [whole w_row w_col w_h w_w] in R1, R2, C1, C2.
  unfold block_image. cbv zeta. rewrite R2, C2, R1, C1. rewrite !Z.add_0_l.
  (* the output window lies inside the image *)
  assert (Hins : forall r c, in_win (out_of rc) r c -> in_win whole r c) by (intros r c; apply (proc_out_inside whole bs kernel_overlap Hbs Hov Hpw rc r c Hin)).
  destruct Hij as [Hi Hj].
  set (o := out_of rc) in *.
  assert (Hro : 0 <= w_row o /\ w_row o + w_h o <= bH b /\ 0 <= w_col o /\ w_col o + w_w o <= bW b).
  { pose proof (Hins (w_row o) (w_col o)) as A. pose proof (Hins (w_row o + w_h o - 1) (w_col o + w_w o - 1)) as B.
    unfold in_win in A, B. cbn [whole w_row w_col w_h w_w] in A, B. lia. }
  destruct (overlap_covers_kernel kh (proj1 Hkh) (proj2 Hkh)) as [_ L1], (overlap_covers_kernel kw (proj1 Hkw) (proj2 Hkw)) as [_ L2].
  pose proof (odd_half kh (proj2 Hkh)) as O1. pose proof (odd_half kw (proj2 Hkw)) as O2.
  apply (seam b kh kw (w_row o) (w_h o) (w_col o) (w_w o) (fst kernel_overlap) (snd kernel_overlap) Hkh Hkw);
    cbn [kernel_overlap fst snd]; try lia.
Qed.

(* the parameter image assembled from the blocks: at (i, j) take the fit of ANY block whose output window holds (i, j) - there is exactly
   one (Grid.WindowProofs.proc_out_partition) - and it is the whole-image fit *)
Theorem blockwise_parameter_image_is_whole_image md na nb thresh cfill i j : 0 <= i < bH b -> 0 <= j < bW b ->
  exists rc, In rc (proc_blocks2 whole bs kernel_overlap) /\ in_win (out_of rc) i j /\
    oparams_eqv (fit_px md b kh kw na nb thresh cfill i j) (fit_px md (block_image rc) kh kw na nb thresh cfill i j) /\
    forall rc', In rc' (proc_blocks2 whole bs kernel_overlap) -> in_win (out_of rc') i j ->
      oparams_eqv (fit_px md b kh kw na nb thresh cfill i j) (fit_px md (block_image rc') kh kw na nb thresh cfill i j).
Proof.
  intros Hi Hj. pose proof overlap_nonneg as Hov.
  assert (Hpw : 0 <= w_h whole /\ 0 <= w_w whole) by exact Hdim.
  assert (Hw : in_win whole i j) by (unfold in_win; cbn [whole w_row w_col w_h w_w]; lia).
  destruct (proc_out_partition whole bs kernel_overlap Hbs Hov Hpw i j Hw) as (rc & Hrc).
  assert (Hrc' : In rc (proc_blocks2 whole bs kernel_overlap) /\ in_win (out_of rc) i j).
  { revert Hrc. clear. intros. firstorder. }
  destruct Hrc' as [A B]. exists rc. split; [exact A|]. split; [exact B|]. split.
  - apply blocking_transparent; assumption.
  - intros rc' A' B'. apply blocking_transparent; assumption.
Qed.
End Blockwise.
