(* Finite sums over lists with values in Q (setoid equality ==). *)
From Coq Require Import ZArith QArith List Lia Lqa Setoid Morphisms.
Import ListNotations.
Open Scope Q_scope.

(* [Qred] keeps the running sum in lowest terms (so that evaluation by vm_compute stays small); it is the
   identity up to == *)
Fixpoint qsum {A} (f : A -> Q) (l : list A) : Q :=
  match l with [] => 0 | x :: r => Qred (f x + qsum f r) end.

Lemma qsum_cons {A} (f : A -> Q) x r : qsum f (x :: r) == f x + qsum f r.
Proof. cbn [qsum]. apply Qred_correct. Qed.
Lemma qsum_nil {A} (f : A -> Q) : qsum f [] = 0.
Proof. reflexivity. Qed.
Global Opaque qsum.

Lemma qsum_ext {A} (f g : A -> Q) l : (forall x, In x l -> f x == g x) -> qsum f l == qsum g l.
Proof.
  induction l as [|a l IH]; intros H; [reflexivity|].
  rewrite !qsum_cons, (H a (or_introl eq_refl)), IH; [reflexivity|]. intros; apply H; now right.
Qed.

Lemma qsum_plus {A} (f g : A -> Q) l : qsum (fun x => f x + g x) l == qsum f l + qsum g l.
Proof. induction l as [|a l IH]; [rewrite !qsum_nil; ring|]. rewrite !qsum_cons, IH. ring. Qed.

Lemma qsum_scal {A} (c : Q) (f : A -> Q) l : qsum (fun x => c * f x) l == c * qsum f l.
Proof. induction l as [|a l IH]; [rewrite !qsum_nil; ring|]. rewrite !qsum_cons, IH. ring. Qed.

Lemma qsum_scal_r {A} (c : Q) (f : A -> Q) l : qsum (fun x => f x * c) l == qsum f l * c.
Proof. induction l as [|a l IH]; [rewrite !qsum_nil; ring|]. rewrite !qsum_cons, IH. ring. Qed.

Lemma qsum_const {A} (c : Q) (l : list A) : qsum (fun _ => c) l == c * inject_Z (Z.of_nat (length l)).
Proof.
  induction l as [|a l IH]; [rewrite qsum_nil; cbn [length]; ring|]. cbn [length].
  rewrite qsum_cons, IH, Nat2Z.inj_succ. unfold Z.succ. rewrite inject_Z_plus. ring.
Qed.

Lemma qsum_zero {A} (l : list A) : qsum (fun _ => 0) l == 0.
Proof. induction l as [|a l IH]; [reflexivity|]. rewrite qsum_cons, IH. ring. Qed.

Lemma qsum_app {A} (f : A -> Q) l1 l2 : qsum f (l1 ++ l2) == qsum f l1 + qsum f l2.
Proof. induction l1 as [|a l IH]; [rewrite qsum_nil; cbn [app]; ring|]. cbn [app]. rewrite !qsum_cons, IH. ring. Qed.

Lemma qsum_map {A B} (h : A -> B) (f : B -> Q) l : qsum f (map h l) = qsum (fun x => f (h x)) l.
Proof. Transparent qsum. induction l as [|a l IH]; cbn [qsum map]; [reflexivity|]. rewrite IH. reflexivity. Qed.
Opaque qsum.

Lemma qsum_nonneg {A} (f : A -> Q) l : (forall x, In x l -> 0 <= f x) -> 0 <= qsum f l.
Proof.
  induction l as [|a l IH]; intros H; [rewrite qsum_nil; lra|]. rewrite qsum_cons.
  assert (0 <= f a) by (apply H; now left). assert (0 <= qsum f l) by (apply IH; intros; apply H; now right). lra.
Qed.

Lemma qsum_le {A} (f g : A -> Q) l : (forall x, In x l -> f x <= g x) -> qsum f l <= qsum g l.
Proof.
  induction l as [|a l IH]; intros H; [rewrite !qsum_nil; lra|]. rewrite !qsum_cons.
  assert (f a <= g a) by (apply H; now left). assert (qsum f l <= qsum g l) by (apply IH; intros; apply H; now right). lra.
Qed.

(* sum restricted by a boolean predicate = sum over the filtered list *)
Lemma qsum_filter {A} (p : A -> bool) (f : A -> Q) l :
  qsum (fun x => if p x then f x else 0) l == qsum f (filter p l).
Proof.
  induction l as [|a l IH]; [reflexivity|]. cbn [filter]. destruct (p a) eqn:E; rewrite ?qsum_cons, E, IH; ring.
Qed.

(* permutation invariance: accumulation order does not matter *)
From Coq Require Import Permutation.
Lemma qsum_perm {A} (f : A -> Q) l1 l2 : Permutation l1 l2 -> qsum f l1 == qsum f l2.
Proof.
  induction 1; rewrite ?qsum_cons; try ring.
  - rewrite IHPermutation. reflexivity.
  - rewrite IHPermutation1. exact IHPermutation2.
Qed.

(* sum over a concatenation of blocks = sum of block sums *)
Lemma qsum_concat {A} (f : A -> Q) (ls : list (list A)) :
  qsum f (concat ls) == qsum (fun l => qsum f l) ls.
Proof. induction ls as [|l ls IH]; [reflexivity|]. cbn [concat]. rewrite qsum_app, qsum_cons, IH. reflexivity. Qed.

Lemma Qsq_nonneg (a : Q) : 0 <= a * a.
Proof.
  destruct (Qlt_le_dec a 0) as [H|H].
  - setoid_replace (a * a) with ((- a) * (- a)) by ring. apply Qmult_le_0_compat; lra.
  - apply Qmult_le_0_compat; assumption.
Qed.

(* a sum of squares that vanishes has all terms zero on its support (used for TSS / variance) *)
Lemma qsum_sq_nonneg {A} (f : A -> Q) l : 0 <= qsum (fun x => f x * f x) l.
Proof. apply qsum_nonneg. intros x _. apply Qsq_nonneg. Qed.

Global Instance qsum_Proper {A} (l : list A) :
  Proper (pointwise_relation A Qeq ==> Qeq) (fun f => qsum f l).
Proof. intros f g H. apply qsum_ext. intros x _. apply H. Qed.
