(* Integer ranges: [zrange lo n] (n consecutive integers) and Python's
   range(start, stop, step) by fuel.  Shared by the window and kernel models. *)
From Coq Require Import ZArith List Lia Bool FinFun.
Import ListNotations.
Open Scope Z_scope.

Definition zrange (lo : Z) (n : nat) : list Z := map (fun k => lo + Z.of_nat k) (seq 0 n).

Lemma in_zrange lo n x : In x (zrange lo n) <-> lo <= x < lo + Z.of_nat n.
Proof.
  unfold zrange. rewrite in_map_iff. split.
  - intros (k & <- & Hk). apply in_seq in Hk. lia.
  - intros Hx. exists (Z.to_nat (x - lo)). split; [lia|]. apply in_seq. lia.
Qed.

Lemma zrange_length lo n : length (zrange lo n) = n.
Proof. unfold zrange. now rewrite map_length, seq_length. Qed.

Lemma zrange_NoDup lo n : NoDup (zrange lo n).
Proof.
  unfold zrange. apply Injective_map_NoDup; [|apply seq_NoDup].
  intros a b H. lia.
Qed.

Lemma zrange_shift lo n d : zrange (lo + d) n = map (fun x => x + d) (zrange lo n).
Proof. unfold zrange. rewrite map_map. apply map_ext. intros; lia. Qed.

(* python range(start, stop, step), step > 0, by fuel *)
Fixpoint pyrange (fuel : nat) (start stop step : Z) : list Z :=
  match fuel with
  | O => []
  | S f => if start <? stop then start :: pyrange f (start + step) stop step else []
  end.

Lemma in_pyrange fuel start stop step x : 0 < step ->
  In x (pyrange fuel start stop step) -> exists k, 0 <= k /\ x = start + k * step /\ x < stop.
Proof.
  intros Hs. revert start. induction fuel as [|f IH]; simpl; intros start H; [contradiction|].
  destruct (start <? stop) eqn:E; [|contradiction]. apply Z.ltb_lt in E. destruct H as [<-|H].
  - exists 0. lia.
  - destruct (IH _ H) as (k & ? & -> & ?). exists (k+1). lia.
Qed.

Lemma pyrange_complete fuel start stop step k : 0 < step -> 0 <= k -> start + k*step < stop ->
  (Z.to_nat k < fuel)%nat -> In (start + k*step) (pyrange fuel start stop step).
Proof.
  intros Hs. revert start k. induction fuel as [|f IH]; intros start k Hk Hlt Hf; [lia|]. simpl.
  destruct (start <? stop) eqn:E; [|apply Z.ltb_ge in E; nia].
  destruct (Z.eq_dec k 0) as [->|Hne]; [left; lia|]. right.
  replace (start + k*step) with ((start + step) + (k-1)*step) by lia. apply IH; lia.
Qed.

(* the elements of a python range are strictly increasing by [step] *)
Lemma pyrange_sorted fuel start stop step : 0 < step ->
  forall i j a b, nth_error (pyrange fuel start stop step) i = Some a ->
                  nth_error (pyrange fuel start stop step) j = Some b ->
                  (i < j)%nat -> a < b.
Proof.
  intros Hs. revert start. induction fuel as [|f IH]; intros start i j a b Hi Hj Hij; simpl in *.
  - destruct i; discriminate.
  - destruct (start <? stop) eqn:E; [|destruct i; discriminate].
    destruct j as [|j]; [lia|]. simpl in Hj. destruct i as [|i].
    + simpl in Hi. inversion Hi; subst a. apply nth_error_In in Hj. apply in_pyrange in Hj; [|lia].
      destruct Hj as (k & ? & -> & ?). nia.
    + simpl in Hi. eapply IH; eauto. lia.
Qed.

Lemma pyrange_nth fuel start stop step i a : 0 < step ->
  nth_error (pyrange fuel start stop step) i = Some a -> a = start + Z.of_nat i * step.
Proof.
  intros Hs. revert start i. induction fuel as [|f IH]; intros start i H; simpl in H.
  - destruct i; discriminate.
  - destruct (start <? stop); [|destruct i; discriminate]. destruct i as [|i]; simpl in H.
    + inversion H. lia.
    + apply IH in H. lia.
Qed.
