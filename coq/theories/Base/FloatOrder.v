(* < on binary64 (PrimFloat.ltb) is a strict order: irreflexive and transitive.  Uses the standard library's specification axiom
   FloatAxioms.ltb_spec (PrimFloat.ltb computes SpecFloat.SFltb on the decoded values); SFltb is a lexicographic comparison of
   (sign, exponent, mantissa), proved transitive here by case analysis - no validity of the representation is needed. *)
From Coq Require Import ZArith PArith Bool Lia PrimFloat SpecFloat FloatAxioms.

Lemma pcomp_lt_trans a b c : Pos.compare a b = Lt -> Pos.compare b c = Lt -> Pos.compare a c = Lt.
Proof. rewrite !Pos.compare_lt_iff. lia. Qed.
Lemma pcomp_gt_trans a b c : Pos.compare a b = Gt -> Pos.compare b c = Gt -> Pos.compare a c = Gt.
Proof. rewrite !Pos.compare_gt_iff. lia. Qed.

Lemma SFltb_irrefl x : SFltb x x = false.
Proof.
  unfold SFltb, SFcompare. destruct x as [s|s| |s m e]; try reflexivity; destruct s; try reflexivity.
  - rewrite Z.compare_refl. change (Pcompare m m Eq) with (Pos.compare m m). rewrite Pos.compare_refl. reflexivity.
  - rewrite Z.compare_refl. change (Pcompare m m Eq) with (Pos.compare m m). rewrite Pos.compare_refl. reflexivity.
Qed.

Lemma SFltb_trans x y z : SFltb x y = true -> SFltb y z = true -> SFltb x z = true.
Proof.
  unfold SFltb, SFcompare.
  destruct x as [sx|sx| |sx mx ex], y as [sy|sy| |sy my ey], z as [sz|sz| |sz mz ez];
    try destruct sx; try destruct sy; try destruct sz; cbn; try congruence; try reflexivity.
  all: change (Pcompare ?a ?b Eq) with (Pos.compare a b).
  all: repeat match goal with |- context [Z.compare ?a ?b] => let E := fresh "E" in destruct (Z.compare a b) eqn:E end; cbn; try congruence; try reflexivity.
  all: repeat match goal with
       | H : (_ ?= _)%Z = Eq |- _ => apply Z.compare_eq in H
       | H : (_ ?= _)%Z = Lt |- _ => apply Z.compare_lt_iff in H
       | H : (_ ?= _)%Z = Gt |- _ => apply Z.compare_gt_iff in H
       end; subst; try lia.
  all: repeat match goal with |- context [Pos.compare ?a ?b] => let E := fresh "P" in destruct (Pos.compare a b) eqn:E end; cbn; try congruence; try reflexivity.
  all: intros _ _; exfalso.
  all: repeat match goal with
       | H : (?a ?= ?b)%positive = Eq |- _ => apply Pos.compare_eq in H
       | H : (?a ?= ?b)%positive = Lt |- _ => rewrite Pos.compare_lt_iff in H
       | H : (?a ?= ?b)%positive = Gt |- _ => rewrite Pos.compare_gt_iff in H
       end; subst.
  all: repeat match goal with
       | H : (?a ?= ?a)%Z = _ |- _ => rewrite Z.compare_refl in H; try discriminate
       | H : (_ ?= _)%Z = Eq |- _ => apply Z.compare_eq in H
       | H : (_ ?= _)%Z = Lt |- _ => rewrite Z.compare_lt_iff in H
       | H : (_ ?= _)%Z = Gt |- _ => rewrite Z.compare_gt_iff in H
       end; subst; try discriminate; lia.
Qed.

Theorem float_ltb_irrefl (x : float) : PrimFloat.ltb x x = false.
Proof. rewrite ltb_spec. apply SFltb_irrefl. Qed.
Theorem float_ltb_trans (x y z : float) : PrimFloat.ltb x y = true -> PrimFloat.ltb y z = true -> PrimFloat.ltb x z = true.
Proof. rewrite !ltb_spec. apply SFltb_trans. Qed.
Print Assumptions float_ltb_trans.
