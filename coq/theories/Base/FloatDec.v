(* Exact decoding of binary64 values (PrimFloat) to m * 2^e, and the integer
   rounding functions the implementation applies to doubles (NumPy floor, ceil,
   rint = round-half-even, divmod(x, 1)).  Case files carry every number as a
   primitive-float hex literal; everything downstream is exact Z / Q arithmetic. *)
From Coq Require Import ZArith QArith List Bool Uint63 PrimFloat FloatOps SpecFloat.
Import ListNotations.
Open Scope Z_scope.

(* finite value as (m, e) meaning m * 2^e; None for nan / infinities *)
Definition f2me (f : float) : option (Z * Z) :=
  match Prim2SF f with
  | S754_zero _ => Some (0, 0)
  | S754_finite s m e => Some ((if s then Z.neg m else Z.pos m), e)
  | _ => None
  end.

Definition is_nan (f : float) : bool := match Prim2SF f with S754_nan => true | _ => false end.
Definition is_finite (f : float) : bool := match f2me f with Some _ => true | None => false end.

Definition me_floor (me : Z * Z) : Z := let '(m, e) := me in if 0 <=? e then m * 2 ^ e else m / 2 ^ (- e).
Definition me_ceil (me : Z * Z) : Z := let '(m, e) := me in if 0 <=? e then m * 2 ^ e else - ((- m) / 2 ^ (- e)).
Definition me_trunc (me : Z * Z) : Z := let '(m, e) := me in if 0 <=? e then m * 2 ^ e else Z.quot m (2 ^ (- e)).
(* round half to even *)
Definition me_rint (me : Z * Z) : Z :=
  let '(m, e) := me in
  if 0 <=? e then m * 2 ^ e else
    let d := 2 ^ (- e) in let q := m / d in let r := m mod d in
    if 2 * r <? d then q else if d <? 2 * r then q + 1 else if Z.even q then q else q + 1.
Definition me_Q (me : Z * Z) : Q :=
  let '(m, e) := me in if 0 <=? e then inject_Z (m * 2 ^ e) else (m # Z.to_pos (2 ^ (- e))).
Definition me_is_int (me : Z * Z) : bool :=
  let '(m, e) := me in if 0 <=? e then true else (m mod 2 ^ (- e) =? 0).

(* total versions used when decoding case lists: a non-finite value maps to [dflt] *)
Definition f2z (f : float) : Z := match f2me f with Some me => me_floor me | None => -1 end.
Definition f2n (f : float) : nat := Z.to_nat (f2z f).
Definition f2q (f : float) : option Q := option_map me_Q (f2me f).
Definition f_floor (f : float) : option Z := option_map me_floor (f2me f).
Definition f_ceil (f : float) : option Z := option_map me_ceil (f2me f).
Definition f_rint (f : float) : option Z := option_map me_rint (f2me f).
Definition f_trunc (f : float) : option Z := option_map me_trunc (f2me f).

(* exact embedding of an integer |z| < 2^53 *)
Definition z2f (z : Z) : float :=
  if z <? 0 then PrimFloat.opp (PrimFloat.of_uint63 (Uint63.of_Z (- z))) else PrimFloat.of_uint63 (Uint63.of_Z z).

(* numpy.divmod(x, 1.0) on a finite double: (floor part as Z, fractional part as double).
   npy_divmod: mod = fmod(x,1) (exact, sign of x); if mod < 0 then mod += 1 (rounded!) and div -= 1. *)
Definition np_divmod1 (x : float) : option (Z * float) :=
  match f2me x with
  | None => None
  | Some me =>
    let t := me_trunc me in
    let md := PrimFloat.sub x (z2f t) in
    if PrimFloat.ltb md 0%float then Some (t - 1, PrimFloat.add md 1%float) else Some (t, PrimFloat.abs md)
  end.

(* --- generic helpers for case decoding ------------------------------------------------ *)
Fixpoint take_rows {A} (w : nat) (n : nat) (l : list A) : list (list A) :=
  match n with O => [] | S k => firstn w l :: take_rows w k (skipn w l) end.

Fixpoint failing {A} (chk : A -> bool) (n : nat) (cs : list A) : list nat :=
  match cs with [] => [] | c :: r => (if chk c then [] else [n]) ++ failing chk (S n) r end.
Definition count {A} (p : A -> bool) (cs : list A) : nat := length (filter p cs).

Definition opt_eqb {A} (eqb : A -> A -> bool) (a b : option A) : bool :=
  match a, b with Some x, Some y => eqb x y | None, None => true | _, _ => false end.
Fixpoint list_eqb {A} (eqb : A -> A -> bool) (a b : list A) : bool :=
  match a, b with
  | [], [] => true
  | x :: a', y :: b' => eqb x y && list_eqb eqb a' b'
  | _, _ => false
  end.
