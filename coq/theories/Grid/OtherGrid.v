(* C06 on the other grid: the axis blocks' output intervals are consecutive, so their images under ONE
   monotone boundary map tile the image of the processing window. *)
From Coq Require Import ZArith List Bool Lia.
From HV Require Import Base.ZRange Grid.Window Grid.WindowProofs.
Import ListNotations.
Open Scope Z_scope.

Lemma consecutive_nth (l : list (Z * Z)) :
  (forall k a b, nth_error l k = Some a -> nth_error l (S k) = Some b -> snd a = fst b) -> consecutive l.
Proof.
  induction l as [|a r IH]; intros H; cbn [consecutive]; [exact I|]. split.
  - destruct r as [|b r']; [exact I|]. apply (H 0%nat a b); reflexivity.
  - apply IH. intros k x y Hx Hy. apply (H (S k) x y); assumption.
Qed.

Lemma last_nth_error {A} (l : list A) d : l <> [] -> nth_error l (length l - 1) = Some (last l d).
Proof.
  induction l as [|a r IH]; intros Hne; [congruence|]. destruct r as [|b r'].
  - reflexivity.
  - cbn [length]. replace (S (S (length r')) - 1)%nat with (S (length (b :: r') - 1)) by (cbn [length]; lia).
    cbn [nth_error]. rewrite IH by discriminate. reflexivity.
Qed.

Definition out_iv (b : ablk) : Z * Z := (out_lo b, out_hi b).

Section OtherAxis.
Variables off n bs ov : Z.
Hypothesis Hbs : 0 < bs.
Hypothesis Hn : 0 < n.
Variable g : Z -> Z.                       (* np.round of the image of an integer corner *)
Hypothesis Hg : forall a b, a <= b -> g a <= g b.

Let ivs := map out_iv (axis_blocks off n bs ov).

Lemma ivs_consecutive : consecutive ivs.
Proof.
  apply consecutive_nth. intros k a b Ha Hb. unfold ivs in *. rewrite nth_error_map in Ha, Hb.
  destruct (nth_error (axis_blocks off n bs ov) k) as [b1|] eqn:E1; [|discriminate].
  destruct (nth_error (axis_blocks off n bs ov) (S k)) as [b2|] eqn:E2; [|discriminate].
  inversion Ha; inversion Hb; subst. cbn [fst snd out_iv].
  apply (axis_blocks_consecutive off n bs ov Hbs ltac:(lia) k b1 b2 E1 E2).
Qed.

(* every other-grid coordinate in [g off, g (off+n)) lies in the image of exactly one block *)
Theorem other_axis_partition x : g off <= x < g (off + n) ->
  exists k b, nth_error (axis_blocks off n bs ov) k = Some b /\ g (out_lo b) <= x < g (out_hi b) /\
              forall k' b', nth_error (axis_blocks off n bs ov) k' = Some b' -> g (out_lo b') <= x < g (out_hi b') -> k' = k.
Proof.
  intros Hx.
  assert (Hne : axis_blocks off n bs ov <> []) by (apply axis_blocks_nonempty; lia).
  assert (Hne' : ivs <> []) by (unfold ivs; destruct (axis_blocks off n bs ov); [congruence|discriminate]).
  assert (Hwf : forall iv, In iv ivs -> fst iv <= snd iv).
  { intros iv Hin. unfold ivs in Hin. apply in_map_iff in Hin. destruct Hin as (b & <- & Hb).
    pose proof (axis_out_wf off n bs ov Hbs ltac:(lia) b Hb). cbn. lia. }
  assert (Hhd : fst (hd (0,0) ivs) = off).
  { unfold ivs. destruct (axis_blocks off n bs ov) as [|b0 r] eqn:E; [congruence|]. cbn [map hd fst out_iv].
    apply (axis_blocks_first off n bs ov Hbs ltac:(lia)). rewrite E. reflexivity. }
  assert (Hlast : snd (last ivs (0,0)) = off + n).
  { pose proof (last_nth_error ivs (0,0) Hne') as Hl.
    assert (Hl2 : nth_error ivs (length ivs - 1) =
                  option_map out_iv (nth_error (axis_blocks off n bs ov) (length (axis_blocks off n bs ov) - 1))).
    { unfold ivs. rewrite map_length, nth_error_map. reflexivity. }
    rewrite Hl2 in Hl.
    destruct (nth_error (axis_blocks off n bs ov) (length (axis_blocks off n bs ov) - 1)) as [bl|] eqn:E; [|discriminate].
    cbn [option_map] in Hl. assert (Hl' : last ivs (0,0) = out_iv bl) by congruence. rewrite Hl'. cbn [snd out_iv].
    apply (axis_blocks_last off n bs ov Hbs ltac:(lia) bl Hn E). }
  destruct (tiling_mono g ivs Hg ivs_consecutive Hwf Hne' x) as (k & iv & Hk & Hin & Hu).
  { rewrite Hhd, Hlast. exact Hx. }
  unfold ivs in Hk. rewrite nth_error_map in Hk.
  destruct (nth_error (axis_blocks off n bs ov) k) as [b|] eqn:E; [|discriminate]. inversion Hk; subst iv.
  exists k, b. split; [exact E|]. split; [exact Hin|].
  intros k' b' Hk' Hin'. apply (Hu k' (out_iv b')); [|exact Hin'].
  unfold ivs. rewrite nth_error_map, Hk'. reflexivity.
Qed.
End OtherAxis.
