(* utils.covers_bounds (lines 228-254): im1 covers im2 iff the window of im2's bounds in im1's pixel
   coordinates lies inside im1, the lower-right corner to within [tol] pixels (float noise of the window
   coordinates).  Rational geometry; the window itself is an oracle (rasterio). *)
From Coq Require Import ZArith QArith Bool Lia Lqa Uint63 PrimFloat.
From HV Require Import Base.FloatDec.
Open Scope Q_scope.

(* decision of the repaired code on a window (row_off, col_off, height, width) and image shape (H, W):
   not (any(ul < 0) or any(ul + shape > im.shape + tol)) *)
Definition covers (tol roff coff h w : Q) (H W : Z) : bool :=
  Qle_bool 0 roff && Qle_bool 0 coff && Qle_bool (roff + h) (inject_Z H + tol) && Qle_bool (coff + w) (inject_Z W + tol).
(* the code before the fix compared the window SIZE with the image size *)
Definition covers_legacy (roff coff h w : Q) (H W : Z) : bool :=
  Qle_bool 0 roff && Qle_bool 0 coff && Qle_bool h (inject_Z H) && Qle_bool w (inject_Z W).

(* the same decision with NumPy's double arithmetic, bit for bit (what the correspondence compares) *)
Definition tol_f : float := 0x1.0c6f7a0b5ed8dp-20%float.     (* the double 1e-6 *)
Definition covers_f (roff coff h w : float) (H W : Z) : bool :=
  negb (PrimFloat.ltb roff 0 || PrimFloat.ltb coff 0
        || PrimFloat.ltb (PrimFloat.add (z2f H) tol_f) (PrimFloat.add roff h)
        || PrimFloat.ltb (PrimFloat.add (z2f W) tol_f) (PrimFloat.add coff w)).

Lemma covers_true tol roff coff h w H W :
  covers tol roff coff h w H W = true <->
  (0 <= roff /\ 0 <= coff /\ roff + h <= inject_Z H + tol /\ coff + w <= inject_Z W + tol).
Proof. unfold covers. rewrite !andb_true_iff, !Qle_bool_iff. tauto. Qed.

(* north-up geometry: reference origin (X0, Y0), square pixels res > 0, shape (H, W);
   source footprint (l, b, r, t).  The window rasterio computes, in exact arithmetic: *)
Section Geometry.
Variables X0 Y0 res l b r t tol : Q.
Variables H W : Z.
Hypothesis Hres : 0 < res.
Definition win_coff := (l - X0) / res.
Definition win_roff := (Y0 - t) / res.
Definition win_w := (r - l) / res.
Definition win_h := (t - b) / res.

Lemma div_le_iff a c : a / res <= c <-> a <= c * res.
Proof.
  split; intros E.
  - assert (a == (a / res) * res) as -> by (field; lra). apply Qmult_le_compat_r; lra.
  - apply Qle_shift_div_r; assumption.
Qed.
Lemma le_div_iff a c : c <= a / res <-> c * res <= a.
Proof.
  split; intros E.
  - assert (a == (a / res) * res) as -> by (field; lra). apply Qmult_le_compat_r; lra.
  - apply Qle_shift_div_l; assumption.
Qed.

(* accepted iff the source footprint is inside the reference footprint on all four sides
   (right / bottom to within tol pixels) *)
Theorem covers_iff_contains :
  covers tol win_roff win_coff win_h win_w H W = true <->
  (X0 <= l /\ r <= X0 + (inject_Z W + tol) * res /\ Y0 - (inject_Z H + tol) * res <= b /\ t <= Y0).
Proof.
  rewrite covers_true. unfold win_roff, win_coff, win_h, win_w.
  assert (E1 : (Y0 - t) / res + (t - b) / res == (Y0 - b) / res) by (field; lra).
  assert (E2 : (l - X0) / res + (r - l) / res == (r - X0) / res) by (field; lra).
  rewrite E1, E2, !div_le_iff, !le_div_iff. split; intros; repeat split; lra.
Qed.

(* containment (and the very same grid) is always accepted ... *)
Corollary contained_accepted : 0 <= tol ->
  X0 <= l -> r <= X0 + inject_Z W * res -> Y0 - inject_Z H * res <= b -> t <= Y0 ->
  covers tol win_roff win_coff win_h win_w H W = true.
Proof.
  intros Ht A B C D. apply covers_iff_contains. assert (0 <= tol * res) by (apply Qmult_le_0_compat; lra).
  repeat split; lra.
Qed.
(* ... and an overhang of more than tol pixels on ANY side is always rejected *)
Corollary overhang_rejected :
  (l < X0 \/ X0 + (inject_Z W + tol) * res < r \/ b < Y0 - (inject_Z H + tol) * res \/ Y0 < t) ->
  covers tol win_roff win_coff win_h win_w H W = false.
Proof.
  intros Hov. destruct (covers tol win_roff win_coff win_h win_w H W) eqn:E; [|reflexivity].
  apply covers_iff_contains in E. exfalso. lra.
Qed.
End Geometry.

(* D2: the legacy test accepts a source that overhangs on the right only *)
Theorem covers_legacy_refuted :
  exists roff coff h w H W, covers_legacy roff coff h w H W = true /\ covers (1#1000000) roff coff h w H W = false.
Proof. exists 5, 15, 10, 10, 20%Z, 20%Z. split; reflexivity. Qed.

Example covers_example :
  covers (1#1000000) 2 3 10 10 20 20 = true /\ covers (1#1000000) 0 0 20 20 20 20 = true /\ covers (1#1000000) 0 (1#8) 20 20 20 20 = false.
Proof. repeat split; reflexivity. Qed.
