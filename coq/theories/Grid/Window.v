(* Executable model of homonim's window arithmetic:
     raster_pair.RasterPairReader.block_pairs   (integer processing-grid part, lines 376-407)
     raster_pair.RasterPairReader._auto_block_shape (halving loop)
     utils.expand_window_to_grid / round_window_to_grid (bit-exact on doubles)
     utils.overlap_for_kernel / validate_kernel_shape
     raster_array.RasterArray.bounded_window_slices
   No proofs here (see WindowProofs.v) so that the model still runs when a proof breaks. *)
From Coq Require Import ZArith QArith List Bool Uint63 PrimFloat FloatOps.
From HV Require Import Base.ZRange Base.FloatDec.
Import ListNotations.
Open Scope Z_scope.

(* ---------------------------------------------------------------- one axis of block_pairs *)
Record ablk := { in_lo : Z; in_hi : Z; out_lo : Z; out_hi : Z }.

(* block upper-left coordinates: range(off - ov, off + n - ov, bs) *)
Definition uls (off n bs ov : Z) : list Z := pyrange (Z.to_nat n + 1) (off - ov) (off + n - ov) bs.

Definition mk_ablk (off n bs ov ul : Z) : ablk :=
  let br := ul + bs + 2 * ov in
  {| in_lo := Z.max ul off; in_hi := Z.min br (off + n);
     out_lo := Z.max (ul + ov) off; out_hi := Z.min (br - ov) (off + n) |}.

Definition axis_blocks (off n bs ov : Z) : list ablk := map (mk_ablk off n bs ov) (uls off n bs ov).

(* ---------------------------------------------------------------- 2-D blocks, bands outermost *)
Record win := { w_row : Z; w_col : Z; w_h : Z; w_w : Z }.
Definition win_eqb (a b : win) : bool :=
  (w_row a =? w_row b) && (w_col a =? w_col b) && (w_h a =? w_h b) && (w_w a =? w_w b).

Record pblock := { pb_band : nat; pb_in : win; pb_out : win; pb_outer : bool }.

Definition mk_win (r c : Z * Z) : win := (* r = (lo, hi) rows, c = (lo, hi) cols *)
  {| w_row := fst r; w_col := fst c; w_h := snd r - fst r; w_w := snd c - fst c |}.

Definition mk_pblock (pw : win) (band : nat) (rb cb : ablk) : pblock :=
  {| pb_band := band;
     pb_in := mk_win (in_lo rb, in_hi rb) (in_lo cb, in_hi cb);
     pb_out := mk_win (out_lo rb, out_hi rb) (out_lo cb, out_hi cb);
     pb_outer := (in_lo rb <=? w_row pw) || (in_lo cb <=? w_col pw)
                 || (w_row pw + w_h pw <=? in_hi rb) || (w_col pw + w_w pw <=? in_hi cb) |}.

(* itertools.product(ul_row_range, ul_col_range): rows outer, columns inner *)
Definition proc_blocks2 (pw : win) (bs ov : Z * Z) : list (ablk * ablk) :=
  list_prod (axis_blocks (w_row pw) (w_h pw) (fst bs) (fst ov))
            (axis_blocks (w_col pw) (w_w pw) (snd bs) (snd ov)).

Definition proc_blocks (pw : win) (bs ov : Z * Z) (nbands : nat) : list pblock :=
  flat_map (fun b => map (fun rc => mk_pblock pw b (fst rc) (snd rc)) (proc_blocks2 pw bs ov)) (seq 0 nbands).

(* ---------------------------------------------------------------- auto block shape *)
(* block_shape starts as (h, w) floats; the longest side (first index on ties: np.argmax) is
   halved until h*w*4 <= max_bytes.  Halving keeps the values exactly representable so Q is exact. *)
Fixpoint halve_loop (fuel : nat) (h w maxb : Q) : option (Q * Q) :=
  if Qle_bool (h * w * 4) maxb then Some (h, w) else
  match fuel with
  | O => None
  | S f => if Qle_bool w h then halve_loop f (h / 2) w maxb else halve_loop f h (w / 2) maxb
  end.
Definition Qceil (q : Q) : Z := - ((- Qnum q) / Z.pos (Qden q)).
Definition auto_block_shape (h w : Z) (maxb : option Q) : option (Z * Z) :=
  match maxb with
  | None => Some (h, w)   (* max_block_mem = inf *)
  | Some mb =>
    match halve_loop 4000 (inject_Z h) (inject_Z w) mb with
    | None => None
    | Some (bh, bw) => if Qle_bool 1 bh && Qle_bool 1 bw then Some (Qceil bh, Qceil bw) else None
    end
  end.

(* ---------------------------------------------------------------- overlap / kernel validation *)
Definition overlap_for_kernel (k : Z) : Z := - ((- k) / 2).          (* ceil(k / 2) *)
Inductive kmodel := MGain | MGainBlkOffset | MGainOffset.
Definition validate_kernel_shape (m : kmodel) (kh kw : Z) : bool :=
  (kh mod 2 =? 1) && (kw mod 2 =? 1)
  && (match m with MGainOffset => 2 <=? kh * kw | _ => true end)
  && (1 <=? kh) && (1 <=? kw).

(* ---------------------------------------------------------------- float windows *)
(* utils.expand_window_to_grid with expand_pixels = (0, 0): per axis (off, len) -> (int off, int len) *)
Definition expand_axis (off len : float) : option (Z * Z) :=
  match np_divmod1 off with
  | None => None
  | Some (o, frac) =>
    match f_ceil (PrimFloat.add len frac) with Some c => Some (o, c) | None => None end
  end.
(* utils.round_window_to_grid: np.round of (off, off + len) *)
Definition round_axis (off len : float) : option (Z * Z) :=
  match f_rint off, f_rint (PrimFloat.add off len) with
  | Some lo, Some hi => Some (lo, hi - lo)
  | _, _ => None
  end.
(* fixed block_pairs: an other-grid output boundary is np.round of the image of ONE integer
   processing-grid corner; [bnd] is that image (a double handed over by rasterio's Affine) *)
Definition corner_axis (b_lo b_hi : float) : option (Z * Z) :=
  match f_rint b_lo, f_rint b_hi with
  | Some lo, Some hi => Some (lo, hi - lo)
  | _, _ => None
  end.

(* ---------------------------------------------------------------- bounded_window_slices *)
(* one axis: dataset size n, window [off, off+len): bounded window (lo, hi) in dataset coordinates and
   slice (start, stop) into the window-shaped array.  The repaired code clamps so that an empty
   intersection gives an empty bounded window inside the dataset instead of a negative-size one. *)
Definition bounded_axis (n off len : Z) : (Z * Z) * (Z * Z) :=
  let ul := Z.min (Z.max off 0) n in
  let br := Z.max (Z.min (off + len) n) ul in
  ((ul, br), (ul - off, ul - off + (br - ul))).
(* the code before the fix: no clamp (kept to state the refutation of D3) *)
Definition bounded_axis_legacy (n off len : Z) : (Z * Z) * (Z * Z) :=
  let ul := Z.max off 0 in
  let br := Z.min (off + len) n in
  ((ul, br), (ul - off, ul - off + (br - ul))).
