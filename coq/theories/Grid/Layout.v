(* Parameter image band layout: fuse.py:313-319 (band index of parameter k of matched band i), 232-252 (descriptions),
   utils.py:313-330 (validate_param_image).  n = number of matched bands, parameters k = 0 gain, 1 offset, 2 R2. *)
From Coq Require Import ZArith List Bool Lia.
Import ListNotations.
Open Scope Z_scope.

(* indexes = np.arange(param_ra.count) * len(self.src_bands) + band_i + 1 *)
Definition param_index (n i k : Z) : Z := k * n + i + 1.
(* _set_param_metadata: for bi: for param_i, name in zip(range(bi, count, n), [GAIN, OFFSET, R2]): band param_i + 1 gets name
   i.e. the 1-based band b is labelled with parameter number (b - 1) / n *)
Definition label_of (n b : Z) : Z := (b - 1) / n.
(* validate_param_image: suffixes = [gain]*n + [offset]*n + [r2]*n, band j (0-based) must end with suffixes[j] *)
Definition validator_suffix (n j : Z) : Z := j / n.
Definition validator_accepts (n : Z) (labels : list Z) : bool :=
  (0 <? n) && (Z.of_nat (length labels) =? 3 * n)
  && forallb (fun p => snd p =? validator_suffix n (fst p)) (combine (map Z.of_nat (seq 0 (length labels))) labels).

Theorem param_index_range n i k : 0 < n -> 0 <= i < n -> 0 <= k < 3 -> 1 <= param_index n i k <= 3 * n.
Proof. unfold param_index. nia. Qed.

Theorem param_index_injective n i k i' k' : 0 < n -> 0 <= i < n -> 0 <= i' < n -> 0 <= k -> 0 <= k' ->
  param_index n i k = param_index n i' k' -> i = i' /\ k = k'.
Proof. unfold param_index. intros. assert (k = k') by nia. subst. split; lia. Qed.

Theorem param_index_surjective n b : 0 < n -> 1 <= b <= 3 * n ->
  exists i k, 0 <= i < n /\ 0 <= k < 3 /\ param_index n i k = b.
Proof.
  intros Hn Hb. exists ((b - 1) mod n), ((b - 1) / n). unfold param_index.
  pose proof (Z.div_mod (b - 1) n ltac:(lia)). pose proof (Z.mod_pos_bound (b - 1) n Hn).
  assert (0 <= (b - 1) / n) by (apply Z.div_pos; lia).
  assert ((b - 1) / n < 3) by (apply Z.div_lt_upper_bound; lia). lia.
Qed.

(* gain, offset, R2 of the i-th matched band sit in bands i, n+i, 2n+i (1-based: i+1, n+i+1, 2n+i+1) *)
Theorem param_index_layout n i : param_index n i 0 = i + 1 /\ param_index n i 1 = n + i + 1 /\ param_index n i 2 = 2 * n + i + 1.
Proof. unfold param_index. lia. Qed.

(* the description written on band param_index n i k names parameter k, and the validator expects exactly that *)
Theorem labels_match_layout n i k : 0 < n -> 0 <= i < n -> 0 <= k -> label_of n (param_index n i k) = k.
Proof.
  intros Hn Hi Hk. unfold label_of, param_index. replace (k * n + i + 1 - 1) with (i + k * n) by lia.
  rewrite Z.div_add by lia. rewrite Z.div_small by lia. lia.
Qed.
Theorem validator_matches_labels n b : label_of n b = validator_suffix n (b - 1).
Proof. reflexivity. Qed.
