(* C20: windowed reads are total and correct for EVERY integer window; writes are geo-placed and cropped;
   any sequence of block writes refines the abstract "last writer wins" pixel map. *)
From Coq Require Import ZArith List Bool Lia Permutation.
From HV Require Import Base.ZRange Grid.Window Grid.WindowProofs Grid.Dataset.
Import ListNotations.
Open Scope Z_scope.

Section Proofs.
Context {A : Type}.

Ltac bools := repeat match goal with
  | H : _ && _ = true |- _ => apply andb_true_iff in H; destruct H
  | H : _ && _ = false |- _ => apply andb_false_iff in H
  | H : _ || _ = true |- _ => apply orb_true_iff in H
  | H : _ || _ = false |- _ => apply orb_false_iff in H; destruct H
  | H : (_ <=? _) = true |- _ => apply Z.leb_le in H
  | H : (_ <=? _) = false |- _ => apply Z.leb_gt in H
  | H : (_ <? _) = true |- _ => apply Z.ltb_lt in H
  | H : (_ <? _) = false |- _ => apply Z.ltb_ge in H
  end.

(* the array index (i, j) of a window read holds the dataset pixel at (row + i, col + j) when that lies in the
   file (nodata if masked there), and nodata otherwise - for every window: inside, straddling, wholly outside *)
Theorem read_window_spec (ds : @img A) valid is_masked H W nodata (w : win) i j :
  0 <= H -> 0 <= W -> 0 <= w_h w -> 0 <= w_w w -> 0 <= i < w_h w -> 0 <= j < w_w w ->
  read_window ds valid is_masked H W nodata w i j =
  if in_ds H W (w_row w + i) (w_col w + j)
  then (if is_masked && negb (valid (w_row w + i) (w_col w + j)) then nodata else ds (w_row w + i) (w_col w + j))
  else nodata.
Proof.
  intros HH HW Hh Hw Hi Hj. unfold read_window, bounded_axis, in_ds.
  match goal with |- (if ?c then _ else _) = (if ?d then _ else _) => destruct c eqn:Ec; destruct d eqn:Ed end;
    bools; try reflexivity.
  - replace (Z.min (Z.max (w_row w) 0) H + (i - (Z.min (Z.max (w_row w) 0) H - w_row w))) with (w_row w + i) by lia.
    replace (Z.min (Z.max (w_col w) 0) W + (j - (Z.min (Z.max (w_col w) 0) W - w_col w))) with (w_col w + j) by lia.
    reflexivity.
  - exfalso. repeat match goal with H : _ \/ _ |- _ => destruct H end; bools; lia.
  - exfalso. repeat match goal with H : _ \/ _ |- _ => destruct H end; bools; lia.
Qed.

Theorem write_window_spec (ds ds' : @img A) H W a ar ac ah aw (w : win) :
  0 <= H -> 0 <= W -> 0 <= w_h w -> 0 <= w_w w ->
  write_window ds H W a ar ac ah aw w = Some ds' ->
  forall r c, ds' r c = if in_w w r c && in_ds H W r c then a (r - ar) (c - ac) else ds r c.
Proof.
  intros HH HW Hh Hw. unfold write_window, bounded_axis, in_w, in_ds.
  destruct (_ || _) eqn:Eempty.
  - intros E; inversion E; subst ds'. intros r c.
    match goal with |- _ = (if ?d then _ else _) => destruct d eqn:Ed end; [|reflexivity].
    exfalso. bools. destruct Eempty as [E1|E1]; bools; lia.
  - destruct (_ && _) eqn:Efit; [|discriminate]. intros E; inversion E; subst ds'. intros r c. cbn beta.
    match goal with |- (if ?c then _ else _) = (if ?d then _ else _) => destruct c eqn:Ec; destruct d eqn:Ed end;
      bools; try reflexivity; exfalso; repeat match goal with H : _ \/ _ |- _ => destruct H end; bools; lia.
Qed.

(* writing never fails when the cropped window lies inside the array's footprint; an empty crop is a no-op *)
Theorem write_window_total (ds : @img A) H W a ar ac ah aw (w : win) :
  0 <= H -> 0 <= W -> 0 <= w_h w -> 0 <= w_w w ->
  (forall r c, in_w w r c && in_ds H W r c = true -> ar <= r < ar + ah /\ ac <= c < ac + aw) ->
  exists ds', write_window ds H W a ar ac ah aw w = Some ds'.
Proof.
  intros HH HW Hh Hw Hin. unfold write_window, bounded_axis.
  destruct (_ || _) eqn:Eempty; [eexists; reflexivity|]. bools.
  set (rlo := Z.min (Z.max (w_row w) 0) H) in *. set (rhi := Z.max (Z.min (w_row w + w_h w) H) rlo) in *.
  set (clo := Z.min (Z.max (w_col w) 0) W) in *. set (chi := Z.max (Z.min (w_col w + w_w w) W) clo) in *.
  assert (C1 : in_w w rlo clo && in_ds H W rlo clo = true).
  { unfold in_w, in_ds. repeat (apply andb_true_iff; split); try apply Z.leb_le; try apply Z.ltb_lt; lia. }
  assert (C2 : in_w w (rhi - 1) (chi - 1) && in_ds H W (rhi - 1) (chi - 1) = true).
  { unfold in_w, in_ds. repeat (apply andb_true_iff; split); try apply Z.leb_le; try apply Z.ltb_lt; lia. }
  apply Hin in C1. apply Hin in C2.
  assert (E : (ar <=? rlo) && (rhi <=? ar + ah) && (ac <=? clo) && (chi <=? ac + aw) = true).
  { repeat (apply andb_true_iff; split); apply Z.leb_le; lia. }
  rewrite E. eexists; reflexivity.
Qed.

(* reading back ANY window after a write returns what was written where it was written *)
Theorem write_then_read (ds ds' : @img A) H W a ar ac ah aw (w rw : win) nodata i j :
  0 <= H -> 0 <= W -> 0 <= w_h w -> 0 <= w_w w -> 0 <= w_h rw -> 0 <= w_w rw -> 0 <= i < w_h rw -> 0 <= j < w_w rw ->
  write_window ds H W a ar ac ah aw w = Some ds' ->
  read_window ds' (fun _ _ => true) false H W nodata rw i j =
  let r := w_row rw + i in let c := w_col rw + j in
  if in_ds H W r c then (if in_w w r c then a (r - ar) (c - ac) else ds r c) else nodata.
Proof.
  intros HH HW Hh Hw Hrh Hrw Hi Hj Hwr. rewrite read_window_spec by assumption. cbn zeta.
  rewrite (write_window_spec ds ds' H W a ar ac ah aw w HH HW Hh Hw Hwr).
  destruct (in_ds H W (w_row rw + i) (w_col rw + j)) eqn:E; [|reflexivity].
  cbn [andb]. rewrite andb_true_r. reflexivity.
Qed.

(* refinement: a sequence of block writes = the abstract pixel map where the last covering write wins *)
Definition covers_px (H W : Z) (b : @blockw A) (r c : Z) : bool := in_w (b_win b) r c && in_ds H W r c.
Definition abs_px (H W : Z) (bs : list (@blockw A)) (v0 : A) (r c : Z) : A :=
  fold_left (fun v b => if covers_px H W b r c then b_arr b (r - b_r b) (c - b_c b) else v) bs v0.

Theorem write_blocks_refines H W (bs : list (@blockw A)) : 0 <= H -> 0 <= W ->
  (forall b, In b bs -> 0 <= w_h (b_win b) /\ 0 <= w_w (b_win b)) ->
  forall ds ds', write_blocks H W ds bs = Some ds' -> forall r c, ds' r c = abs_px H W bs (ds r c) r c.
Proof.
  intros HH HW. unfold write_blocks, abs_px. induction bs as [|b bs IH]; intros Hwf ds ds' E r c.
  - cbn in *. inversion E. reflexivity.
  - cbn [fold_left] in *. unfold write_block at 2 in E.
    destruct (write_window ds H W (b_arr b) (b_r b) (b_c b) (b_h b) (b_w b) (b_win b)) as [ds1|] eqn:E1.
    + destruct (Hwf b (or_introl eq_refl)) as [W1 W2].
      rewrite (IH ltac:(intros; apply Hwf; now right) ds1 ds' E r c).
      rewrite (write_window_spec ds ds1 H W _ _ _ _ _ _ HH HW W1 W2 E1 r c). reflexivity.
    + exfalso. clear -E. induction bs as [|b' bs' IHb]; cbn in E; [discriminate|]. apply IHb. exact E.
Qed.

(* blocks whose cropped windows are pairwise disjoint (C06) can be written in any order *)
Lemma abs_px_unique H W (bs : list (@blockw A)) b r c : 
  (forall b', In b' bs -> covers_px H W b' r c = true -> b' = b) ->
  forall v0, abs_px H W bs v0 r c =
             if existsb (fun b' => covers_px H W b' r c) bs then b_arr b (r - b_r b) (c - b_c b) else v0.
Proof.
  unfold abs_px. induction bs as [|b0 bs IH]; intros Hu v0; [reflexivity|]. cbn [fold_left existsb].
  rewrite IH by (intros; apply Hu; auto; now right).
  destruct (covers_px H W b0 r c) eqn:E0; cbn [orb].
  - rewrite (Hu b0 (or_introl eq_refl) E0). destruct (existsb _ bs); reflexivity.
  - reflexivity.
Qed.

Lemma existsb_perm {B} (p : B -> bool) l1 l2 : Permutation.Permutation l1 l2 -> existsb p l1 = existsb p l2.
Proof.
  induction 1; cbn [existsb]; try congruence.
  - destruct (p y), (p x); reflexivity.
Qed.

Theorem write_order_free H W (bs bs' : list (@blockw A)) r c v0 :
  Permutation.Permutation bs bs' ->
  (forall b1 b2, In b1 bs -> In b2 bs -> covers_px H W b1 r c = true -> covers_px H W b2 r c = true -> b1 = b2) ->
  abs_px H W bs v0 r c = abs_px H W bs' v0 r c.
Proof.
  intros HP Hu.
  destruct (existsb (fun b' => covers_px H W b' r c) bs) eqn:Ex.
  - apply existsb_exists in Ex. destruct Ex as (b & Hb & Hc).
    rewrite (abs_px_unique H W bs b r c) by (intros; apply Hu; auto).
    rewrite (abs_px_unique H W bs' b r c).
    + rewrite <- (existsb_perm _ _ _ HP). reflexivity.
    + intros b' Hb' Hc'. apply Hu; auto. eapply Permutation.Permutation_in; [apply Permutation.Permutation_sym; exact HP|exact Hb'].
  - assert (Hn : forall l, existsb (fun b' => covers_px H W b' r c) l = false -> abs_px H W l v0 r c = v0).
    { unfold abs_px. induction l as [|x l IHl]; cbn [fold_left existsb]; intros E; [reflexivity|].
      apply orb_false_iff in E. destruct E as [E1 E2]. rewrite E1. apply IHl. exact E2. }
    rewrite (Hn bs Ex). rewrite (existsb_perm _ _ _ HP) in Ex. rewrite (Hn bs' Ex). reflexivity.
Qed.
End Proofs.
