(* Windowed dataset I/O:  RasterArray.from_rio_dataset (boundless read, lines 130-199) and
   RasterArray.to_rio_dataset / slice_to_bounds (cropped, geo-placed write, lines 393-500), one band.
   A dataset is a total function of its (row, col); only 0 <= row < H, 0 <= col < W is "in the file". *)
From Coq Require Import ZArith List Bool Lia.
From HV Require Import Base.ZRange Grid.Window.
Import ListNotations.
Open Scope Z_scope.

Section IO.
Context {A : Type}.
Definition img := Z -> Z -> A.

Definition in_ds (H W r c : Z) : bool := (0 <=? r) && (r <? H) && (0 <=? c) && (c <? W).
Definition in_w (w : win) (r c : Z) : bool :=
  (w_row w <=? r) && (r <? w_row w + w_h w) && (w_col w <=? c) && (c <? w_col w + w_w w).

(* from_rio_dataset: the array has the window's shape and is filled with nodata; the bounded part of the
   window is read into the bounded slices; where the dataset is masked (internal mask / alpha) invalid
   pixels are overwritten with nodata.  Index (i, j) is the array index. *)
Definition read_window (ds : img) (valid : Z -> Z -> bool) (is_masked : bool) (H W : Z) (nodata : A) (w : win)
  : Z -> Z -> A :=
  let '((rlo, rhi), (rs0, rs1)) := bounded_axis H (w_row w) (w_h w) in
  let '((clo, chi), (cs0, cs1)) := bounded_axis W (w_col w) (w_w w) in
  fun i j =>
    if (rlo <? rhi) && (clo <? chi) && (rs0 <=? i) && (i <? rs1) && (cs0 <=? j) && (j <? cs1)
    then let r := rlo + (i - rs0) in let c := clo + (j - cs0) in
         if is_masked && negb (valid r c) then nodata else ds r c
    else nodata.

(* to_rio_dataset: array [a] of shape (ah, aw) whose pixel (0,0) lies at dataset pixel (ar, ac); the window is
   cropped to the dataset, the array is cropped to the cropped window (ValueError = None when the window is
   not inside the array), and written there.  An empty crop writes nothing. *)
Definition write_window (ds : img) (H W : Z) (a : Z -> Z -> A) (ar ac ah aw : Z) (w : win) : option img :=
  let '((rlo, rhi), _) := bounded_axis H (w_row w) (w_h w) in
  let '((clo, chi), _) := bounded_axis W (w_col w) (w_w w) in
  if (rhi <=? rlo) || (chi <=? clo) then Some ds
  else if (ar <=? rlo) && (rhi <=? ar + ah) && (ac <=? clo) && (chi <=? ac + aw)
  then Some (fun r c => if (rlo <=? r) && (r <? rhi) && (clo <=? c) && (c <? chi) then a (r - ar) (c - ac) else ds r c)
  else None.

(* a geo-placed block: array, origin, shape and the window it is written to *)
Record blockw := { b_arr : Z -> Z -> A; b_r : Z; b_c : Z; b_h : Z; b_w : Z; b_win : win }.
Definition write_block (H W : Z) (ods : option img) (b : blockw) : option img :=
  match ods with None => None | Some ds => write_window ds H W (b_arr b) (b_r b) (b_c b) (b_h b) (b_w b) (b_win b) end.
Definition write_blocks (H W : Z) (ds : img) (bs : list blockw) : option img := fold_left (write_block H W) bs (Some ds).
End IO.
