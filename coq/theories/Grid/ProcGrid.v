(* raster_pair._resolve_proc_crs (lines 193-224) and utils.combine_profiles (273-310). *)
From Coq Require Import ZArith QArith Qabs List String Bool Lia Lqa.
Import ListNotations.

Inductive pcrs := PAuto | PSrc | PRef.
(* pixel areas |res_x * res_y| of source and reference *)
Definition resolve (req : pcrs) (src_area ref_area : Q) : pcrs :=
  match req with
  | PAuto => if Qle_bool src_area ref_area then PRef else PSrc
  | p => p
  end.
Definition area_of (p : pcrs) (src_area ref_area : Q) : Q := match p with PSrc => src_area | _ => ref_area end.

(* under auto the processing grid is the coarser of the two images (the larger pixel) *)
Theorem auto_is_coarser src_area ref_area :
  let p := resolve PAuto src_area ref_area in
  (src_area <= area_of p src_area ref_area /\ ref_area <= area_of p src_area ref_area)%Q /\ p <> PAuto.
Proof.
  unfold resolve. destruct (Qle_bool src_area ref_area) eqn:E; cbn.
  - apply Qle_bool_iff in E. repeat split; try lra. discriminate.
  - assert (~ (src_area <= ref_area)%Q) by (intro H; apply Qle_bool_iff in H; congruence).
    repeat split; try lra. discriminate.
Qed.
(* on an exact tie either image is "the coarser one": the code's choice (the reference) is one of two that satisfy the statement,
   so the correspondence accepts both there *)
Theorem tie_either a b p : (a == b)%Q -> p <> PAuto -> (a <= area_of p a b /\ b <= area_of p a b)%Q.
Proof. intros E Hp. destruct p; [congruence| |]; cbn; split; lra. Qed.
Definition resolve_ok (req : pcrs) (a b : Q) (obs : pcrs) : bool :=
  match obs with
  | PAuto => false
  | _ => match req with
         | PAuto => if Qeq_bool a b then true else match resolve PAuto a b, obs with PSrc, PSrc | PRef, PRef => true | _, _ => false end
         | PSrc => match obs with PSrc => true | _ => false end
         | PRef => match obs with PRef => true | _ => false end
         end
  end.
Lemma resolve_ok_self req a b : resolve_ok req a b (resolve req a b) = true.
Proof. unfold resolve_ok, resolve. destruct req; try reflexivity. destruct (Qle_bool a b); destruct (Qeq_bool a b); reflexivity. Qed.
Theorem resolve_ok_sound a b obs : resolve_ok PAuto a b obs = true -> (a <= area_of obs a b /\ b <= area_of obs a b)%Q /\ obs <> PAuto.
Proof.
  unfold resolve_ok. destruct obs; [discriminate| |]; destruct (Qeq_bool a b) eqn:E.
  - intros _. apply Qeq_bool_iff in E. split; [apply tie_either; [exact E|discriminate]|discriminate].
  - pose proof (auto_is_coarser a b) as H. cbv zeta in H. destruct (resolve PAuto a b); try discriminate. intros _. exact H.
  - intros _. apply Qeq_bool_iff in E. split; [apply tie_either; [exact E|discriminate]|discriminate].
  - pose proof (auto_is_coarser a b) as H. cbv zeta in H. destruct (resolve PAuto a b); try discriminate. intros _. exact H.
Qed.
Theorem explicit_is_kept req a b : req <> PAuto -> resolve req a b = req.
Proof. destruct req; intros H; [congruence|reflexivity|reflexivity]. Qed.

(* combine_profiles: the output profile starts from the input image's profile and is updated with the flattened
   configuration; a key is changed only if the configuration mentions it *)
Open Scope string_scope.
Section Profiles.
Variable V : Type.
Definition prof := list (string * V).
Fixpoint lookup (k : string) (p : prof) : option V :=
  match p with [] => None | (k', v) :: r => if String.eqb k k' then Some v else lookup k r end.
Definition update (p : prof) (k : string) (v : V) : prof := (k, v) :: p.      (* dict.__setitem__: later lookups see v *)
Definition combine (inp cfg : prof) : prof := fold_left (fun p kv => update p (fst kv) (snd kv)) cfg inp.

Lemma lookup_combine_other inp cfg k : ~ In k (map fst cfg) -> lookup k (combine inp cfg) = lookup k inp.
Proof.
  unfold combine. revert inp. induction cfg as [|[k' v] cfg IH]; intros inp Hn; [reflexivity|]. cbn [fold_left fst snd].
  rewrite IH by (intro H; apply Hn; now right). unfold update. cbn [lookup].
  destruct (String.eqb k k') eqn:E; [|reflexivity]. apply String.eqb_eq in E. subst. exfalso. apply Hn. now left.
Qed.

(* size, CRS and geo-transform of the output are those of the input profile whenever the configuration does not name them *)
Theorem geometry_from_input inp cfg : (forall k, In k ["width"; "height"; "crs"; "transform"] -> ~ In k (map fst cfg)) ->
  forall k, In k ["width"; "height"; "crs"; "transform"] -> lookup k (combine inp cfg) = lookup k inp.
Proof. intros H k Hk. apply lookup_combine_other. apply H. exact Hk. Qed.
End Profiles.

(* ------------------------------------------------------------------ which image is viewed through a WarpedVRT (utils.same_orientation_crs)
   snu / rnu: source / reference stored north-up; same: same CRS; psrc: the processing grid is the source grid.
   An image that is not north-up is re-gridded in its own CRS (its north-up self: same pixels, C18's south-up clause); when the CRSs differ,
   the image on the PROCESSING grid is re-projected into the other image's CRS. *)
Definition vrt_src_flip (snu rnu same psrc : bool) : bool := negb snu && (same || negb psrc).
Definition vrt_ref_flip (snu rnu same psrc : bool) : bool := negb rnu && (same || psrc).
Definition vrt_src_to_ref_crs (snu rnu same psrc : bool) : bool := negb same && psrc.
Definition vrt_ref_to_src_crs (snu rnu same psrc : bool) : bool := negb same && negb psrc.
(* the corrected image takes its profile (CRS, transform, size) from the source AS THE READER SEES IT: it is in the source's own CRS
   exactly when the source is not re-projected into the reference's *)
Definition corrected_in_source_crs (snu rnu same psrc : bool) : bool := negb (vrt_src_to_ref_crs snu rnu same psrc).

Theorem corrected_in_source_crs_iff snu rnu same psrc :
  corrected_in_source_crs snu rnu same psrc = true <-> same = true \/ psrc = false.
Proof. unfold corrected_in_source_crs, vrt_src_to_ref_crs. destruct same, psrc; cbn; intuition congruence. Qed.
(* at most one of the two images changes CRS, and never both; with one CRS neither does *)
Theorem one_image_changes_crs snu rnu same psrc :
  vrt_src_to_ref_crs snu rnu same psrc && vrt_ref_to_src_crs snu rnu same psrc = false /\
  (same = true -> vrt_src_to_ref_crs snu rnu same psrc = false /\ vrt_ref_to_src_crs snu rnu same psrc = false) /\
  (same = false -> vrt_src_to_ref_crs snu rnu same psrc || vrt_ref_to_src_crs snu rnu same psrc = true).
Proof. unfold vrt_src_to_ref_crs, vrt_ref_to_src_crs. destruct same, psrc; cbn; repeat split; intros; try reflexivity; try discriminate. Qed.
(* known finding D18: different CRSs and the source as processing grid - the corrected image is NOT in the source's CRS *)
Theorem mixed_crs_source_grid_refuted : exists snu rnu same psrc, corrected_in_source_crs snu rnu same psrc = false.
Proof. exists true, true, false, true. reflexivity. Qed.
