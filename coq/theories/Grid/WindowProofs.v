(* Theorems about the window model: unbounded in every size, offset, block shape and overlap. *)
From Coq Require Import ZArith List Bool Lia.
From HV Require Import Base.ZRange Grid.Window.
Import ListNotations.
Open Scope Z_scope.

(* ------------------------------------------------------------------ one axis *)
Section Axis.
Variables off n bs ov : Z.
Hypothesis Hbs : 0 < bs.
Hypothesis Hov : 0 <= ov.
Hypothesis Hn : 0 <= n.

Definition covers (b : ablk) (x : Z) : Prop := out_lo b <= x < out_hi b.

Lemma in_uls ul : In ul (uls off n bs ov) <-> exists k, 0 <= k /\ ul = off - ov + k * bs /\ off + k * bs < off + n.
Proof.
  unfold uls. split.
  - intros H. apply in_pyrange in H; [|exact Hbs]. destruct H as (k & Hk & -> & Hlt). exists k. lia.
  - intros (k & Hk & -> & Hlt). apply pyrange_complete; try lia. assert (k <= n) by nia. lia.
Qed.

(* every pixel of the window lies in exactly one output interval *)
Theorem axis_partition x : off <= x < off + n ->
  exists b, In b (axis_blocks off n bs ov) /\ covers b x /\
            forall b', In b' (axis_blocks off n bs ov) -> covers b' x -> b' = b.
Proof.
  intros Hx. set (k := (x - off) / bs).
  assert (Hk : 0 <= k) by (apply Z.div_pos; lia).
  assert (Hkx : off + k * bs <= x < off + (k + 1) * bs).
  { pose proof (Z.div_mod (x - off) bs ltac:(lia)) as Hdm.
    pose proof (Z.mod_pos_bound (x - off) bs Hbs). fold k in Hdm. nia. }
  exists (mk_ablk off n bs ov (off - ov + k * bs)). split; [|split].
  - unfold axis_blocks. apply in_map. apply in_uls. exists k. lia.
  - unfold covers, mk_ablk; cbn [out_lo out_hi]. lia.
  - intros b' Hin Hc. unfold axis_blocks in Hin. apply in_map_iff in Hin. destruct Hin as (ul' & <- & Hul').
    apply in_uls in Hul'. destruct Hul' as (k' & Hk' & -> & Hlt).
    unfold covers, mk_ablk in Hc; cbn [out_lo out_hi] in Hc.
    assert (k' = k) by nia. subst; reflexivity.
Qed.

(* output intervals are non-empty and inside the window; no two overlap (a corollary of uniqueness) *)
Theorem axis_out_wf b : In b (axis_blocks off n bs ov) -> off <= out_lo b < out_hi b /\ out_hi b <= off + n.
Proof.
  unfold axis_blocks. intros Hin. apply in_map_iff in Hin. destruct Hin as (ul & <- & Hul).
  apply in_uls in Hul. destruct Hul as (k & Hk & -> & Hlt). unfold mk_ablk; cbn [out_lo out_hi]. nia.
Qed.

Theorem axis_out_disjoint b1 b2 x : In b1 (axis_blocks off n bs ov) -> In b2 (axis_blocks off n bs ov) ->
  covers b1 x -> covers b2 x -> b1 = b2.
Proof.
  intros H1 H2 C1 C2.
  assert (Hx : off <= x < off + n).
  { pose proof (axis_out_wf b1 H1). unfold covers in C1. lia. }
  destruct (axis_partition x Hx) as (b & _ & _ & Hu). rewrite (Hu b1 H1 C1), (Hu b2 H2 C2). reflexivity.
Qed.

(* each input interval is the output interval grown by the overlap, clipped to the window *)
Theorem axis_in_is_out_grown b : In b (axis_blocks off n bs ov) ->
  in_lo b = Z.max off (out_lo b - ov) /\ in_hi b = Z.min (off + n) (out_hi b + ov).
Proof.
  unfold axis_blocks. intros Hin. apply in_map_iff in Hin. destruct Hin as (ul & <- & Hul).
  apply in_uls in Hul. destruct Hul as (k & Hk & -> & Hlt).
  unfold mk_ablk; cbn [in_lo in_hi out_lo out_hi]. nia.
Qed.

Corollary axis_in_contains_out b : In b (axis_blocks off n bs ov) ->
  in_lo b <= out_lo b /\ out_hi b <= in_hi b /\ off <= in_lo b /\ in_hi b <= off + n.
Proof.
  intros Hin. destruct (axis_in_is_out_grown b Hin) as [E1 E2]. pose proof (axis_out_wf b Hin). lia.
Qed.

(* k-th block explicitly: output boundaries are off + k*bs, clipped at the end: consecutive blocks share them *)
Lemma axis_blocks_nth k b : nth_error (axis_blocks off n bs ov) k = Some b ->
  out_lo b = off + Z.of_nat k * bs /\ out_hi b = Z.min (off + (Z.of_nat k + 1) * bs) (off + n).
Proof.
  unfold axis_blocks. rewrite nth_error_map. destruct (nth_error (uls off n bs ov) k) as [ul|] eqn:E; [|discriminate].
  intros H; inversion H; subst b; clear H. unfold uls in E.
  pose proof (pyrange_nth _ _ _ _ _ _ Hbs E) as ->. unfold mk_ablk; cbn [out_lo out_hi]. nia.
Qed.

Lemma axis_blocks_consecutive k b1 b2 :
  nth_error (axis_blocks off n bs ov) k = Some b1 -> nth_error (axis_blocks off n bs ov) (S k) = Some b2 ->
  out_hi b1 = out_lo b2.
Proof.
  intros H1 H2. destruct (axis_blocks_nth _ _ H1) as [_ E1]. destruct (axis_blocks_nth _ _ H2) as [E2 _].
  pose proof (axis_out_wf b2 (nth_error_In _ _ H2)) as W. rewrite E1, E2 in *.
  rewrite Nat2Z.inj_succ in *. lia.
Qed.

Lemma axis_blocks_first b : nth_error (axis_blocks off n bs ov) 0 = Some b -> out_lo b = off.
Proof. intros H. destruct (axis_blocks_nth _ _ H) as [E _]. simpl in E. lia. Qed.

Lemma axis_blocks_nonempty : 0 < n -> axis_blocks off n bs ov <> [].
Proof.
  intros Hpos Hnil. destruct (axis_partition off ltac:(lia)) as (b & Hin & _). rewrite Hnil in Hin. destruct Hin.
Qed.

Lemma axis_blocks_last b : 0 < n ->
  nth_error (axis_blocks off n bs ov) (length (axis_blocks off n bs ov) - 1) = Some b -> out_hi b = off + n.
Proof.
  intros Hpos Hl. destruct (axis_partition (off + n - 1) ltac:(lia)) as (b' & Hin & Hc & _).
  apply In_nth_error in Hin. destruct Hin as (k & Hk).
  assert (Hklt : (k < length (axis_blocks off n bs ov))%nat) by (apply nth_error_Some; congruence).
  destruct (axis_blocks_nth _ _ Hk) as [Elo Ehi]. destruct (axis_blocks_nth _ _ Hl) as [Elo' Ehi'].
  unfold covers in Hc. pose proof (axis_out_wf b (nth_error_In _ _ Hl)) as W.
  assert (Z.of_nat k <= Z.of_nat (length (axis_blocks off n bs ov) - 1)) by lia. nia.
Qed.
End Axis.

(* ------------------------------------------------------------------ two axes *)
Definition in_win (w : win) (r c : Z) : Prop := w_row w <= r < w_row w + w_h w /\ w_col w <= c < w_col w + w_w w.

Section TwoD.
Variables (pw : win) (bs ov : Z * Z).
Hypothesis Hbs : 0 < fst bs /\ 0 < snd bs.
Hypothesis Hov : 0 <= fst ov /\ 0 <= snd ov.
Hypothesis Hpw : 0 <= w_h pw /\ 0 <= w_w pw.

Definition out_of (rc : ablk * ablk) : win := mk_win (out_lo (fst rc), out_hi (fst rc)) (out_lo (snd rc), out_hi (snd rc)).
Definition in_of (rc : ablk * ablk) : win := mk_win (in_lo (fst rc), in_hi (fst rc)) (in_lo (snd rc), in_hi (snd rc)).

Lemma in_win_out_of rc r c : in_win (out_of rc) r c <-> covers (fst rc) r /\ covers (snd rc) c.
Proof. unfold in_win, out_of, mk_win, covers; cbn [w_row w_col w_h w_w fst snd]. lia. Qed.

(* C06, processing grid: every pixel of the processing window lies in exactly one output window *)
Theorem proc_out_partition r c : in_win pw r c ->
  exists rc, In rc (proc_blocks2 pw bs ov) /\ in_win (out_of rc) r c /\
             forall rc', In rc' (proc_blocks2 pw bs ov) -> in_win (out_of rc') r c -> rc' = rc.
Proof.
  intros [Hr Hc]. destruct Hbs as [Hb1 Hb2], Hov as [Ho1 Ho2], Hpw as [Hp1 Hp2].
  destruct (axis_partition _ _ _ (fst ov) Hb1 Hp1 r Hr) as (rb & Hrin & Hrc & Hru).
  destruct (axis_partition _ _ _ (snd ov) Hb2 Hp2 c Hc) as (cb & Hcin & Hcc & Hcu).
  exists (rb, cb). split; [|split].
  - unfold proc_blocks2. apply in_prod; assumption.
  - apply in_win_out_of. split; assumption.
  - intros [rb' cb'] Hin Hw. unfold proc_blocks2 in Hin. apply in_prod_iff in Hin. destruct Hin as [H1 H2].
    apply in_win_out_of in Hw. cbn [fst snd] in Hw. destruct Hw as [W1 W2].
    rewrite (Hru rb' H1 W1), (Hcu cb' H2 W2). reflexivity.
Qed.

(* output windows are non-empty and lie inside the processing window *)
Theorem proc_out_inside rc r c : In rc (proc_blocks2 pw bs ov) -> in_win (out_of rc) r c -> in_win pw r c.
Proof.
  destruct Hbs as [Hb1 Hb2], Hov as [Ho1 Ho2], Hpw as [Hp1 Hp2].
  intros Hin Hw. unfold proc_blocks2 in Hin. destruct rc as [rb cb]. apply in_prod_iff in Hin. destruct Hin as [H1 H2].
  apply in_win_out_of in Hw. cbn [fst snd] in Hw. destruct Hw as [W1 W2]. unfold covers in *.
  pose proof (axis_out_wf _ _ _ _ Hb1 Hp1 rb H1). pose proof (axis_out_wf _ _ _ _ Hb2 Hp2 cb H2).
  unfold in_win. lia.
Qed.

(* input window = output window grown by the overlap and clipped to the processing window *)
Theorem proc_in_is_out_grown rc : In rc (proc_blocks2 pw bs ov) ->
  let i := in_of rc in let o := out_of rc in
  w_row i = Z.max (w_row pw) (w_row o - fst ov) /\
  w_row i + w_h i = Z.min (w_row pw + w_h pw) (w_row o + w_h o + fst ov) /\
  w_col i = Z.max (w_col pw) (w_col o - snd ov) /\
  w_col i + w_w i = Z.min (w_col pw + w_w pw) (w_col o + w_w o + snd ov).
Proof.
  destruct Hbs as [Hb1 Hb2], Hov as [Ho1 Ho2], Hpw as [Hp1 Hp2].
  intros Hin. destruct rc as [rb cb]. unfold proc_blocks2 in Hin. apply in_prod_iff in Hin. destruct Hin as [H1 H2].
  destruct (axis_in_is_out_grown _ _ _ _ Hb1 Ho1 Hp1 rb H1) as [A1 A2].
  destruct (axis_in_is_out_grown _ _ _ _ Hb2 Ho2 Hp2 cb H2) as [B1 B2].
  unfold in_of, out_of, mk_win; cbn [w_row w_col w_h w_w fst snd]. lia.
Qed.
End TwoD.

(* ------------------------------------------------------------------ tiling on the other grid *)
(* A list of consecutive intervals (cut points c0 <= c1 <= ... ) mapped through ONE monotone boundary
   function g tiles [g c0, g cm): every x there lies in exactly one image interval.  This is the shape
   of the repaired block_pairs: each other-grid boundary is np.round of the image of one integer
   processing-grid corner, so adjacent blocks share it.  (Before the fix the two sides of a shared
   boundary were computed by two different expressions: see Properties/C06.v, D1.) *)
Fixpoint consecutive (l : list (Z * Z)) : Prop :=
  match l with
  | [] => True
  | a :: r => match r with [] => True | b :: _ => snd a = fst b end /\ consecutive r
  end.

Lemma tiling_mono (g : Z -> Z) (l : list (Z * Z)) :
  (forall a b, a <= b -> g a <= g b) ->
  consecutive l -> (forall iv, In iv l -> fst iv <= snd iv) -> l <> [] ->
  forall x, g (fst (hd (0,0) l)) <= x < g (snd (last l (0,0))) ->
  exists k iv, nth_error l k = Some iv /\ g (fst iv) <= x < g (snd iv) /\
               forall k' iv', nth_error l k' = Some iv' -> g (fst iv') <= x < g (snd iv') -> k' = k.
Proof.
  intros Hg. induction l as [|a r IH]; intros Hc Hwf Hne x Hx; [congruence|].
  destruct r as [|b r'].
  - exists 0%nat, a. cbn in Hx. split; [reflexivity|]. split; [exact Hx|].
    intros [|k'] iv' Hn _; [reflexivity|]. destruct k'; discriminate.
  - cbn [consecutive] in Hc. destruct Hc as [Hab Hc]. cbn [hd] in Hx.
    assert (Hlast : last (a :: b :: r') (0,0) = last (b :: r') (0,0)) by reflexivity. rewrite Hlast in Hx.
    destruct (Z_lt_le_dec x (g (snd a))) as [Hlt|Hge].
    + exists 0%nat, a. split; [reflexivity|]. split; [lia|].
      intros [|k'] iv' Hn Hin; [reflexivity|]. exfalso. cbn in Hn.
      (* every later interval starts at or after snd a *)
      assert (Hmono : forall (l : list (Z*Z)) k iv lo, consecutive l -> (forall iv, In iv l -> fst iv <= snd iv) ->
                lo <= fst (hd (0,0) l) -> nth_error l k = Some iv -> lo <= fst iv).
      { clear. induction l as [|c l IHl]; intros k iv lo Hc Hw Hlo Hn; [destruct k; discriminate|].
        destruct k as [|k]; [inversion Hn; subst; exact Hlo|]. cbn in Hn. cbn [consecutive] in Hc. destruct Hc as [Hcl Hc].
        destruct l as [|d l']; [destruct k; discriminate|].
        eapply IHl; eauto. - intros; apply Hw; now right. - cbn [hd] in *. pose proof (Hw c (or_introl eq_refl)). lia. }
      assert (snd a <= fst iv').
      { eapply (Hmono (b :: r') k' iv'); eauto. - intros; apply Hwf; now right. - cbn [hd]. lia. }
      pose proof (Hg _ _ H). lia.
    + destruct (IH Hc ltac:(intros; apply Hwf; now right) ltac:(discriminate) x) as (k & iv & Hn & Hin & Hu).
      { cbn [hd]. rewrite <- Hab. lia. }
      exists (S k), iv. split; [exact Hn|]. split; [exact Hin|].
      intros [|k'] iv' Hn' Hin'.
      * cbn in Hn'. inversion Hn'; subst iv'. lia.
      * f_equal. eapply Hu; eauto.
Qed.

(* ------------------------------------------------------------------ overlap and kernel shape *)
Theorem overlap_covers_kernel k : 1 <= k -> k mod 2 = 1 ->
  overlap_for_kernel k = (k + 1) / 2 /\ (k - 1) / 2 + 1 <= overlap_for_kernel k.
Proof.
  intros Hk Hodd. unfold overlap_for_kernel.
  pose proof (Z.div_mod k 2 ltac:(lia)) as E. rewrite Hodd in E.
  assert (A : (- k) / 2 = - (k / 2) - 1).
  { symmetry. apply (Z.div_unique (- k) 2 (- (k / 2) - 1) 1); lia. }
  assert (B : (k + 1) / 2 = k / 2 + 1).
  { symmetry. apply (Z.div_unique (k + 1) 2 (k / 2 + 1) 0); lia. }
  assert (C : (k - 1) / 2 = k / 2).
  { symmetry. apply (Z.div_unique (k - 1) 2 (k / 2) 0); lia. }
  lia.
Qed.

Theorem validate_kernel_shape_spec m kh kw :
  validate_kernel_shape m kh kw = true <->
  (kh mod 2 = 1 /\ kw mod 2 = 1 /\ 1 <= kh /\ 1 <= kw /\ (m = MGainOffset -> 2 <= kh * kw)).
Proof.
  unfold validate_kernel_shape. rewrite !andb_true_iff, !Z.eqb_eq, !Z.leb_le.
  destruct m; rewrite ?Z.leb_le; split; intros H; repeat split; try tauto; try lia; try discriminate;
    try (intros; discriminate); try (apply H; reflexivity).
Qed.

(* ------------------------------------------------------------------ bounded_window_slices *)
(* total and well-formed for EVERY integer window, including an empty intersection (C20) *)
Theorem bounded_axis_wf n off len : 0 <= n -> 0 <= len ->
  let '((lo, hi), (s0, s1)) := bounded_axis n off len in
  0 <= lo <= hi /\ hi <= n /\ s1 - s0 = hi - lo /\ lo = off + s0 /\
  (lo < hi -> 0 <= s0 /\ s1 <= len).   (* an empty slice s0 = s1 selects nothing whatever its sign *)
Proof. intros Hn Hl. unfold bounded_axis. lia. Qed.

(* the bounded window is exactly window /\ dataset *)
Theorem bounded_axis_spec n off len x : 0 <= n -> 0 <= len ->
  let '((lo, hi), _) := bounded_axis n off len in
  (lo <= x < hi <-> (off <= x < off + len /\ 0 <= x < n)).
Proof. intros Hn Hl. unfold bounded_axis. lia. Qed.

(* D3: before the repair an empty intersection produced a negative-size window *)
Theorem bounded_axis_legacy_refuted :
  exists n off len, 0 <= n /\ 0 <= len /\ let '((lo, hi), _) := bounded_axis_legacy n off len in hi < lo.
Proof. exists 10, 12, 3. cbn. lia. Qed.

(* non-vacuity: a 2-D example meeting every hypothesis *)
Example proc_blocks_example :
  map (fun rc => (out_of rc)) (proc_blocks2 {| w_row := 2; w_col := -1; w_h := 5; w_w := 4 |} (3, 2) (1, 2))
  = [ {| w_row := 2; w_col := -1; w_h := 3; w_w := 2 |}; {| w_row := 2; w_col := 1; w_h := 3; w_w := 2 |};
      {| w_row := 5; w_col := -1; w_h := 2; w_w := 2 |}; {| w_row := 5; w_col := 1; w_h := 2; w_w := 2 |} ].
Proof. reflexivity. Qed.

(* ---------------------------------------------------------------- auto block shape: within the window, at least a pixel, memory bound met *)
From Coq Require Import QArith Lqa.
Open Scope Z_scope.
Lemma halve_loop_bounds fuel (h w maxb h' w' : Q) : (0 < h)%Q -> (0 < w)%Q ->
  halve_loop fuel h w maxb = Some (h', w') -> (0 < h' /\ h' <= h /\ 0 < w' /\ w' <= w /\ h' * w' * 4 <= maxb)%Q.
Proof.
  revert h w. induction fuel as [|f IH]; intros h w Hh Hw; cbn [halve_loop].
  - destruct (Qle_bool (h * w * 4) maxb) eqn:E; [|discriminate]. intros H; inversion H; subst.
    apply Qle_bool_iff in E. repeat split; try lra; assumption.
  - destruct (Qle_bool (h * w * 4) maxb) eqn:E.
    + intros H; inversion H; subst. apply Qle_bool_iff in E. repeat split; try lra; assumption.
    + destruct (Qle_bool w h).
      * intros H. assert (Hh2 : (0 < h / 2)%Q) by (apply Qlt_shift_div_l; lra).
        destruct (IH (h / 2)%Q w Hh2 Hw H) as (A & B & C & D & F). repeat split; try assumption.
        assert ((h / 2 <= h)%Q) by (apply Qle_shift_div_r; lra). lra.
      * intros H. assert (Hw2 : (0 < w / 2)%Q) by (apply Qlt_shift_div_l; lra).
        destruct (IH h (w / 2)%Q Hh Hw2 H) as (A & B & C & D & F). repeat split; try assumption.
        assert ((w / 2 <= w)%Q) by (apply Qle_shift_div_r; lra). lra.
Qed.

Lemma Qceil_bounds (q : Q) (n : Z) : (1 <= q)%Q -> (q <= inject_Z n)%Q -> 1 <= Qceil q <= n.
Proof.
  destruct q as [a b]. unfold Qceil, Qle, inject_Z. cbn [Qnum Qden]. intros H1 H2.
  rewrite Z.mul_1_l, Z.mul_1_r in *.
  pose proof (Z.div_mod (- a) (Z.pos b) ltac:(lia)) as Hd.
  pose proof (Z.mod_pos_bound (- a) (Z.pos b) ltac:(lia)) as Hm.
  split; nia.
Qed.

Theorem auto_block_shape_bounds h w maxb bh bw : 1 <= h -> 1 <= w ->
  auto_block_shape h w maxb = Some (bh, bw) -> 1 <= bh <= h /\ 1 <= bw <= w.
Proof.
  intros Hh Hw. unfold auto_block_shape. destruct maxb as [mb|]; [|intros H; inversion H; subst; lia].
  destruct (halve_loop 4000 (inject_Z h) (inject_Z w) mb) as [[qh qw]|] eqn:E; [|discriminate].
  destruct (Qle_bool 1 qh && Qle_bool 1 qw) eqn:E1; [|discriminate]. intros H; inversion H; subst.
  apply andb_true_iff in E1. destruct E1 as [A B]. apply Qle_bool_iff in A, B.
  assert (P1 : (0 < inject_Z h)%Q) by (unfold Qlt, inject_Z; cbn; lia).
  assert (P2 : (0 < inject_Z w)%Q) by (unfold Qlt, inject_Z; cbn; lia).
  destruct (halve_loop_bounds _ _ _ _ _ _ P1 P2 E) as (_ & Lh & _ & Lw & _).
  split; apply Qceil_bounds; assumption.
Qed.
(* before rounding up, the block meets the memory bound (max_block_mem scaled to bytes): h' * w' * 4 <= max bytes *)
Theorem auto_block_shape_memory fuel h w mb qh qw : 1 <= h -> 1 <= w ->
  halve_loop fuel (inject_Z h) (inject_Z w) mb = Some (qh, qw) -> (qh * qw * 4 <= mb)%Q.
Proof.
  intros Hh Hw E.
  assert (P1 : (0 < inject_Z h)%Q) by (unfold Qlt, inject_Z; cbn; lia).
  assert (P2 : (0 < inject_Z w)%Q) by (unfold Qlt, inject_Z; cbn; lia).
  destruct (halve_loop_bounds _ _ _ _ _ _ P1 P2 E) as (_ & _ & _ & _ & M). exact M.
Qed.
