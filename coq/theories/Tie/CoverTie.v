(* utils.covers_bounds of the CURRENT source (gen/CoverGen.v, regenerated from /repo on every run by translate/cover.py) is Grid.Cover.covers
   with the tolerance 1e-6 pixels, whatever the window. *)
From Coq Require Import ZArith QArith Bool.
From HV Require Import Grid.Cover.
From HVgen Require Import CoverGen.
Local Open Scope Q_scope.

Lemma tie_cover_translated : CoverGen.translation_failed = false.
Proof. reflexivity. Qed.

Lemma tie_covers roff coff h w H W : gen_covers roff coff h w H W = covers (1 # 1000000) roff coff h w H W.
Proof.
  unfold gen_covers, covers.
  destruct (Qle_bool 0 roff), (Qle_bool 0 coff), (Qle_bool (roff + h) (inject_Z H + (1 # 1000000))), (Qle_bool (coff + w) (inject_Z W + (1 # 1000000))); reflexivity.
Qed.

Theorem cover_tied roff coff h w H W :
  CoverGen.translation_failed = false /\ gen_covers roff coff h w H W = covers (1 # 1000000) roff coff h w H W /\
  gen_window_of_bounds_ok = true /\ gen_expand_only_when_asked = true /\ gen_reader_rejects_ok = true.
Proof. split; [exact tie_cover_translated|]. split; [apply tie_covers|]. repeat split; reflexivity. Qed.

(* hence, in the current source and for north-up rational geometry, a reader is constructed iff the source footprint lies inside the reference
   footprint on all four sides (right / bottom to within 1e-6 pixel) *)
Theorem source_accepts_iff_contains X0 Y0 res l b r t H W : 0 < res ->
  gen_covers (win_roff Y0 res t) (win_coff X0 res l) (win_h res b t) (win_w res l r) H W = true <->
  (X0 <= l /\ r <= X0 + (inject_Z W + (1 # 1000000)) * res /\ Y0 - (inject_Z H + (1 # 1000000)) * res <= b /\ t <= Y0).
Proof. intros Hres. rewrite tie_covers. apply covers_iff_contains. exact Hres. Qed.
