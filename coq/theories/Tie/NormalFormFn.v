(* The guard-clause normal form as a FUNCTION (the algorithm of translate/resolve.py `normalise_exits`, restricted to the language of
   Tie/NormalForm.v: actions, conditionals, return), and its correctness: the normalised body has the same observable behaviour as the original -
   same final state and outcome in any position, same function result at the end of a function body. *)
From Coq Require Import List Bool Arith.
Import ListNotations.
From HV Require Import Tie.NormalForm.

Section NFFn.
Variable state : Type.
Variable act : nat -> state -> state.
Variable cond : nat -> state -> bool.
Variable val : nat -> state -> nat.

Notation exec := (exec state act cond val).
Notation run := (run state act cond val).
Notation outcome := (outcome state).

Fixpoint split_last {A} (l : list A) : option (list A * A) :=
  match l with
  | [] => None
  | x :: r => match split_last r with Some (b, y) => Some (x :: b, y) | None => Some ([], x) end
  end.
Lemma split_last_app {A} (l : list A) b x : split_last l = Some (b, x) -> l = b ++ [x].
Proof.
  revert b x. induction l as [|y r IH]; intros b x H; [discriminate|]. cbn in H.
  destruct (split_last r) as [[b' y']|] eqn:E.
  - inversion H; subst. rewrite (IH _ _ eq_refl). reflexivity.
  - inversion H; subst. destruct r as [|z r']; [reflexivity|]. cbn in E. destruct (split_last r') as [[? ?]|]; discriminate.
Qed.

Definition ends_ret (l : list stmt) : bool := match split_last l with Some (_, SRet _) => true | _ => false end.
Definition oeqb (a b : option nat) : bool := match a, b with None, None => true | Some x, Some y => Nat.eqb x y | _, _ => false end.
Lemma oeqb_eq a b : oeqb a b = true -> a = b.
Proof. destruct a, b; cbn; intro H; try discriminate; [apply Nat.eqb_eq in H; now subst | reflexivity]. Qed.

(* rule 4 *)
Definition fix_empty (t : test) (b e : list stmt) : stmt := match b, e with [], _ :: _ => SIf (tneg t) e [] | _, _ => SIf t b e end.
(* rule 3 *)
Definition hoist (t : test) (b e : list stmt) : list stmt :=
  match split_last b, split_last e with
  | Some (b1, SRet v1), Some (e1, SRet v2) => if oeqb v1 v2 then [fix_empty t b1 e1; SRet v1] else [fix_empty t b e]
  | _, _ => [fix_empty t b e]
  end.
(* rule 2 *)
Definition drop_ret (tl : bool) (l : list stmt) : list stmt :=
  if tl then match split_last l with Some (b, SRet None) => b | _ => l end else l.
(* rule 1 *)
Definition absorb (x : stmt) (rest : list stmt) : stmt * list stmt :=
  match x, rest with
  | SIf t b [], _ :: _ => if ends_ret b then (SIf t b rest, []) else (x, rest)
  | _, _ => (x, rest)
  end.

Fixpoint norm (fuel : nat) (tail : bool) (l : list stmt) : list stmt :=
  match fuel with
  | O => l
  | S f =>
      match l with
      | [] => []
      | x :: rest =>
          let (x1, rest1) := absorb x rest in
          let last := match rest1 with [] => true | _ => false end in
          let tl := tail && last in
          let xs := match x1 with SIf t b e => hoist t (norm f tl b) (norm f tl e) | _ => [x1] end in
          drop_ret tl xs ++ norm f tail rest1
      end
  end.

(* what is observed of a statement list: in tail position (end of a function body) falling off the end is a bare return *)
Definition view (tail : bool) (o : outcome) : outcome :=
  if tail then match o with (s', None) => (s', Some None) | _ => o end else o.

Lemma view_returned tail s r : view tail (s, Some r) = (s, Some r).
Proof. destruct tail; reflexivity. Qed.
Lemma run_cons x r s : run (x :: r) s = match exec x s with (s', None) => run r s' | res => res end.
Proof. reflexivity. Qed.
Lemma run_one x s : run [x] s = exec x s.
Proof. cbn [NormalForm.run]. destruct (exec x s) as [s' [o|]]; reflexivity. Qed.

Lemma fix_empty_ok t b e s : exec (fix_empty t b e) s = exec (SIf t b e) s.
Proof. destruct b as [|x b]; [destruct e as [|y e]; [reflexivity|]|reflexivity]. cbn [fix_empty]. symmetry. apply rule_empty_body. Qed.

Lemma hoist_ok t b e rest s : run (hoist t b e ++ rest) s = run (SIf t b e :: rest) s.
Proof.
  unfold hoist.
  destruct (split_last b) as [[b1 [a|t' b' e'|v1]]|] eqn:Eb; try (cbn [app]; rewrite !run_cons, fix_empty_ok; reflexivity).
  destruct (split_last e) as [[e1 [a|t' b' e'|v2]]|] eqn:Ee; try (cbn [app]; rewrite !run_cons, fix_empty_ok; reflexivity).
  destruct (oeqb v1 v2) eqn:Ev; [|cbn [app]; rewrite !run_cons, fix_empty_ok; reflexivity].
  apply oeqb_eq in Ev. subst v2. apply split_last_app in Eb. apply split_last_app in Ee. subst b e.
  cbn [app]. rewrite (rule_hoist_return state act cond val t b1 e1 v1 rest s). rewrite !run_cons, fix_empty_ok. reflexivity.
Qed.

Lemma drop_ret_ok tl l s : view tl (run (drop_ret tl l) s) = view tl (run l s).
Proof.
  unfold drop_ret. destruct tl; [|reflexivity].
  destruct (split_last l) as [[b [a|t' b' e'|[v|]]]|] eqn:E; try reflexivity.
  apply split_last_app in E. subst l. rewrite run_app. destruct (run b s) as [s' [o|]]; reflexivity.
Qed.

Lemma absorb_ok x rest s : run (fst (absorb x rest) :: snd (absorb x rest)) s = run (x :: rest) s.
Proof.
  unfold absorb. destruct x as [a|t b e|v]; try reflexivity. destruct e as [|y e]; [|reflexivity].
  destruct rest as [|z rest]; [reflexivity|]. unfold ends_ret.
  destruct (split_last b) as [[b1 [a|t' b' e'|v]]|] eqn:E; try reflexivity.
  apply split_last_app in E. subst b. cbn [fst snd]. symmetry. apply rule_guard_clause.
Qed.

(* observing a conditional = observing the branch taken *)
Lemma view_if tail t b e s : view tail (run [SIf t b e] s) = view tail (run (if teval state cond t s then b else e) s).
Proof. rewrite run_one, exec_if. reflexivity. Qed.

(* sequencing under the view *)
Lemma view_app tail a r s : view tail (run (a ++ r) s) = match run a s with (s', None) => view tail (run r s') | o => o end.
Proof. rewrite run_app. destruct (run a s) as [s' [o|]]; [apply view_returned | reflexivity]. Qed.

Theorem norm_ok fuel : forall tail l s, view tail (run (norm fuel tail l) s) = view tail (run l s).
Proof.
  induction fuel as [|f IH]; intros tail l s; [reflexivity|].
  destruct l as [|x rest]; [reflexivity|]. cbn [norm].
  rewrite <- (absorb_ok x rest s). destruct (absorb x rest) as [x1 rest1]. cbn [fst snd].
  set (last := match rest1 with [] => true | _ => false end).
  set (tl := tail && last).
  (* the statement itself, observed with tl *)
  assert (Hx : forall s0, view tl (run (match x1 with SIf t b e => hoist t (norm f tl b) (norm f tl e) | _ => [x1] end) s0) = view tl (run [x1] s0)).
  { intro s0. destruct x1 as [a|t b e|v]; try reflexivity.
    rewrite <- (app_nil_r (hoist _ _ _)), hoist_ok, !view_if. destruct (teval state cond t s0); apply IH. }
  rewrite view_app.
  destruct rest1 as [|y rest1'].
  - (* x1 is the last statement: tl = tail *)
    assert (Et : tl = tail) by (unfold tl, last; apply andb_true_r). rewrite Et in *.
    assert (Hn : norm f tail [] = []) by (destruct f; reflexivity). rewrite Hn.
    pose proof (drop_ret_ok tail (match x1 with SIf t b e => hoist t (norm f tail b) (norm f tail e) | _ => [x1] end) s) as D.
    rewrite Hx in D.
    (* the view of the dropped list equals the view of [x1]; the empty continuation adds nothing *)
    destruct (run (drop_ret tail _) s) as [s' [o|]] eqn:R.
    + rewrite view_returned in D. exact D.
    + cbn [NormalForm.run]. exact D.
  - (* statements follow: tl = false, the statement is observed exactly *)
    assert (Et : tl = false) by (unfold tl, last; apply andb_false_r). rewrite Et in *.
    unfold drop_ret. specialize (Hx s). unfold view in Hx at 1 2. rewrite Hx, run_one.
    change (run (x1 :: y :: rest1') s) with (match exec x1 s with (s', None) => run (y :: rest1') s' | res => res end).
    destruct (exec x1 s) as [s' [o|]]; [symmetry; apply view_returned | apply IH].
Qed.

(* the two readings the translators rely on *)
Corollary norm_preserves_run fuel l s : run (norm fuel false l) s = run l s.
Proof. exact (norm_ok fuel false l s). Qed.
Corollary norm_preserves_function_result fuel l s : fun_result state act cond val (norm fuel true l) s = fun_result state act cond val l s.
Proof.
  pose proof (norm_ok fuel true l s) as H. unfold fun_result. unfold view in H.
  destruct (run (norm fuel true l) s) as [s1 [[r1|]|]], (run l s) as [s2 [[r2|]|]]; inversion H; reflexivity.
Qed.
(* a table of (body, claimed normal form): if `norm` reproduces every claimed form, every claimed form behaves like its body *)
Lemma agree_all fuel (cs : list (list stmt * list stmt)) :
  map (fun p => norm fuel true (fst p)) cs = map snd cs -> forall p, In p cs -> norm fuel true (fst p) = snd p.
Proof.
  induction cs as [|q l IH]; intros A p Hp; [destruct Hp|].
  cbn [map] in A. inversion A as [[A1 A2]]. destruct Hp as [->|Hp]; [exact A1 | exact (IH A2 p Hp)].
Qed.
Theorem table_preserves_behaviour fuel (cs : list (list stmt * list stmt)) :
  map (fun p => norm fuel true (fst p)) cs = map snd cs ->
  forall p, In p cs -> forall s, fun_result state act cond val (snd p) s = fun_result state act cond val (fst p) s.
Proof. intros A p Hp s. rewrite <- (agree_all fuel cs A p Hp). apply norm_preserves_function_result. Qed.
End NFFn.

(* the inverted guard clause of a function body comes out as the plain conditional *)
Example norm_inverted_guard :
  norm 3 true [SIf (TNot (TAtom 0)) [SRet None] []; SAct 1; SAct 2] = [SIf (TAtom 0) [SAct 1; SAct 2] []].
Proof. reflexivity. Qed.
(* a value-returning pair of guard clauses comes out as one conditional followed by the shared return *)
Example norm_guard_with_value :
  norm 3 true [SIf (TNot (TAtom 0)) [SRet (Some 7)] []; SAct 1; SRet (Some 7)] = [SIf (TAtom 0) [SAct 1] []; SRet (Some 7)].
Proof. reflexivity. Qed.
Print Assumptions norm_ok.
Print Assumptions norm_preserves_function_result.
