(* The decision skeleton of MatchedPairReader._match_pair_bands in the CURRENT source (gen/BandsGen.v, regenerated from /repo on every run by
   translate/bands.py from the path conditions of its raise statements, of the greedy call and of the two fills) is that of Bands.Match.match_core. *)
From Coq Require Import Arith List Bool.
From HV Require Import Bands.Match.
From HVgen Require Import BandsGen.
Import ListNotations.

Lemma tie_bands_translated : BandsGen.translation_failed = false.
Proof. reflexivity. Qed.

Lemma tie_band_decisions n m force sany rany over short :
  gen_info_ok = true /\
  gen_raises_fewer n m force sany rany over short = (Nat.ltb m n && negb force) /\
  gen_wavelength_path n m force sany rany over short = ((sany && rany) && negb force) /\
  gen_raises_dist n m force sany rany over short = (((sany && rany) && negb force) && over) /\
  gen_raises_unmatched n m force sany rany over short = (short && negb (Nat.eqb n m) && negb force) /\
  gen_fill_file_order n m force sany rany over short = (short && Nat.eqb n m) /\
  gen_fill_truncated n m force sany rany over short = (short && negb (Nat.eqb n m) && force).
Proof.
  unfold gen_raises_fewer, gen_wavelength_path, gen_raises_dist, gen_raises_unmatched, gen_fill_file_order, gen_fill_truncated.
  destruct force, sany, rany, over, short, (Nat.ltb m n), (Nat.eqb n m); repeat split; reflexivity.
Qed.

(* ... and these are the decisions of the model: match_core fails with EFewer exactly under the first condition, takes the greedy (wavelength)
   path exactly under the second, fails with EDist exactly when, not having failed before, some matched pair is over the tolerance, and - when
   fewer than min(n, m) bands were matched - fills in file order iff n = m, truncated iff forced, and fails with EUnmatched otherwise *)
Section Model.
Variable D : Type.
Variable ltbD : D -> D -> bool.
Variable overD : D -> bool.
Variables (sb rb : list nat) (wl_ok : bool) (dm : nat -> nat -> option D) (force : bool).
Let n := length sb. Let m := length rb.
Let pairs := if wl_ok && negb force then greedy D ltbD dm n (seq 0 n) (seq 0 m) else [].
Let over := existsb (fun p => match dm (fst p) (snd p) with Some d => overD d | None => false end) pairs.

Lemma model_fewer_iff : match_core D ltbD overD sb rb wl_ok dm force = inl EFewer <-> Nat.ltb m n && negb force = true.
Proof.
  unfold match_core. fold n m. destruct (Nat.ltb m n && negb force) eqn:E; [split; auto|]. split; [|discriminate].
  intros H. repeat match type of H with context[if ?c then _ else _] => destruct c end; discriminate.
Qed.

Lemma model_dist_iff : match_core D ltbD overD sb rb wl_ok dm force = inl EDist <-> (Nat.ltb m n && negb force = false /\ over = true).
Proof.
  unfold match_core. fold n m. fold pairs. fold over. destruct (Nat.ltb m n && negb force) eqn:E.
  - split; [discriminate|]. intros [A _]; discriminate.
  - destruct over eqn:O; [split; auto|]. split; [|intros [_ A]; discriminate].
    intros H. repeat match type of H with context[if ?c then _ else _] => destruct c end; discriminate.
Qed.

Let mb1 := map (fun i => option_map (fun j => nth j rb 0) (assoc i pairs)) (seq 0 n).
Let short := Nat.ltb (length (somes mb1)) (Nat.min n m).

Lemma model_unmatched_iff : match_core D ltbD overD sb rb wl_ok dm force = inl EUnmatched <->
  (Nat.ltb m n && negb force = false /\ over = false /\ short = true /\ Nat.eqb n m = false /\ force = false).
Proof.
  unfold match_core. fold n m. fold pairs. fold over. cbv zeta. fold mb1. fold short.
  destruct (Nat.ltb m n && negb force) eqn:E; [split; [discriminate|intros (A & _); discriminate]|].
  destruct over eqn:O; [split; [discriminate|intros (_ & A & _); discriminate]|].
  destruct short eqn:S; [|split; [discriminate|intros (_ & _ & A & _); discriminate]].
  destruct (Nat.eqb n m) eqn:Q.
  - split; [|intros (_ & _ & _ & A & _); discriminate]. intros H.
    repeat match type of H with context[if ?c then _ else _] => destruct c end; discriminate.
  - destruct force; [split; [discriminate|intros (_ & _ & _ & _ & A); discriminate]|]. split; auto.
Qed.

Lemma model_greedy_only_on_wavelength_path : wl_ok && negb force = false -> pairs = [].
Proof. unfold pairs. intros ->. reflexivity. Qed.
End Model.
