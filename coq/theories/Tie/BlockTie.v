(* The integer arithmetic of block formation in the CURRENT source (gen/Blocks.v, regenerated from /repo on every run by
   translate/blocks.py) is the arithmetic of Grid.Window, the model the tiling theorems (C05, C06, C17) are about. *)
From Coq Require Import ZArith List Bool Lia.
From HV Require Import Base.ZRange Grid.Window Grid.WindowProofs.
From HVgen Require Import Blocks.
Import ListNotations.
Local Open Scope Z_scope.

Lemma blocks_translated : Blocks.translation_failed = false.
Proof. reflexivity. Qed.

(* block corners along one axis: range(off - ov, off + n - ov, bs) *)
Lemma tie_uls off n bs ov :
  uls off n bs ov = pyrange (Z.to_nat n + 1) (gen_range_start off n bs ov) (gen_range_stop off n bs ov) (gen_range_step off n bs ov).
Proof. unfold uls, gen_range_start, gen_range_stop, gen_range_step. reflexivity. Qed.

(* the windows of a block along one axis, with lo = off and hi = off + n: offset and length of the overlapping (input) and of the
   non-overlapping (output) processing-grid window, as the source builds them (resolved back to the loop variable, the block shape, the
   overlap and the processing window) *)
Lemma tie_ablk off n bs ov u :
  let b := mk_ablk off n bs ov u in
  gen_in_lo u bs ov off (off + n) = in_lo b /\ gen_in_lo u bs ov off (off + n) + gen_in_len u bs ov off (off + n) = in_hi b /\
  gen_out_lo u bs ov off (off + n) = out_lo b /\ gen_out_lo u bs ov off (off + n) + gen_out_len u bs ov off (off + n) = out_hi b /\
  gen_outer_hi_term u bs ov off (off + n) = in_hi b.
Proof. cbv zeta. unfold mk_ablk, gen_in_lo, gen_in_len, gen_out_lo, gen_out_len, gen_outer_hi_term. cbn [in_lo in_hi out_lo out_hi]. repeat split; lia. Qed.

Lemma tie_structure :
  gen_rows_outer_bands_outermost = true /\ gen_block_pair_fields_ok = true /\ gen_outer_ok = true /\
  gen_other_in_ok = true /\ gen_other_out_ok = true /\ gen_fuse_passes_overlap = true /\ gen_compare_no_overlap = true.
Proof. repeat split; reflexivity. Qed.

Lemma tie_overlap k : gen_overlap_for_kernel k = overlap_for_kernel k.
Proof. reflexivity. Qed.

(* the overlap fuse hands to block_pairs covers the kernel half-size + 1 (the reach of the seam lemma and of the partial-mask erosion),
   and one pixel more with partial masking on (the premise of Kernel.MorphProofs.seam_sampling_safe) *)
Lemma tie_fuse_overlap k : 1 <= k -> k mod 2 = 1 ->
  (k - 1) / 2 + 1 <= gen_fuse_overlap false k /\ (k - 1) / 2 + 1 + 1 <= gen_fuse_overlap true k.
Proof.
  intros Hk Ho. unfold gen_fuse_overlap. rewrite tie_overlap. destruct (overlap_covers_kernel k Hk Ho) as [_ H]. lia.
Qed.

(* RasterArray.bounded_window_slices, one axis: the bounded window and the slice into the window-shaped array (Grid.Window.bounded_axis) *)
Lemma tie_bounded n off len :
  bounded_axis n off len = ((gen_bounded_ul n off len, gen_bounded_br n off len), (gen_bounded_start n off len, gen_bounded_stop n off len)).
Proof. unfold bounded_axis, gen_bounded_ul, gen_bounded_br, gen_bounded_start, gen_bounded_stop. reflexivity. Qed.

(* parameter image layout (Grid.Layout): band index, labels, validator *)
From HV Require Import Grid.Layout.
Lemma tie_layout n i k : gen_param_index n i k = param_index n i k /\ gen_param_write_ok = true /\ gen_corr_write_ok = true /\
  gen_labels_ok = true /\ gen_validator_ok = true.
Proof. unfold gen_param_index, param_index. repeat split; try reflexivity; lia. Qed.

(* partial masking (Kernel.Morph): structuring element kernel + 2 per axis, coverage >= 1, joint mask, zero border *)
From HV Require Import Kernel.Morph.
Lemma tie_partial_mask k : gen_erode_size k = k + 2 /\ gen_partial_mask_ok = true.
Proof. unfold gen_erode_size. split; [lia|reflexivity]. Qed.
Lemma tie_ewin kh kw i j : ewin kh kw i j = list_prod (zrange (i - gen_erode_size kh / 2) (Z.to_nat (gen_erode_size kh))) (zrange (j - gen_erode_size kw / 2) (Z.to_nat (gen_erode_size kw))).
Proof. unfold ewin, gen_erode_size. reflexivity. Qed.

(* RasterArray._convert_array_dtype has the structure Enc.Dtype models: round half to even, saturate, cast, set invalid pixels to nodata *)
Lemma tie_convert_dtype : gen_convert_dtype_ok = true.
Proof. reflexivity. Qed.

(* ------------------------------------------------------------------ the statement the property files quote *)
Theorem blocks_tied off n bs ov u :
  Blocks.translation_failed = false /\
  uls off n bs ov = pyrange (Z.to_nat n + 1) (gen_range_start off n bs ov) (gen_range_stop off n bs ov) (gen_range_step off n bs ov) /\
  (let b := mk_ablk off n bs ov u in
   gen_in_lo u bs ov off (off + n) = in_lo b /\ gen_in_lo u bs ov off (off + n) + gen_in_len u bs ov off (off + n) = in_hi b /\
   gen_out_lo u bs ov off (off + n) = out_lo b /\ gen_out_lo u bs ov off (off + n) + gen_out_len u bs ov off (off + n) = out_hi b /\
   gen_outer_hi_term u bs ov off (off + n) = in_hi b) /\
  (gen_rows_outer_bands_outermost = true /\ gen_block_pair_fields_ok = true /\ gen_outer_ok = true /\
   gen_other_in_ok = true /\ gen_other_out_ok = true /\ gen_fuse_passes_overlap = true /\ gen_compare_no_overlap = true).
Proof. split; [exact blocks_translated|]. split; [apply tie_uls|]. split; [apply tie_ablk|apply tie_structure]. Qed.

(* utils.same_orientation_crs and the origin of the corrected profile (Grid.ProcGrid) *)
From HV Require Import Grid.ProcGrid.
Lemma tie_vrt snu rnu same psrc :
  gen_vrt_src_flip snu rnu same psrc = vrt_src_flip snu rnu same psrc /\ gen_vrt_ref_flip snu rnu same psrc = vrt_ref_flip snu rnu same psrc /\
  gen_vrt_src_to_ref_crs snu rnu same psrc = vrt_src_to_ref_crs snu rnu same psrc /\
  gen_vrt_ref_to_src_crs snu rnu same psrc = vrt_ref_to_src_crs snu rnu same psrc /\ gen_corr_profile_from_source_view = true.
Proof. destruct snu, rnu, same, psrc; repeat split; reflexivity. Qed.

(* band matching constants of matched_pair.py as exact binary64 values, and the shape of the tolerance test (Bands.Match) *)
From HV Require Import Bands.Match.
Lemma tie_band_constants :
  gen_max_rel_wavelength_diff = Match.tol /\ std_cw CRed = Some gen_std_cw_red /\ std_cw CGreen = Some gen_std_cw_green /\
  std_cw CBlue = Some gen_std_cw_blue /\ gen_rgb_defaults_only_for_three_bands = true /\ gen_over_tolerance_is_strict_any = true /\
  gen_rel_dist_by_source = true.
Proof. repeat split; reflexivity. Qed.
