(* The arithmetic of the CURRENT source (gen/Formulas.v, regenerated from /repo on every run by translate/formulas.py) is the arithmetic
   of the hand-written models the theorems are about.  Each lemma is closed by [ring] on the generated term: a rewrite of the source that is
   algebraically the same still proves; a change of a sign, a factor, an operand or a guard does not. *)
From Coq Require Import ZArith QArith List String Bool.
From HV Require Import Base.QSum Kernel.Fit Stats.Compare Stats.Param.
From HVgen Require Import Formulas.
Import ListNotations.
Local Open Scope Q_scope.

Lemma tie_translated : translation_failed = false.
Proof. reflexivity. Qed.

Section KernelTie.
Variable S : sums.
Variables m c : Q.
Let N := sN S. Let X := sX S. Let Y := sY S. Let XY := sXY S. Let XX := sXX S. Let YY := sYY S.

(* _fit_gain_offset *)
Lemma tie_go_num : gen_go_num N X Y XY XX YY m c == go_num S.
Proof. unfold gen_go_num, go_num, N, X, Y, XY. ring. Qed.
Lemma tie_go_den : gen_go_den N X Y XY XX YY m c == go_den S.
Proof. unfold gen_go_den, go_den, N, X, XX. ring. Qed.
Lemma tie_go_offset : gen_go_offset_n N X Y XY XX YY m c == sY S - m * sX S /\ gen_go_offset_d N X Y XY XX YY m c == sN S.
Proof. unfold gen_go_offset_n, gen_go_offset_d, N, X, Y. split; try reflexivity; ring. Qed.
Lemma tie_go_regain : gen_go_regain_n N X Y XY XX YY m c == sY S - sN S * c /\ gen_go_regain_d N X Y XY XX YY m c == sX S.
Proof. unfold gen_go_regain_n, gen_go_regain_d, N, X, Y. split; try reflexivity; ring. Qed.

(* _r2_array *)
Lemma tie_ss_tot : gen_ss_tot N X Y XY XX YY m c == tss_n S.
Proof. unfold gen_ss_tot, tss_n, N, Y, YY. ring. Qed.
Lemma tie_ss_res_go : gen_ss_res_go N X Y XY XX YY m c == rss_go S m c.
Proof. unfold gen_ss_res_go, rss_go, N, X, Y, XY, XX, YY. ring. Qed.
Lemma tie_ss_res_g : gen_ss_res_g N X Y XY XX YY m c == rss_g S m.
Proof. unfold gen_ss_res_g, rss_g, XY, XX, YY. ring. Qed.
(* R2 = 1 - (res * N) / tot : the shape of Fit.r2_of *)
Lemma tie_r2 d : gen_ss_res_scale N X Y XY XX YY m c == sN S /\ gen_r2_final d == 1 - d.
Proof. unfold gen_ss_res_scale, gen_r2_final, N. split; reflexivity. Qed.

(* _fit_gain *)
Lemma tie_g_gain : gen_g_gain_n N X Y XY XX YY m c == sY S /\ gen_g_gain_d N X Y XY XX YY m c == sX S.
Proof. unfold gen_g_gain_n, gen_g_gain_d, X, Y. split; reflexivity. Qed.
End KernelTie.

(* the guards: which pixels each division / in-painting step touches, as boolean functions of the atoms
   joint (the joint mask), r2gt (R2 > threshold), mpos (gain > 0).  Fit.go_keep is r2gt && mpos on jointly valid pixels. *)
Lemma tie_guards r2gt mpos joint :
  gen_go_gain_where r2gt mpos joint = joint /\ gen_go_offset_where r2gt mpos joint = joint /\ gen_g_gain_where r2gt mpos joint = joint /\
  gen_r2_where r2gt mpos joint = joint /\ gen_go_remask r2gt mpos joint = joint /\
  gen_go_keep r2gt mpos joint = (joint && (r2gt && mpos)) /\
  gen_go_regain_where r2gt mpos joint = (joint && negb (r2gt && mpos)).
Proof. destruct r2gt, mpos, joint; repeat split; reflexivity. Qed.
Lemma tie_structure :
  gen_go_guards_ok = true /\ gen_go_zeroing_ok = true /\ gen_g_offset_zero_ok = true /\ gen_g_zeroing_ok = true /\ gen_r2_roles_ok = true /\
  gen_gbo_order_ok = true /\ gen_box_filters_ok = true.
Proof. repeat split; reflexivity. Qed.

(* _fit_block_norm of the current source is the std ratio / first-percentile difference over the jointly valid pixels for ANY number of them, and the
   zero model only when there is none: no threshold on the count, no fallback or remembered model *)
Lemma tie_block_norm : gen_block_norm_ok = true.
Proof. reflexivity. Qed.

(* _fit_gain_blk_offset: source normalised as x * na + nb (Fit.norm_blk); final parameters (gain of the normalised fit) * na and * nb, i.e. the
   offset is computed from the un-rescaled gain (Fit.gbo_params) *)
Lemma tie_gbo x na nb m : gen_gbo_norm x na nb m == x * na + nb /\ gen_gbo_gain x na nb m == m * na /\ gen_gbo_offset x na nb m == m * nb.
Proof. unfold gen_gbo_norm, gen_gbo_gain, gen_gbo_offset. repeat split; try reflexivity; ring. Qed.
(* apply: corrected = gain * source + offset (Fit.apply_px) *)
Lemma tie_apply m c x : gen_apply m c x == m * x + c.
Proof. unfold gen_apply. ring. Qed.

(* compare.get_band_stats, resolved to the accumulated sums (Stats.Compare.band_stats works with the squares: r2 = num^2 / (a * b), rmse^2, rrmse^2) *)
Lemma tie_compare (S : csums) :
  let N := cN S in let X := cX S in let Y := cY S in let XY := cXY S in let XX := cXX S in let YY := cYY S in let RR := cRes S in
  let mx := cX S / cN S in let my := cY S / cN S in
  gen_cmp_pcc_num N X Y XY XX YY RR == cXY S - cN S * mx * my /\
  gen_cmp_pcc_den_a N X Y XY XX YY RR == cXX S - cN S * (mx * mx) /\
  gen_cmp_pcc_den_b N X Y XY XX YY RR == cYY S - cN S * (my * my) /\
  gen_cmp_rmse_sq N X Y XY XX YY RR == cRes S / cN S /\
  gen_cmp_rrmse_den N X Y XY XX YY RR == my /\ gen_cmp_returns_ok = true.
Proof.
  cbv zeta. unfold gen_cmp_pcc_num, gen_cmp_pcc_den_a, gen_cmp_pcc_den_b, gen_cmp_rmse_sq, gen_cmp_rrmse_den.
  repeat split; try reflexivity; unfold Qdiv; ring.
Qed.

(* stats._get_image_stats (Stats.Param.band_stats: mean, variance = the argument of the square root, in-paint percentage) *)
Lemma tie_stats (a : accum) :
  let S := a_sum a in let S2 := a_sum2 a in let n := a_n a in let I := a_inp a in
  gen_st_mean S S2 n I == a_sum a / a_n a /\ gen_st_var S S2 n I == a_sum2 a / a_n a - (a_sum a * a_sum a) / (a_n a * a_n a) /\
  gen_st_inpaint_p S S2 n I == (100 * a_inp a) / a_n a /\ gen_st_minmax_ok = true /\ gen_st_var_clamped_at_zero = true.
Proof.
  cbv zeta. unfold gen_st_mean, gen_st_var, gen_st_inpaint_p. repeat split; try reflexivity; unfold Qdiv; ring.
Qed.

(* ------------------------------------------------------------------ the statements the property files quote *)
Theorem kernel_arithmetic_tied (S : sums) (m c : Q) :
  let N := sN S in let X := sX S in let Y := sY S in let XY := sXY S in let XX := sXX S in let YY := sYY S in
  translation_failed = false /\
  gen_go_num N X Y XY XX YY m c == go_num S /\ gen_go_den N X Y XY XX YY m c == go_den S /\
  (gen_go_offset_n N X Y XY XX YY m c == sY S - m * sX S /\ gen_go_offset_d N X Y XY XX YY m c == sN S) /\
  (gen_go_regain_n N X Y XY XX YY m c == sY S - sN S * c /\ gen_go_regain_d N X Y XY XX YY m c == sX S) /\
  gen_ss_tot N X Y XY XX YY m c == tss_n S /\ gen_ss_res_go N X Y XY XX YY m c == rss_go S m c /\ gen_ss_res_g N X Y XY XX YY m c == rss_g S m /\
  (gen_g_gain_n N X Y XY XX YY m c == sY S /\ gen_g_gain_d N X Y XY XX YY m c == sX S).
Proof.
  cbv zeta. split; [exact tie_translated|]. split; [apply tie_go_num|]. split; [apply tie_go_den|]. split; [apply tie_go_offset|].
  split; [apply tie_go_regain|]. split; [apply tie_ss_tot|]. split; [apply tie_ss_res_go|]. split; [apply tie_ss_res_g|apply tie_g_gain].
Qed.
Theorem r2_shape_tied (S : sums) (m c d : Q) (r2gt mpos joint : bool) :
  (gen_ss_res_scale (sN S) (sX S) (sY S) (sXY S) (sXX S) (sYY S) m c == sN S /\ gen_r2_final d == 1 - d) /\
  (gen_go_gain_where r2gt mpos joint = joint /\ gen_go_offset_where r2gt mpos joint = joint /\ gen_g_gain_where r2gt mpos joint = joint /\
   gen_r2_where r2gt mpos joint = joint /\ gen_go_remask r2gt mpos joint = joint /\
   gen_go_keep r2gt mpos joint = (joint && (r2gt && mpos)) /\
   gen_go_regain_where r2gt mpos joint = (joint && negb (r2gt && mpos))) /\
  (gen_go_guards_ok = true /\ gen_go_zeroing_ok = true /\ gen_g_offset_zero_ok = true /\ gen_g_zeroing_ok = true /\ gen_r2_roles_ok = true /\
   gen_gbo_order_ok = true /\ gen_box_filters_ok = true).
Proof. split; [apply tie_r2|]. split; [apply tie_guards|apply tie_structure]. Qed.

(* compare.get_block_sums: per-pixel terms of the seven block sums (Stats.Compare.block_sums), joint mask, accumulation over blocks *)
Theorem compare_block_sums_tied (b : list px) :
  block_sums b = {| cX := qsum (fun p => gen_cmp_term_src_sum (fst p) (snd p)) b; cY := qsum (fun p => gen_cmp_term_ref_sum (fst p) (snd p)) b;
                    cXX := qsum (fun p => gen_cmp_term_src2_sum (fst p) (snd p)) b; cYY := qsum (fun p => gen_cmp_term_ref2_sum (fst p) (snd p)) b;
                    cXY := qsum (fun p => gen_cmp_term_src_ref_sum (fst p) (snd p)) b;
                    cRes := qsum (fun p => gen_cmp_term_res2_sum (fst p) (snd p)) b; cN := inject_Z (Z.of_nat (List.length b)) |} /\
  gen_cmp_joint_mask_ok = true /\ gen_cmp_accumulate_ok = true.
Proof. repeat split; reflexivity. Qed.

(* stats.get_block_sums: terms of sum and sum of squares (Stats.Param.tile_accum), the strict in-paint comparison, the band rule, the fold *)
Theorem stats_block_sums_tied (thresh : option Q) (tile : list Q) :
  a_sum (tile_accum thresh tile) = qsum gen_st_term_sum tile /\ a_sum2 (tile_accum thresh tile) = qsum gen_st_term_sum2 tile /\
  gen_st_block_ok = true /\ gen_st_inpaint_is_strictly_below = true /\ gen_st_inpaint_bands_ok = true /\ gen_st_accumulate_ok = true.
Proof. repeat split; reflexivity. Qed.
