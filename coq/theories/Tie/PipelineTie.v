(* The block pipeline of the CURRENT source (gen/Pipeline.v, regenerated from /repo on every run by translate/pipeline.py) is the
   pipeline of Kernel.Flow. *)
From Coq Require Import ZArith QArith Bool.
From HV Require Import Kernel.Fit Kernel.Flow.
From HVgen Require Import Pipeline.
Local Open Scope Q_scope.

Lemma tie_pipeline_translated : translation_failed = false.
Proof. reflexivity. Qed.

Lemma tie_get_resampling a b : gen_get_resampling a b = get_resampling a b.
Proof. reflexivity. Qed.

Lemma tie_masks mp : gen_ref_apply_mask mp = ref_apply_mask mp /\ gen_src_fit_mask mp = src_fit_mask mp.
Proof. destruct mp; split; reflexivity. Qed.

Lemma tie_flow :
  gen_fit_dispatch_ok = true /\ gen_fit_grid_check_ok = true /\ gen_ref_fit_ok = true /\ gen_ref_apply_params_ok = true /\
  gen_src_fit_ok = true /\ gen_src_fit_copies_source = true /\ gen_block_flow_ok = true /\ gen_model_choice_ok = true /\
  gen_compare_reproject_ok = true.
Proof. repeat split; reflexivity. Qed.

Theorem pipeline_tied mp a b :
  translation_failed = false /\ gen_get_resampling a b = get_resampling a b /\
  (gen_ref_apply_mask mp = ref_apply_mask mp /\ gen_src_fit_mask mp = src_fit_mask mp) /\
  (gen_fit_dispatch_ok = true /\ gen_fit_grid_check_ok = true /\ gen_ref_fit_ok = true /\ gen_ref_apply_params_ok = true /\
   gen_src_fit_ok = true /\ gen_src_fit_copies_source = true /\ gen_block_flow_ok = true /\ gen_model_choice_ok = true /\
   gen_compare_reproject_ok = true).
Proof. split; [exact tie_pipeline_translated|]. split; [apply tie_get_resampling|]. split; [apply tie_masks|exact tie_flow]. Qed.

(* the statement C03 quotes: in the current source, without partial masking, a corrected pixel is valid only where the source is *)
Theorem source_no_invented_pixels src_mask cover cover_near g o x q pv :
  (param_valid (gen_ref_apply_mask false) src_mask cover cover_near = Some pv \/ param_valid (gen_src_fit_mask false) src_mask cover cover_near = Some pv) ->
  corrected pv g o x = Fin q -> src_mask = true.
Proof.
  destruct (tie_masks false) as [-> ->]. apply corrected_valid_only_on_source_mask.
Qed.
Definition pipeline_tied0 mp := pipeline_tied mp 0 0.
