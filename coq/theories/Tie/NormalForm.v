(* Soundness of the guard-clause normal form (translate/resolve.py, normalise_exits) that the translators apply to the source before reading it.
   A small imperative language - opaque actions, tests evaluated in the current state, conditionals, return - with a big-step
   semantics; each rewrite rule of the normal form is proved to preserve the semantics (final state and returned value) of a function body,
   in every context (congruence).  Loops, with-blocks and try are handled by the same rules in the Python code with `continue` in the
   role of `return` at the end of a loop body; they are not part of this model. *)
From Coq Require Import List Bool.
Import ListNotations.

Section NF.
Variable state : Type.
Variable act : nat -> state -> state.      (* what an opaque statement does to the state *)
Variable cond : nat -> state -> bool.      (* atomic tests *)
Variable val : nat -> state -> nat.        (* returned expressions *)

Inductive test := TAtom (c : nat) | TNot (t : test).
Fixpoint teval (t : test) (s : state) : bool := match t with TAtom c => cond c s | TNot t => negb (teval t s) end.
(* the negation the normal form builds: not (not t) = t *)
Definition tneg (t : test) : test := match t with TNot u => u | _ => TNot t end.
Lemma tneg_ok t s : teval (tneg t) s = negb (teval t s).
Proof. destruct t as [c|u]; cbn; [reflexivity | now rewrite negb_involutive]. Qed.

Inductive stmt := SAct (a : nat) | SIf (t : test) (b e : list stmt) | SRet (v : option nat).

(* outcome of a statement list: final state, and None = fell off the end | Some r = returned r (r = None: bare return) *)
Definition outcome := (state * option (option nat))%type.

Fixpoint exec (st : stmt) (s : state) : outcome :=
  match st with
  | SAct a => (act a s, None)
  | SRet v => (s, Some (option_map (fun e => val e s) v))
  | SIf t b e =>
      (fix go (l : list stmt) (s : state) : outcome :=
         match l with [] => (s, None) | x :: r => match exec x s with (s', None) => go r s' | res => res end end)
        (if teval t s then b else e) s
  end.
Fixpoint run (l : list stmt) (s : state) : outcome :=
  match l with [] => (s, None) | x :: r => match exec x s with (s', None) => run r s' | res => res end end.

Lemma exec_if t b e s : exec (SIf t b e) s = run (if teval t s then b else e) s.
Proof.
  cbn [exec]. generalize (if teval t s then b else e) as l. intro l. revert s.
  induction l as [|x r IH]; intro s; [reflexivity|]. cbn [run]. destruct (exec x s) as [s' [o|]]; [reflexivity|]. apply IH.
Qed.

Lemma run_app l1 l2 s : run (l1 ++ l2) s = match run l1 s with (s', None) => run l2 s' | res => res end.
Proof.
  revert s. induction l1 as [|x r IH]; intro s; [reflexivity|]. cbn [app run].
  destruct (exec x s) as [s' [o|]]; [reflexivity|]. apply IH.
Qed.

(* the value of a function whose body is l: falling off the end returns None *)
Definition fun_result (l : list stmt) (s : state) : state * option nat :=
  match run l s with (s', None) => (s', None) | (s', Some r) => (s', r) end.

(* a block that ends in a return always returns *)
Lemma ends_in_return_returns b v s : exists s' r, run (b ++ [SRet v]) s = (s', Some r).
Proof.
  rewrite run_app. destruct (run b s) as [s' [o|]]; [now exists s', o|]. cbn. eexists _, _. reflexivity.
Qed.

(* rule 1: `if c: ...; return` followed by `rest`  =  `if c: ...; return  else: rest` *)
Theorem rule_guard_clause t b v rest s :
  run (SIf t (b ++ [SRet v]) [] :: rest) s = run [SIf t (b ++ [SRet v]) rest] s.
Proof.
  cbn [run]. rewrite !exec_if. destruct (teval t s).
  - destruct (ends_in_return_returns b v s) as (s' & r & E). rewrite E. reflexivity.
  - cbn [run]. destruct (run rest s) as [s' [o|]]; reflexivity.
Qed.

(* rule 2: a bare `return` at the end of a function body is what falling off the end does *)
Theorem rule_trailing_return b s : fun_result (b ++ [SRet None]) s = fun_result b s.
Proof.
  unfold fun_result. rewrite run_app. destruct (run b s) as [s' [o|]]; reflexivity.
Qed.
(* ... also at the end of the branches of a conditional that ends the body *)
Theorem rule_trailing_return_in_branches t b e pre s :
  fun_result (pre ++ [SIf t (b ++ [SRet None]) (e ++ [SRet None])]) s = fun_result (pre ++ [SIf t b e]) s.
Proof.
  unfold fun_result. rewrite !run_app. destruct (run pre s) as [s' [o|]]; [reflexivity|].
  cbn [run]. rewrite !exec_if. destruct (teval t s'); rewrite run_app;
    match goal with |- context [run ?l s'] => destruct (run l s') as [s'' [o|]] end; reflexivity.
Qed.

(* rule 3: two branches that end in the same `return e` hand it to the statement after the conditional *)
Theorem rule_hoist_return t b1 b2 v rest s :
  run (SIf t (b1 ++ [SRet v]) (b2 ++ [SRet v]) :: rest) s = run (SIf t b1 b2 :: SRet v :: rest) s.
Proof.
  cbn [run]. rewrite !exec_if. destruct (teval t s); rewrite run_app;
    match goal with |- context [run ?l s] => destruct (run l s) as [s' [o|]] end; reflexivity.
Qed.

(* rule 4: `if c: <nothing> else: X`  =  `if not c: X` *)
Theorem rule_empty_body t e s : exec (SIf t [] e) s = exec (SIf (tneg t) e []) s.
Proof. rewrite !exec_if, tneg_ok. destruct (teval t s); reflexivity. Qed.

(* congruence: equal sub-programs may be exchanged anywhere - before / after other statements and inside either branch of a conditional *)
Definition equiv (l1 l2 : list stmt) : Prop := forall s, run l1 s = run l2 s.
Theorem equiv_context pre post l1 l2 : equiv l1 l2 -> equiv (pre ++ l1 ++ post) (pre ++ l2 ++ post).
Proof.
  intros E s. rewrite !run_app. destruct (run pre s) as [s' [o|]]; [reflexivity|]. rewrite !run_app, (E s'). reflexivity.
Qed.
Theorem equiv_in_body t b1 b2 e : equiv b1 b2 -> equiv [SIf t b1 e] [SIf t b2 e].
Proof. intros E s. cbn [run]. rewrite !exec_if. destruct (teval t s); [rewrite (E s)|]; reflexivity. Qed.
Theorem equiv_in_orelse t b e1 e2 : equiv e1 e2 -> equiv [SIf t b e1] [SIf t b e2].
Proof. intros E s. cbn [run]. rewrite !exec_if. destruct (teval t s); [|rewrite (E s)]; reflexivity. Qed.
Theorem equiv_fun_result l1 l2 : equiv l1 l2 -> forall s, fun_result l1 s = fun_result l2 s.
Proof. intros E s. unfold fun_result. rewrite (E s). reflexivity. Qed.

(* the rules as equivalences of statement lists *)
Corollary guard_clause_equiv t b v rest : equiv (SIf t (b ++ [SRet v]) [] :: rest) [SIf t (b ++ [SRet v]) rest].
Proof. intro s. apply rule_guard_clause. Qed.
Corollary hoist_return_equiv t b1 b2 v rest : equiv (SIf t (b1 ++ [SRet v]) (b2 ++ [SRet v]) :: rest) (SIf t b1 b2 :: SRet v :: rest).
Proof. intro s. apply rule_hoist_return. Qed.
Corollary empty_body_equiv t e : equiv [SIf t [] e] [SIf (tneg t) e []].
Proof. intro s. cbn [run]. rewrite rule_empty_body. reflexivity. Qed.

(* the composite the translators rely on most: an inverted guard clause is the plain conditional (as function bodies)
      if not c: return          if c:
      X                    =        X                                                                                  *)
Theorem inverted_guard_is_conditional t X s :
  fun_result (SIf (tneg t) [SRet None] [] :: X) s = fun_result [SIf t X []] s.
Proof.
  unfold fun_result. cbn [run]. rewrite !exec_if, tneg_ok. destruct (teval t s); cbn [negb run].
  - destruct (run X s) as [s' [o|]]; reflexivity.
  - reflexivity.
Qed.
(* ... and a value-returning pair of guard clauses is one conditional followed by the shared return
      if not c: return e        if c:
      X                    =        X
      return e                  return e                                                                               *)
Theorem guard_with_value_is_conditional t X v s :
  run (SIf (tneg t) [SRet v] [] :: X ++ [SRet v]) s = run [SIf t X []; SRet v] s.
Proof.
  cbn [run]. rewrite !exec_if, tneg_ok. destruct (teval t s); cbn [negb run].
  - rewrite run_app. destruct (run X s) as [s' [o|]]; reflexivity.
  - reflexivity.
Qed.
End NF.
Print Assumptions rule_guard_clause.
Print Assumptions inverted_guard_is_conditional.
Print Assumptions guard_with_value_is_conditional.
