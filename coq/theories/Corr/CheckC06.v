(* Correspondence for C06: the block list RasterPairReader.block_pairs() yielded on a real file pair
   must be the model's list, field by field, given the oracle doubles rasterio handed over.
   A case is a flat list of doubles (see harness/impl_windows.py: encode_block_case). *)
From Coq Require Import ZArith List Bool Uint63 PrimFloat.
From HV Require Import Base.ZRange Base.FloatDec Grid.Window.
Import ListNotations.
Open Scope Z_scope.

Record oblock := {
  o_band : nat; o_outer : bool;
  o_pin : win; o_pout : win; o_oin : win; o_oout : win;
  o_fin : float * float * float * float;      (* other-grid float window of the proc in-block: col_off,row_off,width,height *)
  o_bnd : float * float * float * float       (* images of the proc out corners: row lo, row hi, col lo, col hi *)
}.

Definition dec_win (l : list float) : win :=
  match l with
  | r :: c :: h :: w :: _ => {| w_row := f2z r; w_col := f2z c; w_h := f2z h; w_w := f2z w |}
  | _ => {| w_row := 0; w_col := 0; w_h := -1; w_w := -1 |}
  end.
Definition dec4 (l : list float) : float * float * float * float :=
  match l with a :: b :: c :: d :: _ => (a, b, c, d) | _ => (nan, nan, nan, nan) end.

Definition blk_len := 26%nat.
Definition dec_block (l : list float) : oblock :=
  {| o_band := f2n (nth 0 l nan); o_outer := (f2z (nth 1 l nan) =? 1);
     o_pin := dec_win (skipn 2 l); o_pout := dec_win (skipn 6 l);
     o_oin := dec_win (skipn 10 l); o_oout := dec_win (skipn 14 l);
     o_fin := dec4 (skipn 18 l); o_bnd := dec4 (skipn 22 l) |}.
Fixpoint dec_blocks (n : nat) (l : list float) : list oblock :=
  match n with O => [] | S k => dec_block (firstn blk_len l) :: dec_blocks k (skipn blk_len l) end.

Record bcase := { c_nbands : nat; c_pw : win; c_bs : Z * Z; c_ov : Z * Z; c_blocks : list oblock }.
Definition dec_case (l : list float) : option bcase :=
  match l with
  | nb :: pr :: pc :: ph :: pwd :: bsr :: bsc :: ovr :: ovc :: nblk :: rest =>
    Some {| c_nbands := f2n nb; c_pw := {| w_row := f2z pr; w_col := f2z pc; w_h := f2z ph; w_w := f2z pwd |};
            c_bs := (f2z bsr, f2z bsc); c_ov := (f2z ovr, f2z ovc);
            c_blocks := dec_blocks (f2n nblk) rest |}
  | _ => None
  end.

Definition axis_ok (m : option (Z * Z)) (off len : Z) : bool :=
  match m with Some (o, n) => (o =? off) && (n =? len) | None => false end.

Definition block_ok (pb : pblock) (ob : oblock) : bool :=
  let '(fc, fr, fw, fh) := o_fin ob in
  let '(brl, brh, bcl, bch) := o_bnd ob in
  Nat.eqb (pb_band pb) (o_band ob) && Bool.eqb (pb_outer pb) (o_outer ob)
  && win_eqb (pb_in pb) (o_pin ob) && win_eqb (pb_out pb) (o_pout ob)
  && axis_ok (expand_axis fr fh) (w_row (o_oin ob)) (w_h (o_oin ob))
  && axis_ok (expand_axis fc fw) (w_col (o_oin ob)) (w_w (o_oin ob))
  && axis_ok (corner_axis brl brh) (w_row (o_oout ob)) (w_h (o_oout ob))
  && axis_ok (corner_axis bcl bch) (w_col (o_oout ob)) (w_w (o_oout ob)).

Fixpoint blocks_ok (m : list pblock) (o : list oblock) : bool :=
  match m, o with
  | [], [] => true
  | pb :: m', ob :: o' => block_ok pb ob && blocks_ok m' o'
  | _, _ => false
  end.

(* H_monotone_bnd, checked per case: the rounded corner images are a monotone function of the integer corner *)
Definition rz (f : float) : Z := match f_rint f with Some z => z | None => 0 end.
Definition corners (ob : oblock) : list (Z * Z) * list (Z * Z) :=
  let '(brl, brh, bcl, bch) := o_bnd ob in
  let o := o_pout ob in
  ([(w_row o, rz brl); (w_row o + w_h o, rz brh)], [(w_col o, rz bcl); (w_col o + w_w o, rz bch)]).
Definition mono_pairs (l : list (Z * Z)) : bool :=
  forallb (fun a => forallb (fun b => if fst a <=? fst b then snd a <=? snd b else true) l) l.
Definition bnd_monotone (obs : list oblock) : bool :=
  mono_pairs (flat_map (fun ob => fst (corners ob)) obs) && mono_pairs (flat_map (fun ob => snd (corners ob)) obs).

Definition check (l : list float) : bool :=
  match dec_case l with
  | None => false
  | Some c => blocks_ok (proc_blocks (c_pw c) (c_bs c) (c_ov c) (c_nbands c)) (c_blocks c) && bnd_monotone (c_blocks c)
  end.

(* non-trivial: at least two blocks along each axis *)
Definition nontrivial (l : list float) : bool :=
  match dec_case l with
  | None => false
  | Some c =>
    (2 <=? length (axis_blocks (w_row (c_pw c)) (w_h (c_pw c)) (fst (c_bs c)) (fst (c_ov c))))%nat
    && (2 <=? length (axis_blocks (w_col (c_pw c)) (w_w (c_pw c)) (snd (c_bs c)) (snd (c_ov c))))%nat
  end.

(* ---- second case kind: auto block shape, overlap, kernel validation, expand/round on raw float windows *)
(* [0; h; w; maxb_num; maxb_den_log2; inf_flag; obs_bh; obs_bw; obs_err] *)
Definition check_auto (l : list float) : bool :=
  match l with
  | h :: w :: mb :: isinf :: obh :: obw :: oerr :: _ =>
    let maxb := if f2z isinf =? 1 then None else f2q mb in
    match auto_block_shape (f2z h) (f2z w) maxb with
    | Some (bh, bw) => (f2z oerr =? 0) && (bh =? f2z obh) && (bw =? f2z obw)
    | None => f2z oerr =? 1
    end
  | _ => false
  end.
Definition nontrivial_auto (l : list float) : bool :=
  match l with
  | h :: w :: mb :: isinf :: obh :: obw :: oerr :: _ => (f2z obh <? f2z h) || (f2z obw <? f2z w)
  | _ => false end.

(* [off; len; exp_off; exp_len; rnd_off; rnd_len] one axis of expand_window_to_grid / round_window_to_grid *)
Definition check_fwin (l : list float) : bool :=
  match l with
  | off :: len :: eo :: el :: ro :: rl :: _ =>
    axis_ok (expand_axis off len) (f2z eo) (f2z el) && axis_ok (round_axis off len) (f2z ro) (f2z rl)
  | _ => false
  end.
Definition nontrivial_fwin (l : list float) : bool :=
  match l with
  | off :: len :: _ => match f2me off with Some me => negb (me_is_int me) | None => false end
  | _ => false end.

(* [k; observed overlap_for_kernel k] and [model; kh; kw; accepted by validate_kernel_shape] *)
Definition check_overlap (l : list float) : bool :=
  match l with
  | k :: o :: _ => overlap_for_kernel (f2z k) =? f2z o
  | _ => false end.
Definition nontrivial_overlap (l : list float) : bool := match l with k :: _ => 1 <? f2z k | _ => false end.
Definition check_kshape (l : list float) : bool :=
  match l with
  | m :: kh :: kw :: acc :: _ =>
    let md := match f2z m with 0 => MGain | 1 => MGainBlkOffset | _ => MGainOffset end in
    Bool.eqb (validate_kernel_shape md (f2z kh) (f2z kw)) (f2z acc =? 1)
  | _ => false end.
Definition nontrivial_kshape (l : list float) : bool := match l with _ :: kh :: kw :: _ => negb (f2z kh =? f2z kw) | _ => false end.
