(* Correspondence for C13: RasterArray._convert_array_dtype and the written file versus Enc.Dtype.
   Case: [dtype 0..6; nodata is None; nodata; mask written (file cases) ; n; n float32 inputs (nan = invalid); n outputs; n read-back validity flags (or -1)] *)
From Coq Require Import ZArith QArith List Bool Uint63 PrimFloat.
From HV Require Import Base.FloatDec Enc.Dtype.
Import ListNotations.
Open Scope Z_scope.

Definition dec_dtype (f : float) : dtype :=
  match f2z f with 0 => U8 | 1 => I16 | 2 => U16 | 3 => I32 | 4 => U32 | 5 => F32 | _ => F64 end.
Definition feqb (a b : float) : bool := (is_nan a && is_nan b) || PrimFloat.eqb a b.
Definition to_fpix (f : float) : option fpix :=
  match f2q f with
  | Some q => Some (PFin q)
  | None => if is_nan f then None else if PrimFloat.ltb 0 f then Some PPosInf else Some PNegInf
  end.

Definition px_ok (d : dtype) (nd_none : bool) (nd : float) (mw : bool) (v o flag : float) : bool :=
  let valid := negb (is_nan v) in
  let fl := f2z flag in
  if is_int d then
    let ndz := if nd_none then None else Some (f2z nd) in
    match to_fpix v with
    | Some p =>
      let exp := convert_px d ndz true p in
      opt_eqb Z.eqb exp (Some (f2z o)) && is_finite o
      && ((fl =? -1) || Bool.eqb (reads_valid ndz mw true exp) (fl =? 1))
    | None =>
      (* invalid pixel: nodata when there is one, unspecified number under the internal mask otherwise *)
      (if nd_none then true else (f2z o =? f2z nd) && is_finite o)
      && ((fl =? -1) || Bool.eqb (reads_valid ndz mw false (convert_px d ndz false PPosInf)) (fl =? 1))
    end
  else
    (* float targets: exact (float32 identity, float64 exact embedding); invalid -> nodata *)
    if valid then feqb v o else (if nd_none then true else feqb o nd)
  .

Fixpoint zip3_ok (d : dtype) (nn : bool) (nd : float) (mw : bool) (vs os fs : list float) : bool :=
  match vs, os, fs with
  | [], [], [] => true
  | v :: vs', o :: os', f :: fs' => px_ok d nn nd mw v o f && zip3_ok d nn nd mw vs' os' fs'
  | _, _, _ => false
  end.
Definition check (l : list float) : bool :=
  match l with
  | dt :: nn :: nd :: mw :: n :: r =>
    let k := f2n n in
    zip3_ok (dec_dtype dt) (f2z nn =? 1) nd (f2z mw =? 1) (firstn k r) (firstn k (skipn k r)) (skipn k (skipn k r))
  | _ => false
  end.
(* non-trivial: an integer target and some value that needs rounding or saturation *)
Definition nontrivial (l : list float) : bool :=
  match l with
  | dt :: nn :: nd :: mw :: n :: r =>
    is_int (dec_dtype dt) &&
    existsb (fun v => match f2me v with Some me => negb (me_is_int me) | None => negb (is_nan v) end) (firstn (f2n n) r)
  | _ => false
  end.
