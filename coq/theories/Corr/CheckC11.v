(* Correspondence for C11: RasterCompare.process() on real file pairs versus Stats.Compare on the jointly valid pixel pairs
   of the processing grid.   Case: [nbands; per band: nblocks; per block: k; k x (src, ref); observed r2, rmse, rrmse, n;
   then the "Mean" row: r2, rmse, rrmse, n] *)
From Coq Require Import ZArith QArith Qabs List Bool Uint63 PrimFloat.
From HV Require Import Base.QSum Base.FloatDec Kernel.Fit Stats.Compare.
Import ListNotations.
Open Scope Q_scope.

Definition qd (f : float) : Q := match f2q f with Some q => q | None => 0 end.
Fixpoint dec_px (k : nat) (l : list float) : list px * list float :=
  match k with
  | O => ([], l)
  | S k' => match l with x :: y :: r => let '(ps, rest) := dec_px k' r in ((qd x, qd y) :: ps, rest) | _ => ([], []) end
  end.
Fixpoint dec_blocks (nb : nat) (l : list float) : list (list px) * list float :=
  match nb with
  | O => ([], l)
  | S nb' => match l with
             | k :: r => let '(b, r1) := dec_px (f2n k) r in let '(bs, r2) := dec_blocks nb' r1 in (b :: bs, r2)
             | [] => ([], [])
             end
  end.

Definition tolr : Q := 1 # 100000000.     (* 1e-8 relative: the sums are exact integers, the rest is float64 *)
Definition closeq (m : fval) (o : float) (sq : bool) : bool :=
  match m, f2q o with
  | Fin q, Some x => let v := if sq then x * x else x in Qle_bool (Qabs (v - q)) (tolr * (1 + Qabs q))
  | NonFin, None => true
  | _, _ => false
  end.

Fixpoint check_bands (nb : nat) (l : list float) (acc : list (float * float * float * float)) : bool * list float * list (float * float * float * float) :=
  match nb with
  | O => (true, l, acc)
  | S nb' =>
    match l with
    | nblk :: r =>
      let '(blocks, r1) := dec_blocks (f2n nblk) r in
      match r1 with
      | o_r2 :: o_rmse :: o_rr :: o_n :: r2 =>
        let st := band_stats (accumulate blocks) in
        let ok := closeq (s_r2 st) o_r2 false && closeq (s_rmse2 st) o_rmse true && closeq (s_rrmse2 st) o_rr true
                  && Qeq_bool (s_n st) (qd o_n) in
        let '(ok', rest, acc') := check_bands nb' r2 (acc ++ [(o_r2, o_rmse, o_rr, o_n)]) in (ok && ok', rest, acc')
      | _ => (false, [], acc)
      end
    | [] => (false, [], acc)
    end
  end.

(* "Mean" = the band average of the reported values; N is int(sum / len) *)
Definition mean_ok (rows : list (float * float * float * float)) (m : list float) : bool :=
  match m with
  | m_r2 :: m_rmse :: m_rr :: m_n :: _ =>
    let k := inject_Z (Z.of_nat (length rows)) in
    let avg (f : float * float * float * float -> float) (o : float) :=
        if forallb (fun r => is_finite (f r)) rows
        then closeq (Fin (qsum (fun r => qd (f r)) rows / k)) o false else negb (is_finite o) in
    avg (fun r => fst (fst (fst r))) m_r2 && avg (fun r => snd (fst (fst r))) m_rmse && avg (fun r => snd (fst r)) m_rr
    && (f2z m_n =? (Qnum (Qred (qsum (fun r => qd (snd r)) rows)) / Z.of_nat (length rows)))%Z
  | _ => false
  end.

Definition check (l : list float) : bool :=
  match l with
  | nb :: r => let '(ok, rest, rows) := check_bands (f2n nb) r [] in ok && mean_ok rows rest
  | [] => false
  end.
Definition nontrivial (l : list float) : bool :=
  match l with
  | nb :: nblk :: _ => (2 <=? f2n nblk)%nat || (2 <=? f2n nb)%nat
  | _ => false
  end.
