(* Correspondence for the generated skeleton: the lock / dataset-access trace a block was OBSERVED to perform at run time
   (through the interposed locks and dataset proxies) must be one of the outcomes of the generated worker program -
   this validates the translator against the running code.   Codes: Acq l = 10+l, Rel l = 20+l, Beg r = 30+r, End r = 40+r. *)
From Coq Require Import ZArith List Bool Uint63 PrimFloat.
From HV Require Import Base.FloatDec Conc.Sem Conc.IR Conc.Coord.
From HVgen Require Import Skeleton.
Import ListNotations.

Definition dec_action (f : float) : action :=
  let z := f2z f in
  if (z <? 20)%Z then Acq (Z.to_nat (z - 10)) else if (z <? 30)%Z then Rel (Z.to_nat (z - 20))
  else if (z <? 40)%Z then Beg (Z.to_nat (z - 30)) else End (Z.to_nat (z - 40)).
Definition action_eqb (a b : action) : bool :=
  match a, b with
  | Acq x, Acq y | Rel x, Rel y | Beg x, Beg y | End x, End y => Nat.eqb x y
  | Loc, Loc => true
  | _, _ => false
  end.
Definition strip_loc (tr : list action) : list action := filter (fun a => match a with Loc => false | _ => true end) tr.
Definition prog_of (z : Z) : list stmt :=
  match z with 0%Z => fuse_worker | 1%Z => compare_worker | 2%Z => stats_window_worker | _ => stats_sums_worker end.

(* lock skeleton: what remains after dropping dataset accesses and local steps.  An access may legitimately perform no dataset call
   at all (an output window that does not intersect the dataset writes nothing), so the comparison is:
     - the observed trace itself, viewed through the generated dataset -> lock map, obeys the lock discipline (every dataset call inside
       the lock that guards that dataset, no nesting, everything released),
     - its lock skeleton and outcome are those of some outcome of the generated program,
     - it performs no dataset access the matching generated outcomes do not have. *)
Definition skeleton (tr : list action) : list action :=
  filter (fun a => match a with Acq _ | Rel _ => true | _ => false end) tr.
Definition accesses (tr : list action) : list nat :=
  flat_map (fun a => match a with Beg r => [r] | _ => [] end) tr.
Fixpoint sublist (a b : list nat) : bool :=
  match a, b with
  | [], _ => true
  | _ :: _, [] => false
  | x :: a', y :: b' => if Nat.eqb x y then sublist a' b' else sublist a b'
  end.

(* [program id; failed flag; action codes ...] *)
Definition check (l : list float) : bool :=
  match l with
  | pid :: failed :: codes =>
    let obs := map dec_action codes in
    guarded [] None (map (relabel_action lock_class) obs) &&
    existsb (fun o : outc => list_eqb action_eqb (skeleton (fst o)) (skeleton obs) && Bool.eqb (snd o) (f2z failed =? 1)%Z
                             && sublist (accesses obs) (accesses (fst o)))
            (execs (prog_of (f2z pid)))
  | _ => false
  end.
Definition nontrivial (l : list float) : bool := (4 <=? length l)%nat.
