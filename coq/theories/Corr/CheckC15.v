(* Correspondence for C15: MatchedPairReader._match_pair_bands on duck-typed datasets versus Bands.Match.match_pair_bands.
   Case: [force; image src; image ref; selection src; selection ref; observed]
     image     = n; then n x (colour interp 0..4; mask-description flag; center wavelength or nan)
     selection = given flag; k; k band numbers
     observed  = 0; ks; src bands; kr; ref bands   |   error code 1..7 *)
From Coq Require Import ZArith List Bool Uint63 PrimFloat.
From HV Require Import Base.FloatDec Bands.Match.
Import ListNotations.

Definition dec_ci (f : float) : cinterp :=
  match f2z f with 0%Z => CRed | 1%Z => CGreen | 2%Z => CBlue | 3%Z => CAlpha | _ => COther end.
Fixpoint dec_bands (n : nat) (l : list float) : image * list float :=
  match n with
  | O => ([], l)
  | S k => match l with
           | ci :: md :: cw :: r =>
             let '(bs, rest) := dec_bands k r in
             ({| b_ci := dec_ci ci; b_maskdesc := (f2z md =? 1)%Z; b_cw := if is_nan cw then None else Some cw |} :: bs, rest)
           | _ => ([], [])
           end
  end.
Definition dec_image (l : list float) : image * list float :=
  match l with n :: r => dec_bands (f2n n) r | [] => ([], []) end.
Definition dec_nats (n : nat) (l : list float) : list nat * list float := (map f2n (firstn n l), skipn n l).
Definition dec_sel (l : list float) : option (list nat) * list float :=
  match l with
  | g :: k :: r => let '(ns, rest) := dec_nats (f2n k) r in ((if (f2z g =? 1)%Z then Some ns else None), rest)
  | _ => (None, [])
  end.
Definition err_code (e : err) : Z :=
  match e with EInvalid => 1 | EAlpha => 2 | ENone => 3 | EFewer => 4 | EDist => 5 | EShape => 6 | EUnmatched => 7 end.

Definition run_case (l : list float) : option ((err + (list nat * list nat)) * list float) :=
  match l with
  | force :: r0 =>
    let '(src, r1) := dec_image r0 in let '(ref, r2) := dec_image r1 in
    let '(sb, r3) := dec_sel r2 in let '(rb, r4) := dec_sel r3 in
    Some (match_pair_bands src ref sb rb (f2z force =? 1)%Z, r4)
  | [] => None
  end.

Definition check (l : list float) : bool :=
  match run_case l with
  | Some (inl e, code :: _) => (f2z code =? err_code e)%Z
  | Some (inr (s, r), code :: ks :: rest) =>
    (f2z code =? 0)%Z &&
    (let '(os, rest2) := dec_nats (f2n ks) rest in
     match rest2 with
     | kr :: rest3 => let '(or_, _) := dec_nats (f2n kr) rest3 in
                      list_eqb Nat.eqb s os && list_eqb Nat.eqb r or_
     | [] => false
     end)
  | _ => false
  end.
(* non-trivial: at least two bands matched, or an error other than an invalid selection *)
Definition nontrivial (l : list float) : bool :=
  match run_case l with
  | Some (inr (s, _), _) => (2 <=? length s)%nat
  | Some (inl e, _) => match e with EInvalid | EAlpha => false | _ => true end
  | None => false
  end.
