(* Correspondence for C20 / C08(read): RasterArray.from_rio_dataset and to_rio_dataset on real files
   versus Grid.Dataset.read_window / write_window.  Values are compared as doubles (nan = nan). *)
From Coq Require Import ZArith List Bool Uint63 PrimFloat.
From HV Require Import Base.ZRange Base.FloatDec Grid.Window Grid.Dataset.
Import ListNotations.
Open Scope Z_scope.

Definition feq (a b : float) : bool := (is_nan a && is_nan b) || PrimFloat.eqb a b.
Definition img_of (W : Z) (l : list float) : Z -> Z -> float :=
  fun r c => if (r <? 0) || (c <? 0) || (W <=? c) then nan else nth (Z.to_nat (r * W + c)) l nan.
Definition grid (h w : Z) : list (Z * Z) := list_prod (zrange 0 (Z.to_nat h)) (zrange 0 (Z.to_nat w)).

Definition check_read (l : list float) : bool :=
  match l with
  | fH :: fW :: fm :: nodata :: fr :: fc :: fh :: fw :: rest =>
    let H := f2z fH in let W := f2z fW in let n := Z.to_nat (H * W) in
    let h := f2z fh in let w := f2z fw in
    let raw := img_of W (firstn n rest) in
    let vl := img_of W (firstn n (skipn n rest)) in
    let obs := img_of w (skipn n (skipn n rest)) in
    let valid := fun r c => negb (feq (vl r c) 0%float) in
    let win := {| w_row := f2z fr; w_col := f2z fc; w_h := h; w_w := w |} in
    let m := read_window raw valid (f2z fm =? 1) H W nodata win in
    (length (skipn n (skipn n rest)) =? Z.to_nat (h * w))%nat
    && forallb (fun p => feq (m (fst p) (snd p)) (obs (fst p) (snd p))) (grid h w)
  | _ => false
  end.

Definition check_write (l : list float) : bool :=
  match l with
  | fH :: fW :: far :: fac :: fah :: faw :: fr :: fc :: fh :: fw :: ferr :: rest =>
    let H := f2z fH in let W := f2z fW in let n := Z.to_nat (H * W) in
    let ah := f2z fah in let aw := f2z faw in let na := Z.to_nat (ah * aw) in
    let before := img_of W (firstn n rest) in
    let arr := img_of aw (firstn na (skipn n rest)) in
    let after := img_of W (skipn na (skipn n rest)) in
    let win := {| w_row := f2z fr; w_col := f2z fc; w_h := f2z fh; w_w := f2z fw |} in
    match write_window before H W arr (f2z far) (f2z fac) ah aw win with
    | None => f2z ferr =? 1
    | Some ds' => (f2z ferr =? 0) && forallb (fun p => feq (ds' (fst p) (snd p)) (after (fst p) (snd p))) (grid H W)
    end
  | _ => false
  end.

Definition check (l : list float) : bool :=
  match l with
  | k :: rest => if f2z k =? 0 then check_read rest else check_write rest
  | [] => false
  end.

(* non-trivial: the window is not wholly inside the dataset *)
Definition nontrivial (l : list float) : bool :=
  match l with
  | k :: fH :: fW :: a :: b :: c :: d :: e :: f :: g :: h :: _ =>
    if f2z k =? 0 then
      let H := f2z fH in let W := f2z fW in
      negb ((0 <=? f2z c) && (f2z c + f2z e <=? H) && (0 <=? f2z d) && (f2z d + f2z f <=? W))
    else
      let H := f2z fH in let W := f2z fW in
      negb ((0 <=? f2z e) && (f2z e + f2z g <=? H) && (0 <=? f2z f) && (f2z f + f2z h <=? W))
  | _ => false
  end.
