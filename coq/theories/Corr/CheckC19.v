(* Correspondence for C19's configuration merge: which of {default = 0, configuration file = 1, command line = 2} the
   effective value of an option came from in a real CliRunner invocation, versus Cli.Merge.merge1.
   Case: [given on the command line; the command-line value parses to None; present in the configuration file; observed 0/1/2] *)
From Coq Require Import ZArith List Bool Uint63 PrimFloat.
From HV Require Import Base.FloatDec Cli.Merge.
Import ListNotations.

Definition check (l : list float) : bool :=
  match l with
  | cli :: cli_none :: conf :: obs :: _ =>
    let from_cli := (f2z cli =? 1)%Z in
    let v : option nat := if from_cli then (if (f2z cli_none =? 1)%Z then None else Some 2%nat) else Some 0%nat in
    let c : option nat := if (f2z conf =? 1)%Z then Some 1%nat else None in
    match merge1 nat {| p_val := v; p_from_cli := from_cli |} c with
    | Some r => (Z.of_nat r =? f2z obs)%Z
    | None => (f2z obs =? 3)%Z       (* value None: null *)
    end
  | _ => false
  end.
Definition nontrivial (l : list float) : bool :=
  match l with cli :: _ :: conf :: _ => (f2z cli =? 1)%Z && (f2z conf =? 1)%Z | _ => false end.
