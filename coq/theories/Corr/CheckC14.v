(* Correspondence for C14: band layout of a parameter image written by a real fusion.
   Case: [n; count; count x label code (0 GAIN, 1 OFFSET, 2 R2, 9 other); accepted by validate_param_image;
          n x 3 observed band numbers whose data are the gain / offset / R2 of matched band i (found by content), 0 = not identifiable] *)
From Coq Require Import ZArith List Bool Uint63 PrimFloat.
From HV Require Import Base.FloatDec Grid.Layout.
Import ListNotations.
Open Scope Z_scope.

Definition check (l : list float) : bool :=
  match l with
  | fn :: fc :: r =>
    let n := f2z fn in let c := f2n fc in
    let labels := map f2z (firstn c r) in
    match skipn c r with
    | acc :: idx =>
      (f2z fc =? 3 * n)
      && forallb (fun p => snd p =? label_of n (fst p)) (combine (map (fun k => Z.of_nat k + 1) (seq 0 c)) labels)
      && Bool.eqb (validator_accepts n labels) (f2z acc =? 1) && (f2z acc =? 1)
      && forallb (fun p => let '(ik, b) := p in (f2z b =? 0) || (f2z b =? param_index n (Z.of_nat (fst ik)) (Z.of_nat (snd ik))))
                 (combine (list_prod (seq 0 (Z.to_nat n)) (seq 0 3)) idx)
    | [] => false
    end
  | _ => false
  end.
Definition nontrivial (l : list float) : bool := match l with fn :: _ => 2 <=? f2z fn | [] => false end.
