(* Correspondence for the kernel model: KernelModel.fit on in-memory RasterArrays versus Kernel.Fit.fit_px.
   Every number is a double literal decoded exactly; the model computes in Q; the implementation's float32
   results must lie within a bound derived from the model's own exact intermediate values. *)
From Coq Require Import ZArith QArith Qabs List Bool Uint63 PrimFloat.
From HV Require Import Base.ZRange Base.QSum Base.FloatDec Kernel.Fit.
Import ListNotations.
Open Scope Z_scope.

Definition rows := list (list (option Q)).
Definition getpx (im : rows) (u v : Z) : option Q :=
  if (u <? 0) || (v <? 0) then None else
  match nth_error im (Z.to_nat u) with
  | Some r => match nth_error r (Z.to_nat v) with Some x => x | None => None end
  | None => None
  end.
Definition rows_of (H W : nat) (l : list float) : rows := take_rows W H (map f2q l).
Definition valq (im : rows) (u v : Z) : Q := match getpx im u v with Some q => q | None => 0%Q end.
Definition valid (im : rows) (u v : Z) : bool := match getpx im u v with Some _ => true | None => false end.

Definition mk_blk (H W : Z) (s r : rows) : blk :=
  {| bH := H; bW := W; sv := valq s; rv := valq r; sm := valid s; rm := valid r |}.

Open Scope Q_scope.
Definition eps : Q := 1 # 1048576.   (* 2^-20: 16 float32 ulps *)
Definition close (tol : Q) (m : fval) (o : option Q) : bool :=
  match m, o with
  | Fin q, Some x => Qle_bool (Qabs (x - q)) tol
  | NonFin, None => true
  | _, _ => false
  end.
(* a tolerance so large that the comparison carries no information: such pixels are accepted but the case
   is not counted as non-trivial *)
Definition ill (tol v : Q) : bool := negb (Qle_bool tol ((1 # 100) * (1 + Qabs v))).

Definition fabs (x : fval) : Q := match x with Fin q => Qabs q | NonFin => 0 end.
Definition fv (x : fval) : Q := match x with Fin q => q | NonFin => 0 end.
Definition inv_abs (d : Q) : Q := if Qeq_bool d 0 then 0 else / Qabs d.

(* derived error bounds (first order, generous constants) from the model's exact values *)
Definition tol_gain (S : sums) : Q := eps * (Qabs (sY S) * inv_abs (sX S)) * 2.
Definition scale_m (S : sums) : Q :=
  fabs (go_m S) + (Qabs (sN S * sXY S) + Qabs (sX S * sY S)) * inv_abs (go_den S)
  + fabs (go_m S) * (Qabs (sN S * sXX S) + sX S * sX S) * inv_abs (go_den S).
Definition scale_c (S : sums) : Q :=
  fabs (go_c S) + (Qabs (sY S) + fabs (go_m S) * Qabs (sX S)) * inv_abs (sN S) + scale_m S * Qabs (sX S) * inv_abs (sN S).
Definition tol_r2 (S : sums) (m c dm dc : Q) : Q :=
  let terms := Qabs (m * m * sXX S) + Qabs (2 * (m * c) * sX S) + Qabs (2 * m * sXY S) + Qabs (2 * c * sY S)
               + Qabs (sYY S) + Qabs (sN S * (c * c)) in
  let grad := 2 * Qabs (m * sXX S + c * sX S - sXY S) * dm + 2 * Qabs (m * sX S - sY S + sN S * c) * dc in
  eps * (1 + sN S * (terms + grad) * inv_abs (tss_n S) + Qabs (sN S * sYY S) * inv_abs (tss_n S)).

Record kcase := {
  k_md : model; k_kh : Z; k_kw : Z; k_has_r2 : bool; k_thresh : option Q; k_na : Q; k_nb : Q;
  k_H : Z; k_W : Z; k_src : rows; k_ref : rows; k_gain : rows; k_off : rows; k_r2 : rows }.

Definition qd (f : float) : Q := match f2q f with Some q => q | None => 0 end.
Definition dec_case (l : list float) : option kcase :=
  match l with
  | md :: kh :: kw :: hr2 :: hth :: th :: na :: nb :: fH :: fW :: rest =>
    let H := f2n fH in let W := f2n fW in let n := (H * W)%nat in
    let mdl := match f2z md with 0%Z => MGain | 1%Z => MGainBlkOffset | _ => MGainOffset end in
    Some {| k_md := mdl; k_kh := f2z kh; k_kw := f2z kw; k_has_r2 := (f2z hr2 =? 1)%Z;
            k_thresh := if (f2z hth =? 1)%Z then Some (qd th) else None; k_na := qd na; k_nb := qd nb;
            k_H := Z.of_nat H; k_W := Z.of_nat W;
            k_src := rows_of H W (firstn n rest); k_ref := rows_of H W (firstn n (skipn n rest));
            k_gain := rows_of H W (firstn n (skipn (2 * n) rest)); k_off := rows_of H W (firstn n (skipn (3 * n) rest));
            k_r2 := rows_of H W (firstn n (skipn (4 * n) rest)) |}
  | _ => None
  end.

(* gain-offset with in-painting: is the fitted pair kept at (i, j), and is that decision within the derived bound of a boundary? *)
Definition keep_near (c : kcase) (b : blk) (t : Q) (i j : Z) : bool * bool :=
  let S := ksums b (k_kh c) (k_kw c) i j in
  let tm := eps * scale_m S in let tc := eps * scale_c S in
  let tr := tol_r2 S (fv (go_m S)) (fv (go_c S)) tm tc in
  (go_keep S t, match go_r2 S, go_m S with
                | Fin r, Fin m => Qle_bool (Qabs (r - t)) tr || Qle_bool (Qabs m) tm || ill tr 1
                | _, _ => false end).
(* fillnodata interpolates (inverse distance weighting): a filled offset is a convex combination of the offsets it was filled FROM, i.e. of
   the kept pixels of the block (oracle hypothesis H_inpaint_hull).  [hull] = (min, max) of the observed offsets over the pixels the model
   keeps or nearly keeps; None when there is no such pixel (nothing to fill from: fillnodata leaves the offsets alone). *)
Definition fill_hull (c : kcase) (b : blk) (grid : list (Z * Z)) : option (Q * Q) :=
  match k_md c, k_thresh c with
  | MGainOffset, Some t =>
    let '(sure, h) :=
      fold_left (fun (acc : bool * option (Q * Q)) p =>
        let '(i, j) := p in
        if jmask b i j then
          let '(kp, nr) := keep_near c b t i j in
          if kp || nr then
            (fst acc || (kp && negb nr),
             match getpx (k_off c) i j, snd acc with
             | Some o, None => Some (o, o)
             | Some o, Some (lo, hi) => Some (if Qle_bool o lo then o else lo, if Qle_bool hi o then o else hi)
             | None, a => a
             end)
          else acc
        else acc) grid (false, None) in
    (* without a pixel that is kept beyond doubt it is not known that anything was filled at all *)
    if sure then h else None
  | _, _ => None
  end.
Definition in_hull (hull : option (Q * Q)) (o : option Q) : bool :=
  match hull, o with
  | Some (lo, hi), Some x => let slack := eps * (Qabs lo + Qabs hi + 1) * 16 in Qle_bool (lo - slack) x && Qle_bool x (hi + slack)
  | _, _ => true
  end.

(* per-pixel verdict: 0 = disagreement, 1 = agreement, 2 = agreement but uninformative (ill-conditioned / threshold tie) *)
Definition px_check (c : kcase) (b : blk) (hull : option (Q * Q)) (i j : Z) : nat :=
  let og := getpx (k_gain c) i j in let oo := getpx (k_off c) i j in let orr := getpx (k_r2 c) i j in
  let cfill := fun u v => valq (k_off c) u v in
  let r2ok (tol : Q) (m : fval) := if k_has_r2 c then close tol m orr || ill tol (fv m) else true in
  if negb (jmask b i j) then
    match og, oo with None, None => (if k_has_r2 c then match orr with None => 1 | _ => 0 end else 1) | _, _ => 0 end%nat
  else
  match k_md c with
  | MGain =>
    let S := ksums b (k_kh c) (k_kw c) i j in
    let g := fst (gain_params S) in
    let tg := tol_gain S in
    let tr := tol_r2 S (fv g) 0 tg 0 in
    if close tg g og && close 0 (Fin 0) oo && r2ok tr (gain_r2 S) then (if ill tr 1 then 2 else 1)%nat else 0%nat
  | MGainBlkOffset =>
    let S' := ksums (norm_blk b (k_na c) (k_nb c)) (k_kh c) (k_kw c) i j in
    let '(g, o) := gbo_params S' (k_na c) (k_nb c) in
    let g' := fdiv (sY S') (sX S') in
    let tg := tol_gain S' * (1 + Qabs (k_na c)) * 2 + eps * fabs g in
    let to := tol_gain S' * (1 + Qabs (k_nb c)) * 2 + eps * fabs o in
    let tr := tol_r2 S' (fv g') 0 (tol_gain S') 0 in
    if close tg g og && close to o oo && r2ok tr (fbind g' (fun m => r2_of S' (rss_g S' m)))
    then (if ill tr 1 then 2 else 1)%nat else 0%nat
  | MGainOffset =>
    let S := ksums b (k_kh c) (k_kw c) i j in
    let tm := eps * scale_m S in let tc := eps * scale_c S in
    let tr := tol_r2 S (fv (go_m S)) (fv (go_c S)) tm tc in
    let kept_ok := close tm (go_m S) og && close tc (go_c S) oo && r2ok tr (go_r2 S) in
    let cf := cfill i j in
    let tgf := eps * (fabs (go_regain S cf) + (Qabs (sY S) + Qabs (sN S * cf)) * inv_abs (sX S)) in
    (* fillnodata is an oracle: a finite filled offset c' gives the centroid gain; when nothing could be
       filled (offset still NaN) the re-estimated gain is NaN too *)
    let filled_ok := r2ok tr (go_r2 S) && in_hull hull oo
                     && match oo with
                        | Some _ => close tgf (go_regain S cf) og
                        | None => match og with None => true | Some _ => false end
                        end in
    let bad := ill tm (fv (go_m S)) || ill tc (fv (go_c S)) in
    match k_thresh c with
    | None => if kept_ok then (if bad then 2 else 1)%nat else if bad then 2%nat else 0%nat
    | Some t =>
      (* within the derived bound of a decision boundary either branch is accepted *)
      let near := match go_r2 S, go_m S with
                  | Fin r, Fin m => Qle_bool (Qabs (r - t)) tr || Qle_bool (Qabs m) tm || ill tr 1
                  | _, _ => false end in
      if go_keep S t then (if kept_ok then (if bad then 2 else 1)%nat else if (near && filled_ok) || bad then 2%nat else 0%nat)
      else (if filled_ok then 1%nat else if (near && kept_ok) || bad then 2%nat else 0%nat)
    end
  end.

Definition grid (H W : Z) : list (Z * Z) := list_prod (zrange 0 (Z.to_nat H)) (zrange 0 (Z.to_nat W)).
Definition verdicts (l : list float) : list nat :=
  match dec_case l with
  | None => [0%nat]
  | Some c => let b := mk_blk (k_H c) (k_W c) (k_src c) (k_ref c) in
              let hull := fill_hull c b (grid (k_H c) (k_W c)) in
              map (fun p => px_check c b hull (fst p) (snd p)) (grid (k_H c) (k_W c))
  end.
Definition check (l : list float) : bool := forallb (fun v => negb (Nat.eqb v 0)) (verdicts l).
(* both answers from ONE evaluation of the per-pixel verdicts (the expensive part): (agreement, non-trivial) *)
Definition check_nt (l : list float) : bool * bool :=
  match dec_case l with
  | None => (false, false)
  | Some c =>
    let vs := verdicts l in
    let b := mk_blk (k_H c) (k_W c) (k_src c) (k_ref c) in
    let nj := length (filter (fun p => jmask b (fst p) (snd p)) (grid (k_H c) (k_W c))) in
    let n2 := length (filter (Nat.eqb 2) vs) in
    (forallb (fun v => negb (Nat.eqb v 0)) vs,
     (2 * n2 <=? nj)%nat && (1 <=? nj)%nat && (negb (k_kh c =? k_kw c)%Z || (nj <? Z.to_nat (k_H c * k_W c))%nat))
  end.
(* non-trivial: at least half of the jointly valid pixels gave an informative agreement, and there is a mask or h <> w *)
Definition nontrivial (l : list float) : bool :=
  match dec_case l with
  | None => false
  | Some c =>
    let vs := verdicts l in
    let b := mk_blk (k_H c) (k_W c) (k_src c) (k_ref c) in
    let nj := length (filter (fun p => jmask b (fst p) (snd p)) (grid (k_H c) (k_W c))) in
    let n2 := length (filter (Nat.eqb 2) vs) in
    (2 * n2 <=? nj)%nat && (1 <=? nj)%nat
    && (negb (k_kh c =? k_kw c)%Z || (nj <? Z.to_nat (k_H c * k_W c))%nat)
  end.
