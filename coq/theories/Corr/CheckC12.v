(* Correspondence for C12: ParamStats.stats() on real parameter images versus Stats.Param on the valid values of each band.
   Case: [is gain-offset; has threshold; threshold; nbands; per band: ntiles; per tile: k; k values;
          observed mean, std, min, max, inpaint_p (nan when absent)] *)
From Coq Require Import ZArith QArith Qabs List Bool Uint63 PrimFloat.
From HV Require Import Base.QSum Base.FloatDec Kernel.Fit Stats.Param.
Import ListNotations.
Open Scope Q_scope.

Definition qd (f : float) : Q := match f2q f with Some q => q | None => 0 end.
Fixpoint dec_tiles (nt : nat) (l : list float) : list (list Q) * list float :=
  match nt with
  | O => ([], l)
  | S nt' => match l with
             | k :: r => let '(ts, rest) := dec_tiles nt' (skipn (f2n k) r) in (map qd (firstn (f2n k) r) :: ts, rest)
             | [] => ([], [])
             end
  end.
Definition tolr : Q := 1 # 1000000000.
Definition closeq (scale : Q) (m : fval) (o : float) (sq : bool) : bool :=
  match m, f2q o with
  | Fin q, Some x => let v := if sq then x * x else x in Qle_bool (Qabs (v - q)) (tolr * (scale + Qabs q))
  | NonFin, None => true
  | _, _ => false
  end.
Definition oq_eq (m : option Q) (o : float) : bool :=
  match m, f2q o with Some q, Some x => Qeq_bool q x | None, None => true | _, _ => false end.

Fixpoint check_bands (go : bool) (thresh : option Q) (count : Z) (i : nat) (nb : nat) (l : list float) : bool :=
  match nb with
  | O => true
  | S nb' =>
    match l with
    | nt :: r =>
      let '(tiles, r1) := dec_tiles (f2n nt) r in
      match r1 with
      | o_mean :: o_std :: o_min :: o_max :: o_inp :: r2 =>
        let want_inp := go && is_r2_band count (Z.of_nat i) && match thresh with Some _ => true | None => false end in
        let a := accumulate (if want_inp then thresh else None) tiles in
        let st := band_stats a in
        let s2n := match fdiv (a_sum2 a) (a_n a) with Fin v => Qabs v | NonFin => 0 end in
        closeq 0 (p_mean st) o_mean false && closeq s2n (p_var st) o_std true
        && oq_eq (p_min st) o_min && oq_eq (p_max st) o_max
        && (if want_inp then closeq 0 (p_inpaint st) o_inp false else negb (is_finite o_inp))
        && check_bands go thresh count (S i) nb' r2
      | _ => false
      end
    | [] => false
    end
  end.

Definition check (l : list float) : bool :=
  match l with
  | go :: hth :: th :: nb :: r =>
    check_bands (f2z go =? 1)%Z (if (f2z hth =? 1)%Z then Some (qd th) else None) (f2z nb) 0 (f2n nb) r
  | _ => false
  end.
Definition nontrivial (l : list float) : bool :=
  match l with
  | _ :: _ :: _ :: nb :: nt :: _ => (2 <=? f2n nt)%nat
  | _ => false
  end.
