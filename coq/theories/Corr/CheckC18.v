(* Correspondence for C18.
   kind 0: [0; requested (0 auto, 1 src, 2 ref); |src res x|; |src res y|; |ref res x|; |ref res y|; observed (1 src, 2 ref)]
   kind 1: band round trip = a C15 case: the metadata of the CORRECTED image against the reference, expected = the fusion's pairs *)
From Coq Require Import ZArith QArith List Bool Uint63 PrimFloat.
From HV Require Import Base.FloatDec Grid.ProcGrid Corr.CheckC15.
Import ListNotations.

Definition q (f : float) : Q := match f2q f with Some x => x | None => 0%Q end.
Definition check (l : list float) : bool :=
  match l with
  | k :: rest =>
    if (f2z k =? 0)%Z then
      match rest with
      | req :: sx :: sy :: rx :: ry :: obs :: _ =>
        let r := match f2z req with 0%Z => PAuto | 1%Z => PSrc | _ => PRef end in
        resolve_ok r (q sx * q sy) (q rx * q ry) (match f2z obs with 1%Z => PSrc | 2%Z => PRef | _ => PAuto end)
      | _ => false
      end
    else CheckC15.check rest
  | [] => false
  end.
Definition nontrivial (l : list float) : bool :=
  match l with k :: req :: _ => if (f2z k =? 0)%Z then (f2z req =? 0)%Z else true | _ => false end.
