(* Correspondence for C17: KernelModel._full_coverage_mask on in-memory RasterArrays versus Kernel.Morph.full_coverage.
   Case kind 0: [0; kh; kw; H; W; H*W covered flags; H*W joint flags; H*W observed mask]
   Case kind 1: [1; kh; kw; mask_partial; oh; ow] - the block overlap RasterFuse.process handed to block_pairs: at least the erosion
                reach (kernel half-size + 1), plus one with partial masking (the premise of Kernel.MorphProofs.seam_sampling_safe) *)
From Coq Require Import ZArith List Bool Uint63 PrimFloat.
From HV Require Import Base.ZRange Base.FloatDec Kernel.Morph.
Import ListNotations.
Open Scope Z_scope.

Definition img_of (W : Z) (l : list float) : Z -> Z -> bool :=
  fun r c => if (r <? 0) || (c <? 0) || (W <=? c) then false else (f2z (nth (Z.to_nat (r * W + c)) l nan) =? 1).
Definition check_overlap (l : list float) : bool :=
  match l with
  | kh :: kw :: mp :: oh :: ow :: _ =>
    let extra := if f2z mp =? 1 then 1 else 0 in
    ((f2z kh - 1) / 2 + 1 + extra <=? f2z oh) && ((f2z kw - 1) / 2 + 1 + extra <=? f2z ow)
  | _ => false
  end.
Definition check_cov (l : list float) : bool :=
  match l with
  | kh :: kw :: fH :: fW :: r =>
    let H := f2z fH in let W := f2z fW in let n := Z.to_nat (H * W) in
    let cov := img_of W (firstn n r) in let jnt := img_of W (firstn n (skipn n r)) in
    let obs := img_of W (skipn n (skipn n r)) in
    forallb (fun p => Bool.eqb (full_coverage H W cov jnt (f2z kh) (f2z kw) (fst p) (snd p)) (obs (fst p) (snd p)))
            (list_prod (zrange 0 (Z.to_nat H)) (zrange 0 (Z.to_nat W)))
  | _ => false
  end.
Definition check (l : list float) : bool :=
  match l with k :: r => if f2z k =? 0 then check_cov r else check_overlap r | [] => false end.
Definition nontrivial (l : list float) : bool :=
  match l with _ :: kh :: kw :: _ => negb (f2z kh =? f2z kw) || (3 <=? f2z kh) | _ => false end.
