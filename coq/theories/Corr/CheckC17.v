(* Correspondence for C17: KernelModel._full_coverage_mask on in-memory RasterArrays versus Kernel.Morph.full_coverage.
   Case: [kh; kw; H; W; H*W covered flags; H*W joint flags; H*W observed mask] *)
From Coq Require Import ZArith List Bool Uint63 PrimFloat.
From HV Require Import Base.ZRange Base.FloatDec Kernel.Morph.
Import ListNotations.
Open Scope Z_scope.

Definition img_of (W : Z) (l : list float) : Z -> Z -> bool :=
  fun r c => if (r <? 0) || (c <? 0) || (W <=? c) then false else (f2z (nth (Z.to_nat (r * W + c)) l nan) =? 1).
Definition check (l : list float) : bool :=
  match l with
  | kh :: kw :: fH :: fW :: r =>
    let H := f2z fH in let W := f2z fW in let n := Z.to_nat (H * W) in
    let cov := img_of W (firstn n r) in let jnt := img_of W (firstn n (skipn n r)) in
    let obs := img_of W (skipn n (skipn n r)) in
    forallb (fun p => Bool.eqb (full_coverage H W cov jnt (f2z kh) (f2z kw) (fst p) (snd p)) (obs (fst p) (snd p)))
            (list_prod (zrange 0 (Z.to_nat H)) (zrange 0 (Z.to_nat W)))
  | _ => false
  end.
Definition nontrivial (l : list float) : bool :=
  match l with kh :: kw :: _ => negb (f2z kh =? f2z kw) || (3 <=? f2z kh) | _ => false end.
