(* Correspondence for C10: the outcome of a real RasterFuse.process() call on a pre-seeded directory versus
   Conc.Coord.run_entry on the generated _out_files description.
   [is_str; overwrite; want_param; corr_exists; param_exists; observed (0 ok, 1 FileExistsError, 2 other error); anything changed (0/1)] *)
From Coq Require Import ZArith List Bool Uint63 PrimFloat.
From HV Require Import Base.FloatDec Conc.Coord.
From HVgen Require Import Skeleton.
Import ListNotations.

Definition b (f : float) : bool := (f2z f =? 1)%Z.
Definition check (l : list float) : bool :=
  match l with
  | is_str :: ow :: wp :: ce :: pe :: obs :: changed :: _ =>
    let s : fs := fun k => match k with FCorr => if b ce then Some 1%nat else None | FParam => if b pe then Some 1%nat else None end in
    match run_entry (of_entry fuse_out_files) (of_coerced fuse_out_files) (b ow) (b wp) (b is_str) s with
    | EOk _ => (f2z obs =? 0)%Z
    | EExists _ => (f2z obs =? 1)%Z && negb (b changed)
    | EAttr _ => (f2z obs =? 2)%Z && negb (b changed)
    end
  | _ => false
  end.
Definition nontrivial (l : list float) : bool :=
  match l with _ :: _ :: _ :: ce :: pe :: _ => b ce || b pe | _ => false end.
