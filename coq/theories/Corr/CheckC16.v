(* Correspondence for C16: utils.covers_bounds on real datasets vs Grid.Cover.covers applied to the window
   rasterio produced; for dyadic geometries that window must equal the exact rational one. *)
From Coq Require Import ZArith QArith List Bool Uint63 PrimFloat.
From HV Require Import Base.FloatDec Grid.Cover.
Import ListNotations.
Open Scope Z_scope.

Definition q (f : float) : Q := match f2q f with Some x => x | None => 0%Q end.

(* [roff; coff; h; w; H; W; observed; exact; X0; Y0; res; l; b; r; t] *)
Definition check (l : list float) : bool :=
  match l with
  | fro :: fco :: fh :: fw :: fH :: fW :: fobs :: fexact :: X0 :: Y0 :: res :: sl :: sb :: sr :: st :: _ =>
    let m := covers_f fro fco fh fw (f2z fH) (f2z fW) in                    (* bit-exact double arithmetic *)
    let mq := covers (q tol_f) (q fro) (q fco) (q fh) (q fw) (f2z fH) (f2z fW) in  (* the rational idealisation the theorem is about *)
    Bool.eqb m (f2z fobs =? 1) && Bool.eqb mq (f2z fobs =? 1)
    && (if f2z fexact =? 1 then
          Qeq_bool (q fro) (win_roff (q Y0) (q res) (q st)) && Qeq_bool (q fco) (win_coff (q X0) (q res) (q sl))
          && Qeq_bool (q fh) (win_h (q res) (q sb) (q st)) && Qeq_bool (q fw) (win_w (q res) (q sl) (q sr))
        else true)
  | _ => false
  end.
(* non-trivial: the legacy size test and the containment test disagree, or the window touches an edge *)
Definition nontrivial (l : list float) : bool :=
  match l with
  | fro :: fco :: fh :: fw :: fH :: fW :: _ =>
    negb (Bool.eqb (covers (q tol_f) (q fro) (q fco) (q fh) (q fw) (f2z fH) (f2z fW))
                   (covers_legacy (q fro) (q fco) (q fh) (q fw) (f2z fH) (f2z fW)))
    || Qeq_bool (q fro) 0 || Qeq_bool (q fco) 0
    || Qeq_bool (q fro + q fh) (inject_Z (f2z fH)) || Qeq_bool (q fco + q fw) (inject_Z (f2z fW))
  | _ => false
  end.
