(* C15: soundness of the band matcher, for every band count, selection, metadata and distance type. *)
From Coq Require Import ZArith List Arith Bool Lia Permutation.
From HV Require Import Bands.Match.
Import ListNotations.
Open Scope nat_scope.

(* ------------------------------------------------------------------ the greedy loop *)
Section GreedyProofs.
Variable D : Type.
Variable ltb : D -> D -> bool.
Variable dm : nat -> nat -> option D.
Notation greedy := (greedy D ltb dm).
Notation cands := (cands D dm).
Notation argbest := (argbest D ltb dm).

Lemma argbest_in l acc : In (argbest l acc) (acc :: l).
Proof.
  unfold Match.argbest. revert acc. induction l as [|x l IH]; intros acc; cbn [fold_left]; [left; reflexivity|].
  destruct (lt_pair D ltb dm x acc).
  - destruct (IH x) as [H|H]; [right; left; exact H|right; right; exact H].
  - destruct (IH acc) as [H|H]; [left; exact H|right; right; exact H].
Qed.

Lemma remove_nat_in x y l : In y (remove_nat x l) <-> In y l /\ y <> x.
Proof.
  unfold remove_nat. rewrite filter_In, negb_true_iff, Nat.eqb_neq. tauto.
Qed.
Lemma filter_len_le {A} (f : A -> bool) l : length (filter f l) <= length l.
Proof. induction l as [|a l IH]; cbn [filter]; [lia|]. destruct (f a); cbn [length]; lia. Qed.
Lemma remove_nat_len x l : In x l -> length (remove_nat x l) < length l.
Proof.
  induction l as [|a l IH]; intros H; [destruct H|]. unfold remove_nat in *. cbn [filter].
  destruct (Nat.eqb a x) eqn:E; cbn [negb length].
  - pose proof (filter_len_le (fun y => negb (Nat.eqb y x)) l). lia.
  - apply Nat.eqb_neq in E. destruct H as [H|H]; [congruence|]. specialize (IH H). lia.
Qed.

Lemma cands_in rows cols p : In p (cands rows cols) <-> In (fst p) rows /\ In (snd p) cols /\ has_d D dm p = true.
Proof.
  unfold Match.cands. rewrite filter_In. destruct p as [i j]. rewrite in_prod_iff. cbn [fst snd]. tauto.
Qed.

(* every chosen pair is a row and a column that are still available, with a (non-NaN) distance *)
Lemma greedy_in fuel rows cols p : In p (greedy fuel rows cols) ->
  In (fst p) rows /\ In (snd p) cols /\ has_d D dm p = true.
Proof.
  revert rows cols. induction fuel as [|f IH]; intros rows cols H; cbn [Match.greedy] in H; [destruct H|].
  destruct (cands rows cols) as [|c cs] eqn:Ec; [destruct H|].
  assert (Hb : In (argbest cs c) (cands rows cols)) by (rewrite Ec; apply argbest_in).
  destruct H as [<-|H]; [apply cands_in; exact Hb|].
  destruct (IH _ _ H) as (A & B & C). apply remove_nat_in in A, B. tauto.
Qed.

(* no source band and no reference band is matched twice *)
Lemma greedy_nodup fuel rows cols :
  NoDup (map fst (greedy fuel rows cols)) /\ NoDup (map snd (greedy fuel rows cols)).
Proof.
  revert rows cols. induction fuel as [|f IH]; intros rows cols; cbn [Match.greedy]; [split; constructor|].
  destruct (cands rows cols) as [|c cs]; [split; constructor|]. cbn [map].
  destruct (IH (remove_nat (fst (argbest cs c)) rows) (remove_nat (snd (argbest cs c)) cols)) as [N1 N2].
  split; constructor; try assumption; intro Hin; apply in_map_iff in Hin; destruct Hin as (q & Eq & Hq);
    apply greedy_in in Hq; destruct Hq as (A & B & _); apply remove_nat_in in A, B; tauto.
Qed.

(* the loop only stops when nothing is left to match: an unmatched source band and an unmatched reference band
   never have a distance - i.e. one of them carries no wavelength *)
Lemma greedy_exhaustive fuel rows cols i j : length rows <= fuel ->
  In i rows -> In j cols ->
  ~ In i (map fst (greedy fuel rows cols)) -> ~ In j (map snd (greedy fuel rows cols)) -> dm i j = None.
Proof.
  revert rows cols. induction fuel as [|f IH]; intros rows cols Hl Hi Hj Ni Nj.
  - destruct rows; [destruct Hi|cbn in Hl; lia].
  - cbn [Match.greedy] in Ni, Nj. destruct (cands rows cols) as [|c cs] eqn:Ec.
    + destruct (dm i j) eqn:E; [|reflexivity]. exfalso.
      assert (In (i, j) (cands rows cols)) by (apply cands_in; cbn [fst snd]; unfold has_d; cbn [fst snd]; rewrite E; tauto).
      rewrite Ec in H. destruct H.
    + set (p := argbest cs c) in *. cbn [map] in Ni, Nj.
      assert (Hp : In p (cands rows cols)) by (rewrite Ec; apply argbest_in).
      apply cands_in in Hp. destruct Hp as (P1 & P2 & _).
      apply (IH (remove_nat (fst p) rows) (remove_nat (snd p) cols)).
      * pose proof (remove_nat_len (fst p) rows P1). lia.
      * apply remove_nat_in. split; [exact Hi|]. intro E. apply Ni. left. symmetry. exact E.
      * apply remove_nat_in. split; [exact Hj|]. intro E. apply Nj. left. symmetry. exact E.
      * intro H. apply Ni. right. exact H.
      * intro H. apply Nj. right. exact H.
Qed.

(* ------------------------------------------------------------------ distinct nearest bands are the bands chosen
   [ltb] is a strict order on the distances that occur (irreflexive, transitive - true of < on non-NaN doubles). *)
Hypothesis ltb_irrefl : forall a, ltb a a = false.
Hypothesis ltb_trans : forall a b c, ltb a b = true -> ltb b c = true -> ltb a c = true.
Notation lt_pair := (lt_pair D ltb dm).

Lemma lt_pair_irrefl p : lt_pair p p = false.
Proof. unfold Match.lt_pair. destruct (dm (fst p) (snd p)); [apply ltb_irrefl|reflexivity]. Qed.
Lemma lt_pair_trans p q r : lt_pair p q = true -> lt_pair q r = true -> lt_pair p r = true.
Proof.
  unfold Match.lt_pair. destruct (dm (fst p) (snd p)), (dm (fst q) (snd q)), (dm (fst r) (snd r)); try discriminate.
  apply ltb_trans.
Qed.

(* the candidate the scan returns is minimal: no candidate is strictly nearer *)
Lemma fold_best_le l acc :
  let b := fold_left (fun best p => if lt_pair p best then p else best) l acc in b = acc \/ lt_pair b acc = true.
Proof.
  revert acc. induction l as [|x l IH]; intros acc; cbn [fold_left]; [left; reflexivity|].
  destruct (lt_pair x acc) eqn:E.
  - right. destruct (IH x) as [->|H]; [exact E|exact (lt_pair_trans _ _ _ H E)].
  - apply IH.
Qed.
Lemma argbest_min l acc q : In q (acc :: l) -> lt_pair q (argbest l acc) = false.
Proof.
  unfold Match.argbest. revert acc q. induction l as [|x l IH]; intros acc q Hq; cbn [fold_left].
  - destruct Hq as [<-|[]]. apply lt_pair_irrefl.
  - destruct (lt_pair x acc) eqn:E.
    + destruct Hq as [<-|Hq]; [|apply IH; exact Hq].
      destruct (lt_pair acc (fold_left (fun best p => if lt_pair p best then p else best) l x)) eqn:F; [exfalso|reflexivity].
      destruct (fold_best_le l x) as [Eb|Hb].
      * rewrite Eb in F. pose proof (lt_pair_trans _ _ _ F E) as G. rewrite lt_pair_irrefl in G. discriminate.
      * pose proof (lt_pair_trans _ _ _ (lt_pair_trans _ _ _ F Hb) E) as G. rewrite lt_pair_irrefl in G. discriminate.
    + destruct Hq as [<-|[<-|Hq]]; [apply IH; left; reflexivity| |apply IH; right; exact Hq].
      destruct (lt_pair x (fold_left (fun best p => if lt_pair p best then p else best) l acc)) eqn:F; [exfalso|reflexivity].
      destruct (fold_best_le l acc) as [Eb|Hb].
      * rewrite Eb in F. congruence.
      * pose proof (lt_pair_trans _ _ _ F Hb). congruence.
Qed.

Theorem greedy_nearest (nearest : nat -> nat) fuel rows cols :
  NoDup rows -> length rows <= fuel ->
  (forall i, In i rows -> In (nearest i) cols) ->
  (forall i i', In i rows -> In i' rows -> nearest i = nearest i' -> i = i') ->
  (forall i, In i rows -> exists d, dm i (nearest i) = Some d /\
       forall j d', In j cols -> j <> nearest i -> dm i j = Some d' -> ltb d d' = true) ->
  forall i, In i rows -> In (i, nearest i) (greedy fuel rows cols).
Proof.
  revert rows cols. induction fuel as [|f IH]; intros rows cols Hnd Hl Hin Hinj Hnear i Hi.
  - destruct rows; [destruct Hi|cbn in Hl; lia].
  - cbn [Match.greedy].
    destruct (cands rows cols) as [|c cs] eqn:Ec.
    + exfalso. destruct (Hnear i Hi) as (d & Hd & _).
      assert (In (i, nearest i) (cands rows cols)).
      { apply cands_in. cbn [fst snd]. unfold has_d. cbn [fst snd]. rewrite Hd. auto. }
      rewrite Ec in H. destruct H.
    + remember (argbest cs c) as p eqn:Ep.
      assert (Hp : In p (cands rows cols)) by (rewrite Ec, Ep; apply argbest_in).
      pose proof Hp as Hp'. apply cands_in in Hp'. destruct Hp' as (P1 & P2 & P3).
      assert (Esnd : snd p = nearest (fst p)).
      { destruct (Nat.eq_dec (snd p) (nearest (fst p))) as [E|Ne]; [exact E|exfalso].
        destruct (Hnear (fst p) P1) as (d & Hd & Hlt).
        unfold has_d in P3. destruct (dm (fst p) (snd p)) as [d'|] eqn:Ed'; [|discriminate].
        specialize (Hlt (snd p) d' P2 Ne Ed').
        assert (Hq : In (fst p, nearest (fst p)) (c :: cs)).
        { rewrite <- Ec. apply cands_in. cbn [fst snd]. unfold has_d. cbn [fst snd]. rewrite Hd. auto. }
        pose proof (argbest_min cs c _ Hq) as Hmin. rewrite <- Ep in Hmin.
        unfold Match.lt_pair in Hmin. cbn [fst snd] in Hmin. rewrite Hd, Ed' in Hmin. congruence. }
      destruct (Nat.eq_dec i (fst p)) as [Ei|Ni].
      * left. destruct p as [a b]. cbn [fst snd] in *. subst. reflexivity.
      * right. apply IH.
        -- unfold remove_nat. apply NoDup_filter. exact Hnd.
        -- pose proof (remove_nat_len (fst p) rows P1). lia.
        -- intros k Hk. apply remove_nat_in in Hk. destruct Hk as [Hk Hne]. apply remove_nat_in. split; [apply Hin; exact Hk|].
           rewrite Esnd. intro E. apply Hne. apply Hinj; assumption.
        -- intros k k' Hk Hk'. apply remove_nat_in in Hk, Hk'. apply Hinj; tauto.
        -- intros k Hk. apply remove_nat_in in Hk. destruct Hk as [Hk _]. destruct (Hnear k Hk) as (d & Hd & Hlt).
           exists d. split; [exact Hd|]. intros j d' Hj. apply remove_nat_in in Hj. apply Hlt. tauto.
        -- apply remove_nat_in. split; [exact Hi|exact Ni].
Qed.
End GreedyProofs.

(* ------------------------------------------------------------------ list helpers *)
Inductive subseq {A} : list A -> list A -> Prop :=
| ss_nil : subseq [] []
| ss_skip x l1 l2 : subseq l1 l2 -> subseq l1 (x :: l2)
| ss_take x l1 l2 : subseq l1 l2 -> subseq (x :: l1) (x :: l2).

Lemma subseq_nil {A} (l : list A) : subseq [] l.
Proof. induction l; constructor; assumption. Qed.
Lemma subseq_refl {A} (l : list A) : subseq l l.
Proof. induction l; constructor; assumption. Qed.

Definition is_some (p : nat * option nat) : bool := match snd p with Some _ => true | None => false end.

Lemma kept_subseq (a : list nat) (b : list (option nat)) : subseq (map fst (filter is_some (combine a b))) a.
Proof.
  revert b. induction a as [|x a IH]; intros b; [constructor|]. destruct b as [|o b]; [apply subseq_nil|].
  cbn [combine filter]. unfold is_some at 1. cbn [snd]. destruct o; cbn [map fst]; constructor; apply IH.
Qed.
Lemma kept_length (a : list nat) (b : list (option nat)) : length a = length b ->
  length (map fst (filter is_some (combine a b))) = length (somes b).
Proof.
  revert b. induction a as [|x a IH]; intros b H; destruct b as [|o b]; try discriminate; [reflexivity|].
  cbn [combine filter]. unfold is_some at 1. cbn [snd]. injection H as H. unfold somes in *. cbn [flat_map].
  destruct o; cbn [map length app]; rewrite IH by assumption; reflexivity.
Qed.
Lemma somes_count (mb : list (option nat)) : length (somes mb) + count_none mb = length mb.
Proof.
  unfold somes, count_none. induction mb as [|o mb IH]; [reflexivity|]. cbn [flat_map filter]. destruct o; cbn [length app]; lia.
Qed.
Lemma kept_all (a : list nat) (b : list (option nat)) : length a = length b -> count_none b = 0 ->
  map fst (filter is_some (combine a b)) = a.
Proof.
  revert b. induction a as [|x a IH]; intros b H C; destruct b as [|o b]; try discriminate; [reflexivity|].
  injection H as H. unfold count_none in *. cbn [filter] in C. destruct o; [|cbn in C; discriminate].
  cbn [combine filter]. unfold is_some at 1. cbn [snd map fst]. f_equal. apply IH; assumption.
Qed.

Lemma fill_length mb vals : length (fill mb vals) = length mb.
Proof.
  revert vals. induction mb as [|o mb IH]; intros vals; [reflexivity|]. destruct o; cbn [fill length]; [rewrite IH; reflexivity|].
  destruct vals; cbn [length]; [reflexivity|rewrite IH; reflexivity].
Qed.
Lemma fill_incl mb vals x : In x (somes (fill mb vals)) -> In x (somes mb) \/ In x vals.
Proof.
  revert vals. unfold somes. induction mb as [|o mb IH]; intros vals H; [destruct H|]. destruct o; cbn [fill flat_map] in *.
  - destruct H as [H|H]; [left; left; exact H|]. destruct (IH _ H); [left; right; assumption|right; assumption].
  - destruct vals as [|v vs]; [left; exact H|]. cbn [flat_map app] in H. destruct H as [H|H]; [right; left; exact H|].
    destruct (IH _ H); [left; assumption|right; right; assumption].
Qed.
Lemma fill_nodup mb vals : NoDup (somes mb ++ vals) -> NoDup (somes (fill mb vals)).
Proof.
  revert vals. induction mb as [|o mb IH]; intros vals H; [constructor|]. destruct o as [x|].
  - change (somes (Some x :: mb)) with (x :: somes mb) in H. cbn [app] in H. inversion H as [|? ? Hn Hd]; subst.
    change (somes (fill (Some x :: mb) vals)) with (x :: somes (fill mb vals)). constructor; [|apply IH; exact Hd].
    intro Hin. apply fill_incl in Hin. apply Hn. apply in_or_app. exact Hin.
  - change (somes (None :: mb)) with (somes mb) in H. destruct vals as [|v vs]; cbn [fill].
    + change (somes (None :: mb)) with (somes mb). rewrite app_nil_r in H. exact H.
    + change (somes (Some v :: fill mb vs)) with (v :: somes (fill mb vs)).
      apply NoDup_remove in H. destruct H as [Hd Hn]. constructor; [|apply IH; exact Hd].
      intro Hin. apply fill_incl in Hin. apply Hn. apply in_or_app. exact Hin.
Qed.
Lemma fill_full mb vals : count_none mb <= length vals -> count_none (fill mb vals) = 0.
Proof.
  revert vals. unfold count_none. induction mb as [|o mb IH]; intros vals H; [reflexivity|]. destruct o; cbn [fill filter] in *.
  - apply IH. exact H.
  - destruct vals as [|v vs]; cbn [length] in H; [lia|]. cbn [filter]. apply IH. lia.
Qed.

Lemma in_firstn {A} (x : A) k l : In x (firstn k l) -> In x l.
Proof. revert k. induction l as [|a l IH]; intros [|k] H; cbn [firstn] in H; try destruct H; [left; assumption|right; eapply IH; eassumption]. Qed.
Lemma nodup_firstn {A} k (l : list A) : NoDup l -> NoDup (firstn k l).
Proof.
  revert k. induction l as [|a l IH]; intros [|k] H; cbn [firstn]; try constructor.
  - inversion H; subst. intro Hin. apply in_firstn in Hin. contradiction.
  - inversion H; subst. apply IH. assumption.
Qed.

Lemma nodup_app {A} (a b : list A) : NoDup a -> NoDup b -> (forall x, In x a -> In x b -> False) -> NoDup (a ++ b).
Proof.
  induction a as [|x a IH]; intros Ha Hb Hd; [exact Hb|]. cbn [app]. inversion Ha; subst. constructor.
  - intro Hin. apply in_app_or in Hin. destruct Hin as [Hin|Hin]; [contradiction|]. apply (Hd x); [now left|exact Hin].
  - apply IH; try assumption. intros y Hy Hy'. apply (Hd y); [now right|exact Hy'].
Qed.

Lemma assoc_in i j l : assoc i l = Some j -> In (i, j) l.
Proof.
  induction l as [|p l IH]; cbn [assoc]; [discriminate|]. destruct (Nat.eqb (fst p) i) eqn:E.
  - intros H; inversion H; subst. apply Nat.eqb_eq in E. left. destruct p; cbn in *; congruence.
  - intros H. right. apply IH. exact H.
Qed.
Lemma snd_inj_of_nodup (l : list (nat * nat)) a b c : NoDup (map snd l) -> In (a, c) l -> In (b, c) l -> a = b.
Proof.
  induction l as [|p l IH]; intros Hn Ha Hb; [destruct Ha|]. cbn [map] in Hn. inversion Hn as [|? ? Hnot Hd]; subst.
  destruct Ha as [Ha|Ha], Hb as [Hb|Hb].
  - congruence.
  - exfalso. apply Hnot. subst p. cbn. apply in_map_iff. exists (b, c). split; [reflexivity|exact Hb].
  - exfalso. apply Hnot. subst p. cbn. apply in_map_iff. exists (a, c). split; [reflexivity|exact Ha].
  - apply IH; assumption.
Qed.
Lemma somes_map_in (f : nat -> option nat) l v : In v (somes (map f l)) <-> exists i, In i l /\ f i = Some v.
Proof.
  unfold somes. rewrite flat_map_concat_map, map_map, <- flat_map_concat_map, in_flat_map. split.
  - intros (i & Hi & H). exists i. split; [exact Hi|]. destruct (f i); [destruct H as [<-|[]]; reflexivity|destruct H].
  - intros (i & Hi & H). exists i. split; [exact Hi|]. rewrite H. left. reflexivity.
Qed.
Lemma somes_map_nodup (f : nat -> option nat) l : NoDup l ->
  (forall a b v, In a l -> In b l -> f a = Some v -> f b = Some v -> a = b) -> NoDup (somes (map f l)).
Proof.
  induction l as [|x l IH]; intros Hn Hinj; [constructor|]. inversion Hn as [|? ? Hx Hd]; subst.
  change (somes (map f (x :: l))) with ((match f x with Some v => [v] | None => [] end) ++ somes (map f l)).
  assert (Hrec : NoDup (somes (map f l))) by (apply IH; [exact Hd|intros; eapply Hinj; eauto; now right]).
  destruct (f x) as [w|] eqn:E; [|exact Hrec]. cbn [app]. constructor; [|exact Hrec].
  intro Hin. apply somes_map_in in Hin. destruct Hin as (i & Hi & Hfi).
  assert (x = i) by (eapply Hinj; eauto; [now left|now right]). subst. contradiction.
Qed.

(* ------------------------------------------------------------------ the matcher *)
Section MatcherProofs.
Variable D : Type.
Variable ltbD : D -> D -> bool.
Variable overD : D -> bool.
Variables (sbands rbands : list nat) (wl_ok : bool) (dm : nat -> nat -> option D) (force : bool).
Notation core := (match_core D ltbD overD sbands rbands wl_ok dm force).
Let n := length sbands.
Let m := length rbands.
Let pairs := if wl_ok && negb force then greedy D ltbD dm n (seq 0 n) (seq 0 m) else [].
Let mb1 := map (fun i => option_map (fun j => nth j rbands 0) (assoc i pairs)) (seq 0 n).

Lemma mb1_length : length mb1 = n.
Proof. unfold mb1. rewrite map_length, seq_length. reflexivity. Qed.

Lemma pairs_in p : In p pairs -> fst p < n /\ snd p < m /\ has_d D dm p = true.
Proof.
  unfold pairs. destruct (wl_ok && negb force); [|intros []]. intros H. apply greedy_in in H.
  destruct H as (A & B & C). apply in_seq in A, B. repeat split; try lia; exact C.
Qed.
Lemma pairs_nodup : NoDup (map fst pairs) /\ NoDup (map snd pairs).
Proof. unfold pairs. destruct (wl_ok && negb force); [apply greedy_nodup|split; constructor]. Qed.

(* the result always has one of these shapes *)
Lemma core_shape s r : core = inr (s, r) ->
  exists mb, length mb = n /\ s = map fst (filter is_some (combine sbands mb)) /\ r = somes mb /\
             ((mb = mb1 /\ (force = false -> count_none mb1 = 0)) \/ exists vals, mb = fill mb1 vals /\ (forall v, In v vals -> In v rbands /\ ~ In v (somes mb1)) /\
                                       (NoDup rbands -> NoDup vals) /\
                                       (force = false -> count_none mb1 <= length vals)).
Proof.
  unfold match_core. fold n m. fold pairs. fold mb1. change (fun p : nat * option nat => match snd p with Some _ => true | None => false end) with is_some.
  destruct (Nat.ltb m n && negb force) eqn:Efew; [discriminate|].
  destruct (existsb _ pairs); [discriminate|].
  set (un_ref := filter (fun b => negb (mem b (somes mb1))) rbands).
  assert (Hun : forall v, In v un_ref -> In v rbands /\ ~ In v (somes mb1)).
  { intros v Hv. unfold un_ref in Hv. apply filter_In in Hv. destruct Hv as [A B]. split; [exact A|].
    apply negb_true_iff in B. intro Hin. assert (mem v (somes mb1) = true); [|congruence].
    unfold mem. apply existsb_exists. exists v. split; [exact Hin|apply Nat.eqb_refl]. }
  assert (Hnd : NoDup rbands -> NoDup un_ref) by (intros; apply NoDup_filter; assumption).
  destruct (Nat.ltb (length (somes mb1)) (Nat.min n m)) eqn:Elt.
  - destruct (Nat.eqb n m).
    + destruct (Nat.eqb (count_none mb1) (length un_ref)) eqn:Ec; [|discriminate]. apply Nat.eqb_eq in Ec.
      intros H; inversion H; subst. exists (fill mb1 un_ref). rewrite fill_length, mb1_length.
      split; [reflexivity|]. split; [reflexivity|]. split; [reflexivity|]. right. exists un_ref.
      split; [reflexivity|]. split; [exact Hun|]. split; [exact Hnd|]. intros _. lia.
    + destruct (Bool.bool_dec force true) as [Ef|Ef]; [rewrite Ef|apply Bool.not_true_is_false in Ef; rewrite Ef; discriminate].
      intros H. injection H as Hs Hr. subst s r. exists (fill mb1 (firstn (count_none mb1) un_ref)). rewrite fill_length, mb1_length.
      split; [reflexivity|]. split; [reflexivity|]. split; [reflexivity|]. right. exists (firstn (count_none mb1) un_ref).
      split; [reflexivity|]. split; [|split].
      * intros v Hv. apply Hun. eapply in_firstn; exact Hv.
      * intros Hr. apply nodup_firstn. apply Hnd. exact Hr.
      * intros Hf. congruence.
  - intros H; inversion H; subst. exists mb1. rewrite mb1_length.
    split; [reflexivity|]. split; [reflexivity|]. split; [reflexivity|]. left. split; [reflexivity|].
    intros Hf. rewrite Hf in Efew. cbn [negb] in Efew. rewrite andb_true_r in Efew.
    apply Nat.ltb_ge in Efew, Elt. pose proof (somes_count mb1). pose proof mb1_length. lia.
Qed.

(* ---- the theorems *)
Theorem lengths_equal s r : core = inr (s, r) -> length s = length r.
Proof.
  intros H. destruct (core_shape s r H) as (mb & Hl & -> & -> & _). apply kept_length. fold n. lia.
Qed.

Theorem src_order_preserved s r : core = inr (s, r) -> subseq s sbands.
Proof. intros H. destruct (core_shape s r H) as (mb & Hl & -> & -> & _). apply kept_subseq. Qed.

Lemma somes_mb1_in v : In v (somes mb1) -> exists i j, In (i, j) pairs /\ v = nth j rbands 0.
Proof.
  unfold mb1. intros H. apply somes_map_in in H. destruct H as (i & Hi & Hf).
  destruct (assoc i pairs) as [j|] eqn:E; [|discriminate]. cbn in Hf. inversion Hf; subst.
  exists i, j. split; [apply assoc_in; exact E|reflexivity].
Qed.

Theorem ref_from_selection s r : core = inr (s, r) -> forall v, In v r -> In v rbands.
Proof.
  intros H v Hv. destruct (core_shape s r H) as (mb & Hl & -> & -> & [[-> _]|(vals & -> & Hvals & _)]).
  - destruct (somes_mb1_in v Hv) as (i & j & Hp & ->). apply nth_In. fold m. apply (pairs_in (i, j) Hp).
  - apply fill_incl in Hv. destruct Hv as [Hv|Hv]; [|apply (Hvals v Hv)].
    destruct (somes_mb1_in v Hv) as (i & j & Hp & ->). apply nth_In. fold m. apply (pairs_in (i, j) Hp).
Qed.

Lemma somes_mb1_nodup : NoDup rbands -> NoDup (somes mb1).
Proof.
  intros Hr. unfold mb1. apply somes_map_nodup; [apply seq_NoDup|].
  intros a b v _ _ Ha Hb.
  destruct (assoc a pairs) as [ja|] eqn:Ea; [|discriminate]. destruct (assoc b pairs) as [jb|] eqn:Eb; [|discriminate].
  cbn in Ha, Hb. apply assoc_in in Ea, Eb.
  assert (ja = jb).
  { pose proof (pairs_in _ Ea) as (_ & La & _). pose proof (pairs_in _ Eb) as (_ & Lb & _). cbn [snd] in La, Lb.
    apply (proj1 (NoDup_nth rbands 0) Hr ja jb La Lb). congruence. }
  subst jb. destruct pairs_nodup as [_ N]. eapply snd_inj_of_nodup; eauto.
Qed.

Theorem ref_no_dup s r : NoDup rbands -> core = inr (s, r) -> NoDup r.
Proof.
  intros Hr H. destruct (core_shape s r H) as (mb & Hl & -> & -> & [[-> _]|(vals & -> & Hvals & Hnd & _)]).
  - apply somes_mb1_nodup. exact Hr.
  - apply fill_nodup. apply nodup_app.
    + apply somes_mb1_nodup; exact Hr.
    + apply Hnd; exact Hr.
    + intros x Hx Hx'. apply (proj2 (Hvals x Hx')). exact Hx.
Qed.

(* unless matching is forced no selected source band is dropped *)
Theorem no_silent_drop s r : force = false -> core = inr (s, r) -> s = sbands.
Proof.
  intros Hf H. destruct (core_shape s r H) as (mb & Hl & -> & -> & [[-> Hc]|(vals & -> & _ & _ & Hc)]).
  - apply kept_all; [rewrite mb1_length; reflexivity|apply Hc; exact Hf].
  - apply kept_all; [rewrite fill_length, mb1_length; reflexivity|]. apply fill_full. apply Hc. exact Hf.
Qed.

(* every pair matched on wavelength is within tolerance (otherwise the result is an error) *)
Theorem within_tolerance s r : core = inr (s, r) ->
  forall p d, In p pairs -> dm (fst p) (snd p) = Some d -> overD d = false.
Proof.
  unfold match_core. fold n m. fold pairs. destruct (Nat.ltb m n && negb force); [discriminate|].
  destruct (existsb _ pairs) eqn:E; [discriminate|]. intros _ p d Hp Hd.
  destruct (overD d) eqn:Eo; [|reflexivity]. exfalso.
  assert (X : existsb (fun p => match dm (fst p) (snd p) with Some d => overD d | None => false end) pairs = true).
  { apply existsb_exists. exists p. split; [exact Hp|]. rewrite Hd. exact Eo. }
  congruence.
Qed.

(* bands paired by file order (not by the greedy loop) never have wavelengths on both sides *)
Theorem file_order_pairs_lack_wavelength i j : wl_ok && negb force = true -> i < n -> j < m ->
  ~ In i (map fst pairs) -> ~ In j (map snd pairs) -> dm i j = None.
Proof.
  intros Hw Hi Hj Ni Nj. unfold pairs in Ni, Nj. rewrite Hw in Ni, Nj.
  apply (greedy_exhaustive D ltbD dm n (seq 0 n) (seq 0 m) i j); try assumption.
  - rewrite seq_length. lia.
  - apply in_seq. lia.
  - apply in_seq. lia.
Qed.

(* ------------------------------------------------------------------ distinct nearest bands: each source band gets exactly that band
   (not forced, wavelengths on both sides, a strict order on distances) *)
Hypothesis ltbD_irrefl : forall a, ltbD a a = false.
Hypothesis ltbD_trans : forall a b c, ltbD a b = true -> ltbD b c = true -> ltbD a c = true.

Lemma assoc_of_nodup (l : list (nat * nat)) i j : NoDup (map fst l) -> In (i, j) l -> assoc i l = Some j.
Proof.
  induction l as [|[a b] l IH]; intros Hn Hin; [destruct Hin|]. cbn [assoc fst snd]. cbn [map fst] in Hn. inversion Hn as [|? ? Ha Hd]; subst.
  destruct Hin as [E|Hin].
  - inversion E; subst. rewrite Nat.eqb_refl. reflexivity.
  - destruct (Nat.eqb a i) eqn:E; [|apply IH; assumption]. apply Nat.eqb_eq in E. subst. exfalso. apply Ha.
    apply in_map_iff. exists (i, j). split; [reflexivity|exact Hin].
Qed.
Lemma somes_all (f : nat -> nat) l : somes (map (fun i => Some (f i)) l) = map f l.
Proof. induction l as [|x l IH]; [reflexivity|]. cbn [map]. unfold somes in *. cbn [flat_map app]. rewrite IH. reflexivity. Qed.
Lemma kept_all_some (a : list nat) (f : nat -> nat) (l : list nat) : length a = length l ->
  map fst (filter is_some (combine a (map (fun i => Some (f i)) l))) = a.
Proof.
  revert l. induction a as [|x a IH]; intros [|y l] H; try reflexivity; try discriminate. cbn [map combine filter is_some snd fst].
  f_equal. apply IH. cbn in H. lia.
Qed.

Theorem distinct_nearest_gets_nearest (nearest : nat -> nat) :
  wl_ok = true -> force = false -> n <= m ->
  (forall i, i < n -> nearest i < m) ->
  (forall i i', i < n -> i' < n -> nearest i = nearest i' -> i = i') ->
  (forall i, i < n -> exists d, dm i (nearest i) = Some d /\ overD d = false /\
       forall j d', j < m -> j <> nearest i -> dm i j = Some d' -> ltbD d d' = true) ->
  core = inr (sbands, map (fun i => nth (nearest i) rbands 0) (seq 0 n)).
Proof.
  intros Hwl Hf Hnm Hrange Hinj Hnear.
  assert (Hp : pairs = greedy D ltbD dm n (seq 0 n) (seq 0 m)) by (unfold pairs; rewrite Hwl, Hf; reflexivity).
  assert (Hall : forall i, i < n -> In (i, nearest i) pairs).
  { intros i Hi. rewrite Hp. apply (greedy_nearest D ltbD dm ltbD_irrefl ltbD_trans nearest).
    - apply seq_NoDup.
    - rewrite seq_length. lia.
    - intros k Hk. apply in_seq in Hk. apply in_seq. specialize (Hrange k). lia.
    - intros k k' Hk Hk'. apply in_seq in Hk, Hk'. apply Hinj; lia.
    - intros k Hk. apply in_seq in Hk. destruct (Hnear k ltac:(lia)) as (d & Hd & _ & Hlt). exists d. split; [exact Hd|].
      intros j d' Hj. apply in_seq in Hj. apply Hlt. lia.
    - apply in_seq. lia. }
  assert (Hassoc : forall i, i < n -> assoc i pairs = Some (nearest i)).
  { intros i Hi. apply assoc_of_nodup; [apply pairs_nodup|apply Hall; exact Hi]. }
  assert (Hmb : mb1 = map (fun i => Some (nth (nearest i) rbands 0)) (seq 0 n)).
  { unfold mb1. apply map_ext_in. intros i Hi. apply in_seq in Hi. rewrite Hassoc by lia. reflexivity. }
  unfold match_core. fold n m. fold pairs. fold mb1. change (fun p : nat * option nat => match snd p with Some _ => true | None => false end) with is_some.
  rewrite Hf. cbn [negb]. rewrite andb_true_r.
  destruct (Nat.ltb m n) eqn:Efew; [apply Nat.ltb_lt in Efew; lia|].
  assert (Hover : existsb (fun p => match dm (fst p) (snd p) with Some d => overD d | None => false end) pairs = false).
  { apply not_true_is_false. intro H. apply existsb_exists in H. destruct H as (p & Hpin & Hov).
    destruct (pairs_in p Hpin) as (A & _ & _).
    assert (E : p = (fst p, nearest (fst p))).
    { destruct p as [a b]. cbn [fst snd] in *. f_equal.
      pose proof (assoc_of_nodup pairs a b (proj1 pairs_nodup) Hpin) as E1. rewrite (Hassoc a A) in E1. congruence. }
    rewrite E in Hov. cbn [fst snd] in Hov. destruct (Hnear (fst p) A) as (d & Hd & Ho & _). rewrite Hd, Ho in Hov. discriminate. }
  rewrite Hover.
  assert (Hlen : length (somes mb1) = n) by (rewrite Hmb, somes_all, map_length, seq_length; reflexivity).
  rewrite Hlen. rewrite Nat.min_l by exact Hnm. rewrite Nat.ltb_irrefl.
  rewrite Hmb, somes_all, kept_all_some by (rewrite seq_length; reflexivity). reflexivity.
Qed.
End MatcherProofs.

(* ------------------------------------------------------------------ band selection *)
Lemma mem_in x l : mem x l = true <-> In x l.
Proof.
  unfold mem. rewrite existsb_exists. split.
  - intros (y & Hy & E). apply Nat.eqb_eq in E. subst. exact Hy.
  - intros H. exists x. split; [exact H|apply Nat.eqb_refl].
Qed.
Lemma subset_in a b : subset a b = true -> forall x, In x a -> In x b.
Proof. unfold subset. rewrite forallb_forall. intros H x Hx. apply mem_in. apply H. exact Hx. Qed.

Lemma numbered_in (im : image) nb : In nb (numbered im) -> 1 <= fst nb <= length im /\ nth_error im (fst nb - 1) = Some (snd nb).
Proof.
  unfold numbered. intros H. destruct nb as [k b]. cbn [fst snd].
  assert (G : forall (l : image) s, In (k, b) (combine (seq s (length l)) l) -> s <= k < s + length l /\ nth_error l (k - s) = Some b).
  { clear. induction l as [|a l IH]; intros s H; [destruct H|]. cbn [length seq combine] in H. destruct H as [H|H].
    - inversion H; subst. split; [cbn [length]; lia|]. rewrite Nat.sub_diag. reflexivity.
    - destruct (IH (S s) H) as [A B]. split; [cbn [length]; lia|]. replace (k - s) with (S (k - S s)) by lia. exact B. }
  destruct (G im 1 H) as [A B]. split; [lia|exact B].
Qed.

Lemma nonalpha_sound im b : In b (nonalpha im) ->
  1 <= b <= length im /\ exists bd, nth_error im (b - 1) = Some bd /\ nonalpha_b bd = true.
Proof.
  unfold nonalpha. intros H. apply in_map_iff in H. destruct H as (nb & <- & Hf). apply filter_In in Hf.
  destruct Hf as [Hin Hp]. destruct (numbered_in im nb Hin) as [A B]. split; [exact A|]. exists (snd nb). split; assumption.
Qed.
Lemma refl_nonalpha im b : In b (refl im) -> In b (nonalpha im).
Proof.
  unfold refl, nonalpha. intros H. apply in_map_iff in H. destruct H as (nb & <- & Hf). apply filter_In in Hf.
  destruct Hf as [Hin Hp]. apply andb_true_iff in Hp. apply in_map. apply filter_In. tauto.
Qed.

(* the selected bands exist, are not alpha / mask bands, and are exactly the user's selection when one is given *)
Theorem band_info_sound im bands sel ws : band_info im bands = inr (sel, ws) ->
  (forall b, In b sel -> 1 <= b <= length im /\ exists bd, nth_error im (b - 1) = Some bd /\ nonalpha_b bd = true) /\
  (forall bs, bands = Some bs -> bs <> [] -> sel = bs) /\ length ws = length sel.
Proof.
  unfold band_info.
  assert (Hauto : forall s w, (match (match refl im with [] => nonalpha im | r => r end) with
                               | [] => inl ENone
                               | _ => inr (match refl im with [] => nonalpha im | r => r end,
                                           map (fun n => nth (n - 1) (wavelengths im) None) (match refl im with [] => nonalpha im | r => r end))
                               end) = inr (s, w) ->
                  (forall b, In b s -> In b (nonalpha im)) /\ length w = length s).
  { intros s w E. destruct (refl im) as [|r0 rs] eqn:Er.
    - destruct (nonalpha im) eqn:En; [discriminate|]. inversion E; subst. split; [auto|cbn [length map]; rewrite ?map_length; reflexivity].
    - inversion E; subst. split; [|cbn [length map]; rewrite ?map_length; reflexivity]. intros b Hb. apply refl_nonalpha. rewrite Er. exact Hb. }
  intros H. destruct bands as [bs|].
  - destruct (negb (subset bs (seq 1 (length im)))) eqn:E1; [discriminate|].
    destruct (negb (subset bs (nonalpha im))) eqn:E2; [discriminate|]. apply negb_false_iff in E1, E2.
    destruct bs as [|b0 bs'].
    + destruct (Hauto sel ws H) as [A B]. split; [intros b Hb; apply nonalpha_sound; apply A; exact Hb|]. split; [|exact B].
      intros bs0 E Hne. inversion E; subst. congruence.
    + inversion H; subst. split; [intros b Hb; apply nonalpha_sound; eapply subset_in; eauto|]. split; [|cbn [length map]; rewrite ?map_length; reflexivity].
      intros bs0 E _. inversion E; reflexivity.
  - destruct (Hauto sel ws H) as [A B]. split; [intros b Hb; apply nonalpha_sound; apply A; exact Hb|]. split; [|exact B].
    intros bs0 E. discriminate.
Qed.

(* D9: a duplicated user selection of reference bands is not rejected and the band is used twice *)
Theorem ref_dup_refuted :
  exists src ref rb, match_pair_bands src ref None (Some rb) false = inr ([1; 2], [1; 1]).
Proof.
  exists [ {| b_ci := COther; b_maskdesc := false; b_cw := None |}; {| b_ci := COther; b_maskdesc := false; b_cw := None |} ],
         [ {| b_ci := COther; b_maskdesc := false; b_cw := None |}; {| b_ci := COther; b_maskdesc := false; b_cw := None |} ],
         [1; 1].
  vm_compute. reflexivity.
Qed.
