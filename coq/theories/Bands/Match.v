(* Executable model of homonim.matched_pair.MatchedPairReader._get_band_info and _match_pair_bands
   (lines 95-179, 224-341).  The greedy matcher is generic in the distance type; the instance used for execution
   is binary64 (PrimFloat) so that ties and the 10 % threshold are decided exactly as NumPy decides them.
   Domain: center wavelengths are finite and > 0 (a source wavelength of 0 makes the real loop spin for ever). *)
From Coq Require Import ZArith List Arith Bool PrimFloat Uint63 FloatOps.
From HV Require Import Base.FloatDec.
Import ListNotations.
Open Scope nat_scope.

(* ------------------------------------------------------------------ greedy matching on a masked distance matrix *)
Section Greedy.
Variable D : Type.
Variable ltb : D -> D -> bool.                 (* strict "less than" on distances *)
Variable dm : nat -> nat -> option D.          (* None = NaN = masked from the start *)

Definition has_d (p : nat * nat) : bool := match dm (fst p) (snd p) with Some _ => true | None => false end.
Definition cands (rows cols : list nat) : list (nat * nat) := filter has_d (list_prod rows cols).
Definition lt_pair (p q : nat * nat) : bool :=
  match dm (fst p) (snd p), dm (fst q) (snd q) with Some a, Some b => ltb a b | _, _ => false end.
(* first minimal candidate in row-major order: NumPy's argmin of the row minima, then argmin within the row *)
Definition argbest (l : list (nat * nat)) (acc : nat * nat) : nat * nat :=
  fold_left (fun best p => if lt_pair p best then p else best) l acc.
Definition remove_nat (x : nat) (l : list nat) : list nat := filter (fun y => negb (Nat.eqb y x)) l.

(* matched (source index, reference index) pairs in the order they are chosen; one row disappears per round *)
Fixpoint greedy (fuel : nat) (rows cols : list nat) : list (nat * nat) :=
  match fuel with
  | O => []
  | S f =>
    match cands rows cols with
    | [] => []
    | c :: cs => let p := argbest cs c in p :: greedy f (remove_nat (fst p) rows) (remove_nat (snd p) cols)
    end
  end.
End Greedy.

(* ------------------------------------------------------------------ band metadata *)
Inductive cinterp := CRed | CGreen | CBlue | CAlpha | COther.
Record band := { b_ci : cinterp; b_maskdesc : bool (* description ends with _MASK / _DIST *); b_cw : option float }.
Definition image := list band.
Inductive err := EInvalid | EAlpha | ENone | EFewer | EDist | EShape | EUnmatched.

Definition is_alpha (b : band) : bool := match b_ci b with CAlpha => true | _ => false end.
Definition nonalpha_b (b : band) : bool := negb (is_alpha b) && negb (b_maskdesc b).
(* 1-based band numbers *)
Definition numbered (im : image) : list (nat * band) := combine (seq 1 (length im)) im.
Definition nonalpha (im : image) : list nat := map fst (filter (fun nb => nonalpha_b (snd nb)) (numbered im)).
Definition refl (im : image) : list nat :=
  map fst (filter (fun nb => nonalpha_b (snd nb) && match b_cw (snd nb) with Some _ => true | None => false end) (numbered im)).
Definition mem (x : nat) (l : list nat) : bool := existsb (Nat.eqb x) l.
Definition subset (a b : list nat) : bool := forallb (fun x => mem x b) a.
Definition std_cw (c : cinterp) : option float :=
  match c with CRed => Some 0x1.4cccccccccccdp-1%float | CGreen => Some 0x1.1eb851eb851ecp-1%float
             | CBlue => Some 0x1.eb851eb851eb8p-2%float | _ => None end.      (* 0.65, 0.56, 0.48 *)
Definition get_band (im : image) (n : nat) : option band := nth_error im (n - 1).

(* center wavelength of every band after the RGB defaults *)
Definition wavelengths (im : image) : list (option float) :=
  let na := nonalpha im in
  let raw := map b_cw im in
  if Nat.eqb (length na) 3 then
    let w1 := map (fun nb : nat * band =>
                     match b_cw (snd nb) with
                     | Some w => Some w
                     | None => if mem (fst nb) na then std_cw (b_ci (snd nb)) else None
                     end) (numbered im) in
    if forallb (fun n => match nth (n - 1) w1 None with None => true | Some _ => false end) na then
      (* no wavelengths and no RGB colour interpretation at all: assume R, G, B in file order *)
      map (fun nw : nat * option float =>
             match na with
             | [a; b; c] => if Nat.eqb (fst nw) a then std_cw CRed else if Nat.eqb (fst nw) b then std_cw CGreen
                            else if Nat.eqb (fst nw) c then std_cw CBlue else snd nw
             | _ => snd nw
             end) (combine (seq 1 (length im)) w1)
    else w1
  else raw.

Definition band_info (im : image) (bands : option (list nat)) : err + (list nat * list (option float)) :=
  let na := nonalpha im in
  let all := seq 1 (length im) in
  match bands with
  | Some bs => if negb (subset bs all) then inl EInvalid else if negb (subset bs na) then inl EAlpha else
               let sel := match bs with [] => (match refl im with [] => na | r => r end) | _ => bs end in
               match sel with
               | [] => inl ENone
               | _ => inr (sel, map (fun n => nth (n - 1) (wavelengths im) None) sel)
               end
  | None => let sel := match refl im with [] => na | r => r end in
            match sel with
            | [] => inl ENone
            | _ => inr (sel, map (fun n => nth (n - 1) (wavelengths im) None) sel)
            end
  end.

(* ------------------------------------------------------------------ the matcher *)
(* Python's any() over a float array: NaN is truthy, 0.0 is falsy *)
Definition pyany (ws : list (option float)) : bool :=
  existsb (fun w => match w with None => true | Some x => negb (PrimFloat.eqb x 0%float) end) ws.
(* relative distance |s - r| / s in binary64; NaN (missing wavelength) = masked *)
Definition rel_dist (sw rw : list (option float)) (i j : nat) : option float :=
  match nth i sw None, nth j rw None with
  | Some s, Some r => let d := PrimFloat.div (PrimFloat.abs (PrimFloat.sub s r)) s in if is_nan d then None else Some d
  | _, _ => None
  end.
Definition tol : float := 0x1.999999999999ap-4%float.     (* 0.1 *)
Definition over (d : float) : bool := PrimFloat.ltb tol d.

Definition somes (l : list (option nat)) : list nat := flat_map (fun o => match o with Some x => [x] | None => [] end) l.
Fixpoint assoc (i : nat) (l : list (nat * nat)) : option nat :=
  match l with [] => None | p :: r => if Nat.eqb (fst p) i then Some (snd p) else assoc i r end.
(* match_bands[unmatched] = unmatch_ref_bands: the None positions are filled, in order, with the given values
   (NumPy boolean-mask assignment; the force branch truncates both sides to a common length first) *)
Fixpoint fill (mb : list (option nat)) (vals : list nat) : list (option nat) :=
  match mb with
  | [] => []
  | Some x :: t => Some x :: fill t vals
  | None :: t => match vals with v :: vs => Some v :: fill t vs | [] => None :: t end
  end.
Definition count_none (mb : list (option nat)) : nat := length (filter (fun o : option nat => match o with None => true | _ => false end) mb).

Section Matcher.
(* generic in the distances so that the theorems do not depend on floating point *)
Variable D : Type.
Variable ltbD : D -> D -> bool.
Variable overD : D -> bool.

Definition match_core (sbands rbands : list nat) (wl_ok : bool) (dm : nat -> nat -> option D) (force : bool)
  : err + (list nat * list nat) :=
  let n := length sbands in let m := length rbands in
  if Nat.ltb m n && negb force then inl EFewer else
  let pairs := if wl_ok && negb force then greedy D ltbD dm n (seq 0 n) (seq 0 m) else [] in
  if existsb (fun p => match dm (fst p) (snd p) with Some d => overD d | None => false end) pairs then inl EDist else
  (* match_bands[src_matched] = ref_bands[match_idx[src_matched]] *)
  let mb1 := map (fun i => option_map (fun j => nth j rbands 0) (assoc i pairs)) (seq 0 n) in
  let fin (mb : list (option nat)) : err + (list nat * list nat) :=
      inr (map fst (filter (fun p : nat * option nat => match snd p with Some _ => true | None => false end) (combine sbands mb)),
           somes mb) in
  if Nat.ltb (length (somes mb1)) (Nat.min n m) then
    let un_ref := filter (fun b => negb (mem b (somes mb1))) rbands in
    if Nat.eqb n m then
      if Nat.eqb (count_none mb1) (length un_ref) then fin (fill mb1 un_ref) else inl EShape
    else if force then fin (fill mb1 (firstn (count_none mb1) un_ref))
    else inl EUnmatched
  else fin mb1.
End Matcher.

Definition match_pair_bands (src ref : image) (sb rb : option (list nat)) (force : bool) : err + (list nat * list nat) :=
  match band_info src sb with
  | inl e => inl e
  | inr (sbands, sw) =>
    match band_info ref rb with
    | inl e => inl e
    | inr (rbands, rw) =>
      match_core float PrimFloat.ltb over sbands rbands (pyany sw && pyany rw) (rel_dist sw rw) force
    end
  end.
