"""Drivers for the real window code: block_pairs, _auto_block_shape, expand/round_window_to_grid,
bounded_window_slices, from_rio_dataset / to_rio_dataset, covers_bounds."""
import math
import warnings

import numpy as np
import rasterio as rio
from rasterio.windows import Window

from harness import synth

warnings.filterwarnings('ignore')


def win4(w: Window):
    return [int(w.row_off), int(w.col_off), int(w.height), int(w.width)]


def block_case(work, geom, proc_crs, overlap, max_block_mem=None, nbands=1, tag='c', target=None, jitter=1.0):
    """Run RasterPairReader.block_pairs on a file pair.  Returns dict with the encoded case for Corr.CheckC06.check,
    the raw BlockPairs and readers' geometry for the direct oracle, or an 'error' key."""
    from homonim.raster_pair import RasterPairReader
    from homonim.enums import ProcCrs
    from homonim import errors
    src_fn = work / f'{tag}_src.tif'
    ref_fn = work / f'{tag}_ref.tif'
    synth.write_tif(src_fn, np.ones((nbands, *geom.src_shape), 'float32'), geom.src_transform)
    synth.write_tif(ref_fn, np.ones((nbands, *geom.ref_shape), 'float32'), geom.ref_transform)
    res = dict(geom=geom.describe(), proc_crs=proc_crs, overlap=list(overlap), max_block_mem=max_block_mem, nbands=nbands)
    try:
        reader = RasterPairReader(src_fn, ref_fn, proc_crs=ProcCrs(proc_crs))
    except errors.ImageContentError as ex:
        res['error'] = 'ImageContentError'
        return res
    with reader:
        proc_is_ref = reader.proc_crs == ProcCrs.ref
        proc_win = reader._ref_win if proc_is_ref else reader._src_win
        proc_im, other_im = (reader._ref_im, reader._src_im) if proc_is_ref else (reader._src_im, reader._ref_im)
        res.update(proc_is_ref=proc_is_ref, proc_win=win4(proc_win), src_shape=list(reader._src_im.shape),
                   ref_shape=list(reader._ref_im.shape))
        if max_block_mem is None:
            # aim for about `target` blocks: invert the memory scaling block_pairs applies
            sa, ra = float(np.prod(np.abs(reader._src_im.res))), float(np.prod(np.abs(reader._ref_im.res)))
            if proc_is_ref:
                ms = sa / ra if ra > sa else 1.
            else:
                ms = 1. if ra > sa else ra / sa
            max_block_mem = proc_win.height * proc_win.width * 4 / 2 ** 20 / ms / target * jitter
            res['max_block_mem'] = max_block_mem
        try:
            bs = reader._auto_block_shape(max_block_mem=max_block_mem)
            res['block_shape'] = [int(bs[0]), int(bs[1])]
        except errors.BlockSizeError:
            res['error'] = 'BlockSizeError-auto'
            return res
        try:
            # what the iterator yields is a function of (geometry, overlap, max_block_mem) only - not of how the open reader was used before: a
            # look at the first block of an abandoned iterator first, then the iteration that is judged, then a second complete one
            peek = reader.block_pairs(overlap=tuple(overlap), max_block_mem=max_block_mem)
            next(peek, None)
            del peek
            bps = list(reader.block_pairs(overlap=tuple(overlap), max_block_mem=max_block_mem))
            again = list(reader.block_pairs(overlap=tuple(overlap), max_block_mem=max_block_mem))
            res['repeat_same'] = again == bps
        except errors.BlockSizeError:
            res['error'] = 'BlockSizeError-overlap'
            return res
        to_other = ~other_im.transform * proc_im.transform
        enc = [nbands, *win4(proc_win), bs[0], bs[1], overlap[0], overlap[1], len(bps)]
        blocks = []
        for bp in bps:
            pin, pout = (bp.ref_in_block, bp.ref_out_block) if proc_is_ref else (bp.src_in_block, bp.src_out_block)
            oin, oout = (bp.src_in_block, bp.src_out_block) if proc_is_ref else (bp.ref_in_block, bp.ref_out_block)
            # oracle doubles: exactly the rasterio calls block_pairs makes, on the model's integer processing windows
            fin = other_im.window(*proc_im.window_bounds(pin))
            ul = to_other * (pout.col_off, pout.row_off)
            br = to_other * (pout.col_off + pout.width, pout.row_off + pout.height)
            enc += [bp.band_i, int(bool(bp.outer)), *win4(pin), *win4(pout), *win4(oin), *win4(oout),
                    fin.col_off, fin.row_off, fin.width, fin.height, ul[1], br[1], ul[0], br[0]]
            blocks.append(dict(band=bp.band_i, outer=bool(bp.outer), pin=win4(pin), pout=win4(pout), oin=win4(oin),
                               oout=win4(oout), src_out=win4(bp.src_out_block), src_in=win4(bp.src_in_block),
                               ref_in=win4(bp.ref_in_block), ref_out=win4(bp.ref_out_block),
                               src_in_bounds=list(reader._src_im.window_bounds(bp.src_in_block)),
                               ref_in_bounds=list(reader._ref_im.window_bounds(bp.ref_in_block)),
                               src_out_bounds=list(reader._src_im.window_bounds(bp.src_out_block)),
                               ref_out_bounds=list(reader._ref_im.window_bounds(bp.ref_out_block))))
        res.update(case=[float(x) for x in enc], blocks=blocks,
                   src_res=float(reader._src_im.res[0]), ref_res=float(reader._ref_im.res[0]),
                   src_res_xy=[float(v) for v in reader._src_im.res], ref_res_xy=[float(v) for v in reader._ref_im.res])
    return res


def tiling_oracle(res):
    """Independent statement of C06 on the implementation's windows.  Returns a list of violation dicts."""
    viol = []
    if 'blocks' not in res:
        return viol
    sh = res['src_shape']
    ov = res['overlap']
    for band in range(res['nbands']):
        cover = np.zeros(sh, dtype=np.int32)
        for b in res['blocks']:
            if b['band'] != band:
                continue
            r, c, h, w = [int(v) for v in b['src_out']]
            if h < 0 or w < 0:
                viol.append(dict(what='negative-size source output window', block=b['src_out'], band=band))
                continue
            r0, r1, c0, c1 = max(r, 0), min(r + h, sh[0]), max(c, 0), min(c + w, sh[1])
            if r0 < r1 and c0 < c1:
                cover[r0:r1, c0:c1] += 1
        if (cover != 1).any():
            rr, cc = np.argwhere(cover != 1)[0]
            viol.append(dict(what='source pixel not in exactly one output window', band=band, pixel=[int(rr), int(cc)],
                             count=int(cover[rr, cc]), n_bad=int((cover != 1).sum())))
    pw = res['proc_win']
    sres, rres = res['src_res'], res['ref_res']
    for b in res['blocks']:
        # input window = output window grown by overlap, clipped to the processing window
        pin, pout = b['pin'], b['pout']
        exp = [max(pout[0] - ov[0], pw[0]), max(pout[1] - ov[1], pw[1])]
        exp_br = [min(pout[0] + pout[2] + ov[0], pw[0] + pw[2]), min(pout[1] + pout[3] + ov[1], pw[1] + pw[3])]
        if [pin[0], pin[1], pin[0] + pin[2], pin[1] + pin[3]] != exp + exp_br:
            viol.append(dict(what='input window is not the output window grown by the overlap', block=b))
        # same ground: other in-window contains the proc in-window ground (tolerance 1e-6 of a pixel) and exceeds
        # it by less than one other-grid pixel; out windows agree to half an other-grid pixel
        sb, rb = b['src_in_bounds'], b['ref_in_bounds']
        (ob, pb, ores) = (sb, rb, sres) if res['proc_is_ref'] else (rb, sb, rres)
        # (bounds are (left, bottom, right, top): the other grid's pixel width judges x, its pixel height y - they differ for non-square pixels)
        oxy = (res.get('src_res_xy') if res['proc_is_ref'] else res.get('ref_res_xy')) or [ores, ores]
        ax = [oxy[0], oxy[1], oxy[0], oxy[1]]
        tol = [1e-6 * a for a in ax]
        contains = ob[0] <= pb[0] + tol[0] and ob[1] <= pb[1] + tol[1] and ob[2] >= pb[2] - tol[2] and ob[3] >= pb[3] - tol[3]
        exc = [pb[0] - ob[0], pb[1] - ob[1], ob[2] - pb[2], ob[3] - pb[3]]
        excess = max(exc)
        if not contains or any(e > a + t for e, a, t in zip(exc, ax, tol)):
            viol.append(dict(what='paired input windows do not cover the same ground', block=b, excess=excess))
        so, ro = b['src_out_bounds'], b['ref_out_bounds']
        dd = [abs(x - y) for x, y in zip(so, ro)]
        d = max(dd)
        if any(v > 0.5 * a + t for v, a, t in zip(dd, ax, tol)):
            viol.append(dict(what='paired output windows differ by more than half a pixel', block=b, diff=d))
    return viol


def auto_case(h, w, max_block_mem, mem_scale):
    """(case floats for CheckC06.check_auto, description): runs the real _auto_block_shape on a stub reader."""
    from homonim.raster_pair import RasterPairReader
    from homonim.enums import ProcCrs
    from homonim import errors

    class Im:
        def __init__(self, res):
            self.res = res
    rd = RasterPairReader.__new__(RasterPairReader)
    rd._proc_crs = ProcCrs.ref
    rd._ref_win = Window(0, 0, w, h)
    rd._src_win = Window(0, 0, w, h)
    rd._ref_im = Im((1.0, 1.0))
    # src pixel area / ref pixel area = mem_scale (<= 1)
    rd._src_im = Im((mem_scale, 1.0))
    err, bs = 0, (0, 0)
    try:
        with warnings.catch_warnings():
            warnings.simplefilter('ignore')
            bs = rd._auto_block_shape(max_block_mem=max_block_mem)
    except errors.BlockSizeError:
        err = 1
    src_area = float(np.prod(np.abs((mem_scale, 1.0))))
    ms = src_area / 1.0 if 1.0 > src_area else 1.
    isinf = 0
    if max_block_mem > 0 and not math.isinf(max_block_mem):
        maxb = max_block_mem * ms
        maxb *= 2 ** 20
    else:
        maxb, isinf = 0.0, 1
    return [float(h), float(w), float(maxb), float(isinf), float(bs[0]), float(bs[1]), float(err)]


def fwin_case(off, length):
    from homonim import utils
    w = Window(off, 0.0, length, 1.0)
    e = utils.expand_window_to_grid(w)
    r = utils.round_window_to_grid(w)
    return [float(off), float(length), float(e.col_off), float(e.width), float(r.col_off), float(r.width)]
