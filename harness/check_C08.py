#!/venv/bin/python
"""C08 - invalid pixels never influence any result, however the mask is encoded."""
import sys
from pathlib import Path
sys.path.insert(0, str(Path(__file__).resolve().parents[1]))
from harness.core import Run  # noqa: E402
from harness import synth, impl_kernel as ik, impl_fuse as fz, impl_io  # noqa: E402
import numpy as np  # noqa: E402

NAN = float('nan')


def variants(dtype, rng):
    """(name, write_tif kwargs) encodings of one validity pattern; the first is the baseline."""
    if dtype == 'float32':
        return [('nan', dict(encoding='nan')),
                ('nodata=-9999', dict(encoding='nodata', nodata=-9999.0)),
                ('mask,hidden=0', dict(encoding='mask', hidden=0.0)),
                ('mask,hidden=1e30', dict(encoding='mask', hidden=1e30)),
                ('mask,hidden=-5', dict(encoding='mask', hidden=-5.0)),
                ('mask,hidden=nan', dict(encoding='mask', hidden=NAN))]
    return [('nodata=0', dict(encoding='nodata', nodata=0, dtype='uint8')),
            ('mask,hidden=200', dict(encoding='mask', hidden=200, dtype='uint8')),
            ('mask,hidden=0', dict(encoding='mask', hidden=0, dtype='uint8')),
            ('alpha,hidden=255', dict(encoding='alpha', hidden=255, dtype='uint8')),
            ('alpha,hidden=7', dict(encoding='alpha', hidden=7, dtype='uint8'))]


def body(run):
    run.build(extra_targets=['theories/Corr/CheckC01.v', 'theories/Corr/CheckC20.v'])
    rng = run.rng('hidden')
    # (a1) reading: the four encodings with several hidden values, model evaluated in Coq
    cases, metas = [], []
    for rep in range(run.scale(2, 12)):
        for name, path in impl_io.make_datasets(run.work, rng):
            wins = [(rng.randint(-4, 8), rng.randint(-4, 8), rng.randint(1, 6), rng.randint(1, 6)) for _ in range(run.scale(8, 30))] + [(0, 0, 10, 10)]
            for rec in impl_io.read_cases(path, wins):
                if 'error' in rec or not rec['oracle_ok']:
                    run.add_violation('from_rio_dataset let a hidden / outside value through or failed', dict(file=name, window=rec['window']),
                                      observed=rec.get('error', 'wrong pixels'), signature=dict(kind='read-hidden', file=name))
                    continue
                for cs in rec['cases']:
                    cases.append([float(x) for x in cs])
                    metas.append(dict(file=name, window=rec['window']))
    f, nt_read = run.corr('read', 'Corr.CheckC20', cases, shard=300)
    for k in f[:3]:
        run.add_break('correspondence-break', 'from_rio_dataset differs from Grid.Dataset.read_window on a masked dataset', metas[k])
    # (a2) fitting with different source / reference masks (values under the other image's invalid pixels are "hidden")
    todo = []
    for _ in range(run.scale(24, 300)):
        c = ik.gen_case(rng, maxdim=9)
        H, W = c['src'].shape
        c['ref'] = np.where(ik.gen_mask(rng, rng.choice(['holes', 'isolated', 'border', 'half']), H, W), c['ref'], NAN).astype('float32')
        todo.append(c)
    bad, nt_fit, ncorr = ik.corr_cases(run, todo)
    for m in bad[:5]:
        run.add_break('correspondence-break', 'KernelModel.fit differs from Kernel.Fit.fit_px with distinct source / reference masks', m)
    # (b) paired real fusions and comparisons differing only in the encoding / hidden values
    dist = {}
    # every (dtype, model, varied image, requested grid) combination is visited: an encoding-dependent path may exist on one of them only
    for k in range(run.scale(36, 360)):
        dtype = ['float32', 'uint8'][k % 2]
        g = synth.random_geom(rng, max_src=run.scale(28, 44))
        model = ik.MODELS[(k // 2) % 3]
        kshape = rng.choice([(3, 3), (1, 3), (5, 3), (3, 5)])
        which = ['src', 'ref'][(k // 6) % 2]          # whose encoding is varied
        proc = ['auto', 'src', 'ref'][(k // 12) % 3]
        sm = fz.src_mask(rng, g.src_shape, rng.choice(['holes', 'border', 'islands', 'corner']))
        rm = fz.src_mask(rng, g.ref_shape, rng.choice(['none', 'islands', 'none']))
        src = fz.texture(rng, g.src_shape, 1, lo=20, hi=220)
        ref = fz.texture(rng, g.ref_shape, 1, lo=30, hi=180)
        results = []
        # the options that choose other code paths for masks and resampling, in turn (partial masking builds the output mask from a re-projected
        # validity mask instead of taking the source mask)
        mc = [None, dict(mask_partial=True, downsampling='nearest'), dict(mask_partial=True), dict(upsampling='bilinear'),
              dict(mask_partial=True, downsampling='mode'), dict(downsampling='bilinear', upsampling='nearest')][k % 6]
        ks_for_mem = kshape if not (mc or {}).get('mask_partial') else (kshape[0] + 2, kshape[1] + 2)
        if (mc or {}).get('mask_partial') and (k // 6) % 2 == 0:
            # partial masking on the reference grid with a finer source whose invalid pixels are scattered singles: processing pixels that are only
            # PARTLY covered by valid source pixels - where a wrong coverage rule would let a hidden value through - and the source's encoding varied
            for _try in range(20):
                g = synth.aligned_geom(rng, max_src=run.scale(28, 44))
                if g.ratio >= 2:
                    break
            which, proc = 'src', 'auto'
            sm = fz.src_mask(rng, g.src_shape, 'islands')
            for _ in range(6):
                sm[rng.randrange(g.src_shape[0]), rng.randrange(g.src_shape[1])] = False
            rm = np.ones(g.ref_shape, bool)
            src = fz.texture(rng, g.src_shape, 1, lo=20, hi=220)
            ref = fz.texture(rng, g.ref_shape, 1, lo=30, hi=180)
        vs = variants(dtype, rng)
        if not run.thorough:
            # baseline, the numeric-nodata / first alternative, and one more drawn at random
            vs = vs[:2] + [rng.choice(vs[2:])] if dtype == 'float32' else [vs[0], rng.choice(vs[1:3]), rng.choice(vs[3:])]
        # a float64 image whose nodata value is the float64 minimum (what several packages write): out of float32 range, it reads as -inf on the
        # float32 side.  Only for the image that stays on its own grid (GDAL refuses such a nodata value for the re-projected one - an error, not a result)
        stays = 'ref' if (proc == 'ref' or (proc == 'auto' and g.ratio >= 1)) else 'src'
        if dtype == 'float32' and which == stays and k % 2 == 0 and not (mc or {}).get('mask_partial'):
            vs = list(vs) + [('float64,nodata=float64 min', dict(encoding='nodata', nodata=-1.7976931348623157e308, dtype='float64'))]
        unworkable = False
        for name, kw in vs:
            skw = kw if which == 'src' else (dict(encoding='nan') if dtype == 'float32' else dict(encoding='nodata', nodata=0, dtype='uint8'))
            rkw = kw if which == 'ref' else dict(encoding='nan')
            pair = fz.make_pair(run.work, g, rng, src=src, ref=ref, smask=sm, rmask=rm, tag='e', src_kw=skw, ref_kw=rkw)
            if name == vs[0][0]:
                try:
                    mbm, _n = fz.pick_block_mem(pair['src_fn'], pair['ref_fn'], proc, 4, ks_for_mem, 1.2)
                except Exception as ex:
                    if type(ex).__name__ not in ('BlockSizeError', 'ImageContentError'):
                        raise
                    unworkable = True        # the processing window is smaller than the kernel's overlap: homonim refuses the geometry
                    break
            res = fz.fuse(pair['src_fn'], pair['ref_fn'], run.work / 'enc.tif', model=model, kernel_shape=kshape, proc_crs=proc,
                          max_block_mem=mbm, threads=1, out_profile=dict(dtype='float32', nodata=NAN), model_config=mc)
            cmp_ = fz.compare(pair['src_fn'], pair['ref_fn'], proc_crs=proc, max_block_mem=mbm)
            results.append((name, res, cmp_))
        if unworkable:
            dist['skipped:unworkable-geometry'] = dist.get('skipped:unworkable-geometry', 0) + 1
            continue
        base = results[0]
        for name, res, cmp_ in results[1:]:
            key = f'{dtype}/{which}/{name}/{model}'
            dist[key] = dist.get(key, 0) + 1
            desc = dict(geom=g.describe(), dtype=dtype, varied=which, baseline=base[0], encoding=name, model=model,
                        kernel_shape=list(kshape), proc_crs=proc, model_config=mc)
            run.count_case((k, name), True, desc if len(run.cov['samples']) < 4 else None)
            problems = {}
            for part in ('corr', 'param'):
                d = fz.first_diff(res[part]['array'], base[1][part]['array'])
                if d:
                    problems[part] = d
                if not np.array_equal(res[part]['mask'], base[1][part]['mask']):
                    problems[part + ' mask'] = 'differs'
            if repr(cmp_['stats']) != repr(base[2]['stats']):
                problems['compare stats'] = dict(got=cmp_['stats'], base=base[2]['stats'])
            if problems:
                run.add_violation('result depends on the mask encoding / hidden values', desc, expected='bit-identical outputs and statistics',
                                  observed=problems, signature=dict(kind='encoding', dtype=dtype, parts=sorted(problems)))
    run.cov['evaluations'] += len(cases) + ncorr
    run.cov['rule'] = ('paired real fusions + comparisons of one validity pattern stored as NaN / numeric nodata / internal mask (hidden 0, 1e30, -5, NaN) '
                       'on float32 and nodata / internal mask / alpha band (hidden 0, 7, 200, 255) on uint8, for source and for reference, '
                       '3 models, 3 grids, ~4 blocks: outputs and statistics must be bit-identical; plus read and fit correspondences in Coq; '
                       'every paired run is non-trivial (invalid pixels present); distinct = distinct (geometry, encoding)')
    run.extra['input_distribution'] = dict(pairs=dist, read_cases=len(cases), read_nontrivial=nt_read, fit_cases=ncorr, fit_nontrivial=nt_fit)
    run.assumptions += ['H_valid_only: GDAL resampling output depends only on (mask, values at valid pixels) - exercised, not proved',
                        'a valid pixel equal to a numeric nodata value is invalid by definition of that encoding (generator avoids it)',
                        'alpha encoding only on integer images (GDAL treats a float alpha band as all_valid)']
    run.trusted += ['GDAL mask/alpha/nodata decoding and resampling']


if __name__ == '__main__':
    Run('C08').guard(body)
