#!/bin/bash
# usage: harness/trcheck.sh /abs/path/patch.diff ...   development aid: run the six translators on a patched scratch worktree of /repo and
# compare their output with the output on the pristine tree (seconds per patch; no Coq).  A behaviour-preserving patch should give no
# difference, or a difference the tie lemmas still prove.
WT=/tmp/trc_wt; rm -rf /tmp/trc_out; mkdir -p /tmp/trc_out/base
git -C /repo worktree remove --force $WT 2>/dev/null; git -C /repo worktree add -q --detach $WT HEAD
run() { # $1 = outdir
  for t in skeleton cli_surface formulas blocks pipeline cover bands; do
    up=$(echo $t | tr a-z A-Z); [ $t = cli_surface ] && up=CLI_SURFACE
    env HOMONIM_REPO=$WT PYTHONPATH=$WT ${up}_OUT=$1/$t.v /venv/bin/python /verif/translate/$t.py >/dev/null 2>$1/$t.err || echo "  $t FAILED: $(grep -h 'translator error' $1/$t.v | cut -c1-220)"
  done
}
run /tmp/trc_out/base
for p in "$@"; do
  n=$(basename $p .diff); mkdir -p /tmp/trc_out/$n
  git -C $WT checkout -q -- . ; git -C $WT apply $p || { echo "$n: patch does not apply"; continue; }
  echo "== $n"; run /tmp/trc_out/$n
  for t in skeleton cli_surface formulas blocks pipeline cover bands; do
    [ -f /tmp/trc_out/$n/$t.v ] && ! diff -q /tmp/trc_out/base/$t.v /tmp/trc_out/$n/$t.v >/dev/null && { echo "  $t differs:"; diff /tmp/trc_out/base/$t.v /tmp/trc_out/$n/$t.v | head -6 | cut -c1-200; }
  done
done
git -C /repo worktree remove --force $WT
