"""End-to-end driver: build a synthetic source / reference file pair and run the real RasterFuse / RasterCompare."""
import math
import warnings
from pathlib import Path

import numpy as np
import rasterio as rio

from harness import synth

warnings.filterwarnings('ignore')


def texture(rng, shape, bands=1, lo=20, hi=220):
    """Positive, textured, integer-valued float32 data."""
    h, w = shape
    out = np.zeros((bands, h, w), 'float32')
    for b in range(bands):
        fx, fy = rng.uniform(0.2, 1.2), rng.uniform(0.2, 1.2)
        ph = rng.uniform(0, 6)
        yy, xx = np.mgrid[0:h, 0:w]
        base = np.sin(xx * fx + ph) + np.cos(yy * fy - ph) + 0.3 * np.sin((xx + yy) * 0.37)
        noise = np.array([[rng.random() for _ in range(w)] for _ in range(h)])
        a = base + 0.8 * noise
        a = lo + (a - a.min()) / max(a.max() - a.min(), 1e-9) * (hi - lo)
        out[b] = np.round(a)
    return out


def src_mask(rng, shape, kind):
    h, w = shape
    m = np.ones((h, w), bool)
    if kind == 'border':
        k = rng.randint(1, 3)
        m[:k] = m[-k:] = False
        m[:, :k] = m[:, -k:] = False
    elif kind == 'holes':
        for _ in range(rng.randint(1, 4)):
            r, c = rng.randrange(h), rng.randrange(w)
            m[r:r + rng.randint(1, 5), c:c + rng.randint(1, 5)] = False
    elif kind == 'islands':
        for _ in range(rng.randint(2, 8)):
            m[rng.randrange(h), rng.randrange(w)] = False
    elif kind == 'corner':
        m[:h // 3, :w // 3] = False
    elif kind == 'empty-side':
        # only the right third (or the bottom third) holds data: with several blocks, whole blocks (incl. their overlap) are empty
        if rng.random() < 0.5:
            m[:, :(2 * w) // 3] = False
        else:
            m[:(2 * h) // 3, :] = False
    elif kind == 'sparse-block':
        # most of the image valid, one corner region (a whole block or more) invalid except a handful of pixels
        m[h // 2:, w // 2:] = False
        for _ in range(rng.randint(2, 6)):
            m[rng.randrange(h // 2 + 1, h), rng.randrange(w // 2 + 1, w)] = True
        # ... and one small cluster: an isolated pixel is corrected to the reference value whatever the block normalisation was, a few pixels
        # sharing a kernel window are not
        r, c = rng.randrange(h // 2 + 1, max(h // 2 + 2, h - 2)), rng.randrange(w // 2 + 1, max(w // 2 + 2, w - 3))
        m[r:r + 2, c:c + 3] = True
    return m


def make_pair(work, geom, rng, bands=1, src=None, ref=None, smask=None, rmask=None, tag='p', src_kw=None, ref_kw=None):
    """Write the pair; returns dict(src_fn, ref_fn, src, ref, smask, rmask)."""
    src = texture(rng, geom.src_shape, bands) if src is None else src
    ref = texture(rng, geom.ref_shape, bands, lo=30, hi=180) if ref is None else ref
    smask = np.ones(geom.src_shape, bool) if smask is None else smask
    rmask = np.ones(geom.ref_shape, bool) if rmask is None else rmask
    sfn, rfn = Path(work) / f'{tag}_src.tif', Path(work) / f'{tag}_ref.tif'
    synth.write_tif(sfn, src, geom.src_transform, mask=smask, **(src_kw or {}))
    synth.write_tif(rfn, ref, geom.ref_transform, mask=rmask, **(ref_kw or {}))
    return dict(src_fn=sfn, ref_fn=rfn, src=src, ref=ref, smask=smask, rmask=rmask)


def read_all(fn):
    with rio.Env(GDAL_NUM_THREADS=1, GTIFF_FORCE_RGBA=False, GDAL_TIFF_INTERNAL_MASK=True), rio.open(fn) as ds:
        arr = ds.read()
        masks = ds.read_masks()
        return dict(array=arr, mask=ds.dataset_mask() > 0, band_masks=masks > 0, profile=dict(ds.profile), tags=ds.tags(),
                    band_tags=[ds.tags(i + 1) for i in range(ds.count)], descriptions=list(ds.descriptions),
                    transform=ds.transform, crs=ds.crs, nodata=ds.nodata, dtype=ds.dtypes[0], shape=ds.shape, count=ds.count)


def fuse(src_fn, ref_fn, out_fn, model='gain-blk-offset', kernel_shape=(5, 5), param=True, proc_crs='auto', threads=1,
         max_block_mem=100, model_config=None, out_profile=None, src_bands=None, ref_bands=None, force=False,
         build_ovw=False, overwrite=True):
    """Run RasterFuse.process; returns dict(corr=read_all(...), param=read_all(...) or None, proc_crs, bands)."""
    from homonim import RasterFuse, Model
    from homonim.enums import ProcCrs
    out_fn = Path(out_fn)
    param_fn = out_fn.parent / (out_fn.stem + '_PARAM.tif') if param else None
    mc = dict(model_config or {})
    with RasterFuse(src_fn, ref_fn, proc_crs=ProcCrs(proc_crs), src_bands=src_bands, ref_bands=ref_bands, force=force) as rf:
        rf.process(out_fn, Model(model), tuple(kernel_shape), param_filename=param_fn, build_ovw=build_ovw, overwrite=overwrite,
                   model_config=mc, out_profile=out_profile, block_config=dict(threads=threads, max_block_mem=max_block_mem))
        info = dict(proc_crs=rf.proc_crs.name, src_bands=tuple(rf.src_bands), ref_bands=tuple(rf.ref_bands))
    res = dict(corr=read_all(out_fn), param=read_all(param_fn) if param else None, **info)
    return res


def block_mem_for(src_fn, ref_fn, proc_crs, target_blocks, jitter=1.0):
    """max_block_mem that yields about ``target_blocks`` blocks for this pair."""
    from homonim.raster_pair import RasterPairReader
    from homonim.enums import ProcCrs
    with RasterPairReader(src_fn, ref_fn, proc_crs=ProcCrs(proc_crs)) as rd:
        proc_is_ref = rd.proc_crs == ProcCrs.ref
        pw = rd._ref_win if proc_is_ref else rd._src_win
        sa, ra = float(np.prod(np.abs(rd._src_im.res))), float(np.prod(np.abs(rd._ref_im.res)))
        if proc_is_ref:
            ms = sa / ra if ra > sa else 1.
        else:
            ms = 1. if ra > sa else ra / sa
        return float(pw.height * pw.width * 4 / 2 ** 20 / ms / target_blocks * jitter)


def compare(src_fn, ref_fn, proc_crs='auto', threads=1, max_block_mem=512, src_bands=None, ref_bands=None, force=False, **cfg):
    from homonim import RasterCompare
    from homonim.enums import ProcCrs
    with RasterCompare(src_fn, ref_fn, proc_crs=ProcCrs(proc_crs), src_bands=src_bands, ref_bands=ref_bands, force=force) as rc:
        stats = rc.process(threads=threads, max_block_mem=max_block_mem, **cfg)
        return dict(stats=stats, proc_crs=rc.proc_crs.name, src_bands=tuple(rc.src_bands), ref_bands=tuple(rc.ref_bands))


def same_arrays(a, b):
    """Bit-for-bit equality treating NaN == NaN."""
    a, b = np.asarray(a), np.asarray(b)
    return a.shape == b.shape and bool(np.all((a == b) | (np.isnan(a) & np.isnan(b))))


def first_diff(a, b):
    a, b = np.asarray(a, 'float64'), np.asarray(b, 'float64')
    if a.shape != b.shape:
        return dict(shapes=[list(a.shape), list(b.shape)])
    bad = ~((a == b) | (np.isnan(a) & np.isnan(b)))
    if not bad.any():
        return None
    idx = tuple(int(i) for i in np.argwhere(bad)[0])
    return dict(index=list(idx), a=float(a[idx]), b=float(b[idx]), n_diff=int(bad.sum()))


def pick_block_mem(src_fn, ref_fn, proc_crs, target_blocks, kernel_shape=(5, 5), jitter=1.1):
    """max_block_mem giving about ``target_blocks`` blocks that block_pairs accepts with the kernel's overlap
    (falls back to fewer blocks); returns (max_block_mem, number of blocks per band)."""
    from homonim.raster_pair import RasterPairReader
    from homonim.enums import ProcCrs
    from homonim import utils, errors
    ov = utils.overlap_for_kernel(kernel_shape)
    t = target_blocks
    while True:
        mbm = block_mem_for(src_fn, ref_fn, proc_crs, t, jitter) if t > 1 else 1e6
        try:
            with RasterPairReader(src_fn, ref_fn, proc_crs=ProcCrs(proc_crs)) as rd:
                n = len(list(rd.block_pairs(overlap=ov, max_block_mem=mbm))) // max(1, len(rd.src_bands))
            return mbm, n
        except errors.BlockSizeError:
            if t <= 1:
                raise
            t = max(1, t // 2)


def workable_pair(work, rng, geom_fn, kernel_shape=(5, 5), target_blocks=4, proc_crs='auto', tag='p', tries=30, **pair_kw):
    """Draw geometries until block_pairs accepts the kernel's overlap; returns (geom, pair, max_block_mem, blocks)."""
    from homonim import errors
    last = None
    for _ in range(tries):
        g = geom_fn(rng)
        pair = make_pair(work, g, rng, tag=tag, **pair_kw)
        try:
            mbm, n = pick_block_mem(pair['src_fn'], pair['ref_fn'], proc_crs, target_blocks, kernel_shape)
            return g, pair, mbm, n
        except (errors.BlockSizeError, errors.ImageContentError) as ex:
            last = ex
    raise RuntimeError(f'no workable geometry in {tries} tries: {last}')
