"""Synthetic GeoTIFF pairs for the checks: tiny files, written into the run's work directory."""
import math
import warnings
from pathlib import Path

import numpy as np
import rasterio as rio
from rasterio.crs import CRS
from rasterio.enums import ColorInterp
from rasterio.transform import Affine

warnings.filterwarnings('ignore')
UTM = CRS.from_epsg(32735)


def write_tif(path, array, transform, crs=UTM, dtype='float32', nodata=float('nan'), mask=None, encoding='nan',
              hidden=None, tags=None, band_tags=None, descriptions=None, colorinterp=None, driver='GTiff', **profile):
    """Write ``array`` (bands, h, w).  ``mask`` (h, w) bool = valid pixels; how invalidity is stored:
    encoding 'nan' (float nodata=nan), 'nodata' (numeric nodata value), 'mask' (internal mask band),
    'alpha' (extra alpha band).  ``hidden`` = the number stored under invalid pixels."""
    array = np.asarray(array)
    if array.ndim == 2:
        array = array[None]
    count, h, w = array.shape
    data = array.astype(dtype, copy=True)
    prof = dict(driver=driver, width=w, height=h, count=count, dtype=dtype, crs=crs, transform=transform)
    prof.update(profile)
    valid = np.ones((h, w), bool) if mask is None else np.asarray(mask, bool)
    alpha = None
    if encoding == 'nan':
        prof['nodata'] = float('nan')
        data[:, ~valid] = float('nan')
    elif encoding == 'nodata':
        prof['nodata'] = nodata
        data[:, ~valid] = nodata
    elif encoding == 'mask':
        prof['nodata'] = None
        if hidden is not None:
            data[:, ~valid] = hidden
    elif encoding == 'alpha':
        prof['nodata'] = None
        prof['count'] = count + 1
        if hidden is not None:
            data[:, ~valid] = hidden
        alpha = (valid * (np.iinfo(dtype).max if np.issubdtype(np.dtype(dtype), np.integer) else 255)).astype(dtype)
    elif encoding == 'none':
        prof['nodata'] = None
    else:
        raise ValueError(encoding)
    with rio.Env(GDAL_TIFF_INTERNAL_MASK=True, GDAL_NUM_THREADS=1):
        with rio.open(path, 'w', **prof) as ds:
            ds.write(data, indexes=list(range(1, count + 1)))
            if alpha is not None:
                ds.write(alpha, indexes=count + 1)
                ci = list(colorinterp) if colorinterp else [ColorInterp.gray] + [ColorInterp.undefined] * (count - 1)
                ds.colorinterp = ci[:count] + [ColorInterp.alpha]
            elif colorinterp:
                ds.colorinterp = list(colorinterp)
            if encoding == 'mask':
                ds.write_mask(valid)
            if tags:
                ds.update_tags(**tags)
            for bi, t in (band_tags or {}).items():
                ds.update_tags(bi, **t)
            for bi, d in enumerate(descriptions or []):
                if d is not None:
                    ds.set_band_description(bi + 1, d)
    return Path(path)


class Geom:
    """North-up source / reference geometry.  Reference: res ``ref_res`` at origin (x0, y0), ``ref_shape``;
    source: res ``src_res``, upper-left at (off_c, off_r) reference pixels inside it, ``src_shape``."""

    def __init__(self, ref_res, ratio, x0, y0, ref_shape, off_rc, src_shape):
        self.ref_res = ref_res
        self.ratio = ratio
        self.src_res = ref_res / ratio
        self.x0, self.y0 = x0, y0
        self.ref_shape = tuple(ref_shape)
        self.off_rc = tuple(off_rc)
        self.src_shape = tuple(src_shape)
        # pixel height / pixel width of each image (1 = square pixels); set after construction for the few non-square cases
        self.ref_yscale = 1.0
        self.src_yscale = 1.0

    @property
    def ref_transform(self):
        return Affine(self.ref_res, 0, self.x0, 0, -self.ref_res * self.ref_yscale, self.y0)

    @property
    def src_transform(self):
        return Affine(self.src_res, 0, self.x0 + self.off_rc[1] * self.ref_res, 0, -self.src_res * self.src_yscale,
                      self.y0 - self.off_rc[0] * self.ref_res * self.ref_yscale)

    def describe(self):
        d = dict(ref_res=self.ref_res, ratio=self.ratio, origin=(self.x0, self.y0), ref_shape=self.ref_shape,
                 off_rc=self.off_rc, src_shape=self.src_shape)
        if self.ref_yscale != 1.0 or self.src_yscale != 1.0:
            d.update(ref_pixel_height_over_width=self.ref_yscale, src_pixel_height_over_width=self.src_yscale)
        return d


RATIOS = [1, 2, 2.5, 3, 1.7, 4.3, 0.5, 1 / 3, 0.4]
RESOLUTIONS = [0.8, 0.3, 2.0, 30.0, 0.5, 1.0]
# (an origin of exactly (0, 0) with unit resolution is an identity transform, which rasterio / GDAL treat as "not georeferenced")
ORIGINS = [(16.0, 48.0), (0.0, -3456789.3), (512345.6, 7612345.7), (-7600000.0, 1234.5), (300000.0, 6200000.0),
           (4.0, 100.0)]


def random_geom(rng, max_src=40, tie_prone=None):
    """Structured random geometry; ``tie_prone`` (default 40 %) puts the source origin on x.5 / x.25 reference pixels."""
    ratio = rng.choice(RATIOS)
    ref_res = rng.choice(RESOLUTIONS)
    x0, y0 = rng.choice(ORIGINS)
    tie = rng.random() < 0.4 if tie_prone is None else tie_prone
    if tie:
        off = (rng.randint(1, 6) + rng.choice([0, .5, .25, .75, .5]), rng.randint(1, 6) + rng.choice([0, .5, .25, .75, .5]))
    else:
        off = (rng.randint(1, 5) + round(rng.random(), rng.choice([1, 2, 6])), rng.randint(1, 5) + round(rng.random(), rng.choice([1, 2, 6])))
    if ratio >= 1:
        sh = (rng.randint(6, max_src), rng.randint(6, max_src))
    else:
        sh = (rng.randint(4, max(5, int(max_src * ratio))), rng.randint(4, max(5, int(max_src * ratio))))
    # reference must contain the source footprint with margin
    need_r = off[0] + sh[0] / ratio
    need_c = off[1] + sh[1] / ratio
    ref_shape = (int(math.ceil(need_r)) + rng.randint(2, 6), int(math.ceil(need_c)) + rng.randint(2, 6))
    return Geom(ref_res, ratio, x0, y0, ref_shape, off, sh)


def aligned_geom(rng, max_src=40):
    """Dyadic geometry (ratio 1/2/4, resolutions 0.5/1/2, small origins, offsets in whole or half reference pixels):
    every coordinate and every area weight GDAL computes is exact, so results cannot carry block-origin float noise."""
    ratio = rng.choice([1, 2, 2, 4])
    ref_res = rng.choice([0.5, 1.0, 2.0])
    x0, y0 = rng.choice([(16.0, 48.0), (4.0, 100.0), (-64.0, 32.0)])
    off = (rng.randint(1, 5) + rng.choice([0, 0, .5]), rng.randint(1, 5) + rng.choice([0, 0, .5]))
    sh = (rng.randint(8, max_src), rng.randint(8, max_src))
    ref_shape = (int(math.ceil(off[0] + sh[0] / ratio)) + rng.randint(2, 5), int(math.ceil(off[1] + sh[1] / ratio)) + rng.randint(2, 5))
    return Geom(ref_res, ratio, x0, y0, ref_shape, off, sh)


def ramp(shape, rng, lo=10, hi=200, bands=1):
    """Textured integer-valued data (not a pure ramp so that shifts are visible)."""
    h, w = shape
    out = []
    for b in range(bands):
        base = np.add.outer(np.arange(h) * rng.randint(1, 3), np.arange(w) * rng.randint(1, 3)).astype('float64')
        noise = np.array([[rng.randint(0, 40) for _ in range(w)] for _ in range(h)], dtype='float64')
        a = base + noise
        a = lo + (a - a.min()) / max(a.max() - a.min(), 1) * (hi - lo)
        out.append(np.round(a))
    return np.stack(out).astype('float32')
