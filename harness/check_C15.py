#!/venv/bin/python
"""C15 - band matching is sound."""
import itertools
import sys
from pathlib import Path
sys.path.insert(0, str(Path(__file__).resolve().parents[1]))
from harness.core import Run  # noqa: E402
from harness import impl_bands as ib, synth  # noqa: E402
import numpy as np  # noqa: E402


def real_file_case(run, rng, src, ref, sb, rb, force):
    """The same configuration through real GeoTIFF files and a RasterFuse constructor."""
    from homonim import RasterFuse
    from rasterio.transform import Affine
    from rasterio.enums import ColorInterp
    t = Affine(1, 0, 0, 0, -1, 0)

    def write(fn, bands):
        ci = [ib.CI[b['ci']] for b in bands]
        synth.write_tif(fn, np.ones((len(bands), 4, 4), 'float32'), t, encoding='nan', colorinterp=ci,
                        band_tags={i + 1: {'center_wavelength': repr(float(b['cw']))} for i, b in enumerate(bands) if b['cw'] is not None},
                        descriptions=[f'B{i + 1}_MASK' if b['maskdesc'] else f'B{i + 1}' for i, b in enumerate(bands)])
    write(run.work / 'bs.tif', src)
    write(run.work / 'br.tif', ref)

    def readback(fn):
        # GeoTIFF does not keep arbitrary colour interpretations: the configuration is what the file actually says
        import rasterio as rio
        with rio.open(fn) as ds:
            out = []
            for i in range(ds.count):
                ci = ib.CI.index(ds.colorinterp[i]) if ds.colorinterp[i] in ib.CI else 4
                d = ds.descriptions[i] or ''
                cw = ds.tags(i + 1).get('center_wavelength')
                out.append(dict(ci=ci, maskdesc=d.endswith('_MASK') or d.endswith('_DIST'), cw=None if cw is None else float(cw)))
            return out
    src2, ref2 = readback(run.work / 'bs.tif'), readback(run.work / 'br.tif')
    stub = ib.run_match(src2, ref2, sb, rb, force)
    try:
        rf = RasterFuse(run.work / 'bs.tif', run.work / 'br.tif', src_bands=sb, ref_bands=rb, force=force)
        got = (0, list(rf.src_bands), list(rf.ref_bands))
    except ValueError as ex:
        got = None
        for pat, code in ib.ERR:
            if pat in str(ex):
                got = (code, [], [])
        if got is None:
            got = (6 if ('shape mismatch' in str(ex) or 'broadcast' in str(ex) or 'cannot assign' in str(ex)) else 9, [], [])
    return got, (stub[0], stub[1], stub[2])


def body(run):
    run.build(extra_targets=['theories/Corr/CheckC15.v'])
    rng = run.rng('bands')
    cases, metas, dist = [], [], {}
    todo = [ib.gen_case(rng) for _ in range(run.scale(700, 12000))]
    if run.thorough:   # exhaustive small domain: <= 3 x 3 bands over a 4-value wavelength alphabet (None, .48, .52, .65)
        alpha = [None, 0.48, 0.52, 0.65]
        for ns in (1, 2, 3):
            for nr in (1, 2, 3):
                for ws in itertools.product(alpha, repeat=ns):
                    for wr in itertools.product(alpha, repeat=nr):
                        todo.append(([dict(ci=4, maskdesc=False, cw=w) for w in ws], [dict(ci=4, maskdesc=False, cw=w) for w in wr], None, None, False))
    for k, (src, ref, sb, rb, force) in enumerate(todo):
        obs = ib.run_match(src, ref, sb, rb, force)
        desc = dict(src=[(b['ci'], b['maskdesc'], b['cw']) for b in src], ref=[(b['ci'], b['maskdesc'], b['cw']) for b in ref],
                    src_bands=sb, ref_bands=rb, force=force, result=dict(code=obs[0], src=obs[1], ref=obs[2], msg=obs[3]))
        key = f'code={obs[0]}/force={force}'
        dist[key] = dist.get(key, 0) + 1
        run.count_case((repr(desc['src']), repr(desc['ref']), repr(sb), repr(rb), force), obs[0] == 0 and len(obs[1]) >= 2 or obs[0] in (4, 5, 6, 7),
                       desc if len(run.cov['samples']) < 4 else None)
        if obs[0] in (-1, 9):
            run.add_violation('band matcher hung or raised an unexpected error on in-domain metadata', desc, observed=obs[3],
                              signature=dict(kind='bands-odd', code=obs[0]))
            continue
        v = ib.spec_check(src, ref, sb, rb, force, obs)
        if v:
            dup_sel = rb is not None and len(set(rb)) != len(rb)
            run.add_violation('band matching unsound: ' + v, desc, signature=dict(kind='bands-spec', clause=v.split(' (')[0], dup_ref_selection=dup_sel))
        if obs[0] == 0 and rb is not None and len(set(rb)) != len(rb) and len(set(obs[2])) != len(obs[2]):
            run.add_violation('a reference band is used twice (duplicate user selection accepted)', desc,
                              signature=dict(kind='bands-dup-ref-selection'))
        cases.append(ib.encode(src, ref, sb, rb, force, obs))
        metas.append(desc)
        if k % 10 == 0 and k < run.scale(400, 3000):   # 10 %: the same configuration through real files and RasterFuse
            got, stub = real_file_case(run, rng, src, ref, sb, rb, force)
            dist['real-files'] = dist.get('real-files', 0) + 1
            if got != stub:
                run.add_violation('RasterFuse on real files matches bands differently from the matcher on the metadata read back from them', desc,
                                  observed=dict(files=got, stub_on_readback=stub), signature=dict(kind='bands-files'))
    failing, nt = run.corr('bands', 'Corr.CheckC15', cases, shard=500)
    for k in failing[:5]:
        run.add_break('correspondence-break', '_match_pair_bands differs from Bands.Match.match_pair_bands', metas[k])
    # ---- several source files in one command-line invocation: the reader built for each file has the bands of a reader built for that file alone
    from harness import impl_multi as im
    mrng = run.rng('multi')
    files = im.make_files(run.work, mrng)
    for oi, order in enumerate([('fine3', 'fine4'), ('fine4', 'fine3'), ('fine3', 'coarse4', 'fine4')][:run.scale(3, 3)]):
        od = run.work / f'multi_out{oi}'
        od.mkdir()
        code, outp, seen = im.cli_fuse([files[k_] for k_ in order], files['ref'], od)
        want = [im.alone(files[k_], files['ref']) for k_ in order]
        run.count_case(('cli-multi', oi), True, dict(order=list(order)) if oi == 0 else None)
        got = [{k2: r_[k2] for k2 in ('src', 'src_bands', 'ref_bands')} for r_ in seen]
        exp = [{k2: r_[k2] for k2 in ('src', 'src_bands', 'ref_bands')} for r_ in want]
        if code != 0 or got != exp:
            run.add_violation('band matching unsound: a reader constructed by the command line for one of several source files has other bands than a reader for that file alone',
                              dict(files=list(order), reference_bands=5), expected=exp, observed=dict(exit_code=code, readers=got, output=outp[-300:] if code else ''),
                              signature=dict(kind='bands-cli-multi'))
    run.cov['rule'] = ('seeded metadata configurations on duck-typed datasets: 1..6 x 1..8 bands, wavelengths present / partial / absent / at the '
                       '10 % edge / exact ties / permuted copies, RGB / BGR colour interpretation, alpha and _MASK bands, user subsets, '
                       'out-of-range and duplicate selections, force; 10 % also through real files; thorough adds every pattern of <= 3 x 3 bands '
                       'over a 4-value alphabet; non-trivial = >= 2 matched pairs or a matching error; distinct = distinct configuration')
    run.extra['input_distribution'] = dict(outcomes=dist, model_nontrivial=nt)
    run.assumptions += ['center wavelengths are finite and > 0 (a source wavelength of 0 makes the real greedy loop spin for ever: outside the property domain)']
    run.trusted += ['NumPy masked-array argmin tie rules as transcribed in Bands/Match.v (validated by the correspondence)']
    run.finish()


if __name__ == '__main__':
    Run('C15').guard(body)
