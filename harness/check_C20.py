#!/venv/bin/python
"""C20 - windowed image I/O is total and places data where it belongs."""
import itertools
import sys
from pathlib import Path
sys.path.insert(0, str(Path(__file__).resolve().parents[1]))
from harness.core import Run  # noqa: E402
from harness import impl_io  # noqa: E402


def relation(r, c, h, w, H=10, W=10):
    def ax(o, n, N):
        if n == 0:
            return 'empty'
        if o + n <= 0:
            return 'before'
        if o >= N:
            return 'after'
        if o < 0 and o + n > N:
            return 'spans'
        if o < 0:
            return 'lo'
        if o + n > N:
            return 'hi'
        return 'in'
    return ax(r, h, H) + '/' + ax(c, w, W)


def body(run):
    run.build(extra_targets=['theories/Corr/CheckC20.v'])
    rng = run.rng('io')
    dsets = impl_io.make_datasets(run.work, rng)
    special = [(2, 12, 3, 3), (-5, -5, 3, 3), (-7, 2, 3, 3), (8, 8, 4, 4), (3, -2, 0, 4), (0, 10, 2, 2), (3, 3, 0, 0),
               (-3, -3, 16, 16), (0, 0, 10, 10), (10, 10, 1, 1), (-1, -1, 1, 1), (9, 9, 1, 1), (-2, 4, 5, 2)]
    if run.thorough:
        offs = range(-14, 15)
        wins_all = [(r, c, h, w) for r in offs for c in offs for h in (0, 1, 3, 6) for w in (0, 2, 5)]
    else:
        wins_all = []
    cases, metas, rels = [], [], {}
    for name, path in dsets:
        wins = list(special)
        n = run.scale(70, 300)
        for _ in range(n):
            wins.append((rng.randint(-14, 14), rng.randint(-14, 14), rng.randint(0, 6), rng.randint(0, 6)))
        if name == 'nan':
            wins += wins_all
        bandsets = [None]
        if name in ('nan_3band', 'mask_3band', 'rgba_u8'):
            bandsets = [None, [2], [3, 1], [1, 2]]
        for bands in bandsets:
            for rec in impl_io.read_cases(path, wins, bands):
                key = (name, tuple(rec['window']), tuple(rec['bands']))
                rel = relation(*rec['window'])
                rels[rel] = rels.get(rel, 0) + 1
                nontriv = rel != 'in/in'
                run.count_case(key, nontriv, dict(file=name, window=rec['window'], bands=rec['bands'], relation=rel))
                if 'error' in rec:
                    sig = dict(kind='read-raises', relation=rel)
                    run.add_violation('from_rio_dataset raised', dict(file=name, window=rec['window'], bands=rec['bands']),
                                      expected='nodata-filled array', observed=rec['error'], signature=sig)
                    continue
                if not (rec['oracle_ok'] and rec['transform_ok'] and rec['nodata_ok']):
                    run.add_violation('from_rio_dataset returned wrong pixels / transform',
                                      dict(file=name, window=rec['window'], bands=rec['bands']),
                                      expected='image pixels inside, nodata outside, window transform',
                                      observed={k: rec[k] for k in ('oracle_ok', 'transform_ok', 'nodata_ok', 'shape_ok')},
                                      signature=dict(kind='read-wrong', relation=rel))
                for cs in rec['cases']:
                    cases.append([float(x) for x in cs])
                    metas.append(dict(file=name, window=rec['window'], bands=rec['bands']))
    # writes
    wrng = run.rng('write')
    for k in range(run.scale(120, 1500)):
        H, W = wrng.randint(4, 9), wrng.randint(4, 9)
        ah, aw = wrng.randint(1, 8), wrng.randint(1, 8)
        ar, ac = wrng.randint(-4, H), wrng.randint(-4, W)
        mode = wrng.random()
        if mode < 0.2:
            window = None
        elif mode < 0.7:  # window inside the array footprint (the way fuse uses it), possibly outside the dataset
            h, w = wrng.randint(0, ah), wrng.randint(0, aw)
            window = (ar + wrng.randint(0, ah - h), ac + wrng.randint(0, aw - w), h, w)
        else:
            window = (wrng.randint(-5, H + 2), wrng.randint(-5, W + 2), wrng.randint(0, 6), wrng.randint(0, 6))
        rec = impl_io.write_case(run.work, wrng, H, W, (ar, ac), (ah, aw), window)
        win = rec['desc']['window']
        rel = 'write:' + relation(*win, H=H, W=W)
        rels[rel] = rels.get(rel, 0) + 1
        run.count_case(('w', k), not rel.endswith('in/in'), rec['desc'] if k < 2 else None)
        if not rec['oracle_ok']:
            run.add_violation('to_rio_dataset misplaced data or raised', rec['desc'], expected='cropped geo-placed write',
                              observed=dict(err=rec['err'], exc=rec['exc']), signature=dict(kind='write-wrong', err=rec['err']))
        cases.append(rec['case'])
        metas.append(rec['desc'])
        # the same placement rule for validity when the dataset has no nodata value (internal mask): window inside the array footprint
        if k % 3 == 0 and ah >= 2 and aw >= 2:
            h2, w2 = wrng.randint(1, ah), wrng.randint(1, aw)
            win2 = (ar + wrng.randint(0, ah - h2), ac + wrng.randint(0, aw - w2), h2, w2)
            rm = impl_io.write_mask_case(run.work, wrng, H, W, (ar, ac), (ah, aw), win2)
            rels['write-mask'] = rels.get('write-mask', 0) + 1
            run.count_case(('wm', k), True, None)
            if not rm['oracle_ok']:
                run.add_violation('to_rio_dataset misplaced the validity mask (dataset without nodata value)', rm['desc'],
                                  expected='mask inside the cropped window = validity of the array pixel at that location; untouched outside',
                                  observed=dict(err=rm['err'], **rm['observed']), signature=dict(kind='write-mask-wrong'))
    # several blocks, one after the other, into a fresh dataset without a nodata value
    for k in range(run.scale(30, 300)):
        rb = impl_io.write_blocks_case(run.work, wrng, wrng.randint(4, 12), wrng.randint(4, 12), variant=['once', 'rewrite', 'once', 'rewrite', 'nothing-valid'][k % 5])
        rels['write-blocks'] = rels.get('write-blocks', 0) + 1
        run.count_case(('wb', k), True, rb['desc'] if k < 1 else None)
        if not rb['oracle_ok']:
            run.add_violation('to_rio_dataset misplaced the validity mask (dataset without nodata value)', rb['desc'],
                              expected='every block\'s pixels and validity at its place after all blocks were written', observed=dict(err=rb['err'], **rb['observed']),
                              signature=dict(kind='write-mask-wrong'))
    failing, nt = run.corr('io', 'Corr.CheckC20', cases, shard=400)
    for k in failing[:5]:
        run.add_break('correspondence-break', 'from_rio_dataset / to_rio_dataset differ from Grid.Dataset.read_window / write_window', metas[k])
    run.cov['rule'] = ('windows at every overlap relation to 10x10 files in 6 encodings (special list + seeded random offsets -14..14, '
                       'sizes 0..6; thorough adds the exhaustive grid on one file) and geo-placed block writes; '
                       'non-trivial = window not wholly inside the dataset; distinct = distinct (file, window, bands)')
    run.extra['input_distribution'] = dict(relations=rels, model_cases=len(cases), model_nontrivial=nt)
    run.trusted += ['GDAL/rasterio read, write and mask I/O (H_codec): the dataset content the model is given is what rasterio reads back']


if __name__ == '__main__':
    Run('C20').guard(body)
