"""Drivers for RasterArray.from_rio_dataset / to_rio_dataset on tiny real files."""
import warnings

import numpy as np
import rasterio as rio
from rasterio.transform import Affine
from rasterio.windows import Window
from rasterio import windows as rwindows

from harness import synth

warnings.filterwarnings('ignore')
T0 = Affine(2.0, 0, 1000.0, 0, -2.0, 5000.0)


def make_datasets(work, rng, H=10, W=10):
    """Four encodings of a small image; returns list of (name, path, bands_to_read)."""
    out = []
    vals = np.array([[rng.randint(1, 250) for _ in range(W)] for _ in range(H)], dtype='float32')
    mask = np.array([[rng.random() > 0.2 for _ in range(W)] for _ in range(H)])
    hidden = rng.choice([0, 77, 1e30, -5])
    out.append(('nan', synth.write_tif(work / 'io_nan.tif', vals, T0, mask=mask, encoding='nan')))
    out.append(('nodata0_u8', synth.write_tif(work / 'io_nd.tif', vals, T0, dtype='uint8', nodata=0, mask=mask, encoding='nodata')))
    out.append(('mask_f32', synth.write_tif(work / 'io_mask.tif', vals, T0, mask=mask, encoding='mask', hidden=hidden)))
    out.append(('alpha_u8', synth.write_tif(work / 'io_alpha.tif', vals, T0, dtype='uint8', mask=mask, encoding='alpha', hidden=int(hidden) % 250)))
    v3 = np.stack([vals, vals[::-1] + 1, vals.T[:H, :W] + 2]) if H == W else np.stack([vals, vals + 1, vals + 2])
    out.append(('nan_3band', synth.write_tif(work / 'io_3b.tif', v3, T0, mask=mask, encoding='nan')))
    out.append(('plain_nomask', synth.write_tif(work / 'io_plain.tif', vals, T0, encoding='none')))
    # several bands read in ONE call from files whose validity is an internal mask / an alpha band (hidden values under the masked pixels)
    out.append(('mask_3band', synth.write_tif(work / 'io_mask3.tif', v3, T0, mask=mask, encoding='mask', hidden=hidden)))
    out.append(('rgba_u8', synth.write_tif(work / 'io_rgba.tif', np.clip(v3, 1, 250), T0, dtype='uint8', mask=mask, encoding='alpha', hidden=int(hidden) % 250)))
    return out


def read_cases(path, windows, bands=None):
    """For each window: from_rio_dataset on the real file; returns list of dicts (case floats, oracle verdict)."""
    from homonim.raster_array import RasterArray
    from rasterio.enums import MaskFlags
    res = []
    with rio.Env(GDAL_NUM_THREADS=1, GTIFF_FORCE_RGBA=False, GDAL_TIFF_INTERNAL_MASK=True), rio.open(path) as ds:
        H, W = ds.shape
        nonalpha = [bi + 1 for bi in range(ds.count) if ds.colorinterp[bi] != rio.enums.ColorInterp.alpha]
        use_default = bands is None         # the library's own default band selection (all non-alpha bands) is part of what is read
        bands = bands or nonalpha
        is_masked = any(MaskFlags.per_dataset in ds.mask_flag_enums[bi - 1] for bi in bands)
        nodata = float('nan') if (is_masked or ds.nodata is None) else float(ds.nodata)
        raw = {b: ds.read(b, out_dtype='float32') for b in bands}
        valid = ds.dataset_mask().astype(bool) if is_masked else np.ones((H, W), bool)
        for (r, c, h, w) in windows:
            win = Window(c, r, w, h)
            rec = dict(window=[r, c, h, w], file=path.name, bands=bands)
            try:
                ra = RasterArray.from_rio_dataset(ds, indexes=None if use_default else (bands if len(bands) > 1 else bands[0]), window=win)
            except Exception as ex:  # the property says reading never fails
                rec.update(error=f'{type(ex).__name__}: {str(ex)[:120]}')
                res.append(rec)
                continue
            arr = ra.array if ra.array.ndim == 3 else ra.array[None]
            exp_t = ds.transform * Affine.translation(c, r)
            rec['transform_ok'] = bool(np.allclose(np.array(ra.transform)[:6], np.array(exp_t)[:6], rtol=0, atol=1e-9))
            rec['shape_ok'] = tuple(arr.shape[-2:]) == (h, w)
            # direct oracle (explicit loops): pixels inside, nodata elsewhere
            ok = rec['shape_ok']
            cases = []
            for k, b in enumerate(bands):
                if ok:
                    for i in range(h):
                        for j in range(w):
                            rr, cc = r + i, c + j
                            if 0 <= rr < H and 0 <= cc < W and (valid[rr, cc] or not is_masked):
                                e = raw[b][rr, cc]
                            else:
                                e = nodata
                            o = arr[k, i, j]
                            if not ((np.isnan(e) and np.isnan(o)) or e == o):
                                ok = False
                    cases.append([0, H, W, int(is_masked), nodata, r, c, h, w, *raw[b].ravel().tolist(),
                                  *valid.astype(float).ravel().tolist(), *arr[k].astype('float64').ravel().tolist()])
            rec.update(oracle_ok=bool(ok), cases=cases, nodata_ok=bool((np.isnan(ra.nodata) and np.isnan(nodata)) or ra.nodata == nodata))
            res.append(rec)
    return res


def write_case(work, rng, H, W, arr_origin, arr_shape, window):
    """to_rio_dataset of a geo-placed array into a fresh dataset with known content; read back."""
    from homonim.raster_array import RasterArray
    path = work / 'io_w.tif'
    before = np.array([[rng.randint(1, 99) for _ in range(W)] for _ in range(H)], dtype='float32')
    ar, ac = arr_origin
    ah, aw = arr_shape
    arr = np.array([[100 + rng.randint(1, 99) for _ in range(aw)] for _ in range(ah)], dtype='float32').reshape(ah, aw)
    prof = dict(driver='GTiff', width=W, height=H, count=1, dtype='float32', crs=synth.UTM, transform=T0, nodata=float('nan'))
    err, exc = 0, None
    with rio.Env(GDAL_NUM_THREADS=1), rio.open(path, 'w', **prof) as ds:
        ds.write(before, 1)
        ra = RasterArray(arr, synth.UTM, T0 * Affine.translation(ac, ar), nodata=float('nan'))
        win = None if window is None else Window(window[1], window[0], window[3], window[2])
        try:
            ra.to_rio_dataset(ds, indexes=1, window=win)
        except ValueError:
            err = 1
        except Exception as ex:
            err, exc = 2, f'{type(ex).__name__}: {str(ex)[:120]}'
    with rio.open(path) as ds:
        after = ds.read(1)
    if window is None:
        window = (ar, ac, ah, aw)
    r, c, h, w = window
    # direct oracle
    exp = before.copy()
    fits = True
    for rr in range(max(r, 0), min(r + h, H)):
        for cc in range(max(c, 0), min(c + w, W)):
            if ar <= rr < ar + ah and ac <= cc < ac + aw:
                exp[rr, cc] = arr[rr - ar, cc - ac]
            else:
                fits = False
    if err == 0:
        oracle_ok = fits and np.array_equal(exp, after)
    elif err == 1:
        oracle_ok = (not fits) and np.array_equal(before, after)
    else:
        oracle_ok = False
    case = [1, H, W, ar, ac, ah, aw, r, c, h, w, min(err, 1), *before.ravel().tolist(), *arr.ravel().tolist(), *after.ravel().tolist()]
    return dict(case=[float(x) for x in case], oracle_ok=bool(oracle_ok), err=err, exc=exc,
                desc=dict(H=H, W=W, arr_origin=[ar, ac], arr_shape=[ah, aw], window=list(window)))


def write_mask_case(work, rng, H, W, arr_origin, arr_shape, window):
    """to_rio_dataset into a dataset WITHOUT a nodata value (validity lives in the internal mask): a geo-placed array with invalid pixels is
    written through a window; read back pixels and mask.  Oracle: inside the cropped window the mask is the array's validity at that
    location and valid pixels hold the array's values; outside, pixels and mask are untouched."""
    from homonim.raster_array import RasterArray
    path = work / 'io_wm.tif'
    before = np.array([[rng.randint(1, 99) for _ in range(W)] for _ in range(H)], dtype='float32')
    ar, ac = arr_origin
    ah, aw = arr_shape
    arr = np.array([[100 + rng.randint(1, 99) for _ in range(aw)] for _ in range(ah)], dtype='float32').reshape(ah, aw)
    valid = np.array([[rng.random() > 0.35 for _ in range(aw)] for _ in range(ah)]).reshape(ah, aw)
    arr = np.where(valid, arr, np.float32('nan')).astype('float32')
    prof = dict(driver='GTiff', width=W, height=H, count=1, dtype='float32', crs=synth.UTM, transform=T0, nodata=None)
    err = None
    with rio.Env(GDAL_NUM_THREADS=1, GDAL_TIFF_INTERNAL_MASK=True), rio.open(path, 'w', **prof) as ds:
        ds.write(before, 1)
        ds.write_mask(np.ones((H, W), bool))
        ra = RasterArray(arr, synth.UTM, T0 * Affine.translation(ac, ar), nodata=float('nan'))
        win = Window(window[1], window[0], window[3], window[2])
        try:
            ra.to_rio_dataset(ds, indexes=1, window=win)
        except Exception as ex:      # noqa: BLE001
            err = f'{type(ex).__name__}: {str(ex)[:120]}'
    with rio.Env(GDAL_TIFF_INTERNAL_MASK=True), rio.open(path) as ds:
        after = ds.read(1)
        mask = ds.read_masks(1) > 0
    r, c, h, w = window
    exp_v, exp_m = before.copy(), np.ones((H, W), bool)
    for rr in range(max(r, 0), min(r + h, H)):
        for cc in range(max(c, 0), min(c + w, W)):
            exp_m[rr, cc] = bool(valid[rr - ar, cc - ac])
            exp_v[rr, cc] = arr[rr - ar, cc - ac]
    ok = err is None and np.array_equal(mask, exp_m) and bool(np.all((after == exp_v) | ~exp_m))
    return dict(oracle_ok=bool(ok), err=err, desc=dict(H=H, W=W, arr_origin=[ar, ac], arr_shape=[ah, aw], window=list(window), dataset_nodata=None,
                                                       array_invalid=int((~valid).sum())),
                observed=dict(mask_mismatches=int((mask != exp_m).sum()) if err is None else None))


def write_blocks_case(work, rng, H, W, variant='once'):
    """Several blocks written one after the other into a FRESH dataset without a nodata value (what fuse does with nodata = None): the blocks tile
    the dataset, some are valid everywhere, some hold invalid pixels, the order is shuffled.  Reading back returns what was written: pixels
    and validity of every block at its place."""
    from homonim.raster_array import RasterArray
    path = work / 'io_wb.tif'
    rs = sorted({0, H} | {rng.randint(1, H - 1) for _ in range(rng.randint(1, 2))})
    cs = sorted({0, W} | {rng.randint(1, W - 1) for _ in range(rng.randint(1, 2))})
    tiles = [(r0, c0, r1 - r0, c1 - c0) for r0, r1 in zip(rs[:-1], rs[1:]) for c0, c1 in zip(cs[:-1], cs[1:])]
    rng.shuffle(tiles)
    vals = np.array([[rng.randint(1, 250) for _ in range(W)] for _ in range(H)], dtype='float32')
    valid = np.ones((H, W), bool)
    kinds = []
    for i, (r, c, h, w) in enumerate(tiles):
        kind = ['all-valid', 'some-invalid', 'all-valid', 'all-invalid'][i % 4] if len(tiles) > 1 else 'some-invalid'
        kinds.append(kind)
        if kind == 'some-invalid':
            valid[r + rng.randrange(h), c + rng.randrange(w)] = False
        elif kind == 'all-invalid':
            valid[r:r + h, c:c + w] = False
    if variant == 'nothing-valid':
        # every block is invalid everywhere (a band without data): the dataset then reads back invalid everywhere
        valid[:] = False
        kinds = ['all-invalid'] * len(tiles)
    prof = dict(driver='GTiff', width=W, height=H, count=1, dtype='float32', crs=synth.UTM, transform=T0, nodata=None)
    err = None
    writes = [(t, valid[t[0]:t[0] + t[2], t[1]:t[1] + t[3]].copy()) for t in tiles]
    if variant == 'rewrite':
        # a second pass over some windows: what is read back is what was written LAST - a block that blanks a window written before
        # (all invalid), a block that fills a window blanked before, a block that moves the invalid pixel
        for i, (r, c, h, w) in enumerate(tiles):
            v2 = valid[r:r + h, c:c + w].copy()
            if i % 3 == 0:
                v2[:] = False if v2.any() else True
            elif i % 3 == 1:
                v2[:] = True
                v2[rng.randrange(h), rng.randrange(w)] = False
            else:
                continue
            writes.append(((r, c, h, w), v2))
            valid[r:r + h, c:c + w] = v2
            kinds.append(f'rewrite tile {i}: ' + ('all-invalid' if not v2.any() else 'all-valid' if v2.all() else 'some-invalid'))
    with rio.Env(GDAL_NUM_THREADS=1, GDAL_TIFF_INTERNAL_MASK=True), rio.open(path, 'w', **prof) as ds:
        for ((r, c, h, w), v_) in writes:
            arr = np.where(v_, vals[r:r + h, c:c + w], np.float32('nan')).astype('float32')
            ra = RasterArray(arr, synth.UTM, T0 * Affine.translation(c, r), nodata=float('nan'))
            try:
                ra.to_rio_dataset(ds, indexes=1, window=Window(c, r, w, h))
            except Exception as ex:      # noqa: BLE001
                err = f'{type(ex).__name__}: {str(ex)[:120]}'
    with rio.Env(GDAL_TIFF_INTERNAL_MASK=True), rio.open(path) as ds:
        after = ds.read(1)
        mask = ds.dataset_mask() > 0
    ok = err is None and np.array_equal(mask, valid) and bool(np.all((after == vals) | ~valid))
    return dict(oracle_ok=bool(ok), err=err, desc=dict(H=H, W=W, variant=variant, tiles=[list(t) for t in tiles], tile_kinds=kinds, dataset_nodata=None),
                observed=dict(mask_mismatches=int((mask != valid).sum()) if err is None else None, valid_expected=int(valid.sum()),
                              valid_read=int(mask.sum()) if err is None else None))
