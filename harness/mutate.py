#!/venv/bin/python
"""Development aid (not a registered check): apply a textual mutation to /repo, run a check, always restore.
usage: mutate.py <ID> <file> <<< JSON {"old": "...", "new": "..."}   or  mutate.py <ID> --patch <diff>"""
import json
import subprocess
import sys


def main():
    pid = sys.argv[1]
    if sys.argv[2] == '--patch':
        patch = sys.argv[3]
        rc = subprocess.run(['git', '-C', '/repo', 'apply', patch]).returncode
        if rc:
            print('PATCH DID NOT APPLY')
            return 2
    else:
        fn = '/repo/' + sys.argv[2]
        spec = json.loads(sys.stdin.read())
        s = open(fn).read()
        if s.count(spec['old']) < 1:
            print('OLD TEXT NOT FOUND')
            return 2
        open(fn, 'w').write(s.replace(spec['old'], spec['new'], spec.get('count', 1)))
    try:
        tier = sys.argv[4:] if sys.argv[2] == '--patch' else sys.argv[3:]
        p = subprocess.run(['./bin/check', pid] + tier, cwd='/verif', stdout=subprocess.PIPE)
        out = p.stdout.decode()
        print(out[-600:])
        return p.returncode
    finally:
        subprocess.run(['git', '-C', '/repo', 'checkout', '--', '.'])


if __name__ == '__main__':
    sys.exit(main())
