#!/venv/bin/python
"""C16 - a reference that does not cover the source is always rejected."""
import sys
import warnings
from fractions import Fraction as F
from pathlib import Path
sys.path.insert(0, str(Path(__file__).resolve().parents[1]))
from harness.core import Run  # noqa: E402
from harness import synth  # noqa: E402
import numpy as np  # noqa: E402
import rasterio as rio  # noqa: E402
from rasterio.transform import Affine  # noqa: E402

warnings.filterwarnings('ignore')


def one(run, k, ref_res, x0, y0, ref_shape, src_res, sx, sy, src_shape, exact, south_up=False, which='reader'):
    """Build the file pair, call utils.covers_bounds and the reader constructors; return case + oracle."""
    from homonim import utils, errors
    from homonim.raster_pair import RasterPairReader
    from homonim import RasterFuse, RasterCompare
    rt = Affine(ref_res, 0, x0, 0, -ref_res, y0)
    st = Affine(src_res, 0, sx, 0, -src_res, sy)
    rfn, sfn = run.work / 'c16_ref.tif', run.work / 'c16_src.tif'
    if south_up:  # same footprint stored bottom-up
        st = Affine(src_res, 0, sx, 0, src_res, sy - src_res * src_shape[0])
    synth.write_tif(rfn, np.ones((1, *ref_shape), 'float32'), rt)
    synth.write_tif(sfn, np.ones((1, *src_shape), 'float32'), st)
    # footprints in exact arithmetic
    X0, Y0, R, L, T, S = F(x0), F(y0), F(ref_res), F(sx), F(sy), F(src_res)
    l, t, r, b = L, T, L + S * src_shape[1], T - S * src_shape[0]
    contained = X0 <= l and r <= X0 + R * ref_shape[1] and Y0 - R * ref_shape[0] <= b and t <= Y0
    with rio.open(rfn) as ref_im, rio.open(sfn) as src_im:
        with utils.same_orientation_crs_ctx(ref_im, src_im) as (i1, i2):
            w = i1.window(*i2.bounds)
    with rio.open(rfn) as ref_im, rio.open(sfn) as src_im:
        obs = bool(utils.covers_bounds(ref_im, src_im))
    cls = dict(reader=RasterPairReader, fuse=RasterFuse, compare=RasterCompare)[which]
    try:
        cls(sfn, rfn)
        accepted = True
    except errors.ImageContentError:
        accepted = False
    case = [w.row_off, w.col_off, w.height, w.width, ref_shape[0], ref_shape[1], int(obs), int(exact and not south_up),
            x0, y0, ref_res, float(l), float(b), float(r), float(t)]
    desc = dict(ref=dict(res=ref_res, origin=[x0, y0], shape=list(ref_shape)), src=dict(res=src_res, origin=[sx, sy], shape=list(src_shape)),
                south_up=south_up, constructor=which)
    return [float(v) for v in case], desc, contained, obs, accepted


def body(run):
    run.build(extra_targets=['theories/Corr/CheckC16.v'])
    rng = run.rng('cover')
    cases, metas = [], []
    sides = {}
    n = run.scale(260, 4000)
    for k in range(n):
        exact = rng.random() < 0.75
        if exact:   # dyadic geometry: every double involved is exact
            ref_res = rng.choice([1.0, 0.5, 2.0, 0.25, 4.0])
            src_res = rng.choice([0.25, 0.5, 1.0, 2.0])
            x0, y0 = rng.randint(-40, 40) / 8 + rng.choice([0, 2 ** 20]), rng.randint(-40, 40) / 8 + rng.choice([0, -2 ** 21])
            q = 1 / 8
        else:
            ref_res = rng.choice([0.3, 0.8, 30.0, 0.45])
            src_res = ref_res / rng.choice([1, 2, 3, 2.5]) if rng.random() < .8 else ref_res * 2
            x0, y0 = rng.choice(synth.ORIGINS)
            q = 0.1
        ref_shape = (rng.randint(6, 24), rng.randint(6, 24))
        # choose overhang per side, in reference pixels: negative = inside, 0 = touching, positive = overhang
        amounts = [-3, -1, -q, 0, 0, q, 1, 5] if exact else [-3, -1, -.37, .21, 1, 5]
        ov = [rng.choice(amounts) if rng.random() < 0.6 else rng.choice([-2, -1]) for _ in range(4)]  # left top right bottom
        left = x0 - ov[0] * ref_res
        top = y0 + ov[1] * ref_res
        right = x0 + ref_shape[1] * ref_res + ov[2] * ref_res
        bottom = y0 - ref_shape[0] * ref_res - ov[3] * ref_res
        w_px = max(1, round((right - left) / src_res))
        h_px = max(1, round((top - bottom) / src_res))
        if w_px > 200 or h_px > 200:
            continue
        # anchor so that the requested overhangs on the chosen sides are kept: left/top anchored or right/bottom anchored
        anchor = rng.choice(['ul', 'br'])
        sx = left if anchor == 'ul' else right - w_px * src_res
        sy = top if anchor == 'ul' else bottom + h_px * src_res
        same_grid = False
        if not exact and rng.random() < 0.25:  # the very same grid / an aligned sub-window of it
            same_grid = True
            src_res = ref_res
            c0, r0 = rng.randint(0, 3), rng.randint(0, 3)
            w_px, h_px = ref_shape[1] - c0 - rng.randint(0, 2), ref_shape[0] - r0 - rng.randint(0, 2)
            sx, sy = (rio.transform.Affine(ref_res, 0, x0, 0, -ref_res, y0) * (c0, r0))
        which = ['reader', 'fuse', 'compare'][k % 3]
        case, desc, contained, obs, accepted = one(run, k, ref_res, x0, y0, ref_shape, src_res, sx, sy, (h_px, w_px), exact,
                                                   south_up=(k % 7 == 0), which=which)
        side_key = ''.join('LTRB'[i] if ov[i] > 0 else '-' for i in range(4))
        sides[side_key] = sides.get(side_key, 0) + 1
        run.count_case((desc['ref'], desc['src']), side_key != '----' or 0 in ov, desc if k < 4 else None)
        cases.append(case)
        metas.append(desc)
        # independent oracle: acceptance == exact footprint containment (decided only for exact geometry, or when the
        # margin is far larger than float noise)
        if same_grid:
            contained = True      # by construction: an aligned sub-window of the reference grid itself
            margin_clear = True
        elif exact:
            margin_clear = True
        else:   # decide only when every side's margin is far above float noise
            R, S = F(ref_res), F(src_res)
            l, t = F(sx), F(sy)
            r, b = l + S * w_px, t - S * h_px
            ms = [l - F(x0), F(y0) - t, F(x0) + R * ref_shape[1] - r, b - (F(y0) - R * ref_shape[0])]
            margin_clear = all(abs(m) > F(1, 10 ** 6) * R for m in ms)
        desc['same_grid'] = same_grid
        if margin_clear and (accepted != contained or obs != contained):
            run.add_violation('reader accepted a non-covering reference' if accepted else 'reader rejected a covering reference',
                              desc, expected=f'contained={contained}', observed=dict(covers_bounds=obs, constructed=accepted),
                              signature=dict(kind='cover', accepted=accepted, contained=contained))
    # ---- different coordinate systems ("for any ... coordinate systems"): site grids without an EPSG code, neighbouring UTM-like zones.  The
    #      footprints are compared on the ground: the source's bounds transformed (densified) into the reference's CRS must lie inside / reach
    #      outside the reference bounds by a clear margin (>= 3 reference pixels; the raw coordinate numbers of the two systems differ by more)
    from rasterio.crs import CRS
    from rasterio.warp import transform as warp_xy, transform_bounds
    from homonim import errors, RasterFuse, RasterCompare
    from homonim.raster_pair import RasterPairReader
    crng = run.rng('cover-crs')

    def tmerc(lon0):
        return CRS.from_proj4(f'+proj=tmerc +lat_0=0 +lon_0={lon0} +k=1 +x_0=0 +y_0=0 +datum=WGS84 +units=m +no_defs')
    for k in range(run.scale(12, 60)):
        dlon = crng.choice([0.001, 0.002, -0.001, -0.0015])
        kind = crng.choice(['site', 'site', 'utm-site'])
        ref_crs = tmerc(25.0) if kind == 'site' else CRS.from_epsg(32735)
        src_crs = tmerc(25.0 + dlon) if kind == 'site' else tmerc(27.0 + dlon)
        ref_res, src_res = 10.0, crng.choice([5.0, 10.0, 20.0])
        ref_shape = (crng.randint(40, 60), crng.randint(40, 60))
        x0, y0 = (crng.randint(5, 50) * 100.0, -3650000.0 + crng.randint(0, 50) * 100.0) if kind == 'site' else (500000.0 + crng.randint(5, 50) * 100.0, 6350000.0 + crng.randint(0, 50) * 100.0)
        side = crng.choice(['in', 'in', 'L', 'R', 'T', 'B'])
        m = crng.choice([4, 6]) * ref_res               # clear margin on every side / overhang on the chosen side
        l, t = x0 + m, y0 - m
        r, b = x0 + ref_shape[1] * ref_res - m, y0 - ref_shape[0] * ref_res + m
        if side == 'L':
            l = x0 - m
        elif side == 'R':
            r = x0 + ref_shape[1] * ref_res + m
        elif side == 'T':
            t = y0 + m
        elif side == 'B':
            b = y0 - ref_shape[0] * ref_res - m
        # the source grid: upper-left corner at the image of (l, t) in the source CRS
        (sx,), (sy,) = warp_xy(ref_crs, src_crs, [l], [t])
        w_px, h_px = max(2, round((r - l) / src_res)), max(2, round((t - b) / src_res))
        rfn, sfn = run.work / 'c16m_ref.tif', run.work / 'c16m_src.tif'
        synth.write_tif(rfn, np.ones((1, *ref_shape), 'float32'), Affine(ref_res, 0, x0, 0, -ref_res, y0), crs=ref_crs)
        synth.write_tif(sfn, np.ones((1, h_px, w_px), 'float32'), Affine(src_res, 0, sx, 0, -src_res, sy), crs=src_crs)
        gl, gb, gr, gt = transform_bounds(src_crs, ref_crs, sx, sy - h_px * src_res, sx + w_px * src_res, sy, densify_pts=21)
        margins = [gl - x0, y0 - gt, x0 + ref_shape[1] * ref_res - gr, gb - (y0 - ref_shape[0] * ref_res)]
        if all(mm > 3 * ref_res for mm in margins):
            contained = True
        elif any(mm < -3 * ref_res for mm in margins):
            contained = False
        else:
            continue
        which = ['reader', 'fuse', 'compare'][k % 3]
        cls = dict(reader=RasterPairReader, fuse=RasterFuse, compare=RasterCompare)[which]
        try:
            cls(sfn, rfn)
            accepted = True
        except errors.ImageContentError:
            accepted = False
        desc = dict(ref=dict(crs=ref_crs.to_string()[:80], res=ref_res, origin=[x0, y0], shape=list(ref_shape)),
                    src=dict(crs=src_crs.to_string()[:80], res=src_res, origin=[sx, sy], shape=[h_px, w_px]), overhang_side=side,
                    ground_margins_in_ref_pixels=[round(mm / ref_res, 2) for mm in margins], constructor=which)
        sides['crs:' + side] = sides.get('crs:' + side, 0) + 1
        run.count_case(('crs', k), True, desc if k < 2 else None)
        if accepted != contained:
            run.add_violation('reader accepted a non-covering reference' if accepted else 'reader rejected a covering reference',
                              desc, expected=f'contained={contained}', observed=dict(constructed=accepted),
                              signature=dict(kind='cover', accepted=accepted, contained=contained, mixed_crs=True))
    failing, nt = run.corr('cover', 'Corr.CheckC16', cases)
    for k in failing[:5]:
        run.add_break('correspondence-break', 'covers_bounds differs from Grid.Cover.covers (or rasterio window not exact on dyadic geometry)', metas[k])
    run.cov['rule'] = ('source footprints placed with a chosen overhang (-3 .. +5 px, incl. 0 and 1/8 px) on each of the four sides of the '
                       'reference, 75 % dyadic (all doubles exact), south-up storage every 7th, constructors RasterPairReader/RasterFuse/'
                       'RasterCompare in turn; plus pairs in different coordinate systems (site grids without EPSG code, UTM vs site grid) judged on the ground with >= 3 px margins; '
                       'non-trivial = some side overhangs or touches; distinct = distinct geometry pair')
    run.extra['input_distribution'] = dict(overhang_sides=sides, model_nontrivial=nt)
    run.trusted += ['rasterio window()/bounds float arithmetic and WarpedVRT bounds are observed (exactness checked on dyadic geometries)']


if __name__ == '__main__':
    Run('C16').guard(body)
