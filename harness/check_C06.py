#!/venv/bin/python
"""C06 - output blocks tile the source exactly; paired windows cover the same ground."""
import sys
from pathlib import Path
sys.path.insert(0, str(Path(__file__).resolve().parents[1]))
from harness.core import Run  # noqa: E402
from harness import synth, impl_windows  # noqa: E402


def d1_geom():
    # minimised corpus entry: the geometry of finding D1 (shared boundary 4.5 vs 4.500000000000001)
    g = synth.Geom(0.8, 3, 0.0, -3456789.3, (20, 20), (2.5, 2.5), (15, 29))
    return g, 'auto', (1, 1), dict(max_block_mem=1e-4)


def gen_cases(run):
    rng = run.rng('geom')
    n = run.scale(220, 6000)
    yield d1_geom()
    for i in range(n):
        g = synth.random_geom(rng, max_src=run.scale(36, 60))
        if i % 9 == 4:
            # pixels that are not square, with another height / width in each image: the resolution ratio differs between rows and columns
            # (the reference pixels are the taller ones, so that the reference still covers the source)
            g.ref_yscale, g.src_yscale = [(2.0, 1.0), (1.5, 1.0), (1.0, 0.5), (4.0, 2.0), (3.0, 1.0)][(i // 9) % 5]
        if i % 13 == 6:
            # a source whose edge pokes a hair (a few 1e-4 of a reference pixel) past a reference grid line - up / left, or down / right: the
            # paired windows still cover it (nothing within any "tolerance" of a grid line may be snapped onto it)
            ratio = rng.choice([2, 4, 3])
            hair = rng.choice([5e-4, 2e-4, 9e-4])
            n0, n1 = rng.randint(1, 4), rng.randint(1, 4)
            sh_ = (rng.randint(4, 12) * ratio, rng.randint(4, 12) * ratio)
            off_ = (n0 - hair, n1 - hair) if (i // 13) % 2 == 0 else (n0 + hair, n1 + hair)
            g = synth.Geom(rng.choice([1.0, 0.5, 30.0]), ratio, *rng.choice([(16.0, 48.0), (300000.0, 6200000.0)]), (n0 + sh_[0] // ratio + 3, n1 + sh_[1] // ratio + 3), off_, sh_)
        proc = rng.choice(['auto', 'auto', 'ref', 'src'])
        ov = rng.choice([(0, 0), (1, 1), (1, 1), (2, 3), (3, 1), (4, 5)])
        yield g, proc, ov, dict(target=rng.choice([1, 2, 4, 8, 16, 32, 60]), jitter=rng.uniform(0.8, 1.3))


def body(run):
    run.trusted += ['rasterio Affine / Window float arithmetic is an observed oracle (H_monotone_bnd checked per case)']
    run.assumptions += ['H_monotone_bnd: the double image of an integer processing-grid corner is a monotone function of '
                        'the corner (checked on every case by Corr.CheckC06.bnd_monotone)']
    run.build(extra_targets=['theories/Corr/CheckC06.v'])

    cases, metas, errors_seen = [], [], {}
    for i, (g, proc, ov, mbm) in enumerate(gen_cases(run)):
        res = impl_windows.block_case(run.work, g, proc, ov, nbands=1 + (i % 3 == 0), tag=f'g{i % 4}', **mbm)
        mbm = res.get('max_block_mem')
        if 'error' in res:
            errors_seen[res['error']] = errors_seen.get(res['error'], 0) + 1
            continue
        nblk = len(res['blocks'])
        cases.append(res['case'])
        metas.append(res)
        run.count_case((res['geom'], proc, ov, mbm), nblk >= 4,
                       dict(geom=res['geom'], proc_crs=proc, overlap=list(ov), max_block_mem=mbm, blocks=nblk,
                            first_block=res['blocks'][0]))
        if not res.get('repeat_same', True):
            run.add_violation('block_pairs() yields different blocks on a second iteration of the same open reader',
                              dict(geom=res['geom'], proc_crs=proc, overlap=list(ov), max_block_mem=mbm), signature=dict(kind='tiling', what='repeat differs'))
        # independent oracle on the implementation's windows (search), always on
        for v in impl_windows.tiling_oracle(res):
            sig = dict(kind='tiling', what=v['what'])
            run.add_violation(v['what'], dict(geom=res['geom'], proc_crs=proc, overlap=list(ov), max_block_mem=mbm),
                              expected='every source pixel in exactly one output window', observed=v, signature=sig)
    failing, nt = run.corr('blocks', 'Corr.CheckC06', cases)
    for k in failing[:5]:
        m = metas[k]
        run.add_break('correspondence-break', 'block_pairs() differs from Grid.Window.proc_blocks / expand_axis / corner_axis',
                      dict(geom=m['geom'], proc_crs=m['proc_crs'], overlap=m['overlap'], max_block_mem=m['max_block_mem'],
                           blocks=m['blocks'][:3]))

    # auto block shape, and expand / round on raw float windows
    rng = run.rng('auto')
    autos = []
    for _ in range(run.scale(300, 5000)):
        h, w = rng.randint(1, 3000), rng.randint(1, 3000)
        mbm = rng.choice([0, float('inf'), h * w * 4 / 2 ** 20 / rng.choice([1, 2, 3, 7, 16, 100, 5000]) * rng.uniform(.5, 1.5),
                          1e-9, 1e-6])
        autos.append(impl_windows.auto_case(h, w, mbm, rng.choice([1.0, 0.25, 1 / 9, 0.16])))
    f2, _ = run.corr('auto', 'Corr.CheckC06', autos, check='check_auto', nontrivial='nontrivial_auto')
    for k in f2[:3]:
        run.add_break('correspondence-break', '_auto_block_shape differs from Grid.Window.auto_block_shape', autos[k])
    fw = []
    for _ in range(run.scale(600, 20000)):
        base = rng.randint(-50, 400)
        off = base + rng.choice([0, .5, .25, 1e-9, -1e-9, 1 - 1e-12, rng.random(), 0.49999999999999994, 4.500000000000001 - 4])
        ln = rng.choice([rng.randint(0, 60), rng.randint(0, 60) + rng.random(), rng.randint(1, 60) + .5, rng.randint(1, 9) - 1e-12])
        fw.append(impl_windows.fwin_case(float(off), float(ln)))
    f3, _ = run.corr('fwin', 'Corr.CheckC06', fw, check='check_fwin', nontrivial='nontrivial_fwin')
    for k in f3[:3]:
        run.add_break('correspondence-break', 'expand/round_window_to_grid differ from Grid.Window.expand_axis/round_axis', fw[k])

    run.cov['evaluations'] += len(autos) + len(fw)
    run.cov['rule'] = ('seeded structured geometries (ratio, sub-pixel offset with 40 % on x.5/x.25, origins up to 7.6e6, '
                       'overlap, max_block_mem for 1..60 blocks, proc_crs auto/ref/src) run through the real block_pairs(); '
                       'non-trivial = at least 4 blocks; distinct = distinct (geometry, proc_crs, overlap, max_block_mem)')
    run.extra['input_distribution'] = dict(geometries=len(cases), rejected=errors_seen, auto_cases=len(autos), float_window_cases=len(fw),
                                            model_nontrivial_block_cases=nt)


if __name__ == '__main__':
    Run('C06').guard(body)
