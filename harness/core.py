"""Shared machinery of every /verif check.

One check = one `Run`:  build the Coq closure of the property (proof obligations), evaluate the hand-written
model inside Coq on the cases the real code was run on (correspondence), run the independent property oracle on
the implementation (search), then write evidence and print VIOLATION / KNOWN-FINDING lines.
"""
import fcntl
import hashlib
import json
import math
import os
import random
import re
import shutil
import subprocess
import sys
import time
from pathlib import Path

VERIF = Path(__file__).resolve().parents[1]
REPO = Path(os.environ.get('HOMONIM_REPO', '/repo'))
COQ = VERIF / 'coq'
CASES = COQ / 'gen' / 'cases'
PY = '/venv/bin/python'
COQ_FLAGS = ['-Q', 'theories', 'HV', '-Q', 'gen', 'HVgen', '-w',
             '-notation-overridden,-deprecated-hint-without-locality,-deprecated-instance-without-locality']
FORBIDDEN = re.compile(
    r'\b(Admitted|admit|Axiom|Axioms|Parameter|Parameters|Conjecture|Abort All|Admit Obligations)\b'
    r'|Unset\s+Guard|Unset\s+Positivity|Unset\s+Universe|bypass_check|type-in-type|impredicative-set|native_compute'
)

if str(REPO) not in sys.path:
    sys.path.insert(0, str(REPO))
os.environ['PYTHONPATH'] = str(REPO)
os.environ.setdefault('PYTHONHASHSEED', '0')
os.environ['HOMONIM_VERIF'] = '1'


# ------------------------------------------------------------------------------------------------ float literals
def fhex(x) -> str:
    """Coq primitive-float literal denoting exactly the double ``x``."""
    x = float(x)
    if math.isnan(x):
        return 'nan'
    if math.isinf(x):
        return 'infinity' if x > 0 else 'neg_infinity'
    if x == 0:
        return '0' if math.copysign(1, x) > 0 else '(-0)'
    h = x.hex()
    if h.startswith('-'):
        return '(-' + h[1:] + ')'
    return h


def case_line(vals) -> str:
    return '[' + '; '.join(fhex(v) for v in vals) + ']'


def strip_comments(text: str) -> str:
    out, depth, i = [], 0, 0
    while i < len(text):
        if text.startswith('(*', i):
            depth += 1
            i += 2
        elif text.startswith('*)', i) and depth:
            depth -= 1
            i += 2
        else:
            if not depth:
                out.append(text[i])
            i += 1
    return ''.join(out)


def sh(cmd, timeout, cwd=None, env=None):
    """Run a command under a timeout; returns (rc, combined output). rc 124 = timed out."""
    try:
        p = subprocess.run(cmd, cwd=cwd, env=env, stdout=subprocess.PIPE, stderr=subprocess.STDOUT, timeout=timeout)
        out = p.stdout.decode('utf-8', 'replace')
        out = '\n'.join(l for l in out.splitlines() if 'conda' not in l.lower() or 'WARNING' not in l)
        return p.returncode, out
    except subprocess.TimeoutExpired as ex:
        return 124, (ex.stdout or b'').decode('utf-8', 'replace') + '\n[timeout]'


class CoqLock:
    """Exclusive for whatever writes into coq/ (regenerated models, make); shared for whatever only reads compiled files (case shards,
    Print Assumptions, coqchk) - so that a long evaluation of one check does not serialise the others."""

    def __init__(self, shared=False):
        self.shared = shared

    def __enter__(self):
        self.f = open(COQ / '.lock', 'a')
        fcntl.flock(self.f, fcntl.LOCK_SH if self.shared else fcntl.LOCK_EX)
        return self

    def __exit__(self, *a):
        fcntl.flock(self.f, fcntl.LOCK_UN)
        self.f.close()


def ensure_makefile():
    """(Re)create the coq_makefile Makefile whenever the set of .v files changed (e.g. a generated file appeared)."""
    files = sorted(str(p.relative_to(COQ)) for p in (COQ / 'theories').rglob('*.v'))
    files += sorted(str(p.relative_to(COQ)) for p in (COQ / 'gen').glob('*.v'))
    stamp = COQ / '.filelist'
    want = '\n'.join(files)
    if (not (COQ / 'Makefile').exists() or not stamp.exists() or stamp.read_text() != want
            or (COQ / 'Makefile').stat().st_mtime < (COQ / '_CoqProject').stat().st_mtime):
        sh(['coq_makefile', '-f', '_CoqProject', '-o', 'Makefile'] + files, 60, cwd=COQ)
        stamp.write_text(want)


def write_if_changed(path: Path, text: str) -> bool:
    if path.exists() and path.read_text() == text:
        return False
    path.parent.mkdir(parents=True, exist_ok=True)
    path.write_text(text)
    return True


# ------------------------------------------------------------------------------------------------ the run object
class Run:
    def __init__(self, pid: str, argv=None):
        argv = sys.argv[1:] if argv is None else argv
        self.pid = pid
        self.tier = os.environ.get('VERIF_TIER', 'quick')
        self.replay = None
        i = 0
        while i < len(argv):
            if argv[i] == '--tier':
                self.tier = argv[i + 1]; i += 2
            elif argv[i] == '--replay':
                self.replay = argv[i + 1]; i += 2
            else:
                i += 1
        if self.tier not in ('quick', 'thorough'):
            self.tier = 'quick'
        try:
            self.seed = int(os.environ.get('VERIF_SEED', '0'))
        except ValueError:
            self.seed = 0
        self.replay_of = None
        if self.replay:
            # a replay re-runs the check with the seed and tier recorded in the replay file: every random choice derives from them,
            # so the same cases (incl. the recorded failing one) are regenerated and judged against /repo's current tree
            try:
                self.replay_of = json.loads(Path(self.replay).read_text())
                self.seed = int(self.replay_of.get('seed', self.seed))
                self.tier = self.replay_of.get('tier', self.tier)
            except Exception as ex:      # noqa: BLE001
                print(f'cannot read replay file {self.replay}: {ex}')
                sys.exit(2)
        self.t0 = time.time()
        self.thorough = self.tier == 'thorough'
        self.obligation_names = []
        self.discharged = 0
        self.axioms = {}
        self.broken = []          # proof / correspondence / translator breaks: dicts
        self.violations = []      # impl violations found by the search: dicts with 'signature'
        self.notes = []
        self.cov = dict(evaluations=0, distinct_nontrivial=0, samples=[], rule='')
        self.extra = {}
        self.assumptions = []
        self.trusted = [
            'Coq 8.16.1 kernel incl. vm_compute and primitive Uint63/PrimFloat (no native_compute)',
            'hand-written Gallina model tied to /repo by the correspondence run of this check (harness/, Corr/*.v)',
        ]
        self.work = VERIF / 'work' / f'{pid}-{os.getpid()}'
        self.work.mkdir(parents=True, exist_ok=True)
        self.checker_cmds = []
        self._distinct = set()

    # ---------------------------------------------------------------------------------- randomness
    def rng(self, tag='') -> random.Random:
        return random.Random(f'{self.seed}:{self.pid}:{tag}')

    def scale(self, quick: int, thorough: int) -> int:
        return thorough if self.thorough else quick

    # ---------------------------------------------------------------------------------- coverage bookkeeping
    def count_case(self, key, nontrivial: bool, sample=None):
        self.cov['evaluations'] += 1
        h = hashlib.sha1(repr(key).encode()).hexdigest()
        if nontrivial and h not in self._distinct:
            self._distinct.add(h)
            self.cov['distinct_nontrivial'] += 1
        if sample is not None and len(self.cov['samples']) < 6:
            self.cov['samples'].append(sample)

    # ---------------------------------------------------------------------------------- proofs
    def hygiene(self):
        bad = []
        for p in list((COQ / 'theories').rglob('*.v')) + list((COQ / 'gen').glob('*.v')):
            m = FORBIDDEN.search(strip_comments(p.read_text()))
            if m:
                bad.append(f'{p.relative_to(COQ)}: {m.group(0)}')
        proj = (COQ / '_CoqProject').read_text()
        if re.search(r'type-in-type|impredicative-set|-vos|-vok|bypass', proj):
            bad.append('_CoqProject: forbidden flag')
        if bad:
            self.broken.append(dict(kind='proof-break', what='forbidden construct in the development', detail=bad))
        return not bad

    # which generated models the property files of each property import (directly or through the tie files)
    NEEDS = {'C01': ['formulas'], 'C02': ['formulas', 'pipeline'], 'C03': ['formulas', 'pipeline'], 'C04': ['skeleton'], 'C05': ['blocks'], 'C06': ['blocks'], 'C07': ['formulas'],
             'C08': ['pipeline'], 'C09': ['skeleton'], 'C10': ['skeleton'], 'C11': ['formulas', 'pipeline'], 'C12': ['formulas'], 'C13': ['blocks'],
             'C14': ['blocks', 'formulas', 'pipeline'], 'C15': ['blocks', 'bands'], 'C16': ['cover'], 'C17': ['blocks', 'pipeline'], 'C18': ['skeleton', 'blocks'], 'C19': ['cli_surface'], 'C20': ['blocks']}

    def regenerate(self, needs=None):
        """Re-run the translators on /repo's current working tree (coq/gen/*.v are rewritten only when they change).  A translator that
        fails breaks the tie of the properties that depend on its output (and only of those)."""
        if getattr(self, '_regenerated', False):
            return True
        self._regenerated = True
        needs = self.NEEDS.get(self.pid, []) if needs is None else needs
        if any(n != 'cli_surface' for n in needs):
            # every translator but the CLI one reads the source through the guard-clause normal form: its correspondence with the proved
            # function (gen/NormalFormCases.v) is part of their tie
            needs = ['normal_form'] + list(needs)
        # dry run first (shared lock): in the steady state the generated files are already what the source says and nothing is written
        with CoqLock(shared=True):
            rc, out = sh([PY, str(VERIF / 'translate' / 'regen.py')], 120, cwd=VERIF, env=dict(os.environ, REGEN_DRY='1'))
        if 'CHANGED' in out:
            with CoqLock():
                rc, out = sh([PY, str(VERIF / 'translate' / 'regen.py')], 120, cwd=VERIF)
        self.checker_cmds.append('translate/regen.py  (regenerates coq/gen/*.v from /repo)')
        self.trusted.append('translators translate/{skeleton,cli_surface,formulas,blocks,pipeline,cover,bands}.py + resolve.py (python ast / click introspection, fail-closed); the guard-clause normaliser of resolve.py is tied to its proved model Tie/NormalFormFn.v by gen/NormalFormCases.v (400 seeded bodies, vm_compute)')
        failed = [n for n in needs if re.search(rf'^{n} FAILED', out, re.M) or (rc != 0 and not re.search(rf'^{n} ok', out, re.M))]
        if failed:
            self.broken.append(dict(kind='proof-break', what='translator could not translate the current source (unrecognised construct): ' + ', '.join(failed),
                                    detail=out[-1500:]))
        return not failed

    def build(self, prop_file: str = None, extra_targets=(), timeout=900) -> bool:
        """make the .vo closure of Properties/<pid>.v (and extra targets); record obligations + axioms."""
        prop_file = prop_file or f'theories/Properties/{self.pid}.v'
        self.regenerate()
        self.hygiene()
        targets = [prop_file + 'o'] + [t + 'o' if t.endswith('.v') else t for t in extra_targets]
        # `make -q` under the shared lock: when everything is up to date nothing is written and no exclusive lock is needed
        with CoqLock(shared=True):
            fresh = (COQ / 'Makefile').exists() and (COQ / '.filelist').exists() and \
                (COQ / '.filelist').read_text() == '\n'.join(sorted(str(p.relative_to(COQ)) for p in (COQ / 'theories').rglob('*.v'))
                                                             + sorted(str(p.relative_to(COQ)) for p in (COQ / 'gen').glob('*.v')))
            rc, out = sh(['make', '-q'] + targets, 120, cwd=COQ) if fresh else (1, '')
        if rc != 0:
            with CoqLock():
                ensure_makefile()
                rc, out = sh(['make', '-j', '8'] + targets, timeout, cwd=COQ)
        self.checker_cmds.append('make -C coq ' + ' '.join(targets))
        src = strip_comments((COQ / prop_file).read_text()) if (COQ / prop_file).exists() else ''
        self.obligation_names = re.findall(r'^\s*(?:Theorem|Corollary)\s+(\w+)', src, re.M)
        if rc != 0:
            m = re.search(r'File "\./([^"]+)", line (\d+)', out)
            self.broken.append(dict(
                kind='proof-break', what=f'coq build of {prop_file} failed' + (f' in {m.group(1)}:{m.group(2)}' if m else ''),
                detail=out[-3000:]))
            return False
        # second pass: Print Assumptions for EVERY theorem of the property file (also those the file itself does not print), from a small
        # generated file that imports the compiled property module
        CASES.mkdir(parents=True, exist_ok=True)
        afn = CASES / f'Assumptions_{self.pid}_{os.getpid()}.v'
        afn.write_text(f'From HV Require Import Properties.{Path(prop_file).stem}.\n'
                       + ''.join(f'Print Assumptions {n}.\n' for n in self.obligation_names))
        with CoqLock(shared=True):
            rc, out = sh(['coqc'] + COQ_FLAGS + [str(afn.relative_to(COQ))], 600, cwd=COQ)
        for suffix in ('.v', '.vo', '.vok', '.vos', '.glob'):
            q = afn.with_suffix(suffix)
            if q.exists():
                q.unlink()
        aux = afn.parent / ('.' + afn.stem + '.aux')
        if aux.exists():
            aux.unlink()
        self.checker_cmds.append(f'coqc gen/cases/Assumptions_{self.pid}.v  (Print Assumptions of every theorem of {prop_file})')
        if rc != 0:
            self.broken.append(dict(kind='proof-break', what=f'Print Assumptions pass over {prop_file} failed', detail=out[-3000:]))
            return False
        # one answer per theorem, in order: "Closed under the global context" or "Axioms:" followed by its lines
        answers = re.split(r'(?m)^(?=Closed under the global context|Axioms:)', out)
        answers = [a for a in answers if a.startswith(('Closed under', 'Axioms:'))]
        per_thm, names = {}, set()
        for n, a in zip(self.obligation_names, answers):
            if a.startswith('Closed'):
                per_thm[n] = []
            else:
                ax = re.findall(r'^(\S[\w.\']*)\s*$|^(\S[\w.\']*)\s*:', a[len('Axioms:'):], re.M)
                ax = [x[0] or x[1] for x in ax]
                per_thm[n] = sorted(set(ax))
                names.update(ax)
        closed = sum(1 for v in per_thm.values() if not v)
        self.axioms = dict(theorems=len(self.obligation_names), answered=len(answers), closed_theorems=closed, axioms=sorted(names),
                           theorems_using_primitives_or_axioms={n: v for n, v in per_thm.items() if v})
        self.discharged = len(self.obligation_names)
        if len(answers) != len(self.obligation_names):
            self.notes.append(f'Print Assumptions answered for {len(answers)} of {len(self.obligation_names)} theorems')
        allowed = re.compile(r'^(Coq\.|PrimFloat|PrimInt63|Uint63|FloatAxioms|FloatOps|SpecFloat|functional_extensionality'
                             r'|Classical|Eqdep|proof_irrelevance|JMeq|ClassicalDedekindReals|FunctionalExtensionality|sig_forall_dec|sig_not_dec)')
        bad = [a for a in names if not allowed.match(a) and not re.match(r'^(of_uint63|opp|abs|add|sub|mul|div|ltb|leb|eqb|normfr_mantissa|frshiftexp|ldshiftexp|classify|sqrt|compare|next_up|next_down|of_Z|to_Z|float|int|lsl|lsr|land|lor|lxor|head0|tail0|addc|subc|mulc|diveucl|mod|eqb_correct|ltb_spec|leb_spec)', a)]
        self.extra['print_assumptions'] = self.axioms
        if bad:
            self.notes.append('axioms outside the standard library reported: ' + ', '.join(bad))
        if self.thorough:
            # independent re-check of the compiled closure of the property file, with the axioms of every loaded library
            self.coqchk('HV.Properties.' + Path(prop_file).stem)
        return True

    def coqchk(self, lib: str, timeout=1500):
        with CoqLock(shared=True):
            rc, out = sh(['coqchk', '-silent', '-o', '-Q', 'theories', 'HV', '-Q', 'gen', 'HVgen', lib], timeout, cwd=COQ)
        self.checker_cmds.append(f'coqchk -o {lib}')
        tail = out[-1500:]
        ax = re.findall(r'^\s{4}(\S+)\s*$', out.split('* Axioms:')[1].split('* Constants/Inductives relying on type-in-type')[0], re.M) if '* Axioms:' in out else []
        self.extra['coqchk'] = dict(rc=rc, axioms_of_loaded_libraries=sorted(ax), type_in_type='<none>' in out.split('type-in-type:')[-1][:12] if 'type-in-type:' in out else None,
                                    tail=tail[-600:])
        if rc != 0 and rc != 124:
            self.broken.append(dict(kind='proof-break', what=f'coqchk {lib} failed', detail=tail))

    # ---------------------------------------------------------------------------------- correspondence
    def corr(self, name: str, module: str, cases, check='check', nontrivial='nontrivial', shard=250, timeout=900,
             extra_evals=(), both=None, cost=None, budget=None):
        """Evaluate `module.check` on every case inside Coq (vm_compute). cases: list of lists of floats.
        Returns (failing indices, number of nontrivial cases as counted by the Gallina predicate).
        `both` names a function `list float -> bool * bool` (check, nontrivial) evaluated once per case (for expensive models).
        A shard that runs out of time is split and re-run (down to single cases); a single case that cannot be evaluated within the time
        limit is recorded as unevaluated - a cost, not a disagreement - and breaks the tie only when more than 2 % of the cases are lost."""
        if not cases:
            return [], 0
        CASES.mkdir(parents=True, exist_ok=True)

        def write(tag, idxs):
            fn = CASES / f'{self.pid}_{name}_{os.getpid()}_{tag}.v'
            body = ';\n '.join(case_line(cases[i]) for i in idxs)
            if both:
                evals = (f'Definition results := Eval vm_compute in (map {both} cases).\n'
                         'Eval vm_compute in (failing (@fst bool bool) 0 results).\n'
                         'Eval vm_compute in (count (@snd bool bool) results).\n')
            else:
                evals = (f'Eval vm_compute in (failing {check} 0 cases).\n'
                         f'Eval vm_compute in (count {nontrivial} cases).\n')
            fn.write_text('From Coq Require Import List ZArith PrimFloat.\n'
                          f'From HV Require Import Base.FloatDec {module}.\n'
                          'Import ListNotations.\nOpen Scope float_scope.\n'
                          f'Definition cases : list (list float) := [\n {body}\n].\n' + evals
                          + ''.join(f'Eval vm_compute in ({e}).\n' for e in extra_evals))
            return fn

        def cleanup(fn):
            for suffix in ('.v', '.vo', '.vok', '.vos', '.glob'):
                q = fn.with_suffix(suffix)
                if q.exists():
                    q.unlink()
            aux = fn.parent / ('.' + fn.stem + '.aux')
            if aux.exists():
                aux.unlink()

        def run_batch(jobs, tmo):
            """jobs: list of (tag, idxs); returns list of (idxs, rc, out)"""
            res, pending, running = [], [(t, ix, write(t, ix)) for t, ix in jobs], []
            while pending or running:
                while pending and len(running) < 12:
                    t, ix, fn = pending.pop(0)
                    p = subprocess.Popen(['timeout', str(tmo), 'coqc'] + COQ_FLAGS + [str(fn.relative_to(COQ))],
                                         cwd=COQ, stdout=subprocess.PIPE, stderr=subprocess.STDOUT, env=dict(os.environ))
                    running.append((ix, fn, p))
                ix, fn, p = running.pop(0)
                out = p.communicate()[0].decode('utf-8', 'replace')
                res.append((ix, p.returncode, out))
                cleanup(fn)
            return res

        failing, nt, errs, unevaluated = [], 0, [], []
        if cost is None:
            jobs = [(str(k // shard), list(range(k, min(k + shard, len(cases))))) for k in range(0, len(cases), shard)]
        else:
            # shards of bounded estimated cost (and at most `shard` cases): expensive cases get shards of their own and run side by side
            jobs, cur, acc = [], [], 0.0
            for i, c in enumerate(cases):
                ci = float(cost(c))
                if cur and (acc + ci > budget or len(cur) >= shard):
                    jobs.append((str(len(jobs)), cur))
                    cur, acc = [], 0.0
                cur.append(i)
                acc += ci
            if cur:
                jobs.append((str(len(jobs)), cur))
        rnd = 0
        with CoqLock(shared=True):
            while jobs:
                results = run_batch(jobs, timeout)
                jobs, rnd = [], rnd + 1
                for ix, rc, out in results:
                    flat = ' '.join(out.split())
                    m = re.findall(r'= (\[[^\]]*\])(?:%nat)? : list nat', flat)
                    c = re.findall(r'= (\d+)(?:%nat)? : nat', flat)
                    if rc == 0 and m and c:
                        failing += [ix[int(x)] for x in re.findall(r'\d+', m[0])]
                        nt += int(c[0])
                    elif rc == 124 and len(ix) > 1:
                        h = len(ix) // 2          # out of time: split and retry
                        jobs += [(f'r{rnd}_{ix[0]}a', ix[:h]), (f'r{rnd}_{ix[0]}b', ix[h:])]
                    elif rc == 124:
                        unevaluated.append(ix[0])
                    else:
                        errs.append(dict(shard=ix[:3], rc=rc, out=out[-1500:]))
        self.checker_cmds.append(f'coqc gen/cases/{self.pid}_{name}_*.v  (Eval vm_compute in failing {module}.{both or check} cases)')
        if errs:
            self.broken.append(dict(kind='correspondence-break', what=f'case shard of {module} did not evaluate', detail=errs[:2]))
        if unevaluated:
            self.notes.append(f'{len(unevaluated)} of {len(cases)} {name} case(s) not evaluated within {timeout} s (indices {unevaluated[:5]})')
            if len(unevaluated) * 50 > len(cases):
                self.broken.append(dict(kind='correspondence-break', what=f'too many cases of {module} could not be evaluated in time',
                                        detail=dict(unevaluated=unevaluated[:20])))
        self.extra.setdefault('correspondence', {})[name] = dict(cases=len(cases), disagreements=len(failing), model_nontrivial=nt,
                                                                 unevaluated=len(unevaluated))
        return sorted(failing), nt

    def guard(self, fn):
        """Run the body of a check; an exception escaping it (the implementation raised where the harness expected it to
        work, or the harness itself broke) is reported as a broken tie, never as a silent pass."""
        import traceback
        try:
            fn(self)
        except SystemExit:
            raise
        except BaseException as ex:   # noqa: B902
            tb = traceback.format_exc()
            print(tb, file=sys.stderr)
            self.add_break('correspondence-break', f'the check could not complete: {type(ex).__name__}: {str(ex)[:200]}', tb[-2500:])
        self.finish()

    # ---------------------------------------------------------------------------------- verdict
    def add_break(self, kind, what, detail=None):
        self.broken.append(dict(kind=kind, what=what, detail=detail))

    def add_violation(self, what, input_, expected=None, observed=None, signature=None):
        self.violations.append(dict(what=what, input=input_, expected=expected, observed=observed,
                                    signature=signature or {}))

    def _known(self):
        p = VERIF / 'known_findings.json'
        if not p.exists():
            return []
        return [f for f in json.loads(p.read_text()).get('findings', []) if f.get('property') == self.pid]

    def _write_replay(self, kind, payload) -> Path:
        d = VERIF / 'replays' / self.pid
        d.mkdir(parents=True, exist_ok=True)
        blob = json.dumps(payload, sort_keys=True, default=str)
        fn = d / (hashlib.sha1(blob.encode()).hexdigest()[:12] + '.json')
        payload = dict(property=self.pid, kind=kind, seed=self.seed, tier=self.tier,
                       replay_cmd=f'./bin/check {self.pid} --replay {fn}', **payload)
        fn.write_text(json.dumps(payload, indent=1, default=str))
        return fn

    def finish(self):
        known = self._known()
        lines, nviol = [], 0
        seen_known = set()
        unlisted = []
        for v in self.violations:
            hit = None
            for f in known:
                if f.get('status', 'open') != 'open':
                    continue
                if all(v['signature'].get(k) == val for k, val in f.get('match', {}).items()):
                    hit = f
                    break
            if hit is not None:
                if hit['id'] not in seen_known:
                    seen_known.add(hit['id'])
                    lines.append(f"KNOWN-FINDING: property={self.pid} {hit['what']}")
            else:
                unlisted.append(v)
        if unlisted:
            v = unlisted[0]
            fn = self._write_replay('impl-violation', dict(
                what=v['what'], input=v['input'], expected=v['expected'], observed=v['observed'],
                signature=v['signature'], others=len(unlisted) - 1,
                breaks=[b['what'] for b in self.broken]))
            lines.append(f'VIOLATION property={self.pid} replay={fn}')
            nviol = len(unlisted)
        elif self.broken:
            # a break fully explained by listed known findings is not reported again
            explained = bool(seen_known) and all(b.get('explained_by_violation') for b in self.broken)
            if not explained:
                b = self.broken[0]
                fn = self._write_replay(b['kind'], dict(what=b['what'], detail=b.get('detail'),
                                                          all_breaks=[x['what'] for x in self.broken]))
                lines.append(f'VIOLATION property={self.pid} replay={fn} no-failing-input-found')
                nviol = 1
        wall = time.time() - self.t0
        cov = dict(self.cov)
        cov.update(
            obligations=len(self.obligation_names), discharged=0 if any(b['kind'] == 'proof-break' for b in self.broken) else self.discharged,
            checker_cmd=' && '.join(self.checker_cmds) or 'none', trusted_base=self.trusted,
            theorems=self.obligation_names, breaks=[b['what'] for b in self.broken],
            known_findings_reported=sorted(seen_known), notes=self.notes, **self.extra)
        ev = dict(property_id=self.pid, tier=self.tier, seed=self.seed, level='proof', coverage=cov,
                  assumptions=self.assumptions, wall_s=round(wall, 2), violations=nviol)
        (VERIF / 'evidence').mkdir(exist_ok=True)
        (VERIF / 'evidence' / f'{self.pid}.json').write_text(json.dumps(ev, indent=1, default=str))
        shutil.rmtree(self.work, ignore_errors=True)
        for l in lines:
            print(l)
        if self.replay_of is not None:
            want = self.replay_of.get('signature') or self.replay_of.get('what')
            got = [v['signature'] for v in self.violations] + [b['what'] for b in self.broken]
            print(f"REPLAY {'reproduced' if want in got else ('other-failure' if got else 'not-reproduced')}: {self.replay_of.get('what', '')[:160]}")
        print(f'[{self.pid}] tier={self.tier} seed={self.seed} obligations={len(self.obligation_names)} '
              f'evaluations={cov["evaluations"]} nontrivial={cov["distinct_nontrivial"]} breaks={len(self.broken)} '
              f'violations={nviol} wall={wall:.1f}s')
        sys.stdout.flush()
        os._exit(1 if nviol else 0)
