"""Runs of fuse / compare / stats under interposition: controlled schedules, lockset traces, fault injection."""
import hashlib
import threading
import time
import warnings
from pathlib import Path

import numpy as np

from harness import interpose as ip, impl_fuse as fz

warnings.filterwarnings('ignore')


def digest(res):
    """Hash of pixels, masks, descriptions and tags (minus the recorded thread count) of a fuse result."""
    h = hashlib.sha256()
    for part in ('corr', 'param'):
        r = res.get(part)
        if r is None:
            continue
        h.update(np.ascontiguousarray(r['array']).tobytes())
        h.update(np.ascontiguousarray(r['mask']).tobytes())
        tags = {k: v for k, v in r['tags'].items() if k != 'FUSE_THREADS'}
        h.update(repr(sorted(tags.items())).encode())
        h.update(repr(r['descriptions']).encode())
        h.update(repr(r['band_tags']).encode())
    return h.hexdigest()


def run_fuse(pair, out_fn, rng=None, threads=2, fault=None, controlled=True, timeout=120, task_order='fifo', **kw):
    """RasterFuse.process under interposition.  Returns dict(outcome, rec, result, wall, closed, reusable)."""
    from homonim import RasterFuse, Model
    from homonim.enums import ProcCrs
    out_fn = Path(out_fn)
    param_fn = out_fn.parent / (out_fn.stem + '_PARAM.tif') if kw.get('param', True) else None
    roles = {pair['src_fn']: 'src', pair['ref_fn']: 'ref', out_fn: 'corr'}
    if param_fn:
        roles[param_fn] = 'param'
    rec = ip.Recorder(roles, rng=rng, fault=fault, controlled=controlled, task_order=task_order)
    box = {}

    def body():
        try:
            with ip.interposed(rec):
                rf = RasterFuse(pair['src_fn'], pair['ref_fn'], proc_crs=ProcCrs(kw.get('proc_crs', 'auto')))
                ip.name_locks(rec, rf)
                box['rf'] = rf
                with rf:
                    try:
                        rf.process(out_fn, Model(kw.get('model', 'gain')), tuple(kw.get('kernel_shape', (3, 3))), param_filename=param_fn,
                                   build_ovw=kw.get('build_ovw', False), overwrite=True, model_config=kw.get('model_config'),
                                   out_profile=kw.get('out_profile'),
                                   block_config=dict(threads=threads, max_block_mem=kw.get('max_block_mem', 100)))
                        box['outcome'] = 'ok'
                    except BaseException as ex:   # noqa: B902
                        box['outcome'] = 'raise:' + type(ex).__name__
                    if fault is not None and kw.get('reuse', False):
                        # the same reader object must be usable again after a failed call
                        rec.fault = None
                        try:
                            # (the retry after a failure is made with another thread count: 1 after a threaded call, 2 after a serial one)
                            rf.process(out_fn, Model(kw.get('model', 'gain')), tuple(kw.get('kernel_shape', (3, 3))), param_filename=param_fn,
                                       build_ovw=False, overwrite=True,
                                       block_config=dict(threads=kw.get('reuse_threads', 1 if threads != 1 else 2), max_block_mem=kw.get('max_block_mem', 100)))
                            box['reuse'] = 'ok'
                        except BaseException as ex:   # noqa: B902
                            box['reuse'] = 'raise:' + type(ex).__name__
                box['reader_closed'] = rf.closed
        except BaseException as ex:   # noqa: B902
            box['outcome'] = 'harness-error:' + type(ex).__name__ + ':' + str(ex)[:200]
    t0 = time.time()
    th = threading.Thread(target=body, daemon=True)
    th.start()
    th.join(timeout)
    wall = time.time() - t0
    if th.is_alive():
        box['outcome'] = 'hang'
    closed = all(getattr(ds, 'closed', True) for (_, _, ds) in rec.datasets)
    locks_free = all(not l.locked() for l in rec.lock_names.values())
    res = None
    if box.get('outcome') == 'ok' or box.get('reuse') == 'ok':
        res = dict(corr=fz.read_all(out_fn), param=fz.read_all(param_fn) if param_fn else None)
    return dict(outcome=box.get('outcome', 'unknown'), reuse=box.get('reuse'), rec=rec, result=res, wall=wall, files_closed=closed,
                locks_free=locks_free, reader_closed=box.get('reader_closed'))


def run_compare(src_fn, ref_fn, rng=None, threads=2, fault=None, max_block_mem=512, proc_crs='auto', timeout=120, reuse=False):
    from homonim import RasterCompare
    from homonim.enums import ProcCrs
    rec = ip.Recorder({src_fn: 'src', ref_fn: 'ref'}, rng=rng, fault=fault)
    box = {}

    def body():
        try:
            with ip.interposed(rec):
                rc = RasterCompare(src_fn, ref_fn, proc_crs=ProcCrs(proc_crs))
                ip.name_locks(rec, rc)
                with rc:
                    try:
                        box['stats'] = rc.process(threads=threads, max_block_mem=max_block_mem)
                        box['outcome'] = 'ok'
                    except BaseException as ex:   # noqa: B902
                        box['outcome'] = 'raise:' + type(ex).__name__
                        import traceback
                        box['traceback'] = traceback.format_exc()[-1500:]
                    if fault is not None and reuse:
                        # the same object must be usable again after a failed call - and give the result of a fresh object
                        rec.fault = None
                        try:
                            box['reuse_stats'] = rc.process(threads=threads, max_block_mem=max_block_mem)
                            box['reuse'] = 'ok'
                        except BaseException as ex:   # noqa: B902
                            box['reuse'] = 'raise:' + type(ex).__name__
        except BaseException as ex:   # noqa: B902
            box['outcome'] = 'harness-error:' + type(ex).__name__ + ':' + str(ex)[:200]
    th = threading.Thread(target=body, daemon=True)
    th.start()
    th.join(timeout)
    if th.is_alive():
        box['outcome'] = 'hang'
    return dict(outcome=box.get('outcome', 'unknown'), stats=box.get('stats'), rec=rec, traceback=box.get('traceback'),
                reuse=box.get('reuse'), reuse_stats=box.get('reuse_stats'),
                files_closed=all(getattr(ds, 'closed', True) for (_, _, ds) in rec.datasets),
                locks_free=all(not l.locked() for l in rec.lock_names.values()))


def run_stats(param_fn, rng=None, threads=2, fault=None, timeout=120):
    from homonim import ParamStats
    rec = ip.Recorder({param_fn: 'stats'}, rng=rng, fault=fault)
    box = {}

    def body():
        try:
            with ip.interposed(rec):
                with ParamStats(param_fn) as ps:
                    try:
                        box['stats'] = ps.stats(threads=threads)
                        box['outcome'] = 'ok'
                    except BaseException as ex:   # noqa: B902
                        box['outcome'] = 'raise:' + type(ex).__name__
                        import traceback
                        box['traceback'] = traceback.format_exc()[-1500:]
        except BaseException as ex:   # noqa: B902
            box['outcome'] = 'harness-error:' + type(ex).__name__ + ':' + str(ex)[:200]
    th = threading.Thread(target=body, daemon=True)
    th.start()
    th.join(timeout)
    if th.is_alive():
        box['outcome'] = 'hang'
    return dict(outcome=box.get('outcome', 'unknown'), stats=box.get('stats'), rec=rec, traceback=box.get('traceback'),
                files_closed=all(getattr(ds, 'closed', True) for (_, _, ds) in rec.datasets),
                locks_free=all(not l.locked() for l in rec.lock_names.values()))


def trace_cases(rec, prog_id, default_lock=None):
    """Coq cases [prog id; failed; codes...] for every task of a recorded run."""
    failed = {}
    for (_, tk, kind, what, op, held, _pa) in rec.events:
        if kind == 'task-fail':
            failed[what] = 1
        elif kind == 'task-ok':
            failed.setdefault(what, 0)
    cases = []
    for tk, codes in ip.task_traces(rec, default_lock=default_lock).items():
        if tk not in failed:
            continue        # still running when the recording stopped
        pid = prog_id(tk) if callable(prog_id) else prog_id
        cases.append((tk, [float(pid), float(failed[tk])] + [float(c) for c in codes]))
    return cases
