"""Interposition from outside the source tree (guard HOMONIM_VERIF=1 only switches this harness on):
  * TrackedLock replaces threading.Lock inside the homonim modules (records the holder)
  * dataset proxies wrap everything rasterio.open returns inside the context (records every call with the caller's
    lockset; can inject a fault at the k-th matching call)
  * SchedExecutor replaces concurrent.futures.ThreadPoolExecutor: real threads, but only one runs between yield points
    (lock acquisition, every dataset call), the next one chosen by a seeded RNG - a controlled random scheduler.
"""
import concurrent.futures as cf
import contextlib
import queue
import random
import threading
import time
import types

import rasterio

_real_open = rasterio.open
_RealPool = cf.ThreadPoolExecutor
_real_as_completed = cf.as_completed
_real_threading = threading

OPS = {'read', 'read_masks', 'dataset_mask', 'write', 'write_mask', 'update_tags', 'set_band_description', 'build_overviews',
       'close', 'tags', 'block_windows', 'sample'}


# the calls blocks make while processing ('*' in a fault spec means any of these)
BLOCK_OPS = {'read', 'read_masks', 'dataset_mask', 'write', 'write_mask'}


class InjectedFault(OSError):
    pass


class Recorder:
    def __init__(self, roles, rng=None, fault=None, controlled=True, max_workers_override=None, task_order='fifo'):
        """roles: {filename(str): role name}; fault: dict(role, op, k) -> raise at the k-th (0-based) matching call.
        task_order: the order in which the pool's workers take the submitted tasks: 'fifo' (submission order, what ThreadPoolExecutor does),
        'lifo' (last submitted first: with band-major submission every block of the last band is processed before any block of the first) or
        'shuffle' (seeded) - completion order is not promised by the executor, so results must not depend on it."""
        self.task_order = task_order
        self.order_rng = random.Random(rng.random()) if rng is not None else random.Random(0)
        self.roles = {str(k): v for k, v in roles.items()}
        self.events = []            # (seq, thread key, kind, role/lock, op, lockset)
        self.lock_names = {}
        self.mu = _real_threading.Lock()
        self.fault = fault
        self.fault_count = 0
        self.fault_fired = False
        self.sched = Sched(rng) if (controlled and rng is not None) else None
        self.task_of_thread = {}
        self.datasets = []
        self.max_workers_override = max_workers_override
        self.pool_active = 0

    def tkey(self):
        t = _real_threading.get_ident()
        return self.task_of_thread.get(t, 'main')

    def held(self):
        t = _real_threading.get_ident()
        return sorted(n for n, l in list(self.lock_names.items()) if l.owner == t)

    def log(self, kind, what, op=''):
        with self.mu:
            self.events.append((len(self.events), self.tkey(), kind, what, op, tuple(self.held()), self.pool_active))

    def yield_point(self):
        if self.sched is not None:
            self.sched.yield_point()


class Sched:
    """Only one registered thread runs between yield points; the next is chosen by the seeded RNG."""

    def __init__(self, rng):
        self.rng = rng
        self.cv = _real_threading.Condition()
        self.registered = set()
        self.waiting = set()
        self.granted = None
        self.choices = []

    def _maybe_grant(self):
        if self.granted is None and self.waiting and self.waiting == self.registered:
            pick = self.rng.choice(sorted(self.waiting))
            self.choices.append(pick)
            self.granted = pick
            self.cv.notify_all()

    def register(self, key):
        with self.cv:
            self.registered.add(key)

    def unregister(self, key):
        with self.cv:
            self.registered.discard(key)
            self.waiting.discard(key)
            self._maybe_grant()

    def yield_point(self):
        key = _real_threading.get_ident()
        with self.cv:
            if key not in self.registered:
                return
            self.waiting.add(key)
            self._maybe_grant()
            t0 = time.time()
            while self.granted != key:
                self.cv.wait(timeout=0.5)
                if time.time() - t0 > 60:
                    raise RuntimeError('scheduler stalled')
            self.granted = None
            self.waiting.discard(key)


def make_lock_class(rec, namer):
    class TrackedLock:
        def __init__(self):
            self._l = _real_threading.Lock()
            self.owner = None
            self.name = namer(self)
            rec.lock_names[self.name] = self

        def acquire(self, blocking=True, timeout=-1):
            rec.yield_point()
            while not self._l.acquire(False):
                if not blocking:
                    return False
                if rec.sched is not None:
                    rec.yield_point()
                else:
                    time.sleep(0.0005)
            self.owner = _real_threading.get_ident()
            rec.log('acq', self.name)
            return True

        def release(self):
            rec.log('rel', self.name)
            self.owner = None
            self._l.release()

        def locked(self):
            return self._l.locked()

        def __enter__(self):
            self.acquire()
            return self

        def __exit__(self, *a):
            self.release()
    return TrackedLock


class DatasetProxy:
    def __init__(self, ds, role, rec):
        object.__setattr__(self, '_ds', ds)
        object.__setattr__(self, '_role', role)
        object.__setattr__(self, '_rec', rec)

    def __getattr__(self, name):
        attr = getattr(self._ds, name)
        if name in OPS and callable(attr):
            rec, role = self._rec, self._role

            def call(*a, **k):
                rec.yield_point()
                rec.log('beg', role, name)
                try:
                    f = rec.fault
                    if f and not rec.fault_fired and f['role'] == role and (f['op'] == name or (f['op'] == '*' and name in BLOCK_OPS)):
                        with rec.mu:
                            hit = rec.fault_count == f['k']
                            rec.fault_count += 1
                        if hit:
                            rec.fault_fired = True
                            raise InjectedFault(f'injected fault at {role}.{name} #{f["k"]}')
                    return attr(*a, **k)
                finally:
                    rec.log('end', role, name)
            return call
        return attr

    def __setattr__(self, name, value):
        setattr(self._ds, name, value)

    def __enter__(self):
        self._ds.__enter__()
        return self

    def __exit__(self, *a):
        return self._ds.__exit__(*a)

    def __bool__(self):
        return True


class SchedExecutor:
    """ThreadPoolExecutor look-alike: real Futures, worker threads registered with the scheduler."""
    rec = None

    def __init__(self, max_workers=None, **kw):
        rec = SchedExecutor.rec
        self.n = max(1, int(rec.max_workers_override or max_workers or 4))
        self.q = queue.Queue()
        self.threads = []
        self.started = False
        self.count = 0
        rec.pool_seq = getattr(rec, 'pool_seq', 0) + 1
        self.pool_id = rec.pool_seq
        rec._executor = self

    def submit(self, fn, *args, **kwargs):
        fut = cf.Future()
        self.q.put((self.count, fut, fn, args, kwargs))
        self.count += 1
        return fut

    def start(self):
        if self.started:
            return
        self.started = True
        rec = SchedExecutor.rec
        if rec.task_order != 'fifo':
            items = []
            while True:
                try:
                    items.append(self.q.get_nowait())
                except queue.Empty:
                    break
            if rec.task_order == 'lifo':
                items.reverse()
            elif rec.task_order == 'by-window':
                # blocks that cover the same window in different bands next to each other (submission order has all of band 1 first): they are
                # then in flight together, which is when state keyed by the window rather than by the block is shared
                def wkey(it):
                    bp = next((a for a in it[3] if hasattr(a, 'band_i') and hasattr(a, 'src_out_block')), None)
                    return (0, 0, it[0]) if bp is None else (int(bp.src_out_block.row_off), int(bp.src_out_block.col_off), int(bp.band_i))
                items.sort(key=wkey)
            else:
                rec.order_rng.shuffle(items)
            for it in items:
                self.q.put(it)
        rec.pool_active += 1
        for w in range(min(self.n, max(1, self.count))):
            t = _real_threading.Thread(target=self._work, daemon=True)
            self.threads.append(t)
        # every worker registers with the scheduler before any of them reaches its first switch point (otherwise the first choices depend on
        # how fast the threads start, and a recorded schedule seed would not replay under load)
        self._all_registered = _real_threading.Barrier(len(self.threads))
        # register before starting so the scheduler waits for all of them to reach their first yield point
        for t in self.threads:
            t.start()

    def _work(self):
        rec = SchedExecutor.rec
        me = _real_threading.get_ident()
        if rec.sched is not None:
            rec.sched.register(me)
        try:
            self._all_registered.wait(timeout=30)
        except Exception:       # noqa: B902 - a broken barrier only costs reproducibility of the first choices
            pass
        try:
            while True:
                try:
                    idx, fut, fn, args, kwargs = self.q.get_nowait()
                except queue.Empty:
                    return
                name = f'p{self.pool_id}t{idx}'
                rec.task_of_thread[me] = name
                rec.log('task-start', name)
                if not fut.set_running_or_notify_cancel():
                    continue
                try:
                    rec.yield_point()
                    res = fn(*args, **kwargs)
                except BaseException as ex:   # noqa: B902
                    rec.log('task-fail', name, type(ex).__name__)
                    fut.set_exception(ex)
                else:
                    rec.log('task-ok', name)
                    fut.set_result(res)
                rec.task_of_thread.pop(me, None)
        finally:
            if rec.sched is not None:
                rec.sched.unregister(me)

    def shutdown(self, wait=True, **kw):
        self.start()
        if wait:
            for t in self.threads:
                t.join(timeout=120)
        SchedExecutor.rec.pool_active -= 1

    def __enter__(self):
        return self

    def __exit__(self, *a):
        self.shutdown(wait=True)
        return False


def _as_completed(fs, timeout=None):
    rec = SchedExecutor.rec
    ex = getattr(rec, '_executor', None)
    if ex is not None:
        ex.start()
    return _real_as_completed(fs, timeout=timeout)


LOCK_ATTRS = {'_src_lock': 'src', '_ref_lock': 'ref', '_corr_lock': 'corr', '_param_lock': 'param', '_lock': 'cmp'}


@contextlib.contextmanager
def interposed(rec):
    """Patch the homonim modules and rasterio.open / the executor for the duration of the block."""
    import homonim.fuse as hf
    import homonim.raster_pair as hrp
    import homonim.compare as hc
    import homonim.stats as hs
    counter = {'n': 0}

    def namer(lock):
        counter['n'] += 1
        return f'lock{counter["n"]}'
    Lock = make_lock_class(rec, namer)
    shim = types.SimpleNamespace(**{k: getattr(_real_threading, k) for k in dir(_real_threading) if not k.startswith('__')})
    shim.Lock = Lock
    saved = {}
    for m in (hf, hrp, hc, hs):
        saved[m] = m.threading
        m.threading = shim

    def open_proxy(fp, mode='r', *a, **k):
        ds = _real_open(fp, mode, *a, **k)
        role = rec.roles.get(str(fp))
        if role is None:
            return ds
        p = DatasetProxy(ds, role, rec)
        rec.datasets.append((role, mode, ds))
        return p
    # the model object is shared by every block in flight: entering and leaving its fit / apply are switch points too, so that anything
    # it keeps between the two calls of one block is exposed to the calls of another
    import homonim.kernel_model as hkm
    saved_methods = []
    for cls_ in (hkm.KernelModel, hkm.RefSpaceModel, hkm.SrcSpaceModel):
        for name_ in ('fit', 'apply'):
            if name_ in cls_.__dict__ and callable(cls_.__dict__[name_]):
                orig_ = cls_.__dict__[name_]

                def make(orig):
                    def wrapped(self, *a, **k):
                        rec.yield_point()
                        try:
                            return orig(self, *a, **k)
                        finally:
                            rec.yield_point()
                    wrapped.__wrapped__ = orig
                    return wrapped
                setattr(cls_, name_, make(orig_))
                saved_methods.append((cls_, name_, orig_))
    SchedExecutor.rec = rec
    rasterio.open = open_proxy
    cf.ThreadPoolExecutor = SchedExecutor
    cf.as_completed = _as_completed
    try:
        yield rec
    finally:
        rasterio.open = _real_open
        cf.ThreadPoolExecutor = _RealPool
        cf.as_completed = _real_as_completed
        for m, t in saved.items():
            m.threading = t
        for cls_, name_, orig_ in saved_methods:
            setattr(cls_, name_, orig_)
        SchedExecutor.rec = None


def name_locks(rec, obj):
    """Rename tracked locks after the attributes they are stored in (call after constructing the reader)."""
    for attr, nm in LOCK_ATTRS.items():
        l = getattr(obj, attr, None)
        if l is not None and hasattr(l, 'name'):
            rec.lock_names.pop(l.name, None)
            l.name = nm
            rec.lock_names[nm] = l


RES_ID = {'src': 0, 'ref': 1, 'corr': 2, 'param': 3, 'stats': 4}
LOCK_ID = {'src': 0, 'ref': 1, 'corr': 2, 'param': 3, 'stats': 4, 'cmp': 5}


def task_traces(rec, lock_alias=None, default_lock=None):
    """Per task: canonical observed action codes  Acq l -> 10+l, Rel l -> 20+l, Beg r -> 30+r, End r -> 40+r.
    Consecutive calls on one dataset inside one lock hold collapse into a single Beg/End (one SAccess)."""
    alias = dict(LOCK_ID)
    alias.update(lock_alias or {})
    per = {}
    for (_, tk, kind, what, op, held, _pa) in rec.events:
        if tk == 'main' or kind.startswith('task'):
            continue
        per.setdefault(tk, []).append((kind, what, op, held))
    out = {}
    for tk, evs in per.items():
        codes, last_access = [], None
        for kind, what, op, held in evs:
            if kind == 'acq':
                codes.append(10 + alias.get(what, 9 if default_lock is None else default_lock))
                last_access = None
            elif kind == 'rel':
                codes.append(20 + alias.get(what, 9 if default_lock is None else default_lock))
                last_access = None
            elif kind == 'beg':
                r = RES_ID.get(what, 9)
                if last_access == r:
                    continue
                codes += [30 + r, 40 + r]
                last_access = r
        out[tk] = codes
    return out


def lockset_violations(rec, any_lock_ok_for=()):
    """Lockset (Eraser) discipline: for every shared dataset, the locks held by the blocks at each of its calls must have a common member -
    SOME lock that is always held when the dataset is touched (which lock is the code's business: one lock per dataset, or one for
    several, both give mutual exclusion).  Also: dataset calls made by the coordinator (main thread) on an output while the pool is
    still running."""
    bad = []
    common = {}
    for (seq, tk, kind, what, op, held, pool_active) in rec.events:
        if kind != 'beg':
            continue
        if tk != 'main':
            # per pool: pools run one after the other (stats: the window pass and the sums pass each create their own lock)
            key = (tk.split('t')[0], what)
            c = common.get(key)
            c2 = set(held) if c is None else (c & set(held))
            if not c2 and (c is None or c):
                bad.append(dict(seq=seq, task=tk, dataset=what, op=op, lockset=list(held), candidates_before=sorted(c) if c else [],
                                why='dataset call without its lock'))
            common[key] = c2
        elif pool_active > 0 and what in ('corr', 'param'):
            bad.append(dict(seq=seq, task=tk, dataset=what, op=op, lockset=list(held), why='coordinator touched an output while blocks are in flight'))
    return bad
