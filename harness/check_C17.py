#!/venv/bin/python
"""C17 - partial masking keeps exactly the fully supported pixels."""
import math
import sys
from pathlib import Path
sys.path.insert(0, str(Path(__file__).resolve().parents[1]))
from harness.core import Run  # noqa: E402
from harness import synth, impl_fuse as fz, impl_kernel as ik  # noqa: E402
import numpy as np  # noqa: E402
from rasterio.transform import Affine  # noqa: E402

NAN = float('nan')


def coverage_case(rng, ratio, big=False):
    """_full_coverage_mask on in-memory arrays: input mask on a grid `ratio` times finer than (aligned with) the parameter grid."""
    from homonim.kernel_model import KernelModel
    from homonim.raster_array import RasterArray
    H, W = rng.randint(4, 11), rng.randint(4, 11)
    kh, kw = rng.choice([1, 3, 5]), rng.choice([1, 3, 5])
    if kh * kw < 2:
        kw = 3
    if big:
        # kernels whose eroded neighbourhood (h + 2) x (w + 2) holds more than 255 pixels (what an 8-bit count cannot hold), on images large
        # enough to keep fully supported pixels
        kh, kw = rng.choice([(15, 15), (11, 21), (21, 11), (17, 13), (13, 19)])
        H, W = kh + 2 + rng.randint(3, 8), kw + 2 + rng.randint(3, 8)
    fine = np.ones((H * ratio, W * ratio), bool)
    for _ in range(rng.randint(0, 3) if not big else rng.randint(0, 1)):
        r, c = (rng.randrange(H * ratio), rng.randrange(W * ratio)) if not big else (rng.randrange(2), rng.randrange(2))       # (big: a corner, so that supported pixels remain)
        fine[r:r + rng.randint(1, 2 * ratio), c:c + rng.randint(1, 2 * ratio)] = False
    if rng.random() < 0.3 and not big:
        fine[:, :ratio] = False
    joint = np.ones((H, W), bool)
    for _ in range(rng.randint(0, 2) if not big else 0):
        joint[rng.randrange(H), rng.randrange(W)] = False
    # the parameter mask is what _full_coverage_mask ANDs with: a pixel with no valid fine pixel at all is never jointly valid
    joint &= fine.reshape(H, ratio, W, ratio).any(axis=(1, 3))
    covered = fine.reshape(H, ratio, W, ratio).all(axis=(1, 3))
    in_ra = RasterArray(np.where(fine, 1.0, NAN).astype('float32'), synth.UTM, Affine(1.0 / ratio, 0, 100.0, 0, -1.0 / ratio, 200.0), nodata=NAN)
    par = np.where(joint, 1.0, NAN).astype('float32')
    param_ra = RasterArray(np.stack([par, par]), synth.UTM, Affine(1, 0, 100.0, 0, -1, 200.0), nodata=NAN)
    km = KernelModel('gain', (kh, kw))
    out = km._full_coverage_mask(in_ra.mask_ra, param_ra)
    obs = np.asarray(out.array).astype(bool)
    case = [0, kh, kw, H, W, *covered.astype(float).ravel(), *joint.astype(float).ravel(), *obs.astype(float).ravel()]
    # independent oracle (the property's own words): kept = every processing pixel of the (h + 2) x (w + 2) neighbourhood lies inside the block,
    # is wholly covered by valid input pixels and is jointly valid
    sup = covered & joint
    exp = np.zeros((H, W), bool)
    for r in range(H):
        for c in range(W):
            r0, r1, c0, c1 = r - kh // 2 - 1, r + kh // 2 + 2, c - kw // 2 - 1, c + kw // 2 + 2
            exp[r, c] = r0 >= 0 and c0 >= 0 and r1 <= H and c1 <= W and bool(sup[r0:r1, c0:c1].all())
    bad = np.argwhere(exp != obs)
    desc = dict(kernel_shape=[kh, kw], ratio=ratio, shape=[H, W], fine_mask=fine.astype(int).tolist(), joint=joint.astype(int).tolist())
    if len(bad):
        r, c = (int(v) for v in bad[0])
        desc['oracle'] = dict(pixel=[r, c], fully_supported=bool(exp[r, c]), kept=bool(obs[r, c]), n_diff=int(len(bad)))
    return [float(x) for x in case], desc


def expected_mask(pair, g, proc_is_ref, kshape):
    """C17 stated directly on an aligned dyadic geometry: which source pixels must stay valid."""
    kh, kw = kshape
    sm, rm = pair['smask'], pair['rmask']
    sh, sw = sm.shape
    ratio = g.ratio
    offr, offc = g.off_rc
    if proc_is_ref:      # source finer (ratio >= 1), aligned: reference pixel (u, v) covers source rows (u - offr) * ratio ...
        RH, RW = rm.shape
        sup = np.zeros((RH, RW), bool)
        r_ = int(ratio)
        for u in range(RH):
            for v in range(RW):
                r0, c0 = int((u - offr) * r_), int((v - offc) * r_)
                if r0 >= 0 and c0 >= 0 and r0 + r_ <= sh and c0 + r_ <= sw:
                    sup[u, v] = sm[r0:r0 + r_, c0:c0 + r_].all() and rm[u, v]
        out = np.zeros((sh, sw), bool)
        for r in range(sh):
            for c in range(sw):
                u, v = int(offr) + r // r_, int(offc) + c // r_
                ok = True
                for uu in range(u - kh // 2 - 1, u + kh // 2 + 2):
                    for vv in range(v - kw // 2 - 1, v + kw // 2 + 2):
                        if not (0 <= uu < RH and 0 <= vv < RW and sup[uu, vv]):
                            ok = False
                out[r, c] = ok
        return out
    # processing on the source grid, source coarser or equal (ratio <= 1): source pixel (r, c) covers 1/ratio reference pixels
    k = int(round(1 / ratio))
    sup = np.zeros((sh, sw), bool)
    for r in range(sh):
        for c in range(sw):
            u0, v0 = int(offr) + r * k, int(offc) + c * k
            sup[r, c] = sm[r, c] and rm[u0:u0 + k, v0:v0 + k].all() and rm[u0:u0 + k, v0:v0 + k].shape == (k, k)
    out = np.zeros((sh, sw), bool)
    for r in range(sh):
        for c in range(sw):
            ok = True
            for uu in range(r - kh // 2 - 1, r + kh // 2 + 2):
                for vv in range(c - kw // 2 - 1, c + kw // 2 + 2):
                    if not (0 <= uu < sh and 0 <= vv < sw and sup[uu, vv]):
                        ok = False
            out[r, c] = ok
    return out


def body(run):
    run.build(extra_targets=['theories/Corr/CheckC17.v'])
    rng = run.rng('partial')
    cases, metas, dist = [], [], {}
    for k in range(run.scale(60, 1000)):
        c, desc = coverage_case(rng, rng.choice([1, 2, 2, 4])) if k % 12 != 7 else coverage_case(rng, 1, big=True)
        cases.append(c)
        metas.append(desc)
        run.count_case((k,), True, desc if k < 2 else None)
    # the overlap process() hands to block_pairs, observed on real runs with and without partial masking
    from homonim import RasterFuse
    seen = []
    orig_bp = RasterFuse.block_pairs

    def spy(self, *a, **kw):
        seen.append(tuple(int(v) for v in (kw['overlap'] if 'overlap' in kw else a[0])))
        return orig_bp(self, *a, **kw)
    RasterFuse.block_pairs = spy
    try:
        g0, pair0, mbm0, _ = fz.workable_pair(run.work, rng, lambda r: synth.aligned_geom(r, 30), (7, 7), 1, tag='ov')
        for kshape0 in [(1, 1), (3, 3), (1, 3), (5, 3), (7, 5), (3, 7)]:
            for mp in (True, False):
                del seen[:]
                try:
                    fz.fuse(pair0['src_fn'], pair0['ref_fn'], run.work / 'ov.tif', model='gain', kernel_shape=kshape0, max_block_mem=1e6, param=False,
                            model_config=dict(mask_partial=mp))
                except Exception as ex:
                    if type(ex).__name__ != 'BlockSizeError':
                        raise
                if seen:
                    cases.append([1.0, float(kshape0[0]), float(kshape0[1]), float(mp), float(seen[-1][0]), float(seen[-1][1])])
                    metas.append(dict(kernel_shape=list(kshape0), mask_partial=mp, overlap=list(seen[-1])))
                    run.count_case(('ov', kshape0, mp), True, None)
    finally:
        RasterFuse.block_pairs = orig_bp
    failing, nt = run.corr('coverage', 'Corr.CheckC17', cases, shard=100)
    for m in [m_ for m_ in metas if 'oracle' in m_][:3]:
        o = m.pop('oracle')
        run.add_violation('partial masking does not keep exactly the fully supported pixels (_full_coverage_mask on one block)', m,
                          expected=f"pixel {o['pixel']} kept iff fully supported ({o['fully_supported']})", observed=dict(kept=o['kept'], pixels_differing=o['n_diff']),
                          signature=dict(kind='coverage-unit'))
    for k in failing[:5]:
        run.add_break('correspondence-break', '_full_coverage_mask differs from Kernel.Morph.full_coverage' if 'fine_mask' in metas[k] else
                      'the block overlap process() uses is smaller than the erosion reach (+ 1 with partial masking): premise of C17_seam_sampling_safe', metas[k])
    # end to end: the dataset mask of the corrected image with mask_partial=True, both grids, several block sizes
    for k in range(run.scale(21, 240)):
        on_ref = k % 3 != 1
        unaligned = k % 3 == 2       # reference grid, non-integer ratio / sub-pixel offset: subset, strictness and block independence only
        if unaligned and k % 2 == 0:
            for _try in range(50):
                g = synth.random_geom(rng, max_src=run.scale(44, 64))
                if g.ratio > 1 and min(g.src_shape) / g.ratio >= 9:
                    break
        elif unaligned:
            # source pixel centres exactly on processing-pixel edges (e.g. 10 m pixels on a 30 m grid shifted by 15 m): the source window of
            # an output block then holds a pixel that nearest re-projection takes from the neighbouring processing pixel
            ratio = [2.5, 3, 2, 4, 1.5][(k // 6) % 5]       # (every kind of tie in turn: 2.5 / 1.5 put every other processing-pixel edge on a source pixel centre)
            def tie_off():
                return rng.randint(1, 3) + ((rng.randrange(int(ratio)) + 0.5) / ratio if ratio not in (2.5, 1.5) else 0.0)
            sh = (rng.randint(30, 44), rng.randint(30, 44))
            if ratio in (2.5, 1.5):
                # sizes for which the halving block shapes put a block boundary on a tie (boundary index k with k * ratio = odd + 0.5:
                # k = 3 mod 4 for 2.5, k = 1 mod 4 for 1.5): processing windows of 14 / 22 / 28 (10 / 18 / 26) pixels
                sh = tuple(int(rng.choice([14, 22, 28] if ratio == 2.5 else [10, 18, 26]) * ratio) for _ in range(2))
            off = (tie_off(), tie_off())
            if ratio in (2.5, 1.5):
                off = (rng.choice([2, 4]), rng.choice([2, 4]))       # the reference origin on a source pixel corner (whole source pixels apart)
            g = synth.Geom(rng.choice([1.0, 0.5, 30.0]), ratio, *rng.choice([(16.0, 48.0), (300000.0, 6200000.0)]),
                           (int(off[0] + sh[0] / ratio) + 4, int(off[1] + sh[1] / ratio) + 4), off, sh)
        elif on_ref:
            ratio = rng.choice([1, 2, 4])
            sh = (rng.randint(10, 16) * ratio, rng.randint(10, 16) * ratio)
            off = (rng.randint(1, 4), rng.randint(1, 4))
            g = synth.Geom(rng.choice([0.5, 1.0, 2.0]), ratio, *rng.choice([(16.0, 48.0), (4.0, 100.0)]),
                           (off[0] + sh[0] // ratio + rng.randint(1, 4), off[1] + sh[1] // ratio + rng.randint(1, 4)), off, sh)
        else:
            ratio = rng.choice([1, 0.5])
            kk = int(round(1 / ratio))
            sh = (rng.randint(10, 16), rng.randint(10, 16))
            off = (rng.randint(1, 3) * kk, rng.randint(1, 3) * kk)
            g = synth.Geom(rng.choice([0.5, 1.0]), ratio, 16.0, 48.0, (off[0] + sh[0] * kk + rng.randint(1, 4) * kk, off[1] + sh[1] * kk + rng.randint(1, 4) * kk), off, sh)
        kshape = rng.choice([(1, 1), (3, 3), (1, 3), (3, 1), (3, 5), (5, 3)])
        model = ik.MODELS[k % 3]
        if model == 'gain-offset' and kshape == (1, 1):
            kshape = (1, 3)
        sm = fz.src_mask(rng, g.src_shape, rng.choice(['none', 'holes', 'islands', 'border']))
        rm = fz.src_mask(rng, g.ref_shape, rng.choice(['none', 'none', 'islands']))
        # no two source pixels within two rows / columns of each other are equal, also after averaging: a kernel window with at least two
        # valid pixels is never degenerate (zero source variance gives NaN gain-offset parameters, which partial masking then spreads -
        # the non-finite case every C01 / C17 statement excludes)
        yy, xx = np.mgrid[0:g.src_shape[0], 0:g.src_shape[1]]
        src = (40 + 1.75 * yy + 3.0 * xx + 0.25 * (fz.texture(rng, g.src_shape, 1)[0] % 2)).astype('float32')[None]
        pair = fz.make_pair(run.work, g, rng, src=src, smask=sm, rmask=rm, tag='m')
        exp = None if unaligned else expected_mask(pair, g, on_ref, kshape)
        # "completely covered by valid source pixels" does not depend on the kernel the DATA are down-sampled with: on aligned geometries every
        # other case uses nearest (a completely covered pixel is valid under either; the partial mask must be the same)
        ds_kernel = 'average' if unaligned else ['average', 'nearest'][(k // 3) % 2]
        masks = []
        # (for the tie geometries several block sizes: whether a block boundary falls on a tie depends on the block shape)
        for target in ((1, rng.choice([4, 9, 16])) if not (unaligned and k % 2 == 1) else (1, 4, 9, 16, 25)):
            try:
                mbm, nblk = fz.pick_block_mem(pair['src_fn'], pair['ref_fn'], 'auto', target, kshape)
                res = fz.fuse(pair['src_fn'], pair['ref_fn'], run.work / 'mp.tif', model=model, kernel_shape=kshape, proc_crs='auto', max_block_mem=mbm,
                              param=False, model_config=dict(mask_partial=True, r2_inpaint_thresh=None, downsampling=ds_kernel))
            except Exception as ex:
                dist['skipped:' + type(ex).__name__] = dist.get('skipped:' + type(ex).__name__, 0) + 1
                continue
            desc = dict(geom=g.describe(), kernel_shape=list(kshape), model=model, processing_grid=res['proc_crs'], blocks=nblk, max_block_mem=mbm, downsampling=ds_kernel)
            key = f'{res["proc_crs"]}{"-unaligned" if unaligned else ""}/blocks={"1" if nblk == 1 else ">1"}'
            dist[key] = dist.get(key, 0) + 1
            run.count_case((k, target), True, desc if len(run.cov['samples']) < 5 else None)
            got = res['corr']['mask']
            masks.append(got)
            problems = {}
            if (res['proc_crs'] == 'ref') != on_ref:
                continue
            if (got & ~pair['smask']).any():
                problems['valid outside the source mask'] = [int(x) for x in np.argwhere(got & ~pair['smask'])[0]]
            if pair['smask'].any() and not (got.sum() < pair['smask'].sum()):
                problems['not strictly smaller than the source mask'] = [int(got.sum()), int(pair['smask'].sum())]
            if exp is not None and not np.array_equal(got, exp):
                d = np.argwhere(got != exp)[0]
                problems['differs from "window grown by one fully supported"'] = dict(pixel=[int(d[0]), int(d[1])], got=bool(got[d[0], d[1]]), n_diff=int((got != exp).sum()))
            if problems:
                run.add_violation('partial masking keeps / drops the wrong pixels', desc, observed=problems, signature=dict(kind='partial-mask', grid=res['proc_crs'], parts=sorted(problems)))
        for other in masks[1:]:
            if np.array_equal(masks[0], other):
                continue
            masks = [masks[0], other]
            d = np.argwhere(masks[0] != masks[1])

            # is every differing source pixel one whose centre lies exactly on a processing-pixel edge (the mask reaches the source grid by a
            # nearest re-projection; GDAL breaks such ties from block-relative coordinates - the artefact of finding D15)?
            def on_edge(idx, off_):
                v = off_ + (idx + 0.5) / g.ratio
                return abs(v - round(v)) < 1e-9
            tie_only = on_ref and g.ratio > 1 and all(on_edge(int(a), g.off_rc[0]) or on_edge(int(b), g.off_rc[1]) for a, b in d)
            # ... and only at the EDGE of the mask (within one processing pixel of both a kept and a dropped pixel of the one-block result): a tie can
            # move the edge by a pixel; rows / columns dropped inside the kept area (along block seams) are something else

            def grow(m, r):
                out = m.copy()
                for dy in range(-r, r + 1):
                    for dx in range(-r, r + 1):
                        sh_ = np.zeros_like(m)
                        ys, yd = (slice(max(0, dy), m.shape[0] + min(0, dy)), slice(max(0, -dy), m.shape[0] + min(0, -dy)))
                        xs, xd = (slice(max(0, dx), m.shape[1] + min(0, dx)), slice(max(0, -dx), m.shape[1] + min(0, -dx)))
                        sh_[yd, xd] = m[ys, xs]
                        out |= sh_
                return out
            reach = int(math.ceil(g.ratio))
            edge_band = grow(masks[0], reach) & grow(~masks[0], reach)
            tie_only = tie_only and bool(edge_band[tuple(d.T)].all())
            run.add_violation('partial mask depends on the block size', dict(geom=g.describe(), kernel_shape=list(kshape), model=model,
                              src_mask=pair['smask'].astype(int).tolist(), ref_mask_invalid=[[int(a), int(b)] for a, b in np.argwhere(~pair['rmask'])]),
                              observed=dict(differing_pixels=[[int(a), int(b)] for a, b in d[:10]], one_block=[bool(masks[0][a, b]) for a, b in d[:10]],
                                            expected=None if exp is None else [bool(exp[a, b]) for a, b in d[:10]], n_diff=int(len(d))),
                              signature=dict(kind='partial-mask-blocks', model=model, aligned=not unaligned, cause='nearest-tie' if tie_only else 'other',
                                             pattern='lost-only' if not (masks[1] & ~masks[0]).any() and (exp is None or np.array_equal(masks[0], exp)) else 'other'))
            break
    run.cov['evaluations'] += 0
    # ---- two bands whose invalid pixels differ (a hole in one band only): the partial mask of EACH band comes from that band's own validity
    for k in range(run.scale(3, 12)):
        ratio = rng.choice([2, 4])
        sh = (rng.randint(10, 14) * ratio, rng.randint(10, 14) * ratio)
        off = (rng.randint(1, 3), rng.randint(1, 3))
        g = synth.Geom(rng.choice([0.5, 1.0, 2.0]), ratio, *rng.choice([(16.0, 48.0), (4.0, 100.0)]), (off[0] + sh[0] // ratio + rng.randint(1, 3), off[1] + sh[1] // ratio + rng.randint(1, 3)), off, sh)
        kshape = rng.choice([(3, 3), (1, 3), (3, 5)])
        yy, xx = np.mgrid[0:sh[0], 0:sh[1]]
        src = np.stack([(40 + 1.75 * yy + 3.0 * xx).astype('float32'), (55 + 2.25 * yy + 1.5 * xx).astype('float32')])
        valid = np.ones((2, *sh), bool)
        which = k % 2           # the band that has the hole: the first or the second
        r0, c0 = rng.randrange(sh[0] // 3, 2 * sh[0] // 3), rng.randrange(sh[1] // 3, 2 * sh[1] // 3)
        valid[which, r0:r0 + rng.randint(1, 3), c0:c0 + rng.randint(1, 3)] = False
        rm = np.ones(g.ref_shape, bool)
        sfn, rfn = run.work / 'mb_src.tif', run.work / 'mb_ref.tif'
        synth.write_tif(sfn, np.where(valid, src, np.float32('nan')), g.src_transform)
        synth.write_tif(rfn, fz.texture(rng, g.ref_shape, 2, lo=30, hi=180), g.ref_transform)
        try:
            mbm, nblk = fz.pick_block_mem(sfn, rfn, 'auto', [1, 4][k % 2], kshape)
            res = fz.fuse(sfn, rfn, run.work / 'mb.tif', model='gain', kernel_shape=kshape, proc_crs='auto', max_block_mem=mbm, param=False, force=True,
                          src_bands=[1, 2], ref_bands=[1, 2], model_config=dict(mask_partial=True, r2_inpaint_thresh=None))
        except Exception as ex:
            dist['skipped:' + type(ex).__name__] = dist.get('skipped:' + type(ex).__name__, 0) + 1
            continue
        desc = dict(geom=g.describe(), bands=2, band_with_a_hole=which + 1, kernel_shape=list(kshape), model='gain', processing_grid=res['proc_crs'], blocks=nblk, max_block_mem=mbm)
        dist['two-band/' + res['proc_crs']] = dist.get('two-band/' + res['proc_crs'], 0) + 1
        run.count_case(('mb', k), True, desc if k < 1 else None)
        if res['proc_crs'] != 'ref':
            continue
        for b in range(2):
            exp = expected_mask(dict(smask=valid[b], rmask=rm), g, True, kshape)
            got = np.isfinite(res['corr']['array'][b])
            if not np.array_equal(got, exp):
                d = np.argwhere(got != exp)[0]
                run.add_violation('partial masking keeps / drops the wrong pixels', desc,
                                  observed={f'band {b + 1} differs from "window grown by one fully supported"': dict(pixel=[int(d[0]), int(d[1])], got=bool(got[d[0], d[1]]), n_diff=int((got != exp).sum()))},
                                  signature=dict(kind='partial-mask', grid='ref', parts=['two-band']))
                break
    # ---- a source shifted a hair (a few 1e-4 of a processing pixel) off the reference grid: the processing pixels along its upper / left edge are
    #      covered 99.9x % - not completely - and go, with their neighbourhood, exactly as if the first source rows / columns were missing
    for k in range(run.scale(3, 9)):
        ratio = [2, 4, 2][k % 3]
        hair = [5e-4, 2e-4, 9e-4][k % 3]
        sh = (rng.randint(10, 14) * ratio, rng.randint(10, 14) * ratio)
        n0, n1 = rng.randint(1, 3), rng.randint(1, 3)
        res_ = [1.0, 0.5, 2.0][k % 3]
        rshape = (n0 + sh[0] // ratio + 3, n1 + sh[1] // ratio + 3)
        g = synth.Geom(res_, ratio, 16.0, 48.0, rshape, (n0 + hair, n1 + hair), sh)
        g0 = synth.Geom(res_, ratio, 16.0, 48.0, rshape, (n0, n1), sh)
        kshape = [(3, 3), (1, 3), (3, 5)][k % 3]
        yy, xx = np.mgrid[0:sh[0], 0:sh[1]]
        src = (40 + 1.75 * yy + 3.0 * xx).astype('float32')[None]
        sm = np.ones(sh, bool)
        pair = fz.make_pair(run.work, g, rng, src=src, smask=sm, tag='hl')
        fake = sm.copy()
        fake[:ratio] = False
        fake[:, :ratio] = False
        exp = expected_mask(dict(smask=fake, rmask=np.ones(rshape, bool)), g0, True, kshape)
        for target in (1, 4):
            try:
                mbm, nblk = fz.pick_block_mem(pair['src_fn'], pair['ref_fn'], 'auto', target, kshape)
                res = fz.fuse(pair['src_fn'], pair['ref_fn'], run.work / 'hl.tif', model='gain', kernel_shape=kshape, proc_crs='auto', max_block_mem=mbm,
                              param=False, model_config=dict(mask_partial=True, r2_inpaint_thresh=None))
            except Exception as ex:
                dist['skipped:' + type(ex).__name__] = dist.get('skipped:' + type(ex).__name__, 0) + 1
                continue
            desc = dict(geom=g.describe(), hairline_offset=hair, kernel_shape=list(kshape), model='gain', processing_grid=res['proc_crs'], blocks=nblk, max_block_mem=mbm)
            dist['hairline/' + res['proc_crs']] = dist.get('hairline/' + res['proc_crs'], 0) + 1
            run.count_case(('hl', k, target), True, desc if k < 1 else None)
            got = res['corr']['mask']
            if res['proc_crs'] == 'ref' and not np.array_equal(got, exp):
                d = np.argwhere(got != exp)[0]
                run.add_violation('partial masking keeps / drops the wrong pixels', desc,
                                  observed={'differs from "completely covered, window grown by one"': dict(pixel=[int(d[0]), int(d[1])], got=bool(got[d[0], d[1]]), n_diff=int((got != exp).sum()))},
                                  signature=dict(kind='partial-mask', grid='ref', parts=['hairline']))
                break
    run.cov['rule'] = ('_full_coverage_mask on in-memory masks (input grid 1x / 2x / 4x finer, aligned) against the Gallina erosion in Coq; real fusions '
                       'with mask_partial=True on aligned dyadic geometries, both processing grids (source finer: ref grid; source equal / coarser: src grid), '
                       'kernels incl. h != w, 3 models, one block and 4..9 blocks: the corrected dataset mask must equal the characterisation computed '
                       'independently, be a strict subset of the source mask and not depend on the block size; plus unaligned reference-grid geometries '
                       '(ratios 1.7 / 2.5 / 3 / 4.3, sub-pixel offsets) judged on subset, strictness and block independence only')
    run.extra['input_distribution'] = dict(runs=dist, coverage_cases=len(cases), model_nontrivial=nt)
    run.assumptions += ['H_down_avg: GDAL average re-projection of a 0/1 mask is >= 1 exactly where every overlapping input pixel is 1 (exercised on aligned grids)',
                        'source pixel centres on processing-pixel edges are excluded (aligned geometries only): nearest re-projection ties are GDAL\'s']
    run.trusted += ['OpenCV erode, GDAL average / nearest re-projection (oracles exercised on aligned grids)']
    run.finish()


if __name__ == '__main__':
    Run('C17').guard(body)
