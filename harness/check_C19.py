#!/venv/bin/python
"""C19 - the command line is a faithful front end to the API."""
import json
import pathlib
import math
import sys
from pathlib import Path
sys.path.insert(0, str(Path(__file__).resolve().parents[1]))
from harness.core import Run  # noqa: E402
from harness import synth, impl_fuse as fz, impl_kernel as ik  # noqa: E402
import numpy as np  # noqa: E402
import yaml  # noqa: E402

NAN = float('nan')


def jsonable(o):
    if isinstance(o, dict):
        return {str(k): jsonable(v) for k, v in o.items()}
    if isinstance(o, (list, tuple)):
        return [jsonable(v) for v in o]
    if isinstance(o, (np.floating, float)):
        return float(o)
    if isinstance(o, (np.integer, int)):
        return int(o)
    return o


def same_json(a, b):
    if isinstance(a, dict):
        return isinstance(b, dict) and set(a) == set(b) and all(same_json(a[k], b[k]) for k in a)
    if isinstance(a, list):
        return isinstance(b, list) and len(a) == len(b) and all(same_json(x, y) for x, y in zip(a, b))
    if isinstance(a, float) and isinstance(b, float):
        # sums are accumulated in block completion order: equal up to float64 accumulation order
        return (math.isnan(a) and math.isnan(b)) or a == b or abs(a - b) <= 1e-12 * max(abs(a), abs(b))
    return a == b


def body(run):
    run.regenerate()
    run.build(extra_targets=['theories/Corr/CheckC19.v'])
    rng = run.rng('cli')
    from click.testing import CliRunner
    from homonim import cli as hcli, utils, RasterFuse, RasterCompare, ParamStats, Model
    from homonim.enums import ProcCrs
    dist, merge_cases, merge_metas = {}, [], []
    for k in range(run.scale(14, 150)):
        nb = rng.choice([1, 3])
        g, pair, mbm, nblk = fz.workable_pair(run.work, rng, lambda r: synth.random_geom(r, 30), (5, 5), rng.choice([1, 4]), tag='c', bands=nb)
        model = rng.choice(ik.MODELS)
        kshape = rng.choice([(3, 5), (5, 3), (1, 3), (3, 3), (5, 5), (3, 1) if model != 'gain-offset' else (5, 1)])
        opts = dict(threads=rng.choice([1, 2, 4]), max_block_mem=mbm, downsampling=rng.choice(['average', 'bilinear', 'nearest']),
                    upsampling=rng.choice(['cubic_spline', 'bilinear', 'nearest']), r2_inpaint_thresh=rng.choice([0.25, 0.6, 0.0]),
                    mask_partial=False, dtype=rng.choice(['float32', 'uint8', 'int16', 'float64']), nodata=rng.choice(['nan', '0', 'null', '255']),
                    driver='GTiff', proc_crs=rng.choice(['auto', 'ref', 'src']))
        # (every nodata spelling with every way of passing it, in turn: the first runs do not leave it to chance)
        if k < 8:
            opts['nodata'] = ['nan', 'null', '0', '255'][k % 4]
            if opts['nodata'] == 'nan':
                opts['dtype'] = ['float32', 'float64'][(k // 4) % 2]
        if opts['dtype'] in ('uint8', 'int16') and opts['nodata'] == 'nan':
            opts['nodata'] = '0'
        co = rng.choice([None, dict(tiled=True, blockxsize=16, blockysize=16, compress='deflate'), dict(compress='lzw')])
        param_image = rng.random() < 0.6
        bands = None
        if nb == 3 and rng.random() < 0.5:
            bands = (rng.sample([1, 2, 3], 2), rng.sample([1, 2, 3], 2))
        # split the advanced options between configuration file and flags
        via_conf = {kk: v for kk, v in opts.items() if kk not in ('proc_crs',) and rng.random() < 0.4}
        if k < 8:
            (via_conf.pop('nodata', None), via_conf.pop('dtype', None)) if k < 4 else via_conf.update(nodata=opts['nodata'], dtype=opts['dtype'])
        out_cli, out_api = run.work / f'cli{k}', run.work / f'api{k}'
        out_cli.mkdir()
        out_api.mkdir()
        args = ['fuse', '-m', model, '-k', str(kshape[0]), str(kshape[1]), '-od', str(out_cli), '-nbo', '-pc', opts['proc_crs']]
        if param_image:
            args.append('-pi')
        if bands:
            for b in bands[0]:
                args += ['-sb', str(b)]
            for b in bands[1]:
                args += ['-rb', str(b)]
            args.append('-f')
        conf = {}
        flag = {'threads': '-t', 'max_block_mem': '-mbm', 'downsampling': '-ds', 'upsampling': '-us', 'r2_inpaint_thresh': '-rit',
                'dtype': '--dtype', 'nodata': '--nodata', 'driver': '--driver'}
        for kk, v in opts.items():
            if kk in ('proc_crs', 'mask_partial'):
                continue
            if kk in via_conf:
                # (`nodata: null` in the configuration file is a value like any other: write an internal mask)
                conf[kk] = v if kk != 'nodata' else (None if v == 'null' else v)
            else:
                args += [flag[kk], repr(v) if isinstance(v, float) else str(v)]
        if co is not None:
            if rng.random() < 0.5:
                conf['creation_options'] = co
            else:
                for ck, cv in co.items():
                    args += ['-co', f'{ck}={cv}']
        if conf:
            cf = run.work / f'conf{k}.yaml'
            cf.write_text(yaml.safe_dump(conf))
            args += ['-c', str(cf)]
        args += [str(pair['src_fn']), str(pair['ref_fn'])]
        desc = dict(args=[a if len(a) < 60 else '...' + a[-30:] for a in args], conf=conf, geom=g.describe())
        res = CliRunner().invoke(hcli.cli, args)
        key = f'fuse/{model}/{"conf+flags" if conf else "flags"}'
        dist[key] = dist.get(key, 0) + 1
        run.count_case((k,), kshape[0] != kshape[1] or bool(conf), desc if len(run.cov['samples']) < 3 else None)
        if res.exit_code != 0:
            run.add_violation('CLI fuse failed for a valid option combination', desc, observed=dict(exit_code=res.exit_code, output=res.output[-300:]),
                              signature=dict(kind='cli-fails'))
            continue
        # the API call with the same settings
        nodata_v = None if opts['nodata'] == 'null' else float(opts['nodata'])
        with RasterFuse(pair['src_fn'], pair['ref_fn'], proc_crs=ProcCrs(opts['proc_crs']), src_bands=bands[0] if bands else None,
                        ref_bands=bands[1] if bands else None, force=bool(bands)) as rf:
            post = utils.create_out_postfix(rf.proc_crs, model=model, kernel_shape=kshape, driver='GTiff')
            name = pair['src_fn'].stem + post
            expected_name = f'{pair["src_fn"].stem}_FUSE_c{rf.proc_crs.name.upper()}_m{model.upper()}_k{kshape[0]}_{kshape[1]}.tif'
            api_corr = out_api / name
            api_param = utils.create_param_filename(api_corr) if param_image else None
            out_profile = dict(driver='GTiff', dtype=opts['dtype'], nodata=nodata_v)
            if co is not None:
                out_profile['creation_options'] = {a: (yaml.safe_load(str(b).lower()) if not isinstance(b, bool) else b) for a, b in co.items()}
            rf.process(api_corr, Model(model), kshape, param_filename=api_param, build_ovw=False, overwrite=False,
                       model_config=dict(r2_inpaint_thresh=opts['r2_inpaint_thresh'], mask_partial=False, downsampling=opts['downsampling'],
                                         upsampling=opts['upsampling']),
                       out_profile=out_profile, block_config=dict(threads=opts['threads'], max_block_mem=opts['max_block_mem']))
        problems = {}
        if name != expected_name:
            problems['output name'] = dict(got=name, expected=expected_name)
        cli_corr = out_cli / name
        if not cli_corr.exists():
            problems['CLI output file missing'] = sorted(p.name for p in out_cli.iterdir())
        else:
            a, b = fz.read_all(cli_corr), fz.read_all(api_corr)
            if not fz.same_arrays(a['array'], b['array']) or not np.array_equal(a['mask'], b['mask']):
                problems['corrected pixels differ'] = fz.first_diff(a['array'], b['array'])
            if a['dtype'] != b['dtype'] or not ((a['nodata'] is None and b['nodata'] is None) or (a['nodata'] is not None and b['nodata'] is not None and (a['nodata'] == b['nodata'] or (math.isnan(a['nodata']) and math.isnan(b['nodata']))))):
                problems['dtype / nodata differ'] = [a['dtype'], a['nodata'], b['dtype'], b['nodata']]
            ta = {kk: v for kk, v in a['tags'].items() if kk.startswith('FUSE_')}
            tb = {kk: v for kk, v in b['tags'].items() if kk.startswith('FUSE_')}
            if ta != tb:
                problems['recorded settings differ'] = {kk: (ta.get(kk), tb.get(kk)) for kk in set(ta) | set(tb) if ta.get(kk) != tb.get(kk)}
            if param_image:
                pa, pb = fz.read_all(utils.create_param_filename(cli_corr)), fz.read_all(api_param)
                if not fz.same_arrays(pa['array'], pb['array']):
                    problems['parameter pixels differ'] = fz.first_diff(pa['array'], pb['array'])
        if problems:
            run.add_violation('CLI run differs from the API call with the same settings', desc, observed=problems,
                              signature=dict(kind='cli-vs-api', parts=sorted(problems)))
        # compare and stats: JSON reports = API results
        cj = run.work / f'cmp{k}.json'
        r2 = CliRunner().invoke(hcli.cli, ['compare', str(pair['src_fn']), str(pair['ref_fn']), '-op', str(cj), '-t', '2', '-mbm', repr(mbm), '-pc', opts['proc_crs']])
        with RasterCompare(pair['src_fn'], pair['ref_fn'], proc_crs=ProcCrs(opts['proc_crs'])) as rc:
            api_stats = rc.process(threads=2, max_block_mem=mbm)
        run.count_case(('cmp', k), True, None)
        if r2.exit_code != 0:
            run.add_violation('CLI compare failed', desc, observed=r2.output[-300:], signature=dict(kind='cli-fails'))
        else:
            got = json.load(open(cj))
            exp = json.loads(json.dumps(jsonable(api_stats)))
            ok = str(pair['src_fn']) in got and all(
                abs(got[str(pair['src_fn'])][b][f] - exp[b][f]) <= 1e-4 * (1 + abs(exp[b][f])) or (math.isnan(got[str(pair['src_fn'])][b][f]) and math.isnan(exp[b][f]))
                for b in exp for f in exp[b]) and got[str(pair['src_fn'])].keys() == exp.keys() and all(got[str(pair['src_fn'])][b]['n'] == exp[b]['n'] for b in exp)
            if not ok:
                run.add_violation('compare JSON report differs from the API result', desc, observed=dict(json=got, api=exp), signature=dict(kind='cli-json', tool='compare'))
        if param_image and cli_corr.exists():
            sj = run.work / f'st{k}.json'
            pfn = utils.create_param_filename(cli_corr)
            r3 = CliRunner().invoke(hcli.cli, ['stats', str(pfn), '-op', str(sj)])
            with ParamStats(pfn) as ps:
                api_st = ps.stats()
            run.count_case(('stats', k), True, None)
            got_st = json.load(open(sj)).get(str(pfn)) if r3.exit_code == 0 else None
            exp_st = json.loads(json.dumps(jsonable(api_st)))
            if r3.exit_code != 0 or not same_json(got_st, exp_st):
                run.add_violation('stats JSON report differs from the API result', desc, observed=dict(exit=r3.exit_code, json=got_st, api=exp_st),
                                  signature=dict(kind='cli-json', tool='stats'))
    # ---- fuse --compare: the comparison stage, too, runs with the settings given on the command line / in the configuration file: every
    #      RasterCompare.process call the command makes returns what the API returns for that file with those settings
    for j in range(run.scale(3, 10)):
        g, pair, mbm, nblk = fz.workable_pair(run.work, rng, lambda r: synth.aligned_geom(r, 24), (3, 3), 1, tag=f'fc{j}')
        ds, us = [('nearest', 'bilinear'), ('bilinear', 'nearest'), ('cubic', 'average'), ('nearest', 'cubic')][j % 4]
        thr = [2, 1, 3][j % 3]
        outd = run.work / f'fcmp{j}'
        outd.mkdir()
        args = ['fuse', '-m', 'gain', '-k', '3', '3', '-od', str(outd), '-nbo', '-cmp', 'ref', '-t', str(thr), '-mbm', repr(mbm)]
        conf = {}
        if j % 2:
            conf = dict(downsampling=ds, upsampling=us)
            cf = run.work / f'fconf{j}.yaml'
            cf.write_text(yaml.safe_dump(conf))
            args += ['-c', str(cf)]
        else:
            args += ['-ds', ds, '-us', us]
        args += [str(pair['src_fn']), str(pair['ref_fn'])]
        desc = dict(args=[a if len(a) < 60 else '...' + a[-30:] for a in args], conf=conf, geom=g.describe())
        seen = []
        orig_rc = hcli.RasterCompare

        class SpyCompare(orig_rc):
            def __init__(self, src_filename, ref_filename, *a, **kw):
                self._spy_files = (str(src_filename), str(ref_filename), kw.get('proc_crs'))
                super().__init__(src_filename, ref_filename, *a, **kw)

            def process(self, **kw):
                st_ = super().process(**kw)
                seen.append((self._spy_files, st_))
                return st_
        hcli.RasterCompare = SpyCompare
        try:
            r = CliRunner().invoke(hcli.cli, args)
        finally:
            hcli.RasterCompare = orig_rc
        run.count_case(('fuse-compare', j), True, desc if j == 0 else None)
        problems = {}
        if r.exit_code != 0:
            problems['exit code'] = dict(exit_code=r.exit_code, output=r.output[-300:])
        elif len(seen) != 2:
            problems['number of comparisons'] = len(seen)
        else:
            for (sfn_, rfn_, pc_), st_ in seen:
                with RasterCompare(sfn_, rfn_, **({} if pc_ is None else dict(proc_crs=pc_))) as rc:
                    exp_ = rc.process(threads=thr, max_block_mem=mbm, downsampling=ds, upsampling=us)
                ja, jb = json.loads(json.dumps(jsonable(st_))), json.loads(json.dumps(jsonable(exp_)))
                # (block sums are accumulated in completion order: statistics agree to accumulation noise, far below the effect of another kernel)
                close = ja.keys() == jb.keys() and all(ja[b_].keys() == jb[b_].keys() and all(
                    (math.isnan(ja[b_][f_]) and math.isnan(jb[b_][f_])) or abs(ja[b_][f_] - jb[b_][f_]) <= 1e-5 * (1e-3 + abs(jb[b_][f_])) for f_ in jb[b_]) for b_ in jb)
                if not close:
                    problems[f'statistics of {pathlib.Path(sfn_).name}'] = dict(cli=jsonable(st_), api_same_settings=jsonable(exp_))
        if problems:
            run.add_violation('fuse --compare: the comparison differs from the API comparison with the same settings', desc, observed=problems,
                              signature=dict(kind='cli-vs-api', parts=['fuse --compare']))
    # ---- several files in one invocation: one JSON entry per file, each the API result for that file
    g, pair, mbm, nblk = fz.workable_pair(run.work, rng, lambda r: synth.aligned_geom(r, 24), (3, 3), 1, tag='n')
    pfns = []
    for mi, mdl in enumerate(['gain', 'gain-offset']):
        od = run.work / f'multi{mi}'
        od.mkdir()
        fz.fuse(pair['src_fn'], pair['ref_fn'], od / 'c.tif', model=mdl, kernel_shape=(3, 3), max_block_mem=1e6, param=True)
        pfns.append(od / 'c_PARAM.tif')
    sj = run.work / 'multi_stats.json'
    r = CliRunner().invoke(hcli.cli, ['stats', str(pfns[0]), str(pfns[1]), '-op', str(sj)])
    run.count_case(('stats-multi',), True, None)
    got = json.load(open(sj)) if r.exit_code == 0 and sj.exists() else None
    exp = {}
    for pf in pfns:
        with ParamStats(pf) as ps:
            exp[str(pf)] = json.loads(json.dumps(jsonable(ps.stats())))
    if got is None or sorted(got) != sorted(exp) or not all(same_json(got[k2], exp[k2]) for k2 in exp):
        run.add_violation('stats JSON report differs from the API result', dict(files=[str(p_) for p_ in pfns]),
                          observed=dict(exit=r.exit_code, json_keys=None if got is None else sorted(got), api_keys=sorted(exp)),
                          signature=dict(kind='cli-json', tool='stats'))
    cj = run.work / 'multi_cmp.json'
    c0, c1 = run.work / 'multi0' / 'c.tif', run.work / 'multi1' / 'c.tif'
    r = CliRunner().invoke(hcli.cli, ['compare', str(c0), str(c1), str(pair['ref_fn']), '-op', str(cj)])
    run.count_case(('compare-multi',), True, None)
    got = json.load(open(cj)) if r.exit_code == 0 and cj.exists() else None
    exp = {}
    for cf_ in (c0, c1):
        with RasterCompare(cf_, pair['ref_fn']) as rc:
            exp[str(cf_)] = json.loads(json.dumps(jsonable(rc.process())))
    okm = got is not None and sorted(k2 for k2 in got if k2 != 'Reference') == sorted(exp) and got.get('Reference') == str(pair['ref_fn']) and all(
        got[k2].keys() == exp[k2].keys() and all(abs(got[k2][b][f] - exp[k2][b][f]) <= 1e-4 * (1 + abs(exp[k2][b][f])) or
                                                 (math.isnan(got[k2][b][f]) and math.isnan(exp[k2][b][f])) for b in exp[k2] for f in exp[k2][b]) for k2 in exp)
    if not okm:
        run.add_violation('compare JSON report differs from the API result', dict(files=[str(c0), str(c1)]),
                          observed=dict(exit=r.exit_code, json_keys=None if got is None else sorted(got)), signature=dict(kind='cli-json', tool='compare'))
    # ---- several SOURCE files in one fuse invocation: every file gets the outputs the API call with the same settings gives for that file alone
    #      (the command builds its dictionaries once and re-uses them for every file)
    for trial, (dt, nd, with_pi) in enumerate([('int16', -32768, True), ('uint8', 255, True), ('uint16', 0, False)][:run.scale(2, 3)]):
        g2, pair_a, mbm2, _nb = fz.workable_pair(run.work, rng, lambda r: synth.aligned_geom(r, 24), (3, 5), 1, tag=f'ma{trial}')
        src_b = run.work / f'mb{trial}_src.tif'
        synth.write_tif(src_b, (pair_a['src'][:, ::-1, :] * 0.5 + 20).astype('float32'), g2.src_transform, mask=pair_a['smask'][::-1, :])
        srcs = [pair_a['src_fn'], src_b]
        od = run.work / f'multifuse{trial}'
        od.mkdir()
        args = ['fuse', '-m', 'gain-offset', '-k', '3', '5', '-od', str(od), '-nbo', '--dtype', dt, '--nodata', str(nd)] + (['-pi'] if with_pi else []) + \
            [str(p_) for p_ in srcs] + [str(pair_a['ref_fn'])]
        r = CliRunner().invoke(hcli.cli, args)
        run.count_case(('fuse-multi', trial), True, None)
        desc = dict(args=[a if len(a) < 60 else '...' + a[-30:] for a in args], files=len(srcs))
        if r.exit_code != 0:
            run.add_violation('CLI fuse failed for a valid option combination', desc, observed=dict(exit_code=r.exit_code, output=r.output[-300:]), signature=dict(kind='cli-fails'))
            continue
        problems = {}
        for fi, sfn in enumerate(srcs):
            ad = run.work / f'multifuse_api{trial}_{fi}'
            ad.mkdir()
            with RasterFuse(sfn, pair_a['ref_fn']) as rf:
                name = sfn.stem + utils.create_out_postfix(rf.proc_crs, model='gain-offset', kernel_shape=(3, 5), driver='GTiff')
                api_corr = ad / name
                api_param = utils.create_param_filename(api_corr) if with_pi else None
                rf.process(api_corr, Model('gain-offset'), (3, 5), param_filename=api_param, build_ovw=False, out_profile=dict(driver='GTiff', dtype=dt, nodata=float(nd)))
            cli_corr = od / name
            if not cli_corr.exists():
                problems[f'file {fi}: CLI output missing'] = sorted(p_.name for p_ in od.iterdir())
                continue
            a, b = fz.read_all(cli_corr), fz.read_all(api_corr)
            if a['dtype'] != b['dtype'] or a['nodata'] != b['nodata']:
                problems[f'file {fi}: dtype / nodata differ'] = [a['dtype'], a['nodata'], b['dtype'], b['nodata']]
            elif not fz.same_arrays(a['array'], b['array']) or not np.array_equal(a['mask'], b['mask']):
                problems[f'file {fi}: corrected pixels differ'] = fz.first_diff(a['array'], b['array'])
            if with_pi:
                pa, pb = fz.read_all(utils.create_param_filename(cli_corr)), fz.read_all(api_param)
                if pa['dtype'] != pb['dtype'] or not fz.same_arrays(pa['array'], pb['array']):
                    problems[f'file {fi}: parameter image differs'] = fz.first_diff(pa['array'], pb['array'])
        if problems:
            run.add_violation('CLI run differs from the API call with the same settings', desc, observed=problems,
                              signature=dict(kind='cli-vs-api', parts=sorted(kk.split(': ')[1] for kk in problems)))
    # ---- ... also when the files differ in resolution (one finer, one coarser than the reference) and in band layout
    from harness import impl_multi as im
    files = im.make_files(run.work, rng)
    for oi, order in enumerate([('fine3', 'coarse4', 'fine4'), ('coarse4', 'fine3')][:run.scale(2, 2)]):
        od = run.work / f'mixfuse{oi}'
        od.mkdir()
        code, outp, seen = im.cli_fuse([files[k_] for k_ in order], files['ref'], od, extra=['-pi', '-m', 'gain-offset'])
        run.count_case(('fuse-mixed', oi), True, None)
        problems = {}
        if code != 0:
            problems['exit code'] = dict(code=code, output=outp[-300:])
        for fi, k_ in enumerate(order):
            sfn = files[k_]
            ad = run.work / f'mixfuse_api{oi}_{fi}'
            ad.mkdir()
            with RasterFuse(sfn, files['ref']) as rf:
                name = sfn.stem + utils.create_out_postfix(rf.proc_crs, model='gain-offset', kernel_shape=(3, 3), driver='GTiff')
                api_corr = ad / name
                rf.process(api_corr, Model('gain-offset'), (3, 3), param_filename=utils.create_param_filename(api_corr), build_ovw=False)
            cli_corr = od / name
            if not cli_corr.exists():
                problems[f'{k_}: CLI output missing'] = sorted(p_.name for p_ in od.iterdir())[:8]
                continue
            a, b = fz.read_all(cli_corr), fz.read_all(api_corr)
            if a['array'].shape != b['array'].shape or not fz.same_arrays(a['array'], b['array']):
                problems[f'{k_}: corrected pixels differ'] = fz.first_diff(a['array'], b['array'])
            pa, pb = fz.read_all(utils.create_param_filename(cli_corr)), fz.read_all(utils.create_param_filename(api_corr))
            if pa['array'].shape != pb['array'].shape or not fz.same_arrays(pa['array'], pb['array']):
                problems[f'{k_}: parameter image differs'] = fz.first_diff(pa['array'], pb['array'])
        if problems:
            run.add_violation('CLI run differs from the API call with the same settings', dict(files=list(order), args=['fuse', '-pi', '-m', 'gain-offset', '-k', '3', '3']),
                              observed=problems, signature=dict(kind='cli-vs-api', parts=sorted({kk.split(': ')[-1] for kk in problems})))
    # ---- flags that do not show in small outputs (overviews are only built for images of 512 px and more): what the command hands to process()
    seen = []
    orig_process = RasterFuse.process

    def spy(self, *a, **kw):
        seen.append(dict(kw, n_positional=len(a)))
        return orig_process(self, *a, **kw)
    RasterFuse.process = spy
    try:
        for flags, want in ((['-nbo'], dict(build_ovw=False, overwrite=False)), ([], dict(build_ovw=True, overwrite=False)),
                            (['-o', '-nbo'], dict(build_ovw=False, overwrite=True)), (['-o'], dict(build_ovw=True, overwrite=True))):
            od = run.work / ('flags' + ''.join(flags).replace('-', '_'))
            od.mkdir()
            del seen[:]
            r = CliRunner().invoke(hcli.cli, ['fuse', '-k', '3', '3', '-od', str(od)] + flags + [str(pair['src_fn']), str(pair['ref_fn'])])      # (the pair was drawn workable for a 3 x 3 kernel)
            run.count_case(('flags', tuple(flags)), True, None)
            got = {k2: seen[-1].get(k2) for k2 in want} if seen else None
            if r.exit_code != 0 or got != want:
                run.add_violation('CLI run differs from the API call with the same settings', dict(args=['fuse'] + flags),
                                  expected=want, observed=dict(exit=r.exit_code, passed_to_process=got), signature=dict(kind='cli-flags'))
    finally:
        RasterFuse.process = orig_process
    # ---- precedence and unknown keys (effective value read back from the FUSE_* tags)
    g, pair, mbm, nblk = fz.workable_pair(run.work, rng, lambda r: synth.aligned_geom(r, 24), (3, 3), 1, tag='m')
    trials = [('upsampling', 'nearest', 'bilinear', 'cubic_spline', '-us'), ('downsampling', 'bilinear', 'nearest', 'average', '-ds'),
              ('r2_inpaint_thresh', 0.5, 0.75, 0.25, '-rit'), ('max_block_mem', 50.0, 70.0, 100, '-mbm'), ('threads', 2, 3, None, '-t')]
    n = 0
    for (key, cli_v, conf_v, default_v, fl) in trials:
        for from_cli in (False, True):
            for in_conf in (False, True):
                od = run.work / f'prec{n}'
                od.mkdir()
                n += 1
                args = ['fuse', '-m', 'gain', '-k', '3', '3', '-od', str(od), '-nbo']
                if from_cli:
                    args += [fl, str(cli_v)]
                if in_conf:
                    cf = run.work / f'prec{n}.yaml'
                    cf.write_text(yaml.safe_dump({key: conf_v}))
                    args += ['-c', str(cf)]
                args += [str(pair['src_fn']), str(pair['ref_fn'])]
                r = CliRunner().invoke(hcli.cli, args)
                outs = list(od.glob('*.tif'))
                desc = dict(option=key, on_command_line=from_cli, in_config_file=in_conf, args=args[-6:])
                run.count_case(('prec', key, from_cli, in_conf), from_cli and in_conf, desc if n < 3 else None)
                if r.exit_code != 0 or not outs:
                    run.add_violation('CLI failed in a precedence trial', desc, observed=r.output[-300:], signature=dict(kind='cli-fails'))
                    continue
                tag = fz.read_all(outs[0])['tags'].get('FUSE_' + key.upper())
                def same(t, v):
                    try:
                        return float(t) == float(v)
                    except (TypeError, ValueError):
                        return str(t) == str(v)
                src = 2 if same(tag, cli_v) else 1 if same(tag, conf_v) else 0 if (default_v is None or same(tag, default_v)) else -1
                exp = 2 if from_cli else (1 if in_conf else 0)
                if src != exp:
                    run.add_violation('option precedence violated (command line > configuration file > default)', desc,
                                      observed=dict(effective=tag), signature=dict(kind='cli-precedence', option=key))
                merge_cases.append([float(from_cli), 0.0, float(in_conf), float(src)])
                merge_metas.append(desc)
    # --nodata null on the command line versus a configuration-file value
    od = run.work / 'precnull'
    od.mkdir()
    cf = run.work / 'precnull.yaml'
    cf.write_text(yaml.safe_dump({'nodata': '7', 'dtype': 'uint8'}))
    r = CliRunner().invoke(hcli.cli, ['fuse', '-m', 'gain', '-k', '3', '3', '-od', str(od), '-nbo', '--nodata', 'null', '-c', str(cf), str(pair['src_fn']), str(pair['ref_fn'])])
    outs = list(od.glob('*.tif'))
    if r.exit_code == 0 and outs:
        nd = fz.read_all(outs[0])['nodata']
        obs = 3 if nd is None else 1
        run.count_case(('prec', 'nodata-null'), True, None)
        merge_cases.append([1.0, 1.0, 1.0, float(obs)])
        merge_metas.append(dict(option='nodata', cli='null', conf='7', effective=nd))
        if nd is not None:
            run.add_violation('a command-line value is overridden by the configuration file', dict(option='--nodata null', conf=dict(nodata='7')),
                              expected='nodata null (internal mask)', observed=dict(effective_nodata=nd), signature=dict(kind='cli-precedence-null', option='nodata'))
    # unknown configuration keys - whatever their value (a number, null / blank, a nested dictionary)
    for ui, bad_conf in enumerate([{'max_blok_mem': 1.0}, {'mask_partail': None}, {'creation_option': {'compress': 'lzw'}}, {'threads': 1, 'nodat': None}]):
        cf = run.work / f'unknown{ui}.yaml'
        cf.write_text(yaml.safe_dump(bad_conf))
        od = run.work / f'unk{ui}'
        od.mkdir()
        r = CliRunner().invoke(hcli.cli, ['fuse', '-od', str(od), '-c', str(cf), str(pair['src_fn']), str(pair['ref_fn'])])
        run.count_case(('unknown-key', ui), True, None)
        if r.exit_code == 0 or list(od.glob('*.tif')):
            run.add_violation('an unknown configuration key was not rejected', dict(conf=bad_conf), observed=dict(exit_code=r.exit_code),
                              signature=dict(kind='cli-unknown-key'))
    failing, nt = run.corr('merge', 'Corr.CheckC19', merge_cases)
    for k2 in failing[:5]:
        run.add_break('correspondence-break', 'effective option source differs from Cli.Merge.merge1', dict(merge_metas[k2], case=merge_cases[k2]))
    run.cov['rule'] = ('CliRunner invocations of fuse (random model, non-square kernels, band selections, threads, block size, resampling, in-paint threshold, '
                       'dtype / nodata / creation options, parameter image, each advanced option through the configuration file with probability 0.4) '
                       'versus the API call with the same settings: output name, pixels, masks, dtype / nodata, FUSE_* tags, parameter image; compare / '
                       'stats JSON versus API; all 4 source combinations for 5 options; unknown key; non-trivial = non-square kernel or configuration file')
    run.extra['input_distribution'] = dict(runs=dist, merge_cases=len(merge_cases), model_nontrivial=nt)
    run.trusted += ['click option parsing; translate/cli_surface.py (introspection of the imported module)']
    run.finish()


if __name__ == '__main__':
    Run('C19').guard(body)
