#!/venv/bin/python
"""C14 - the parameter image is the model that was applied."""
import sys
from pathlib import Path
sys.path.insert(0, str(Path(__file__).resolve().parents[1]))
from harness.core import Run  # noqa: E402
from harness import synth, impl_stats as st, impl_fuse as fz, impl_kernel as ik  # noqa: E402
import numpy as np  # noqa: E402

GAINS = [1.0, 0.5, 2.5, 4.0]
NAN = float('nan')


def label_code(desc):
    d = (desc or '').upper()
    return 0 if d.endswith('_GAIN') else 1 if d.endswith('_OFFSET') else 2 if d.endswith('_R2') else 9


def body(run):
    run.build(extra_targets=['theories/Corr/CheckC14.v'])
    rng = run.rng('layout')
    from homonim import utils, ParamStats
    cases, metas, dist = [], [], {}
    for k in range(run.scale(36, 500)):
        nb = rng.choice([1, 2, 3, 4])
        family = rng.choice(['same', 'avg2'])
        pair = st.make_compare_pair(run.work, rng, family, nbands=1)
        ph, pw = pair['pm'].shape
        # identical source bands, reference band b = GAINS[b] * one texture: the fitted gain / offset of matched band i carry the factor
        # of ITS reference band, so the band that holds them can be found by content
        src = np.repeat(pair['src'], nb, axis=0)
        tex = pair['ref'][0] + 5
        ref = np.stack([tex * np.float32(GAINS[b]) for b in range(nb)])
        sfn, rfn = run.work / 'l_src.tif', run.work / 'l_ref.tif'
        synth.write_tif(sfn, src, pair['geom'].src_transform, mask=pair['smask'])
        synth.write_tif(rfn, ref, pair['geom'].ref_transform, mask=pair['rmask'])
        sb = rng.sample(range(1, nb + 1), rng.randint(1, nb)) if rng.random() < 0.6 else list(range(1, nb + 1))
        if k % 4 == 1:
            # every source band, in an order that is not the file order (a rotation): the position of a matched band differs from its file index
            nb = max(nb, 2)
            src = np.repeat(pair['src'], nb, axis=0)
            ref = np.stack([tex * np.float32(GAINS[b]) for b in range(nb)])
            synth.write_tif(sfn, src, pair['geom'].src_transform, mask=pair['smask'])
            synth.write_tif(rfn, ref, pair['geom'].ref_transform, mask=pair['rmask'])
            rot = rng.randint(1, nb - 1)
            sb = [(j + rot) % nb + 1 for j in range(nb)]
        rb = rng.sample(range(1, nb + 1), len(sb))
        model = ik.MODELS[k % 3]
        proc = rng.choice(['auto', 'auto', 'src'])
        kshape = rng.choice([(3, 3), (1, 3), (3, 5)])
        try:
            mbm, nblk = fz.pick_block_mem(sfn, rfn, proc, rng.choice([1, 4, 9]), kshape)
        except Exception:
            mbm, nblk = 1e6, 1
        desc = dict(family=family, geom=pair['geom'].describe(), bands=nb, src_bands=sb, ref_bands=rb, model=model, proc_crs=proc, kernel_shape=list(kshape),
                    max_block_mem=mbm, blocks=nblk)
        res = fz.fuse(sfn, rfn, run.work / 'l_out.tif', model=model, kernel_shape=kshape, proc_crs=proc, max_block_mem=mbm, src_bands=sb, ref_bands=rb,
                      force=True, model_config=dict(r2_inpaint_thresh=None, upsampling='nearest'), out_profile=dict(dtype='float32', nodata=NAN))
        n = len(sb)
        P = res['param']
        key = f'{model}/bands={n}/{res["proc_crs"]}'
        dist[key] = dist.get(key, 0) + 1
        run.count_case((k,), n >= 2, desc if len(run.cov['samples']) < 3 else None)
        labels = [label_code(d) for d in P['descriptions']]
        try:
            utils.validate_param_image(run.work / 'l_out_PARAM.tif')
            with ParamStats(run.work / 'l_out_PARAM.tif') as ps:
                ps.stats(threads=1)
            acc = 1
        except Exception as ex:
            acc = 0
            desc['validator_error'] = f'{type(ex).__name__}: {str(ex)[:120]}'
        # where are gain / offset of matched band i?  (by content: factor GAINS[rb[i]-1] relative to a unit-gain reference)
        means = [float(np.nanmean(P['array'][j])) if np.isfinite(P['array'][j]).any() else NAN for j in range(P['count'])]
        found = []
        for i in range(n):
            fac = GAINS[rb[i] - 1]
            for kk in range(3):
                hit = 0
                if kk < 2 and (kk == 0 or model == 'gain-offset'):
                    # candidates whose mean / factor equals the mean of the corresponding band of the unit-gain band (factor 1) if present
                    base = [j for j in range(P['count']) if labels[j] == kk]
                    cands = []
                    for j in base:
                        others = [means[j2] / GAINS[rb[i2] - 1] for i2 in range(n) for j2 in [i2 + kk * n] if j2 < P['count']]
                        ref_level = np.nanmedian(others) if others else NAN
                        if np.isfinite(means[j]) and np.isfinite(ref_level) and abs(ref_level) > 1e-6 and abs(means[j] / fac - ref_level) <= 2e-3 * abs(ref_level):
                            cands.append(j + 1)
                    # unique identification only when the factors of the selected reference bands are pairwise distinct
                    if len(set(GAINS[b - 1] for b in rb)) == n and len(cands) == 1:
                        hit = cands[0]
                found.append(hit)
        cases.append([float(x) for x in [n, P['count'], *labels, acc, *found]])
        metas.append(dict(desc, labels=labels, band_means=means, found=found))
        problems = {}

        def mask_problem(got, exp, jm_foot, r_off, c_off):
            """parameter mask must equal the joint mask, except where a gain-offset window is degenerate (fewer than two jointly
            valid pixels or a constant source: the OLS denominator is 0 and the parameters are NaN - excluded by C01's hypotheses)"""
            if np.array_equal(got, exp):
                return None
            if (got & ~exp).any():
                return dict(invented=[int(x) for x in np.argwhere(got & ~exp)[0]])
            if model != 'gain-offset':
                return dict(lost=[int(x) for x in np.argwhere(exp & ~got)[0]])
            s_proc = pair['src'][0].reshape(ph, pair['ratio'], pw, pair['ratio']).mean(axis=(1, 3))
            for (r, c) in np.argwhere(exp & ~got):
                pr, pc = r - r_off, c - c_off
                vals = [s_proc[u, v] for u in range(pr - kshape[0] // 2, pr + kshape[0] // 2 + 1) for v in range(pc - kshape[1] // 2, pc + kshape[1] // 2 + 1)
                        if 0 <= u < ph and 0 <= v < pw and jm_foot[u, v]]
                if len(vals) >= 2 and len(set(vals)) > 1:
                    return dict(lost=[int(r), int(c)], window_values=[float(v) for v in vals])
            return None
        if P['count'] != 3 * n or res['corr']['count'] != n:
            problems['band counts'] = [res['corr']['count'], P['count']]
        # mask = joint mask on the processing grid (no partial masking)
        if res['proc_crs'] == 'ref':
            off = pair['off']
            exp = np.zeros(pair['geom'].ref_shape, bool)
            exp[off[0]:off[0] + ph, off[1]:off[1] + pw] = pair['pm']
            exp &= pair['rmask']
            mp = mask_problem(P['mask'], exp, exp[off[0]:off[0] + ph, off[1]:off[1] + pw], off[0], off[1])
            if mp:
                problems['parameter mask differs from the joint mask'] = mp
        elif family == 'same':
            # source grid = a window of the reference grid: corrected == gain * source + offset in float32, exactly, and same-grid masks
            off = pair['off']
            exp = pair['smask'] & pair['rmask'][off[0]:off[0] + ph, off[1]:off[1] + pw]
            mp = mask_problem(P['mask'], exp, exp, 0, 0)
            if mp:
                problems['parameter mask differs from the joint mask'] = mp
            for i in range(n):
                g, o = P['array'][i], P['array'][n + i]
                s = np.where(pair['smask'], src[sb[i] - 1], np.float32(NAN))
                with np.errstate(all='ignore'):
                    expc = g * s + o
                if not fz.same_arrays(res['corr']['array'][i], expc):
                    problems[f'corrected band {i + 1} != gain * source + offset'] = fz.first_diff(res['corr']['array'][i], expc)
        # the third band group holds R2 = 1 - RSS / TSS of the applied (gain, offset) over the kernel window (float64 re-computation, loose tolerance:
        # this is about the band being there and being the R2 of THIS band pair, the exact formula is C01's)
        XY = None
        if res['proc_crs'] == 'ref':
            off = pair['off']
            s_proc = pair['src'][0].reshape(ph, pair['ratio'], pw, pair['ratio']).mean(axis=(1, 3)).astype('float64')
            X = np.full(pair['geom'].ref_shape, NAN)
            X[off[0]:off[0] + ph, off[1]:off[1] + pw] = np.where(pair['pm'], s_proc, NAN)
            XY = (X, lambda b: np.where(pair['rmask'], ref[b].astype('float64'), NAN))
        elif family == 'same':
            off = pair['off']
            XY = (np.where(pair['smask'], pair['src'][0].astype('float64'), NAN),
                  lambda b: np.where(pair['rmask'], ref[b].astype('float64'), NAN)[off[0]:off[0] + ph, off[1]:off[1] + pw])
        if XY is not None and P['count'] == 3 * n:
            X = XY[0]
            for i in range(n):
                Y = XY[1](rb[i] - 1)
                G, O, R2 = (P['array'][i].astype('float64'), P['array'][n + i].astype('float64'), P['array'][2 * n + i].astype('float64'))
                jm = ~np.isnan(X) & ~np.isnan(Y)
                worst = None
                n_expected = n_present = 0
                for (r, c) in np.argwhere(jm & np.isfinite(G) & np.isfinite(O)):
                    r0, r1 = max(0, r - kshape[0] // 2), min(X.shape[0], r + kshape[0] // 2 + 1)
                    c0, c1 = max(0, c - kshape[1] // 2), min(X.shape[1], c + kshape[1] // 2 + 1)
                    w = jm[r0:r1, c0:c1]
                    xs, ys = X[r0:r1, c0:c1][w], Y[r0:r1, c0:c1][w]
                    tss = float(((ys - ys.mean()) ** 2).sum())
                    if len(ys) < 3 or tss < 1.0 * len(ys):
                        continue           # ill-conditioned window: not judged
                    n_expected += 1
                    if not np.isfinite(R2[r, c]):
                        continue
                    n_present += 1
                    r2 = 1.0 - float(((ys - (G[r, c] * xs + O[r, c])) ** 2).sum()) / tss
                    if abs(R2[r, c] - r2) > 5e-3 * (1 + abs(r2)) and worst is None:
                        worst = dict(band=2 * n + i + 1, pixel=[int(r), int(c)], stored=float(R2[r, c]), recomputed=r2)
                if n_expected and n_present < n_expected:
                    problems[f'R2 band {2 * n + i + 1} is missing values'] = dict(expected_pixels=n_expected, finite_pixels=n_present)
                elif worst:
                    problems['R2 band differs from 1 - RSS / TSS of the stored gain and offset'] = worst
        # the band that holds gain / offset of matched band i (identified by content above) must be band i + 1 / n + i + 1
        for i in range(n):
            for kk in range(2):
                j = found[3 * i + kk] if 3 * i + kk < len(found) else 0
                if j and j != kk * n + i + 1:
                    problems[f"{'gain' if kk == 0 else 'offset'} of matched band {i + 1} (source band {sb[i]}, reference band {rb[i]})"] = dict(found_in_band=j, expected_band=kk * n + i + 1)
        if not acc:
            problems['rejected by validate_param_image / ParamStats'] = desc.get('validator_error')
        if problems:
            run.add_violation('parameter image does not describe the applied model', desc, observed=problems, signature=dict(kind='layout', parts=sorted(problems)))
    # ---- every parameter BAND is valid only where both images are (also with in-painting on: fillnodata fills the offsets of rejected pixels, it
    #      must not create offsets where the reference is invalid), on both processing grids, for every model
    for k in range(run.scale(12, 80)):
        family = ['same', 'avg2'][k % 2]
        pair = st.make_compare_pair(run.work, rng, family, nbands=1)
        ph, pw = pair['pm'].shape
        off = pair['off']
        rmask = pair['rmask'].copy()
        # reference holes INSIDE the source footprint (a masked cloud, say)
        for _ in range(rng.randint(1, 3)):
            r0, c0 = off[0] + rng.randrange(ph), off[1] + rng.randrange(pw)
            rmask[r0:r0 + rng.randint(1, 3), c0:c0 + rng.randint(1, 3)] = False
        sfn, rfn = run.work / 'pm_src.tif', run.work / 'pm_ref.tif'
        synth.write_tif(sfn, pair['src'], pair['geom'].src_transform, mask=pair['smask'])
        synth.write_tif(rfn, pair['ref'], pair['geom'].ref_transform, mask=rmask)
        model = ik.MODELS[k % 3]
        proc = 'src' if family == 'same' and k % 4 < 2 else 'auto'
        thresh = rng.choice([0.25, 0.6, 0.9]) if model == 'gain-offset' else None
        kshape = rng.choice([(3, 3), (1, 3), (3, 5)])
        try:
            mbm, nblk = fz.pick_block_mem(sfn, rfn, proc, rng.choice([1, 4]), kshape)
        except Exception:
            mbm, nblk = 1e6, 1
        res = fz.fuse(sfn, rfn, run.work / 'pm_out.tif', model=model, kernel_shape=kshape, proc_crs=proc, max_block_mem=mbm,
                      model_config=dict(r2_inpaint_thresh=thresh, upsampling='nearest'), out_profile=dict(dtype='float32', nodata=NAN))
        P = res['param']
        if res['proc_crs'] == 'ref':
            joint = np.zeros(pair['geom'].ref_shape, bool)
            joint[off[0]:off[0] + ph, off[1]:off[1] + pw] = pair['pm']
            joint &= rmask
        elif family == 'same':
            joint = pair['smask'] & rmask[off[0]:off[0] + ph, off[1]:off[1] + pw]
        else:
            continue
        desc = dict(family=family, geom=pair['geom'].describe(), model=model, proc_crs=res['proc_crs'], r2_inpaint_thresh=thresh, kernel_shape=list(kshape),
                    blocks=nblk, reference_holes_inside_source=True)
        key = f'band-masks/{model}/{res["proc_crs"]}/inpaint={thresh is not None}'
        dist[key] = dist.get(key, 0) + 1
        run.count_case(('pm', k), True, desc if k < 2 else None)
        problems = {}
        names = ['gain', 'offset', 'r2']
        for j in range(P['count']):
            bm = np.isfinite(P['array'][j])
            if bm.shape == joint.shape and (bm & ~joint).any():
                problems[f'{names[j]} band valid where source or reference is not'] = [int(x) for x in np.argwhere(bm & ~joint)[0]]
        if P['array'].shape[1:] == joint.shape and (P['mask'] & ~joint).any():
            problems['parameter mask larger than the joint mask'] = [int(x) for x in np.argwhere(P['mask'] & ~joint)[0]]
        if problems:
            run.add_violation('parameter image is not the model that was applied', desc, observed=problems, signature=dict(kind='layout-e2e', parts=sorted(problems)))
    # ---- a large source (> 1000 px) whose valid data are a solid area plus thin isolated slivers far away from it: the parameter image is valid
    #      wherever both images are - nothing may be decided from a decimated look at the source
    for k in range(run.scale(1, 3)):
        ratio = 2
        ph, pw = 540 + 30 * rng.randint(0, 2), 300 + 30 * rng.randint(0, 2)
        g = synth.Geom(1.0, ratio, 16.0, 48.0, (ph + 6, pw + 6), (3, 3), (ph * ratio, pw * ratio))
        sm = np.zeros(g.src_shape, bool)
        Hs, Ws = g.src_shape
        sm[Hs // 2 - 100:Hs // 2 + 100, Ws // 2 - 100:Ws // 2 + 100] = True
        # one-pixel slivers at the four extremes, far from the solid area, on rows / columns of different residues (whatever a decimation samples,
        # it misses some of them)
        sm[10 + k % 3, Ws // 2 - 40:Ws // 2 + 40] = True
        sm[Hs - 12 - k % 3, Ws // 2 - 40:Ws // 2 + 40] = True
        sm[Hs // 2 - 40:Hs // 2 + 40, 11 + k % 3] = True
        sm[Hs // 2 - 40:Hs // 2 + 40, Ws - 10 - k % 3] = True
        yy, xx = np.mgrid[0:g.src_shape[0], 0:g.src_shape[1]]
        src = (40 + 0.01 * yy + 0.02 * xx + (yy % 7) + (xx % 5)).astype('float32')[None]
        ref = (60 + 0.02 * np.add.outer(np.arange(g.ref_shape[0]), 2 * np.arange(g.ref_shape[1])) +
               np.add.outer(np.arange(g.ref_shape[0]) % 5, np.arange(g.ref_shape[1]) % 3)).astype('float32')[None]
        pair = fz.make_pair(run.work, g, rng, src=src, ref=ref, smask=sm, tag='big')
        mbm, nblk = fz.pick_block_mem(pair['src_fn'], pair['ref_fn'], 'auto', 16, (3, 3))
        res = fz.fuse(pair['src_fn'], pair['ref_fn'], run.work / 'big_out.tif', model='gain', kernel_shape=(3, 3), proc_crs='auto', max_block_mem=mbm, threads=2,
                      model_config=dict(upsampling='nearest'), out_profile=dict(dtype='float32', nodata=NAN))
        joint = np.zeros(g.ref_shape, bool)
        joint[3:3 + ph, 3:3 + pw] = sm.reshape(ph, ratio, pw, ratio).any(axis=(1, 3))
        P = res['param']
        desc = dict(geom=g.describe(), model='gain', blocks=nblk, max_block_mem=mbm, source_mask='solid area + four one-pixel slivers at the extremes')
        dist['large-source/gain'] = dist.get('large-source/gain', 0) + 1
        run.count_case(('big', k), True, desc if k < 1 else None)
        gain_valid = np.isfinite(P['array'][0])
        problems = {}
        if (joint & ~gain_valid).any():
            problems['gain band invalid where both images are valid'] = dict(pixel=[int(x) for x in np.argwhere(joint & ~gain_valid)[0]], n=int((joint & ~gain_valid).sum()))
        if (gain_valid & ~joint).any():
            problems['gain band valid where source or reference is not'] = [int(x) for x in np.argwhere(gain_valid & ~joint)[0]]
        if problems:
            run.add_violation('parameter image is not the model that was applied', desc, observed=problems, signature=dict(kind='layout-e2e', parts=sorted(problems)))
    # ---- bands with different footprints: the parameter bands of EACH band are valid wherever that band of the source and the reference are (a
    #      block that is empty in one band is not empty in the next)
    from harness import impl_e2e as e2e
    for k in range(run.scale(3, 12)):
        model = ['gain', 'gain-offset', 'gain-blk-offset'][k % 3]
        bc = e2e.band_footprints_case(run.work, rng, model=model, tag='bf', threads=[1, 2][k % 2])
        P = bc['res']['param']
        dist['band-footprints/' + model] = dist.get('band-footprints/' + model, 0) + 1
        run.count_case(('bf', k), True, bc['desc'] if k < 1 else None)
        problems = {}
        for b in range(2):
            gv = np.isfinite(P['array'][b]) if P['count'] >= 2 else None
            if gv is None or gv.shape != bc['valid'][b].shape:
                problems['parameter image shape'] = [P['count'], list(P['array'].shape)]
                break
            lost = bc['valid'][b] & ~gv
            if model == 'gain-offset':
                # (a window with fewer than two valid pixels has no gain-offset solution: D13, not judged here - band 1's border column only)
                pad = np.pad(bc['valid'][b], 1)
                cnt = sum(pad[i:i + gv.shape[0], j:j + gv.shape[1]].astype(int) for i in range(3) for j in range(3))
                lost &= cnt >= 2
            if lost.any():
                problems[f'gain of band {b + 1} invalid where source band {b + 1} and the reference are valid'] = dict(pixel=[int(x) for x in np.argwhere(lost)[0]], n=int(lost.sum()))
            if (gv & ~bc['valid'][b]).any():
                problems[f'gain of band {b + 1} valid where source band {b + 1} is not'] = [int(x) for x in np.argwhere(gv & ~bc['valid'][b])[0]]
        if problems:
            run.add_violation('parameter image is not the model that was applied', bc['desc'], observed=problems, signature=dict(kind='layout-e2e', parts=sorted(problems)))
    failing, nt = run.corr('layout', 'Corr.CheckC14', cases)
    for k in failing[:5]:
        run.add_break('correspondence-break', 'parameter image band layout / labels differ from Grid.Layout (param_index, label_of, validator)', metas[k])
    run.cov['rule'] = ('real fusions of 1..4 identical source bands against reference bands scaled by distinct factors, with permuted band selections, '
                       '3 models, both grids, 1..9 blocks: description suffix of every parameter band, acceptance by validate_param_image + ParamStats, '
                       'the band holding gain / offset of matched band i (identified by its factor) checked in Coq against param_index; parameter '
                       'mask = joint mask; R2 band = 1 - RSS / TSS of the stored gain and offset (float64 re-computation, 5e-3); on the source grid corrected == gain * source + offset bit for bit; non-trivial = >= 2 matched bands')
    run.extra['input_distribution'] = dict(runs=dist, model_nontrivial=nt)
    run.trusted += ['GDAL nearest re-projection of parameters on aligned grids; band descriptions / tags I/O']
    run.finish()


if __name__ == '__main__':
    Run('C14').guard(body)
