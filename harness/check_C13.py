#!/venv/bin/python
"""C13 - output encoding is transparent: rounding, saturation and masks only."""
import math
import sys
from pathlib import Path
sys.path.insert(0, str(Path(__file__).resolve().parents[1]))
from harness.core import Run  # noqa: E402
from harness import synth, impl_fuse as fz, impl_kernel as ik  # noqa: E402
import numpy as np  # noqa: E402
import rasterio as rio  # noqa: E402
from rasterio.transform import Affine  # noqa: E402

DTYPES = ['uint8', 'int16', 'uint16', 'int32', 'uint32', 'float32', 'float64']
NAN = float('nan')
EDGE = [0.5, 1.5, 2.5, -0.5, -1.5, 254.5, 255.5, 255.4999, 32767.5, 65535.5, -32768.5, 1e10, -1e10, 3.4e38, -3.4e38, float('inf'),
        float('-inf'), 2147483647.0, 2147483648.0, 4294967295.0, 4294967296.0, 0.49999997, 127.5, 128.5, -0.49999997, 1e-30, 16777217.0]


def nodata_choices(dt, rng):
    info = np.iinfo(dt) if np.issubdtype(np.dtype(dt), np.integer) else None
    if info is None:
        return rng.choice([NAN, None, -9999.0, 0.0])
    return rng.choice([None, 0, int(info.max), int(info.min), 1, 7])


def convert_case(rng, work, k):
    """_convert_array_dtype on a small float32 array of edge values, and the same array written to / read back from a file."""
    from homonim.raster_array import RasterArray
    dt = DTYPES[k % 7]
    nodata = nodata_choices(dt, rng)
    n = 24
    vals = [rng.choice(EDGE) if rng.random() < 0.5 else rng.choice([rng.uniform(-300, 300), rng.uniform(-70000, 70000), rng.randint(-5, 300) + 0.5,
                                                                       float(rng.randint(0, 255))]) for _ in range(n)]
    arr = np.array(vals, dtype='float32').reshape(4, 6)
    arr[rng.randrange(4), rng.randrange(6)] = NAN
    arr[rng.randrange(4), rng.randrange(6)] = NAN
    ra = RasterArray(arr.copy(), synth.UTM, Affine(1, 0, 0, 0, -1, 0), nodata=NAN)
    with np.errstate(all='ignore'):
        out = ra._convert_array_dtype(dt, nodata=nodata)
    case1 = [DTYPES.index(dt), int(nodata is None), 0.0 if nodata is None else float(nodata), 0, n, *arr.ravel().astype('float64').tolist(),
             *np.asarray(out, dtype='float64').ravel().tolist(), *([-1.0] * n)]
    # through a file
    fn = work / 'enc.tif'
    prof = dict(driver='GTiff', width=6, height=4, count=1, dtype=dt, nodata=nodata, crs=synth.UTM, transform=Affine(1, 0, 0, 0, -1, 0))
    with rio.Env(GDAL_TIFF_INTERNAL_MASK=True), rio.open(fn, 'w', **prof) as ds:
        with np.errstate(all='ignore'):
            ra.to_rio_dataset(ds, indexes=1)
    with rio.open(fn) as ds:
        back = ds.read(1)
        valid = ds.dataset_mask() > 0
    mw = int(nodata is None)
    case2 = [DTYPES.index(dt), int(nodata is None), 0.0 if nodata is None else float(nodata), mw, n, *arr.ravel().astype('float64').tolist(),
             *np.asarray(back, dtype='float64').ravel().tolist(), *valid.astype(float).ravel().tolist()]
    desc = dict(dtype=dt, nodata=None if nodata is None else float(nodata), values=[float(v) for v in arr.ravel()])
    return [float(x) for x in case1], [float(x) for x in case2], desc, out, back, valid, arr, nodata


def direct_oracle(dt, nodata, arr, out, valid_back=None):
    """C13 per pixel from first principles (Python ints / fractions)."""
    from fractions import Fraction as F
    if not np.issubdtype(np.dtype(dt), np.integer):
        return None
    info = np.iinfo(dt)
    for v, o in zip(arr.ravel().tolist(), np.asarray(out).ravel().tolist()):
        if math.isnan(v):
            if nodata is not None and o != nodata:
                return f'invalid pixel holds {o}, not the nodata value {nodata}'
            continue
        if math.isinf(v):
            e = info.max if v > 0 else info.min
        else:
            q = F(v)
            fl = math.floor(q)
            r = q - fl
            e = fl if r < F(1, 2) else (fl + 1 if r > F(1, 2) else (fl if fl % 2 == 0 else fl + 1))
            e = max(info.min, min(info.max, e))
        if int(o) != e:
            return f'{v} -> {o}, expected {e} (round to nearest, saturate)'
    return None


def body(run):
    run.build(extra_targets=['theories/Corr/CheckC13.v'])
    rng = run.rng('dtype')
    cases, metas, dist = [], [], {}
    for k in range(run.scale(140, 3000)):
        c1, c2, desc, out, back, valid, arr, nodata = convert_case(rng, run.work, k)
        dist[desc['dtype']] = dist.get(desc['dtype'], 0) + 1
        run.count_case((k,), np.issubdtype(np.dtype(desc['dtype']), np.integer), desc if len(run.cov['samples']) < 3 else None)
        for which, o in (('array conversion', out), ('written file', back)):
            v = direct_oracle(desc['dtype'], nodata, arr, o)
            if v:
                run.add_violation(f'{which}: {v}', desc, signature=dict(kind='dtype', which=which, dtype=desc['dtype']))
        cases += [c1, c2]
        metas += [dict(desc, via='_convert_array_dtype'), dict(desc, via='to_rio_dataset + read back')]
    failing, nt = run.corr('dtype', 'Corr.CheckC13', cases, shard=150)
    for k in failing[:5]:
        run.add_break('correspondence-break', '_convert_array_dtype / to_rio_dataset differ from Enc.Dtype.convert_px / reads_valid', metas[k])
    # paired real fusions: float32 run versus every other output profile
    configs = []
    for dt in DTYPES[:5] + ['float64']:
        for co in [None, dict(tiled=True, blockxsize=16, blockysize=16, compress='deflate', interleave='band'),
                   dict(tiled=False, compress='lzw', interleave='pixel'), dict(tiled=False, compress='none')]:
            configs.append(dict(driver='GTiff', dtype=dt, creation_options=co))
    configs.append(dict(driver='PNG', dtype='uint8', creation_options=dict()))
    configs.append(dict(driver='PNG', dtype='uint16', creation_options=dict()))
    # drivers whose files are not pre-filled with nodata (a block that is never written reads back as 0): every invalid pixel must still carry nodata
    sparse_cfgs = [dict(driver='ENVI', dtype='int16', creation_options=dict(), nodata=-32768), dict(driver='ENVI', dtype='float32', creation_options=dict(), nodata=-9999.0),
                   dict(driver='ENVI', dtype='uint8', creation_options=dict(), nodata=255), dict(driver='GTiff', dtype='uint16', creation_options=None, nodata=65535),
                   dict(driver='GTiff', dtype='uint8', creation_options=dict(tiled=True, blockxsize=16, blockysize=16), nodata=255)]
    n_main = run.scale(5, 40)
    for k in range(n_main + run.scale(2, 10)):
        sparse = k >= n_main
        nbands = rng.choice([1, 3]) if not sparse else 1
        g, pair, mbm, nblk = fz.workable_pair(run.work, rng, lambda r: synth.random_geom(r, 30) if not sparse else synth.aligned_geom(r, 40), (3, 3),
                                              4 if not sparse else 12, tag='e', bands=nbands, smask=None)
        pair = fz.make_pair(run.work, g, rng, bands=nbands, smask=fz.src_mask(rng, g.src_shape, 'holes' if not sparse else 'empty-side'), tag='e')
        model = ik.MODELS[k % 3]
        scale = rng.choice([1.0, 3.0, 400.0, -1.0])       # push values over integer ranges / below zero
        ref = pair['ref'] * np.float32(scale)
        if k % 3 == 0 and not sparse:
            # a VALID area of zeros larger than the kernel (open water in a dark band): its kernel sums vanish, the gain is not finite there and the
            # corrected value is NaN - invalid in the float32 run, so invalid in every other encoding as well
            sh_ = g.src_shape
            r0_, c0_ = sh_[0] // 2 - 4, sh_[1] // 2 - 4
            pair['src'][:, max(0, r0_):r0_ + 8, max(0, c0_):c0_ + 8] = 0
        pair = fz.make_pair(run.work, g, rng, bands=nbands, src=pair['src'], ref=ref, smask=pair['smask'], tag='e')
        # every other group also writes the parameter image: it is float32 / NaN whatever the corrected image's profile says (C14: it holds
        # the parameters), so it must be identical across output profiles
        with_param = k % 2 == 0
        kw = dict(model=model, kernel_shape=(3, 3), max_block_mem=mbm, param=with_param)
        base = fz.fuse(pair['src_fn'], pair['ref_fn'], run.work / 'f32.tif', out_profile=dict(dtype='float32', nodata=NAN), **kw)
        fa, fm = base['corr']['array'], base['corr']['mask']
        for cfg in (rng.sample(configs, run.scale(7, 14)) if not sparse else sparse_cfgs):
            dt = cfg['dtype']
            nodata = nodata_choices(dt, rng) if not sparse else cfg['nodata']
            if cfg['driver'] == 'PNG' and nodata is not None:
                nodata = 0
            prof = dict(driver=cfg['driver'], dtype=dt, nodata=nodata)
            if cfg['creation_options'] is not None:
                prof['creation_options'] = cfg['creation_options']
            out_fn = run.work / ('enc_out.png' if cfg['driver'] == 'PNG' else 'enc_out.dat' if cfg['driver'] == 'ENVI' else 'enc_out.tif')
            desc = dict(geom=g.describe(), model=model, ref_scale=scale, bands=nbands, out_profile={k2: (None if v is None else v) for k2, v in prof.items()},
                        blocks=nblk)
            try:
                res = fz.fuse(pair['src_fn'], pair['ref_fn'], out_fn, out_profile=prof, **dict(kw, param=with_param and cfg['driver'] == 'GTiff'))
            except Exception as ex:
                run.add_violation('fusion failed for a supported output profile', desc, observed=f'{type(ex).__name__}: {str(ex)[:200]}',
                                  signature=dict(kind='dtype-profile-error', driver=cfg['driver'], dtype=dt))
                continue
            key = f'{cfg["driver"]}/{dt}/nodata={"null" if nodata is None else ("nan" if isinstance(nodata, float) and math.isnan(nodata) else nodata)}'
            dist[key] = dist.get(key, 0) + 1
            run.count_case((k, key, repr(cfg['creation_options'])), True, desc if len(run.cov['samples']) < 5 else None)
            oa = res['corr']['array']
            problems = {}
            if np.issubdtype(np.dtype(dt), np.integer):
                info = np.iinfo(dt)
                with np.errstate(all='ignore'):
                    exp = np.clip(np.round(fa.astype('float64')), info.min, info.max)
                validpx = np.broadcast_to(fm, fa.shape) & ~np.isnan(fa)
                bad = validpx & (oa.astype('float64') != exp)
                if bad.any():
                    i = tuple(int(x) for x in np.argwhere(bad)[0])
                    problems['valid pixel'] = dict(index=list(i), float32=float(fa[i]), written=float(oa[i]), expected=float(exp[i]))
                if nodata is not None:
                    inv = ~np.broadcast_to(fm, fa.shape)
                    if (oa[inv] != nodata).any():
                        problems['invalid pixel not nodata'] = True
                    lost = fm & ~res['corr']['mask']
                    coll = (exp == nodata).any(axis=0) if cfg['driver'] != 'PNG' else (exp == nodata).all(axis=0) | (exp == nodata).any(axis=0)
                    if (lost & ~coll).any():
                        problems['valid pixel lost without colliding with nodata'] = [int(x) for x in np.argwhere(lost & ~coll)[0]]
                else:
                    if not np.array_equal(res['corr']['mask'], fm):
                        problems['internal mask differs from the float run mask'] = True
            else:
                same = (oa.astype('float64') == fa.astype('float64')) | (np.isnan(oa) & np.isnan(fa))
                if nodata is None or (isinstance(nodata, float) and math.isnan(nodata)):
                    if not same.all():
                        problems['float output differs'] = fz.first_diff(oa, fa)
                else:
                    v = np.broadcast_to(fm, fa.shape)
                    if not same[v].all() or (oa[~v] != nodata).any():
                        problems['float output differs'] = True
            if res.get('param') is not None:
                if res['param']['dtype'] != 'float32' or not fz.same_arrays(res['param']['array'], base['param']['array']):
                    problems['parameter image depends on the output profile'] = dict(dtype=res['param']['dtype'], first_diff=fz.first_diff(res['param']['array'], base['param']['array']))
            if problems:
                run.add_violation('output encoding changes the numeric content', desc, observed=problems,
                                  signature=dict(kind='dtype-e2e', driver=cfg['driver'], dtype=dt, parts=sorted(problems)))
    run.cov['rule'] = ('_convert_array_dtype and write / read-back of edge values (x.5 ties, negatives, +-1e10, +-3.4e38, +-inf, NaN) for 7 dtypes x nodata '
                       '{null, 0, min, max, 1, 7, NaN, -9999}; plus paired real fusions: float32 run versus uint8/int16/uint16/int32/uint32/float64 x '
                       'GTiff tiled/striped, deflate/lzw/none, band/pixel interleave, PNG, nodata incl. null: each integer pixel must equal the clamped '
                       'rint of the float pixel exactly; non-trivial = integer target; distinct = distinct (values / geometry, profile)')
    run.extra['input_distribution'] = dict(runs=dist, model_nontrivial=nt)
    run.assumptions += ['H_codec: lossless drivers / creation options return what was written (lossy options are excluded by the property)']
    run.trusted += ['GDAL drivers and compression codecs; NumPy astype for in-range values']
    run.finish()


if __name__ == '__main__':
    Run('C13').guard(body)
