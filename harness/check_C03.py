#!/venv/bin/python
"""C03 - valid-data mask fidelity: no invented pixels, no lost pixels."""
import math
import sys
from pathlib import Path
sys.path.insert(0, str(Path(__file__).resolve().parents[1]))
from harness.core import Run  # noqa: E402
from harness import synth, impl_fuse as fz, impl_kernel as ik, impl_e2e as e2e  # noqa: E402
import numpy as np  # noqa: E402

NAN = float('nan')


def body(run):
    run.build(extra_targets=['theories/Corr/CheckC01.v'])
    rng = run.rng('mask')
    # (a) kernel model on positive data with masks: parameters exist exactly on the joint mask and are finite (in Coq, exact)
    todo = []
    for _ in range(run.scale(24, 400)):
        c = ik.gen_case(rng, maxdim=9)
        c['src'] = np.where(np.isnan(c['src']), np.nan, np.abs(c['src']) + 1).astype('float32')
        c['ref'] = np.where(np.isnan(c['ref']), np.nan, np.abs(c['ref']) + 1).astype('float32')
        c['thresh'] = None
        todo.append(dict(c, note='positive data'))
    bad, nt, ncorr = ik.corr_cases(run, todo)
    for m in bad[:5]:
        run.add_break('correspondence-break', 'KernelModel.fit differs from Kernel.Fit.fit_px on positive masked data', m)
    # (b) end to end: dataset mask of the corrected image versus dataset mask of the source
    dist = {}
    for k in range(run.scale(40, 900)):
        g = synth.random_geom(rng, max_src=run.scale(36, 56), tie_prone=(k % 2 == 0))
        model = ik.MODELS[k % 3]
        kshape = rng.choice([(1, 1), (3, 3), (1, 3), (5, 3), (3, 5), (5, 5)])
        if model == 'gain-offset' and kshape == (1, 1):
            kshape = (3, 1)
        proc = rng.choice(['auto', 'auto', 'auto', 'ref', 'src'])
        sm = fz.src_mask(rng, g.src_shape, rng.choice(['none', 'holes', 'border', 'islands', 'corner', 'sparse-block']))
        # positive textured data with a fine-grained pattern so that no window is degenerate (see C17)
        yy, xx = np.mgrid[0:g.src_shape[0], 0:g.src_shape[1]]
        src = (40 + 1.75 * yy + 3.0 * xx + 0.25 * (fz.texture(rng, g.src_shape, 1)[0] % 2)).astype('float32')[None]
        # how the source stores invalidity: NaN, a finite nodata value (the corrected values under it would be finite), internal mask, uint16 / 0
        senc = [dict(encoding='nan'), dict(encoding='nodata', nodata=-9999.0), dict(encoding='nodata', nodata=0.0), dict(encoding='mask', hidden=77.0),
                dict(encoding='nodata', nodata=0, dtype='uint16'), dict(encoding='nodata', nodata=1000.0)][k % 6]
        pair = fz.make_pair(run.work, g, rng, src=src, smask=sm, tag='v', src_kw=senc)
        ups = rng.choice(['cubic_spline', 'bilinear', 'nearest'])
        dt, nodata = rng.choice([('float32', NAN), ('float32', -9999.0), ('float32', None), ('uint16', 0), ('uint16', None), ('float64', NAN)])
        try:
            mbm, nblk = fz.pick_block_mem(pair['src_fn'], pair['ref_fn'], proc, rng.choice([1, 4, 9, 16, 30]), kshape)
            res = fz.fuse(pair['src_fn'], pair['ref_fn'], run.work / 'v_out.tif', model=model, kernel_shape=kshape, proc_crs=proc, max_block_mem=mbm,
                          threads=rng.choice([1, 2]), param=False, model_config=dict(r2_inpaint_thresh=rng.choice([None, 0.25]), upsampling=ups),
                          out_profile=dict(dtype=dt, nodata=nodata))
        except Exception as ex:
            if type(ex).__name__ in ('BlockSizeError',):
                dist['skipped:' + type(ex).__name__] = dist.get('skipped:' + type(ex).__name__, 0) + 1
                continue
            raise
        desc = dict(geom=g.describe(), source_encoding=senc, model=model, kernel_shape=list(kshape), requested_proc_crs=proc, processing_grid=res['proc_crs'], max_block_mem=mbm,
                    blocks=nblk, upsampling=ups, out_dtype=dt, out_nodata=None if nodata is None else (float(nodata) if not (isinstance(nodata, float) and math.isnan(nodata)) else 'nan'))
        key = f'{res["proc_crs"]}/{ups}/{dt}/nodata={desc["out_nodata"]}/blocks={"1" if nblk == 1 else ">1"}'
        dist[key] = dist.get(key, 0) + 1
        run.count_case((k,), (not sm.all()) or nblk > 1, desc if len(run.cov['samples']) < 3 else None)
        got = res['corr']['mask']
        invented = got & ~sm
        lost = sm & ~got
        if invented.any():
            r, c = [int(v) for v in np.argwhere(invented)[0]]
            run.add_violation('a corrected pixel is valid although the source pixel is not', desc, observed=dict(pixel=[r, c], n=int(invented.sum())),
                              signature=dict(kind='mask-invented'))
        # the converse is claimed for non-negative resampling kernels (nearest, bilinear, and the defaults); lost pixels on other settings are not judged
        # a valid pixel may become invalid by coinciding with a numeric nodata value (C13): not a loss
        if nodata is not None and not (isinstance(nodata, float) and math.isnan(nodata)):
            lost &= ~(res['corr']['array'][0] == nodata)
        # gain-offset cannot be fitted on a window with fewer than two jointly valid pixels or a constant source (OLS denominator 0): classified
        degenerate = False
        if lost.any() and model == 'gain-offset':
            r, c = [int(v) for v in np.argwhere(lost)[0]]
            try:
                if res['proc_crs'] == 'ref':
                    x, rw = e2e.source_on_proc_grid(pair['src_fn'], pair['ref_fn'])
                    import rasterio as rio
                    with rio.open(pair['src_fn']) as s_ds, rio.open(pair['ref_fn']) as r_ds:
                        px, py = s_ds.xy(r, c)
                        pr, pc = r_ds.index(px, py)
                    i, j = pr - int(rw.row_off), pc - int(rw.col_off)
                    vals = [float(x[0, u, v]) for u in range(i - kshape[0] // 2, i + kshape[0] // 2 + 1) for v in range(j - kshape[1] // 2, j + kshape[1] // 2 + 1)
                            if 0 <= u < x.shape[1] and 0 <= v < x.shape[2] and not np.isnan(x[0, u, v])]
                else:
                    vals = [float(src[0, u, v]) for u in range(r - kshape[0] // 2, r + kshape[0] // 2 + 1) for v in range(c - kshape[1] // 2, c + kshape[1] // 2 + 1)
                            if 0 <= u < sm.shape[0] and 0 <= v < sm.shape[1] and sm[u, v]]
                # (one isolated source pixel spread over 2 x 2 processing pixels by the average re-projection gives values equal up to the rounding
                # of the weights: a constant source all the same)
                degenerate = len(vals) < 2 or (max(vals) - min(vals)) <= 1e-5 * max(1.0, abs(sum(vals) / len(vals)))
            except Exception as ex_:
                import sys as _sys
                print('classifier error:', type(ex_).__name__, ex_, file=_sys.stderr)
                degenerate = False
        # gain-blk-offset normalises each block by std(ref) / std(src) over its jointly valid pixels: a block with fewer than two of them
        # (or a single source value) has no normalisation (0 / 0): classified (finding D16)
        blk_degenerate = False
        if lost.any() and model == 'gain-blk-offset':
            try:
                from homonim.raster_pair import RasterPairReader
                from homonim.enums import ProcCrs
                from homonim import utils as hutils
                blk_degenerate = True
                with RasterPairReader(pair['src_fn'], pair['ref_fn'], proc_crs=ProcCrs(res['proc_crs'])) as rd:
                    bps = list(rd.block_pairs(overlap=hutils.overlap_for_kernel(kshape), max_block_mem=mbm))
                    for (r, c) in np.argwhere(lost):
                        bp = next(b for b in bps if b.src_out_block.row_off <= r < b.src_out_block.row_off + b.src_out_block.height
                                  and b.src_out_block.col_off <= c < b.src_out_block.col_off + b.src_out_block.width)
                        src_ra, ref_ra = rd.read(bp)
                        from rasterio.enums import Resampling

                        def kernel_for(from_res, to_res):      # the rule of KernelModel._get_resampling
                            return Resampling['average' if np.prod(np.abs(from_res)) <= np.prod(np.abs(to_res)) else ups]
                        if res['proc_crs'] == 'ref':
                            src_ra = src_ra.reproject(**ref_ra.proj_profile, resampling=kernel_for(src_ra.res, ref_ra.res))
                        else:
                            ref_ra = ref_ra.reproject(**src_ra.proj_profile, resampling=kernel_for(ref_ra.res, src_ra.res))
                        jm = src_ra.mask & ref_ra.mask
                        if len(set(np.asarray(src_ra.array)[jm].tolist())) >= 2:
                            blk_degenerate = False
                            break
            except Exception:
                blk_degenerate = False
        if lost.any():
            r, c = [int(v) for v in np.argwhere(lost)[0]]
            col_all = bool(lost[:, c].all())
            row_all = bool(lost[r, :].all())
            run.add_violation('a valid source pixel is invalid in the corrected image', desc,
                              observed=dict(pixel=[r, c], n=int(lost.sum()), whole_column=col_all, whole_row=row_all, value=float(res['corr']['array'][0, r, c])),
                              signature=dict(kind='mask-lost', whole_line=col_all or row_all,
                                             cause='gain-offset-degenerate-window' if degenerate else ('blk-offset-degenerate-block' if blk_degenerate else 'other')))
    run.cov['evaluations'] += ncorr
    # ---- large blocks (more than 256 x 256 processing pixels each) whose only valid pixels are a few tiny patches next to a large valid area in the
    #      neighbouring block: nothing about a block may be estimated from a sample of its pixels that can miss them
    for k in range(run.scale(1, 4)):
        ratio = 2
        ph, pw = 300 + 10 * rng.randint(0, 3), 620 + 10 * rng.randint(0, 4)
        g = synth.Geom(1.0, ratio, 16.0, 48.0, (ph + 8, pw + 8), (4, 4), (ph * ratio, pw * ratio))
        sm = np.zeros(g.src_shape, bool)
        sm[:, :g.src_shape[1] // 2 - 40] = True                       # the left block: a large valid area
        for _ in range(7):                                            # the right block: 2 x 2 (source px) patches at odd processing positions
            r0 = 2 * (2 * rng.randint(5, ph // 2 - 5) + 1)
            c0 = g.src_shape[1] // 2 + 2 * (2 * rng.randint(10, pw // 4 - 10) + 1)
            sm[r0:r0 + 2, c0:c0 + 2] = True
        yy, xx = np.mgrid[0:g.src_shape[0], 0:g.src_shape[1]]
        src = (40 + 0.01 * yy + 0.02 * xx + (yy % 7) + (xx % 5)).astype('float32')[None]
        ref = np.full((1, *g.ref_shape), 0, 'float32') + (60 + 0.02 * np.add.outer(np.arange(g.ref_shape[0]), 2 * np.arange(g.ref_shape[1])) +
                                                           (np.add.outer(np.arange(g.ref_shape[0]) % 5, np.arange(g.ref_shape[1]) % 3))).astype('float32')[None]
        pair = fz.make_pair(run.work, g, rng, src=src, ref=ref, smask=sm, tag='big')
        model = ['gain-blk-offset', 'gain', 'gain-offset', 'gain-blk-offset'][k % 4]
        mbm, nblk = fz.pick_block_mem(pair['src_fn'], pair['ref_fn'], 'auto', 2, (3, 3))
        res = fz.fuse(pair['src_fn'], pair['ref_fn'], run.work / 'big_out.tif', model=model, kernel_shape=(3, 3), proc_crs='auto', max_block_mem=mbm, threads=2,
                      param=False, model_config=dict(r2_inpaint_thresh=0.25, upsampling='bilinear'))
        desc = dict(geom=g.describe(), model=model, kernel_shape=[3, 3], blocks=nblk, max_block_mem=mbm, source_mask='large valid area + 7 isolated 2 x 2 patches',
                    processing_block_pixels=int(ph * pw / max(nblk, 1)))
        dist['large-blocks/' + model] = dist.get('large-blocks/' + model, 0) + 1
        run.count_case(('big', k), True, desc if k < 1 else None)
        got = res['corr']['mask']
        if (got & ~sm).any():
            run.add_violation('a corrected pixel is valid although the source pixel is not', desc, observed=dict(n=int((got & ~sm).sum())), signature=dict(kind='mask-invented'))
        lost = sm & ~got
        if lost.any():
            r, c = [int(v) for v in np.argwhere(lost)[0]]
            cause = 'other'
            if model == 'gain-offset':
                # known finding D13: a processing pixel whose 3 x 3 window holds no second jointly valid pixel has no least-squares solution, and an
                # isolated patch has nothing within reach to be in-painted from.  Only when EVERY lost pixel is of that kind.
                pm = sm.reshape(ph, ratio, pw, ratio).any(axis=(1, 3))
                pad = np.pad(pm, 1)
                cnt = sum(pad[i:i + ph, j:j + pw].astype(int) for i in range(3) for j in range(3))
                if all(cnt[rr // ratio, cc // ratio] < 2 for rr, cc in np.argwhere(lost)):
                    cause = 'gain-offset-degenerate-window'
            run.add_violation('a valid source pixel is invalid in the corrected image although the reference is valid there and the data are positive', desc,
                              observed=dict(pixel=[r, c], n=int(lost.sum())), signature=dict(kind='mask-lost', model=model, cause=cause))
    # ---- bands with different footprints, several blocks: the validity of EACH corrected band is the validity of that source band
    for k in range(run.scale(2, 8)):
        model = ['gain', 'gain-blk-offset'][k % 2]
        bc = e2e.band_footprints_case(run.work, rng, model=model, tag='bf', threads=[2, 1][k % 2])
        C = bc['res']['corr']['array']
        dist['band-footprints/' + model] = dist.get('band-footprints/' + model, 0) + 1
        run.count_case(('bf', k), True, bc['desc'] if k < 1 else None)
        for b in range(2):
            got = np.isfinite(C[b])
            if (got & ~bc['valid'][b]).any():
                run.add_violation('a corrected pixel is valid although the source pixel is not', dict(bc['desc'], band=b + 1),
                                  observed=dict(n=int((got & ~bc['valid'][b]).sum())), signature=dict(kind='mask-invented'))
                break
            lost = bc['valid'][b] & ~got
            if lost.any():
                r, c = [int(v) for v in np.argwhere(lost)[0]]
                run.add_violation('a valid source pixel is invalid in the corrected image although the reference is valid there and the data are positive', dict(bc['desc'], band=b + 1),
                                  observed=dict(pixel=[r, c], n=int(lost.sum())), signature=dict(kind='mask-lost', model=model, cause='other'))
                break
    # ---- a tiny island of valid pixels alone in its block (2, 3, 4 ... pixels of different values): kept, like every other valid pixel
    for k in range(run.scale(4, 12)):
        n_isl = [3, 2, 4, 6, 9, 5][k % 6]
        model = ['gain-blk-offset', 'gain'][k % 4 == 3]
        ic_ = e2e.island_case(run.work, rng, n_isl, model=model, tag='isl', threads=[1, 2][k % 2])
        got = np.isfinite(ic_['res']['corr']['array'][0])
        dist['island/' + model] = dist.get('island/' + model, 0) + 1
        run.count_case(('isl', k), True, ic_['desc'] if k < 1 else None)
        if ic_['nblk'] < 4:
            continue
        if (got & ~ic_['smask']).any():
            run.add_violation('a corrected pixel is valid although the source pixel is not', ic_['desc'], observed=dict(n=int((got & ~ic_['smask']).sum())), signature=dict(kind='mask-invented'))
        lost = ic_['smask'] & ~got
        if lost.any():
            r, c = [int(v) for v in np.argwhere(lost)[0]]
            run.add_violation('a valid source pixel is invalid in the corrected image although the reference is valid there and the data are positive', ic_['desc'],
                              observed=dict(pixel=[r, c], n=int(lost.sum()), island_pixels_lost=int((lost & ic_['island']).sum())), signature=dict(kind='mask-lost', model=model, cause='other'))
    run.cov['rule'] = ('real fusions of positive textured data with the reference valid over the footprint: geometries (ratios, sub-pixel offsets with the x.5 / x.25 '
                       'family over-sampled, origins up to 7.6e6), source masks (holes, 1-px islands, borders, a nearly empty block), 3 models, kernels incl. h != w, '
                       '3 grids, source invalidity stored as NaN / finite nodata (-9999, 0, 1000) / internal mask / uint16 0, 1..30 blocks, nearest / bilinear / cubic-spline up-sampling, output nodata NaN / numeric / internal mask on float32 / uint16 / float64: '
                       'the dataset mask of the corrected image must equal the dataset mask of the source exactly; non-trivial = masked source or several blocks')
    run.extra['input_distribution'] = dict(runs=dist, kernel_corr_cases=ncorr, kernel_corr_nontrivial=nt)
    run.assumptions += ['H_down_valid / H_up_local2: a processing pixel is valid after down-sampling iff some valid source pixel overlaps it; up-sampling at a valid '
                        'source pixel finds a valid parameter with positive weight (GDAL; exercised, not proved)']
    run.trusted += ['GDAL resampling validity rules (hypotheses above); dataset mask I/O']
    run.finish()


if __name__ == '__main__':
    Run('C03').guard(body)
